// bfecheck decides properties of baidu/bfe by static analysis of /repo.
package main

import (
	"bufio"
	"encoding/json"
	"flag"
	"fmt"
	"os"
	"runtime/debug"
	"sort"
	"strconv"
	"strings"
	"sync"
	"time"

	"verif/internal/core"
	"verif/internal/rules"
)

func main() {
	prop := flag.String("prop", "", "property id (C01…)")
	tier := flag.String("tier", "", "quick|thorough (default: $VERIF_TIER or quick)")
	list := flag.Bool("list", false, "list registered properties")
	repo := flag.String("repo", "/repo", "tree to analyse")
	verif := flag.String("verif", "/verif", "verif directory (evidence, known findings)")
	replay := flag.String("replay", "", "replay file (re-runs the property; the file is informational)")
	dump := flag.Bool("dump", false, "print every obligation")
	warm := flag.Bool("warm", false, "load the module once to warm the build cache")
	manifest := flag.Bool("manifest", false, "print MANIFEST.json generated from the registry")
	flag.Parse()
	_ = replay
	core.RepoDir = *repo
	core.VerifDir = *verif
	if *manifest {
		writeManifest()
		return
	}
	if *list {
		for _, id := range rules.IDs() {
			fmt.Println(id, len(rules.Get(id).Mutants), "mutants")
		}
		return
	}
	if *warm {
		if _, err := core.Load(nil); err != nil {
			fmt.Println("INFRA-FAILURE:", err)
			os.Exit(2)
		}
		fmt.Println("warm: module loaded")
		return
	}
	if *tier == "" {
		*tier = os.Getenv("VERIF_TIER")
	}
	if *tier != "thorough" {
		*tier = "quick"
	}
	seed, _ := strconv.Atoi(os.Getenv("VERIF_SEED"))
	r := rules.Get(*prop)
	if r == nil {
		fmt.Println("INFRA-FAILURE: unknown property", *prop)
		os.Exit(2)
	}
	os.Exit(run(r, *tier, seed, *dump))
}

func run(r *rules.Rule, tier string, seed int, dump bool) (code int) {
	start := time.Now()
	defer func() {
		if e := recover(); e != nil {
			fmt.Printf("INFRA-FAILURE: analyser panic: %v\n%s\n", e, debug.Stack())
			code = 2
		}
	}()
	p, err := core.Load(nil)
	if err != nil {
		fmt.Println("INFRA-FAILURE:", err)
		return 2
	}
	c := core.NewCtx(p, r.ID, tier)
	r.Run(c)
	if dump {
		for _, o := range c.Obs {
			fmt.Printf("  [%v] %s @%s %s\n", o.OK, o.ID(), o.Where, o.Detail)
		}
	}
	var st map[string]interface{}
	selfFail := false
	if tier == "thorough" && len(r.Mutants) > 0 {
		st, selfFail = selftest(r, c)
	}
	code = c.Finish(r.Meta, start, seed, st)
	if code == 0 && selfFail {
		// The verdict on the tree stands (every obligation was discharged). A self-test mismatch says
		// something about the checker's sensitivity, not about the tree: it is reported and recorded in the
		// evidence (selftest), and only turns into a failing exit code on request (development mode).
		fmt.Println("SELFTEST-WARNING: one or more overlay mutants did not get their expected verdict (see SELFTEST lines); the verdict on the analysed tree is unaffected")
		if os.Getenv("BFECHECK_STRICT_SELFTEST") == "1" {
			fmt.Println("INFRA-FAILURE: checker self-test failed (strict mode)")
			return 2
		}
	}
	return code
}

// selftest applies each mutant as an overlay and re-runs the rules.
func selftest(r *rules.Rule, base *core.Ctx) (map[string]interface{}, bool) {
	baseFail := map[string]bool{}
	for _, o := range base.Obs {
		if !o.OK {
			baseFail[o.ID()] = true
		}
	}
	type res struct {
		name, status, detail string
	}
	results := make([]res, len(r.Mutants))
	var wg sync.WaitGroup
	sem := make(chan struct{}, 12)
	for i, m := range r.Mutants {
		wg.Add(1)
		go func(i int, m rules.Mutant) {
			defer wg.Done()
			sem <- struct{}{}
			defer func() { <-sem }()
			defer func() {
				if e := recover(); e != nil {
					results[i] = res{m.Name, "panic", fmt.Sprint(e)}
				}
			}()
			file := core.FileOf(m.File)
			src, err := os.ReadFile(file)
			if err != nil || strings.Count(string(src), m.Old) != 1 {
				results[i] = res{m.Name, "stale", "anchor text not found exactly once"}
				return
			}
			ov := map[string][]byte{file: []byte(strings.Replace(string(src), m.Old, m.New, 1))}
			p, err := core.Load(ov)
			if err != nil {
				results[i] = res{m.Name, "nocompile", err.Error()}
				return
			}
			c := core.NewCtx(p, r.ID, "quick")
			r.Run(c)
			c.Evaluate()
			var newFail []string
			for _, o := range c.Obs {
				if !o.OK && !baseFail[o.ID()] {
					newFail = append(newFail, o.ID())
				}
			}
			sort.Strings(newFail)
			if m.Silent {
				if len(newFail) == 0 {
					results[i] = res{m.Name, "silent-ok", ""}
				} else {
					results[i] = res{m.Name, "false-alarm", strings.Join(newFail, "; ")}
				}
				return
			}
			for _, id := range newFail {
				if strings.Contains(id, m.Expect) {
					results[i] = res{m.Name, "killed", id}
					return
				}
			}
			if baseFail != nil {
				for id := range baseFail {
					if strings.Contains(id, m.Expect) {
						results[i] = res{m.Name, "masked", "instance already failing on the base tree: " + id}
						return
					}
				}
			}
			results[i] = res{m.Name, "survived", "expected a violation containing " + m.Expect + "; got: " + strings.Join(newFail, "; ")}
		}(i, m)
	}
	wg.Wait()
	counts := map[string]int{}
	var lines []string
	fail := false
	for _, x := range results {
		counts[x.status]++
		lines = append(lines, x.name+": "+x.status+" "+x.detail)
		switch x.status {
		case "stale":
			fmt.Printf("SELFTEST-STALE %s: %s\n", x.name, x.detail)
		case "survived", "false-alarm", "panic", "nocompile":
			fail = true
			fmt.Printf("SELFTEST-FAIL %s: %s %s\n", x.name, x.status, x.detail)
		}
	}
	fmt.Printf("selftest: %d mutants %v\n", len(results), counts)
	return map[string]interface{}{"mutants": len(results), "by_status": counts, "results": lines}, fail
}

func writeManifest() {
	type level struct {
		Category  string `json:"category"`
		Text      string `json:"text"`
		DesignRef string `json:"design_ref"`
	}
	type check struct {
		PropertyID string `json:"property_id"`
		Quick      string `json:"quick_cmd"`
		Thorough   string `json:"thorough_cmd"`
		Evidence   string `json:"evidence_file"`
		Replay     string `json:"replay_cmd_template"`
		Engine     string `json:"engine"`
		Level      level  `json:"level_claimed"`
		Note       string `json:"level_note"`
		Technique  string `json:"technique"`
	}
	type na struct {
		PropertyID string `json:"property_id"`
		Reason     string `json:"reason"`
	}
	var checks []check
	var served []string
	for _, id := range rules.IDs() {
		r := rules.Get(id)
		served = append(served, id)
		tech := r.Technique
		if tech == "" {
			tech = "static analysis over go/ssa of the type-checked program"
		}
		checks = append(checks, check{
			PropertyID: id,
			Quick:      "bin/bfecheck -prop " + id + " -tier quick",
			Thorough:   "bin/bfecheck -prop " + id + " -tier thorough",
			Evidence:   "/verif/evidence/" + id + ".json",
			Replay:     "bin/bfecheck -prop " + id + " -tier quick -replay {path}",
			Engine:     "bfecheck",
			Level:      level{r.Meta.Level, r.Meta.Explanation, "DESIGN.md " + r.Section},
			Note:       "Static rule over the resolved program of /repo (go/packages + go/types + go/ssa, x/tools v0.29.0); decides the named structural clause on every path of the inspected functions, not the run-time behaviour. Trusted: the Go type checker, SSA construction, the rule tables in /verif/internal/rules. " + strings.Join(r.Meta.Assumptions, "; "),
			Technique:  tech,
		})
	}
	var nas []na
	f, err := os.Open(core.VerifDir + "/properties.jsonl")
	if err != nil {
		panic(err)
	}
	sc := bufio.NewScanner(f)
	sc.Buffer(make([]byte, 1<<20), 1<<24)
	for sc.Scan() {
		var p struct {
			ID string `json:"id"`
		}
		if json.Unmarshal(sc.Bytes(), &p) != nil || p.ID == "" {
			continue
		}
		if rules.Get(p.ID) != nil {
			continue
		}
		reason, ok := rules.NotApplicable[p.ID]
		if !ok {
			reason = "no static check is claimed for this property yet (see DESIGN.md); nothing is asserted about it"
		}
		nas = append(nas, na{p.ID, reason})
	}
	m := map[string]interface{}{
		"version":   1,
		"setup_cmd": "cd /verif && GOFLAGS=-mod=mod GOPROXY=off GOSUMDB=off GOTOOLCHAIN=local GOWORK=off go build -o bin/bfecheck ./cmd/bfecheck && go build -o bin/goyacc golang.org/x/tools/cmd/goyacc && bin/bfecheck -warm",
		"hooks": map[string]interface{}{
			"guard":            "verif",
			"enable":           "no hooks: the checks are static and read /repo's working tree; nothing is compiled into BFE",
			"baseline_off_cmd": "cd /repo && GOFLAGS=-mod=mod go test -vet=off -count=1 -timeout 25m ./...",
			"source_commits":   []string{},
			"add_only":         true,
		},
		"engines": []map[string]interface{}{{
			"name": "bfecheck", "path": "cmd/bfecheck", "serves_properties": served,
			"kind_free_text": "repository-specific static analyser: go/packages + go/types + go/ssa over the whole module, per-property rule tables (guards/control dependence, path enumeration, who-may-write census, table agreement, lock sets, taint); overlay-mutant self tests in the thorough tier",
		}},
		"checks":         checks,
		"not_applicable": nas,
		"notes":          "All checks are static (technique family: static analysis). Exit 0 = every obligation discharged or listed in known_findings.json; exit 1 + VIOLATION line otherwise; exit 2 = infrastructure failure.",
	}
	b, _ := json.MarshalIndent(m, "", " ")
	fmt.Println(string(b))
}
