package core

import "golang.org/x/tools/go/ssa"

// Typestate runs a forward may-analysis over fn's CFG. A state is a bit set of
// abstract states the tracked resource may be in. step is the transfer
// function of one instruction (report is true only in the final pass, after
// the fixpoint, so that rules record obligations exactly once per
// instruction); refine narrows the set along a branch edge.
func Typestate(fn *ssa.Function, init uint32,
	step func(in ssa.Instruction, s uint32, report bool) uint32,
	refine func(cond ssa.Value, pol bool, s uint32) uint32) map[*ssa.BasicBlock]uint32 {

	in := map[*ssa.BasicBlock]uint32{}
	if len(fn.Blocks) == 0 {
		return in
	}
	in[fn.Blocks[0]] = init
	flow := func(b *ssa.BasicBlock, report bool) []uint32 {
		s := in[b]
		for _, ins := range b.Instrs {
			s = step(ins, s, report)
		}
		outs := make([]uint32, len(b.Succs))
		for i := range b.Succs {
			outs[i] = s
		}
		if ifi, ok := b.Instrs[len(b.Instrs)-1].(*ssa.If); ok && refine != nil && len(b.Succs) == 2 && b.Succs[0] != b.Succs[1] {
			outs[0] = refine(ifi.Cond, true, s)
			outs[1] = refine(ifi.Cond, false, s)
		}
		return outs
	}
	work := []*ssa.BasicBlock{fn.Blocks[0]}
	for len(work) > 0 {
		b := work[0]
		work = work[1:]
		outs := flow(b, false)
		for i, s := range b.Succs {
			if outs[i] == 0 {
				continue
			}
			if n := in[s] | outs[i]; n != in[s] {
				in[s] = n
				work = append(work, s)
			}
		}
	}
	for _, b := range fn.Blocks {
		if in[b] != 0 || b == fn.Blocks[0] {
			flow(b, true)
		}
	}
	return in
}
