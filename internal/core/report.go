package core

import (
	"encoding/json"
	"fmt"
	"go/token"
	"os"
	"path/filepath"
	"sort"
	"strings"
	"time"
)

// VerifDir is where evidence and the known-findings file live.
var VerifDir = "/verif"

// Ob is one rule instance (obligation).
type Ob struct {
	Rule   string `json:"rule"`
	Key    string `json:"key"` // names the construct (function + instance), never a line number
	Where  string `json:"where"`
	OK     bool   `json:"ok"`
	Detail string `json:"detail,omitempty"`
}

// ID is the identity used by the known-findings file.
func (o Ob) ID() string { return o.Rule + "|" + o.Key }

// Ctx collects the obligations of one property run.
type Ctx struct {
	P     *Prog
	Prop  string
	Tier  string
	Obs   []Ob
	Notes []string
	Funcs map[string]bool // functions analysed
	mins  map[string]int
	quiet bool
}

// NewCtx creates a context.
func NewCtx(p *Prog, prop, tier string) *Ctx {
	return &Ctx{P: p, Prop: prop, Tier: tier, Funcs: map[string]bool{}, mins: map[string]int{}}
}

// Check records an obligation.
func (c *Ctx) Check(rule, key string, pos token.Pos, ok bool, detail string) bool {
	where := "-"
	if c.P != nil {
		where = c.P.Pos(pos)
	}
	c.Obs = append(c.Obs, Ob{rule, key, where, ok, detail})
	return ok
}

// CheckAt records an obligation whose location is a plain string (non-Go files).
func (c *Ctx) CheckAt(rule, key, where string, ok bool, detail string) bool {
	c.Obs = append(c.Obs, Ob{rule, key, where, ok, detail})
	return ok
}

// Missing records an unresolved anchor: the mechanism the rule is anchored
// in cannot be found, so the property cannot be certified.
func (c *Ctx) Missing(what string) {
	c.Obs = append(c.Obs, Ob{"anchor", what, "-", false, "anchor unresolved: " + what + " not found in the resolved program; the mechanism this rule relies on was removed or renamed, the property cannot be certified"})
}

// Note records a non-verdict remark.
func (c *Ctx) Note(format string, a ...interface{}) {
	c.Notes = append(c.Notes, fmt.Sprintf(format, a...))
}

// Analysed marks a function as covered.
func (c *Ctx) Analysed(names ...string) {
	for _, n := range names {
		c.Funcs[n] = true
	}
}

// Min demands at least n obligations of the given rule (anti-vacuity).
func (c *Ctx) Min(rule string, n int) { c.mins[rule] = n }

// Finding is one entry of known_findings.json.
type Finding struct {
	Property string `json:"property"`
	ID       string `json:"id"`     // rule|key
	Status   string `json:"status"` // "known" or "fixed"
	Commit   string `json:"commit,omitempty"`
	What     string `json:"what"`
}

// LoadFindings reads known_findings.json.
func LoadFindings() ([]Finding, error) {
	b, err := os.ReadFile(filepath.Join(VerifDir, "known_findings.json"))
	if err != nil {
		if os.IsNotExist(err) {
			return nil, nil
		}
		return nil, err
	}
	var fs []Finding
	if err := json.Unmarshal(b, &fs); err != nil {
		return nil, err
	}
	return fs, nil
}

// Result summarises a finished run.
type Result struct {
	Violations []Ob // not ok and not known
	Known      []Ob
	Obs        int
	Discharged int
}

// Evaluate applies the anti-vacuity minimums and splits failed obligations
// into known findings and violations.
func (c *Ctx) Evaluate() (*Result, error) {
	counts := map[string]int{}
	for _, o := range c.Obs {
		counts[o.Rule]++
	}
	var rules []string
	for r := range c.mins {
		rules = append(rules, r)
	}
	sort.Strings(rules)
	for _, r := range rules {
		if counts[r] < c.mins[r] {
			c.Obs = append(c.Obs, Ob{"instances", r, "-", false,
				fmt.Sprintf("rule %s matched %d instances, at least %d were confirmed by hand on the reference tree; the construct the rule inspects has disappeared", r, counts[r], c.mins[r])})
		}
	}
	fs, err := LoadFindings()
	if err != nil {
		return nil, &InfraError{"known_findings.json: " + err.Error()}
	}
	known := map[string]bool{}
	for _, f := range fs {
		if f.Property == c.Prop && f.Status == "known" {
			known[f.ID] = true
		}
	}
	res := &Result{Obs: len(c.Obs)}
	for _, o := range c.Obs {
		switch {
		case o.OK:
			res.Discharged++
		case known[o.ID()]:
			res.Known = append(res.Known, o)
		default:
			res.Violations = append(res.Violations, o)
		}
	}
	return res, nil
}

// Evidence is the evidence file layout (EVIDENCE.schema.json).
type Evidence struct {
	PropertyID  string                 `json:"property_id"`
	Tier        string                 `json:"tier"`
	Seed        int                    `json:"seed"`
	Level       string                 `json:"level"`
	Coverage    map[string]interface{} `json:"coverage"`
	Assumptions []string               `json:"assumptions"`
	WallS       float64                `json:"wall_s"`
	Violations  int                    `json:"violations"`
}

// Meta is the static description of a property check.
type Meta struct {
	Level       string
	Explanation string // what is decided / not covered
	RuleText    string // how obligations are enumerated
	Assumptions []string
	Extra       map[string]interface{}
}

// Finish prints the verdict lines, writes evidence and replay files and
// returns the process exit code.
func (c *Ctx) Finish(meta Meta, start time.Time, seed int, selftest map[string]interface{}) int {
	res, err := c.Evaluate()
	if err != nil {
		fmt.Println("INFRA-FAILURE:", err)
		return 2
	}
	sort.SliceStable(c.Obs, func(i, j int) bool { return c.Obs[i].ID() < c.Obs[j].ID() })
	distinct := map[string]bool{}
	rules := map[string]int{}
	for _, o := range c.Obs {
		distinct[o.ID()] = true
		rules[o.Rule]++
	}
	var samples []interface{}
	for i, o := range c.Obs {
		if i%max(1, len(c.Obs)/12) == 0 && len(samples) < 14 {
			samples = append(samples, o)
		}
	}
	for _, o := range append(append([]Ob{}, res.Violations...), res.Known...) {
		samples = append(samples, o)
	}
	var fns []string
	for f := range c.Funcs {
		fns = append(fns, f)
	}
	sort.Strings(fns)
	cov := map[string]interface{}{
		"obligations":         res.Obs,
		"discharged":          res.Discharged,
		"evaluations":         max(res.Obs, 1),
		"distinct_nontrivial": len(distinct),
		"rule":                meta.RuleText,
		"samples":             samples,
		"explanation":         meta.Explanation,
		"rules_instances":     rules,
		"functions_analysed":  fns,
		"packages_loaded":     len(c.P.Pkgs),
		"known_findings_hit":  len(res.Known),
		"notes":               c.Notes,
		"checker_cmd":         fmt.Sprintf("bin/bfecheck -prop %s -tier %s", c.Prop, c.Tier),
		"trusted_base":        []string{"go/types", "go/packages", "golang.org/x/tools/go/ssa v0.29.0", "x/tools callgraph (cha, vta) where used", "the rule tables in /verif/internal/rules"},
		"exhaustive":          false,
	}
	for k, v := range meta.Extra {
		cov[k] = v
	}
	if selftest != nil {
		cov["selftest"] = selftest
	}
	ev := Evidence{
		PropertyID: c.Prop, Tier: c.Tier, Seed: seed, Level: meta.Level, Coverage: cov,
		Assumptions: meta.Assumptions, WallS: time.Since(start).Seconds(), Violations: len(res.Violations),
	}
	if ev.Assumptions == nil {
		ev.Assumptions = []string{}
	}
	os.MkdirAll(filepath.Join(VerifDir, "evidence"), 0o755)
	evFile := filepath.Join(VerifDir, "evidence", c.Prop+".json")
	b, _ := json.MarshalIndent(ev, "", " ")
	if err := os.WriteFile(evFile, append(b, '\n'), 0o644); err != nil {
		fmt.Println("INFRA-FAILURE: cannot write evidence:", err)
		return 2
	}
	fmt.Printf("property=%s tier=%s obligations=%d discharged=%d known=%d violations=%d functions=%d wall=%.1fs\n",
		c.Prop, c.Tier, res.Obs, res.Discharged, len(res.Known), len(res.Violations), len(fns), ev.WallS)
	for _, n := range c.Notes {
		fmt.Println("NOTE:", n)
	}
	for _, o := range res.Known {
		fmt.Printf("KNOWN-FINDING: property=%s %s at %s: %s\n", c.Prop, o.ID(), o.Where, oneLine(o.Detail))
	}
	if len(res.Violations) == 0 {
		os.Remove(filepath.Join(VerifDir, "evidence", c.Prop+".violation.json"))
		return 0
	}
	replay := filepath.Join(VerifDir, "evidence", c.Prop+".violation.json")
	rb, _ := json.MarshalIndent(map[string]interface{}{"property": c.Prop, "violations": res.Violations}, "", " ")
	os.WriteFile(replay, append(rb, '\n'), 0o644)
	for _, o := range res.Violations {
		fmt.Printf("FAILED %s at %s: %s\n", o.ID(), o.Where, oneLine(o.Detail))
	}
	fmt.Printf("VIOLATION property=%s replay=%s\n", c.Prop, replay)
	return 1
}

func oneLine(s string) string { return strings.Join(strings.Fields(s), " ") }
