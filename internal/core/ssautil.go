package core

import (
	"fmt"
	"go/token"
	"go/types"
	"sort"
	"strings"

	"golang.org/x/tools/go/ssa"
)

// FuncKey is a stable short name of a function: "bfe_server.ReverseProxy.clusterInvoke",
// "strings.ToLower", closures "bfe_server.f$1".
func FuncKey(fn *ssa.Function) string {
	if fn == nil {
		return "<nil>"
	}
	if fn.Parent() != nil {
		return FuncKey(fn.Parent()) + "$" + strings.TrimPrefix(fn.Name(), fn.Parent().Name()+"$")
	}
	pk := ""
	if fn.Pkg != nil {
		pk = fn.Pkg.Pkg.Path()
	} else if o := fn.Object(); o != nil && o.Pkg() != nil {
		pk = o.Pkg().Path()
	}
	pk = strings.TrimPrefix(strings.TrimPrefix(pk, ModPath), "/")
	if pk == "" {
		pk = "."
	}
	name := fn.Name()
	if recv := fn.Signature.Recv(); recv != nil {
		name = typeShort(recv.Type()) + "." + name
	}
	return pk + "." + name
}

// ObjKey is FuncKey for a types.Func (also interface methods).
func ObjKey(f *types.Func) string {
	pk := ""
	if f.Pkg() != nil {
		pk = strings.TrimPrefix(strings.TrimPrefix(f.Pkg().Path(), ModPath), "/")
	}
	if pk == "" {
		pk = "."
	}
	name := f.Name()
	if sig, ok := f.Type().(*types.Signature); ok && sig.Recv() != nil {
		name = typeShort(sig.Recv().Type()) + "." + name
	}
	return pk + "." + name
}

func typeShort(t types.Type) string {
	if p, ok := t.(*types.Pointer); ok {
		t = p.Elem()
	}
	if n, ok := t.(*types.Named); ok {
		return n.Obj().Name()
	}
	return t.String()
}

// TypeStr renders a type with module-relative package qualifiers.
func TypeStr(t types.Type) string {
	return types.TypeString(t, func(p *types.Package) string {
		s := strings.TrimPrefix(strings.TrimPrefix(p.Path(), ModPath), "/")
		if s == "" {
			return "."
		}
		return s
	})
}

// CalleeKey names the callee of a call: static callee key, "invoke:<iface method key>"
// for interface calls, "builtin:<name>", or "dynamic" for func values.
func CalleeKey(c *ssa.CallCommon) string {
	if c.IsInvoke() {
		return "invoke:" + ObjKey(c.Method)
	}
	if sc := c.StaticCallee(); sc != nil {
		return FuncKey(sc)
	}
	if b, ok := c.Value.(*ssa.Builtin); ok {
		return "builtin:" + b.Name()
	}
	return "dynamic"
}

// CallIs reports whether the call's callee key equals one of names; an
// "invoke:" prefix is ignored on both sides so that "pkg.T.M" also matches an
// interface method of that name.
func CallIs(c *ssa.CallCommon, names ...string) bool {
	k := strings.TrimPrefix(CalleeKey(c), "invoke:")
	for _, n := range names {
		if k == strings.TrimPrefix(n, "invoke:") {
			return true
		}
	}
	return false
}

// Render gives a canonical access-path / expression string for an SSA value.
// Loads are transparent (the path of an address and of the value loaded from
// it print the same), conversions of interface kind are transparent.
func Render(v ssa.Value) string { return render(v, 0, map[ssa.Value]bool{}) }

func render(v ssa.Value, d int, seen map[ssa.Value]bool) string {
	if v == nil {
		return "<nil>"
	}
	if d > 10 {
		return "…"
	}
	switch x := v.(type) {
	case *ssa.Parameter:
		return x.Name()
	case *ssa.FreeVar:
		return x.Name()
	case *ssa.Global:
		pk := ""
		if x.Pkg != nil {
			pk = x.Pkg.Pkg.Name() + "."
		}
		return pk + x.Name()
	case *ssa.Const:
		if x.Value == nil {
			return "nil"
		}
		return x.Value.ExactString()
	case *ssa.Function:
		return "func:" + FuncKey(x)
	case *ssa.Builtin:
		return "builtin:" + x.Name()
	case *ssa.FieldAddr:
		return render(x.X, d+1, seen) + "." + fieldName(x.X.Type(), x.Field)
	case *ssa.Field:
		return render(x.X, d+1, seen) + "." + fieldName(x.X.Type(), x.Field)
	case *ssa.Alloc:
		if p := SpilledParam(x); p != nil {
			return p.Name()
		}
		if x.Comment != "" {
			return x.Comment
		}
		return "alloc"
	case *ssa.UnOp:
		switch x.Op {
		case token.MUL:
			return render(x.X, d+1, seen)
		case token.NOT:
			return "!" + render(x.X, d+1, seen)
		case token.ARROW:
			return "<-" + render(x.X, d+1, seen)
		default:
			return x.Op.String() + render(x.X, d+1, seen)
		}
	case *ssa.BinOp:
		return "(" + render(x.X, d+1, seen) + " " + x.Op.String() + " " + render(x.Y, d+1, seen) + ")"
	case *ssa.Call:
		return renderCall(&x.Call, d, seen)
	case *ssa.IndexAddr:
		return render(x.X, d+1, seen) + "[" + render(x.Index, d+1, seen) + "]"
	case *ssa.Index:
		return render(x.X, d+1, seen) + "[" + render(x.Index, d+1, seen) + "]"
	case *ssa.Lookup:
		return render(x.X, d+1, seen) + "[" + render(x.Index, d+1, seen) + "]"
	case *ssa.Slice:
		s := render(x.X, d+1, seen) + "["
		if x.Low != nil {
			s += render(x.Low, d+1, seen)
		}
		s += ":"
		if x.High != nil {
			s += render(x.High, d+1, seen)
		}
		return s + "]"
	case *ssa.Phi:
		if seen[x] {
			return "phi↺"
		}
		seen[x] = true
		var parts []string
		for _, e := range x.Edges {
			parts = append(parts, render(e, d+2, seen))
		}
		delete(seen, x)
		sort.Strings(parts)
		parts = uniq(parts)
		if x.Comment != "" {
			return x.Comment + "=phi(" + strings.Join(parts, "|") + ")"
		}
		return "phi(" + strings.Join(parts, "|") + ")"
	case *ssa.Extract:
		return render(x.Tuple, d+1, seen) + "#" + fmt.Sprint(x.Index)
	case *ssa.TypeAssert:
		return render(x.X, d+1, seen) + ".(" + TypeStr(x.AssertedType) + ")"
	case *ssa.ChangeType:
		return render(x.X, d+1, seen)
	case *ssa.ChangeInterface:
		return render(x.X, d+1, seen)
	case *ssa.MakeInterface:
		return render(x.X, d+1, seen)
	case *ssa.Convert:
		return TypeStr(x.Type()) + "(" + render(x.X, d+1, seen) + ")"
	case *ssa.MakeClosure:
		return "closure:" + FuncKey(x.Fn.(*ssa.Function))
	case *ssa.MakeMap:
		return "makemap"
	case *ssa.MakeSlice:
		return "makeslice(" + render(x.Len, d+1, seen) + ")"
	case *ssa.MakeChan:
		return "makechan(" + render(x.Size, d+1, seen) + ")"
	case *ssa.Next:
		return "next(" + render(x.Iter, d+1, seen) + ")"
	case *ssa.Range:
		return "range(" + render(x.X, d+1, seen) + ")"
	case *ssa.Select:
		return "select"
	case *ssa.SliceToArrayPointer:
		return render(x.X, d+1, seen)
	}
	return fmt.Sprintf("%T", v)
}

func renderCall(c *ssa.CallCommon, d int, seen map[ssa.Value]bool) string {
	var args []string
	for _, a := range c.Args {
		args = append(args, render(a, d+1, seen))
	}
	if c.IsInvoke() {
		return render(c.Value, d+1, seen) + "." + c.Method.Name() + "(" + strings.Join(args, ", ") + ")"
	}
	k := CalleeKey(c)
	if k == "dynamic" {
		k = "call:" + render(c.Value, d+1, seen)
	}
	return k + "(" + strings.Join(args, ", ") + ")"
}

func uniq(s []string) []string {
	var out []string
	for i, x := range s {
		if i == 0 || x != s[i-1] {
			out = append(out, x)
		}
	}
	return out
}

func fieldName(t types.Type, i int) string {
	if p, ok := t.Underlying().(*types.Pointer); ok {
		t = p.Elem()
	}
	if st, ok := t.Underlying().(*types.Struct); ok && i < st.NumFields() {
		return st.Field(i).Name()
	}
	return fmt.Sprintf("f%d", i)
}

// FieldObj returns the *types.Var of the field addressed by fa.
func FieldObj(x ssa.Value, i int) *types.Var {
	t := x.Type()
	if p, ok := t.Underlying().(*types.Pointer); ok {
		t = p.Elem()
	}
	if st, ok := t.Underlying().(*types.Struct); ok && i < st.NumFields() {
		return st.Field(i)
	}
	return nil
}

// SpilledParam: a parameter captured by a closure / address-taken is spilled
// to an Alloc whose first store is the parameter; return that parameter.
func SpilledParam(a *ssa.Alloc) *ssa.Parameter {
	if a.Referrers() == nil {
		return nil
	}
	var p *ssa.Parameter
	n := 0
	for _, r := range *a.Referrers() {
		if st, ok := r.(*ssa.Store); ok && st.Addr == a {
			n++
			if pp, ok := st.Val.(*ssa.Parameter); ok {
				p = pp
			}
		}
	}
	if n == 1 {
		return p
	}
	return nil
}

// Guard is a branch condition known to hold (Pol=true) or not hold at a block.
type Guard struct {
	Cond ssa.Value
	Pol  bool
	Str  string // Render(Cond), prefixed with "!" when Pol is false
	If   *ssa.If // the branch instruction
}

// GuardsAt returns the conditions that are established on every path to b:
// walk up through single-predecessor edges whose source ends in an If; at a
// merge point jump to the immediate dominator (conditions inside the merged
// region are dropped).
func GuardsAt(b *ssa.BasicBlock) []Guard {
	var out []Guard
	seen := map[*ssa.BasicBlock]bool{}
	cur := b
	for cur != nil && !seen[cur] {
		seen[cur] = true
		if len(cur.Preds) == 1 {
			p := cur.Preds[0]
			if ifi, ok := p.Instrs[len(p.Instrs)-1].(*ssa.If); ok && p.Succs[0] != p.Succs[1] {
				pol := p.Succs[0] == cur
				s := Render(ifi.Cond)
				if !pol {
					s = "!" + s
				}
				out = append(out, Guard{ifi.Cond, pol, s, ifi})
			}
			cur = p
			continue
		}
		cur = cur.Idom()
	}
	return out
}

// GuardStrs is GuardsAt rendered.
func GuardStrs(b *ssa.BasicBlock) []string {
	var s []string
	for _, g := range GuardsAt(b) {
		s = append(s, g.Str)
	}
	return s
}

// HasGuard reports whether some guard string at b contains sub (with the
// polarity encoded by a leading "!" in the guard string).
func HasGuard(b *ssa.BasicBlock, match func(g Guard) bool) bool {
	for _, g := range GuardsAt(b) {
		if match(g) {
			return true
		}
	}
	return false
}

// Instrs calls f for every instruction of fn (not descending into closures).
func Instrs(fn *ssa.Function, f func(ssa.Instruction)) {
	for _, b := range fn.Blocks {
		for _, in := range b.Instrs {
			f(in)
		}
	}
}

// WithClosures returns fn and all (transitively) nested anonymous functions.
func WithClosures(fn *ssa.Function) []*ssa.Function {
	out := []*ssa.Function{fn}
	for _, a := range fn.AnonFuncs {
		out = append(out, WithClosures(a)...)
	}
	return out
}

// Calls returns the call instructions (call, go, defer) of fn whose callee
// matches one of names (see CallIs).
func Calls(fn *ssa.Function, names ...string) []ssa.CallInstruction {
	var out []ssa.CallInstruction
	Instrs(fn, func(in ssa.Instruction) {
		if c, ok := in.(ssa.CallInstruction); ok && CallIs(c.Common(), names...) {
			out = append(out, c)
		}
	})
	return out
}

// AllCalls returns every call instruction of fn.
func AllCalls(fn *ssa.Function) []ssa.CallInstruction {
	var out []ssa.CallInstruction
	Instrs(fn, func(in ssa.Instruction) {
		if c, ok := in.(ssa.CallInstruction); ok {
			out = append(out, c)
		}
	})
	return out
}

// Returns lists the return instructions of fn.
func Returns(fn *ssa.Function) []*ssa.Return {
	var out []*ssa.Return
	Instrs(fn, func(in ssa.Instruction) {
		// the synthetic recover block (functions with defer) re-loads the
		// result slots and returns; it is not a source-level return
		if r, ok := in.(*ssa.Return); ok && in.Block() != fn.Recover {
			out = append(out, r)
		}
	})
	return out
}

// idx returns the index of in within its block.
func idx(in ssa.Instruction) int {
	for i, x := range in.Block().Instrs {
		if x == in {
			return i
		}
	}
	return -1
}

// Dominates: instruction a is executed before b on every path reaching b.
func Dominates(a, b ssa.Instruction) bool {
	if a.Block() == b.Block() {
		return idx(a) < idx(b)
	}
	return a.Block().Dominates(b.Block())
}

// ReachAvoiding: starting just after `from` (or at function entry when from is
// nil, fn must then be given), is there a path to an instruction satisfying
// target that does not first execute an instruction satisfying avoid? Returns
// the first such target found.
func ReachAvoiding(fn *ssa.Function, from ssa.Instruction, avoid, target func(ssa.Instruction) bool) ssa.Instruction {
	type start struct {
		b *ssa.BasicBlock
		i int
	}
	var st start
	if from != nil {
		st = start{from.Block(), idx(from) + 1}
	} else {
		if len(fn.Blocks) == 0 {
			return nil
		}
		st = start{fn.Blocks[0], 0}
	}
	seen := map[*ssa.BasicBlock]bool{}
	var work []*ssa.BasicBlock
	scan := func(b *ssa.BasicBlock, i int) ssa.Instruction {
		for ; i < len(b.Instrs); i++ {
			in := b.Instrs[i]
			if target(in) {
				return in
			}
			if avoid != nil && avoid(in) {
				return nil
			}
		}
		for _, s := range b.Succs {
			if !seen[s] {
				seen[s] = true
				work = append(work, s)
			}
		}
		return nil
	}
	if r := scan(st.b, st.i); r != nil {
		return r
	}
	for len(work) > 0 {
		b := work[len(work)-1]
		work = work[:len(work)-1]
		if r := scan(b, 0); r != nil {
			return r
		}
	}
	return nil
}

// IsExit: return or panic.
func IsExit(in ssa.Instruction) bool {
	switch in.(type) {
	case *ssa.Return, *ssa.Panic:
		return true
	}
	return false
}

// IsReturn matches only returns.
func IsReturn(in ssa.Instruction) bool { _, ok := in.(*ssa.Return); return ok }

// MustPass: every path from `from` (nil = entry) to a return passes an
// instruction satisfying via. Returns the offending return if not.
func MustPass(fn *ssa.Function, from ssa.Instruction, via func(ssa.Instruction) bool) ssa.Instruction {
	return ReachAvoiding(fn, from, via, IsReturn)
}

// StoreTo describes a store to a struct field.
type StoreTo struct {
	Store *ssa.Store
	Field *types.Var
	Fn    *ssa.Function
}

// FieldStores finds all stores to the given field object in the functions.
func FieldStores(fns []*ssa.Function, field *types.Var) []StoreTo {
	var out []StoreTo
	for _, fn := range fns {
		Instrs(fn, func(in ssa.Instruction) {
			st, ok := in.(*ssa.Store)
			if !ok {
				return
			}
			if fa, ok := st.Addr.(*ssa.FieldAddr); ok && FieldObj(fa.X, fa.Field) == field {
				out = append(out, StoreTo{st, field, fn})
			}
		})
	}
	return out
}

// FieldReads finds all loads (UnOp *) of the field, plus address escapes
// (FieldAddr used by something other than a load/store) flagged as reads.
func FieldReads(fns []*ssa.Function, field *types.Var) []ssa.Instruction {
	var out []ssa.Instruction
	for _, fn := range fns {
		Instrs(fn, func(in ssa.Instruction) {
			switch x := in.(type) {
			case *ssa.FieldAddr:
				if FieldObj(x.X, x.Field) != field || x.Referrers() == nil {
					return
				}
				for _, r := range *x.Referrers() {
					if st, ok := r.(*ssa.Store); ok && st.Addr == x {
						continue
					}
					out = append(out, r)
				}
			case *ssa.Field:
				if FieldObj(x.X, x.Field) == field {
					out = append(out, x)
				}
			}
		})
	}
	return out
}

// EnclosingFunc is in.Parent() — convenience for messages.
func EnclosingFunc(in ssa.Instruction) string { return FuncKey(in.Parent()) }

// StripConv peels conversions, interface boxing and loads of spilled params.
func StripConv(v ssa.Value) ssa.Value {
	for {
		switch x := v.(type) {
		case *ssa.ChangeType:
			v = x.X
		case *ssa.ChangeInterface:
			v = x.X
		case *ssa.MakeInterface:
			v = x.X
		case *ssa.Convert:
			v = x.X
		default:
			return v
		}
	}
}

// ConstString returns the string constant value of v, if it is one.
func ConstString(v ssa.Value) (string, bool) {
	c, ok := StripConv(v).(*ssa.Const)
	if !ok || c.Value == nil || c.Value.Kind().String() != "String" {
		return "", false
	}
	s := c.Value.ExactString()
	if len(s) >= 2 && s[0] == '"' {
		var out string
		if _, err := fmt.Sscanf(s, "%q", &out); err == nil {
			return out, true
		}
	}
	return s, true
}

// TransitiveCallees collects static callees of fn (bodies inside the module)
// up to the given depth, including fn itself and closures.
func TransitiveCallees(fn *ssa.Function, depth int) []*ssa.Function {
	seen := map[*ssa.Function]bool{}
	var out []*ssa.Function
	var walk func(f *ssa.Function, d int)
	walk = func(f *ssa.Function, d int) {
		if f == nil || seen[f] || f.Blocks == nil {
			return
		}
		seen[f] = true
		out = append(out, f)
		for _, a := range f.AnonFuncs {
			walk(a, d)
		}
		if d == 0 {
			return
		}
		Instrs(f, func(in ssa.Instruction) {
			if c, ok := in.(ssa.CallInstruction); ok {
				if sc := c.Common().StaticCallee(); sc != nil {
					walk(sc, d-1)
				}
			}
		})
	}
	walk(fn, depth)
	return out
}

// RetVals returns the values returned by r, looking through the spill that
// go/ssa performs when the function has a defer: results are stored into
// result Allocs, then `rundefers`, then re-loaded. For such a result the value
// of the last store to the Alloc in the returning block is used; if there is
// none (a named result assigned elsewhere) the load itself is returned.
func RetVals(r *ssa.Return) []ssa.Value {
	out := make([]ssa.Value, len(r.Results))
	for i, v := range r.Results {
		out[i] = v
		u, ok := v.(*ssa.UnOp)
		if !ok || u.Op != token.MUL {
			continue
		}
		a, ok := u.X.(*ssa.Alloc)
		if !ok {
			continue
		}
		b := r.Block()
		for j := len(b.Instrs) - 1; j >= 0; j-- {
			if st, ok := b.Instrs[j].(*ssa.Store); ok && st.Addr == a {
				out[i] = st.Val
				break
			}
		}
	}
	return out
}

// GuardsOnEdge: guards established when control moves from pred to succ:
// those holding at pred plus pred's own branch condition.
func GuardsOnEdge(pred, succ *ssa.BasicBlock) []Guard {
	gs := GuardsAt(pred)
	if ifi, ok := pred.Instrs[len(pred.Instrs)-1].(*ssa.If); ok && pred.Succs[0] != pred.Succs[1] {
		pol := pred.Succs[0] == succ
		s := Render(ifi.Cond)
		if !pol {
			s = "!" + s
		}
		gs = append(gs, Guard{ifi.Cond, pol, s, ifi})
	}
	return gs
}

// AllEdgesGuarded: every way of entering b establishes a guard accepted by
// match (handles `if a || b { ... }` where the block has one predecessor per
// disjunct). For a single-predecessor block this is HasGuard.
func AllEdgesGuarded(b *ssa.BasicBlock, match func(g Guard) bool) bool {
	if HasGuard(b, match) {
		return true
	}
	if len(b.Preds) < 2 {
		return false
	}
	for _, p := range b.Preds {
		ok := false
		for _, g := range GuardsOnEdge(p, b) {
			if match(g) {
				ok = true
			}
		}
		if !ok {
			return false
		}
	}
	return true
}

// negCmp maps a comparison operator to its negation.
var negCmp = map[token.Token]token.Token{token.LSS: token.GEQ, token.GEQ: token.LSS, token.GTR: token.LEQ, token.LEQ: token.GTR, token.EQL: token.NEQ, token.NEQ: token.EQL}

// mirrorCmp maps "a op b" to the operator of the equivalent "b op' a".
var mirrorCmp = map[token.Token]token.Token{token.LSS: token.GTR, token.GTR: token.LSS, token.LEQ: token.GEQ, token.GEQ: token.LEQ, token.EQL: token.EQL, token.NEQ: token.NEQ}

// Cmp returns the comparison the guard establishes with its polarity folded
// in: the guard "!(a < b)" yields (>=, a, b). ok is false when the condition
// is not a comparison.
func (g Guard) Cmp() (op token.Token, x, y ssa.Value, ok bool) {
	b, isB := g.Cond.(*ssa.BinOp)
	if !isB {
		return 0, nil, nil, false
	}
	if _, isCmp := negCmp[b.Op]; !isCmp {
		return 0, nil, nil, false
	}
	op = b.Op
	if !g.Pol {
		op = negCmp[op]
	}
	return op, b.X, b.Y, true
}

// CmpIs reports whether the guard establishes "X op Y" for operands accepted
// by mx and my, in either spelling ("X op Y", "Y op' X") and either branch
// polarity ("!(X negop Y)").
func (g Guard) CmpIs(op token.Token, mx, my func(ssa.Value) bool) bool {
	o, x, y, ok := g.Cmp()
	if !ok {
		return false
	}
	if o == op && mx(x) && my(y) {
		return true
	}
	return mirrorCmp[o] == op && mx(y) && my(x)
}

// RenderIs returns a predicate matching values whose canonical rendering is s.
func RenderIs(s string) func(ssa.Value) bool {
	return func(v ssa.Value) bool { return Render(v) == s }
}
