package core

import (
	"go/constant"
	"go/token"

	"golang.org/x/tools/go/ssa"
)

// Path is one feasible acyclic-unrolled path through a function's CFG.
type Path struct {
	Blocks []*ssa.BasicBlock
	env    map[ssa.Value]constant.Value
}

// Instrs calls f for each instruction on the path, in order.
func (p *Path) Instrs(f func(ssa.Instruction) bool) {
	for _, b := range p.Blocks {
		for _, in := range b.Instrs {
			if !f(in) {
				return
			}
		}
	}
}

// Has reports whether an instruction satisfying pred lies on the path.
func (p *Path) Has(pred func(ssa.Instruction) bool) bool {
	found := false
	p.Instrs(func(in ssa.Instruction) bool {
		if pred(in) {
			found = true
			return false
		}
		return true
	})
	return found
}

// Edges calls f for each If on the path with the polarity of the edge taken.
func (p *Path) Edges(f func(cond ssa.Value, taken bool)) {
	for i := 0; i+1 < len(p.Blocks); i++ {
		b := p.Blocks[i]
		if ifi, ok := b.Instrs[len(b.Instrs)-1].(*ssa.If); ok && b.Succs[0] != b.Succs[1] {
			f(ifi.Cond, b.Succs[0] == p.Blocks[i+1])
		}
	}
}

// Last returns the final instruction of the path.
func (p *Path) Last() ssa.Instruction {
	b := p.Blocks[len(p.Blocks)-1]
	return b.Instrs[len(b.Instrs)-1]
}

// EnumPaths enumerates paths from the entry block to every exit (return or
// panic), visiting each block at most maxVisit times per path and pruning
// branches whose condition is decidable from boolean/integer constants that
// flow through phis along the path (flag variables). It stops after limit
// paths and then returns false (incomplete: callers must treat that as
// undecided).
func EnumPaths(fn *ssa.Function, maxVisit, limit int, f func(p *Path)) bool {
	if len(fn.Blocks) == 0 {
		return true
	}
	n := 0
	complete := true
	visits := map[*ssa.BasicBlock]int{}
	var blocks []*ssa.BasicBlock
	env := map[ssa.Value]constant.Value{}
	var walk func(b, pred *ssa.BasicBlock)
	walk = func(b, pred *ssa.BasicBlock) {
		if !complete {
			return
		}
		if visits[b] >= maxVisit {
			return
		}
		visits[b]++
		blocks = append(blocks, b)
		// evaluate phis on entry
		type saved struct {
			v   ssa.Value
			old constant.Value
			had bool
		}
		var undo []saved
		if pred != nil {
			pi := -1
			for i, p := range b.Preds {
				if p == pred {
					pi = i
				}
			}
			var newvals []saved
			for _, in := range b.Instrs {
				phi, ok := in.(*ssa.Phi)
				if !ok {
					break
				}
				old, had := env[phi]
				undo = append(undo, saved{phi, old, had})
				var val constant.Value
				if pi >= 0 {
					val = evalConst(phi.Edges[pi], env)
				}
				newvals = append(newvals, saved{phi, val, val != nil})
			}
			for _, nv := range newvals {
				if nv.had { // here: old holds the new value, had = value known
					env[nv.v] = nv.old
				} else {
					delete(env, nv.v)
				}
			}
		}
		last := b.Instrs[len(b.Instrs)-1]
		switch x := last.(type) {
		case *ssa.Return, *ssa.Panic:
			n++
			if n > limit {
				complete = false
			} else {
				f(&Path{Blocks: append([]*ssa.BasicBlock(nil), blocks...), env: env})
			}
		case *ssa.If:
			cv := evalConst(x.Cond, env)
			for i, s := range b.Succs {
				if cv != nil && cv.Kind() == constant.Bool {
					if constant.BoolVal(cv) != (i == 0) {
						continue
					}
				}
				walk(s, b)
			}
		default:
			for _, s := range b.Succs {
				walk(s, b)
			}
		}
		for i := len(undo) - 1; i >= 0; i-- {
			if undo[i].had {
				env[undo[i].v] = undo[i].old
			} else {
				delete(env, undo[i].v)
			}
		}
		blocks = blocks[:len(blocks)-1]
		visits[b]--
	}
	walk(fn.Blocks[0], nil)
	return complete
}

func evalConst(v ssa.Value, env map[ssa.Value]constant.Value) constant.Value {
	switch x := v.(type) {
	case *ssa.Const:
		if x.Value != nil && (x.Value.Kind() == constant.Bool || x.Value.Kind() == constant.Int) {
			return x.Value
		}
	case *ssa.Phi:
		if c, ok := env[x]; ok {
			return c
		}
	case *ssa.UnOp:
		if x.Op == token.NOT {
			if c := evalConst(x.X, env); c != nil && c.Kind() == constant.Bool {
				return constant.MakeBool(!constant.BoolVal(c))
			}
		}
	case *ssa.BinOp:
		a, b := evalConst(x.X, env), evalConst(x.Y, env)
		if a != nil && b != nil && a.Kind() == b.Kind() {
			switch x.Op {
			case token.EQL, token.NEQ, token.LSS, token.LEQ, token.GTR, token.GEQ:
				if a.Kind() == constant.Bool {
					if x.Op == token.EQL {
						return constant.MakeBool(constant.BoolVal(a) == constant.BoolVal(b))
					}
					if x.Op == token.NEQ {
						return constant.MakeBool(constant.BoolVal(a) != constant.BoolVal(b))
					}
					return nil
				}
				return constant.MakeBool(constant.Compare(a, x.Op, b))
			}
		}
	}
	return nil
}
