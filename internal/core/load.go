// Package core holds the shared machinery of bfecheck: loading the resolved
// program of /repo, SSA helpers (access paths, guards, path queries), the
// obligation/violation protocol, known findings and evidence writing.
package core

import (
	"fmt"
	"go/ast"
	"go/token"
	"go/types"
	"os"
	"path/filepath"
	"sort"
	"strings"
	"sync"

	"golang.org/x/tools/go/callgraph"
	"golang.org/x/tools/go/callgraph/cha"
	"golang.org/x/tools/go/callgraph/vta"
	"golang.org/x/tools/go/packages"
	"golang.org/x/tools/go/ssa"
	"golang.org/x/tools/go/ssa/ssautil"
)

// ModPath is the import-path prefix of the analysed module.
const ModPath = "github.com/bfenetworks/bfe"

// RepoDir is the directory of the analysed tree (overridable for tests).
var RepoDir = "/repo"

// Prog is the resolved program: every package of the module type-checked from
// source, SSA built for all of them (dependencies outside the module come from
// export data and have no bodies).
type Prog struct {
	Fset   *token.FileSet
	Pkgs   []*packages.Package
	ByPath map[string]*packages.Package // key: path relative to module ("bfe_server")
	SSA    *ssa.Program
	SPkg   map[string]*ssa.Package

	cgOnce sync.Once
	cgCHA  *callgraph.Graph
	cgVTA  *callgraph.Graph
	allFns map[*ssa.Function]bool
}

// InfraError is an infrastructure failure (type errors, nothing loaded).
type InfraError struct{ Msg string }

func (e *InfraError) Error() string { return e.Msg }

// Load type-checks ./... of RepoDir (with an optional overlay: absolute file
// name -> replacement content) and builds SSA.
func Load(overlay map[string][]byte) (*Prog, error) {
	env := append(os.Environ(), "GOFLAGS=-mod=mod -trimpath", "GOWORK=off", "GOPROXY=off", "GOSUMDB=off", "GOTOOLCHAIN=local")
	cfg := &packages.Config{
		Mode:    packages.LoadSyntax,
		Dir:     RepoDir,
		Tests:   false,
		Env:     env,
		Overlay: overlay,
	}
	pkgs, err := packages.Load(cfg, "./...")
	if err != nil {
		return nil, &InfraError{"packages.Load: " + err.Error()}
	}
	if len(pkgs) < 50 {
		return nil, &InfraError{fmt.Sprintf("only %d packages loaded from %s (expected the whole module, >= 50)", len(pkgs), RepoDir)}
	}
	var errs []string
	for _, p := range pkgs {
		for _, e := range p.Errors {
			errs = append(errs, e.Error())
		}
	}
	if len(errs) > 0 {
		if len(errs) > 5 {
			errs = errs[:5]
		}
		return nil, &InfraError{"type/parse errors: " + strings.Join(errs, "; ")}
	}
	sort.Slice(pkgs, func(i, j int) bool { return pkgs[i].PkgPath < pkgs[j].PkgPath })
	p := &Prog{Fset: pkgs[0].Fset, Pkgs: pkgs, ByPath: map[string]*packages.Package{}, SPkg: map[string]*ssa.Package{}}
	prog, spkgs := ssautil.Packages(pkgs, ssa.BuilderMode(0))
	prog.Build()
	p.SSA = prog
	for i, pk := range pkgs {
		rel := strings.TrimPrefix(strings.TrimPrefix(pk.PkgPath, ModPath), "/")
		if rel == "" {
			rel = "."
		}
		p.ByPath[rel] = pk
		p.SPkg[rel] = spkgs[i]
	}
	return p, nil
}

// Rel returns a file name relative to the repo root.
func (p *Prog) Rel(file string) string {
	if r, err := filepath.Rel(RepoDir, file); err == nil && !strings.HasPrefix(r, "..") {
		return r
	}
	return file
}

// Pos renders a position as repo-relative file:line.
func (p *Prog) Pos(pos token.Pos) string {
	if !pos.IsValid() {
		return "-"
	}
	ps := p.Fset.Position(pos)
	return fmt.Sprintf("%s:%d", p.Rel(ps.Filename), ps.Line)
}

// Pkg returns the package with the given module-relative path or nil.
func (p *Prog) Pkg(rel string) *packages.Package { return p.ByPath[rel] }

// Obj resolves "Name" or "Type.Member" in package rel; nil when absent.
func (p *Prog) Obj(rel, name string) types.Object {
	pk := p.ByPath[rel]
	if pk == nil {
		return nil
	}
	parts := strings.SplitN(name, ".", 2)
	o := pk.Types.Scope().Lookup(parts[0])
	if o == nil || len(parts) == 1 {
		return o
	}
	tn, ok := o.(*types.TypeName)
	if !ok {
		return nil
	}
	obj, _, _ := types.LookupFieldOrMethod(tn.Type(), true, pk.Types, parts[1])
	return obj
}

// Func resolves a function ("name") or method ("Type.name") of package rel to
// its SSA function; nil when it does not exist.
func (p *Prog) Func(rel, name string) *ssa.Function {
	o := p.Obj(rel, name)
	f, ok := o.(*types.Func)
	if !ok {
		return nil
	}
	return p.SSA.FuncValue(f)
}

// FuncDecl returns the syntax of a function/method of package rel.
func (p *Prog) FuncDecl(rel, name string) (*ast.FuncDecl, *packages.Package) {
	pk := p.ByPath[rel]
	if pk == nil {
		return nil, nil
	}
	o := p.Obj(rel, name)
	if o == nil {
		return nil, pk
	}
	for _, f := range pk.Syntax {
		for _, d := range f.Decls {
			if fd, ok := d.(*ast.FuncDecl); ok && pk.TypesInfo.Defs[fd.Name] == o {
				return fd, pk
			}
		}
	}
	return nil, pk
}

// SrcFuncs returns all functions with bodies (including anonymous ones) of the
// packages whose relative path has one of the given prefixes ("" = all).
func (p *Prog) SrcFuncs(prefixes ...string) []*ssa.Function {
	var out []*ssa.Function
	for fn := range p.AllFuncs() {
		if fn.Blocks == nil || fn.Pkg == nil && fn.Parent() == nil {
			continue
		}
		rel := FuncPkgRel(fn)
		if rel == "" {
			continue
		}
		ok := len(prefixes) == 0
		for _, pre := range prefixes {
			if rel == pre || strings.HasPrefix(rel, pre+"/") || pre == "" {
				ok = true
			}
		}
		if ok {
			out = append(out, fn)
		}
	}
	sort.Slice(out, func(i, j int) bool {
		if out[i].Pos() != out[j].Pos() {
			return out[i].Pos() < out[j].Pos()
		}
		return out[i].String() < out[j].String()
	})
	return out
}

// AllFuncs is ssautil.AllFunctions, cached.
func (p *Prog) AllFuncs() map[*ssa.Function]bool {
	if p.allFns == nil {
		p.allFns = ssautil.AllFunctions(p.SSA)
	}
	return p.allFns
}

// FuncPkgRel gives the module-relative package path of fn ("" if outside).
func FuncPkgRel(fn *ssa.Function) string {
	for fn.Parent() != nil {
		fn = fn.Parent()
	}
	var path string
	if fn.Pkg != nil {
		path = fn.Pkg.Pkg.Path()
	} else if o := fn.Object(); o != nil && o.Pkg() != nil {
		path = o.Pkg().Path()
	} else {
		return ""
	}
	if path == ModPath {
		return "."
	}
	if !strings.HasPrefix(path, ModPath+"/") {
		return ""
	}
	return strings.TrimPrefix(path, ModPath+"/")
}

// CHA returns the class-hierarchy call graph.
func (p *Prog) CHA() *callgraph.Graph {
	p.buildCG()
	return p.cgCHA
}

// VTA returns the variable-type-analysis call graph (seeded with CHA).
func (p *Prog) VTA() *callgraph.Graph {
	p.buildCG()
	return p.cgVTA
}

func (p *Prog) buildCG() {
	p.cgOnce.Do(func() {
		p.cgCHA = cha.CallGraph(p.SSA)
		p.cgVTA = vta.CallGraph(p.AllFuncs(), p.cgCHA)
	})
}

// FileOf returns the absolute name of a repo-relative file.
func FileOf(rel string) string { return filepath.Join(RepoDir, rel) }
