package core

import (
	"go/types"
	"sort"
	"strings"

	"golang.org/x/tools/go/ssa"
)

// LockEvent classifies a call as a lock operation on sync.Mutex/RWMutex.
// kind: "Lock", "RLock", "Unlock", "RUnlock"; lock: rendered access path of
// the mutex ("back.RWMutex", "bal.lock").
func LockEvent(c *ssa.CallCommon) (kind, lock string, ok bool) {
	if c.IsInvoke() {
		// sync.Locker
		if c.Method.Pkg() != nil && c.Method.Pkg().Path() == "sync" && (c.Method.Name() == "Lock" || c.Method.Name() == "Unlock") {
			return c.Method.Name(), Render(c.Value), true
		}
		return "", "", false
	}
	sc := c.StaticCallee()
	if sc == nil || sc.Signature.Recv() == nil || len(c.Args) == 0 {
		return "", "", false
	}
	k := FuncKey(sc)
	switch k {
	case "sync.Mutex.Lock", "sync.RWMutex.Lock":
		kind = "Lock"
	case "sync.Mutex.Unlock", "sync.RWMutex.Unlock":
		kind = "Unlock"
	case "sync.RWMutex.RLock":
		kind = "RLock"
	case "sync.RWMutex.RUnlock":
		kind = "RUnlock"
	default:
		return "", "", false
	}
	return kind, Render(c.Args[0]), true
}

// LockSets computes, for every instruction of fn, the set of locks that are
// certainly held just before it (must-analysis: intersection at joins).
// Entries are "path:W" or "path:R". Deferred unlocks keep the lock held until
// function exit. entry gives locks assumed held on entry.
type LockSets struct {
	before map[ssa.Instruction]map[string]bool
}

// Held reports the locks held before in, sorted.
func (l *LockSets) Held(in ssa.Instruction) []string {
	var s []string
	for k := range l.before[in] {
		s = append(s, k)
	}
	sort.Strings(s)
	return s
}

// Holds reports whether lock path is held before in; mode "W" requires the
// write lock, "R" accepts read or write.
func (l *LockSets) Holds(in ssa.Instruction, path, mode string) bool {
	h := l.before[in]
	if h[path+":W"] {
		return true
	}
	return mode == "R" && h[path+":R"]
}

// HoldsAny reports whether any lock whose path ends with suffix is held.
func (l *LockSets) HoldsAny(in ssa.Instruction, suffix, mode string) bool {
	for k := range l.before[in] {
		p := k[:len(k)-2]
		if strings.HasSuffix(p, suffix) && (strings.HasSuffix(k, ":W") || mode == "R") {
			return true
		}
	}
	return false
}

// ComputeLockSets runs the analysis.
func ComputeLockSets(fn *ssa.Function, entry ...string) *LockSets {
	return computeLockSets(fn, LockEvent, entry)
}

func computeLockSets(fn *ssa.Function, event func(*ssa.CallCommon) (string, string, bool), entry []string) *LockSets {
	ls := &LockSets{before: map[ssa.Instruction]map[string]bool{}}
	if len(fn.Blocks) == 0 {
		return ls
	}
	in := map[*ssa.BasicBlock]map[string]bool{}
	init := map[string]bool{}
	for _, e := range entry {
		init[e] = true
	}
	in[fn.Blocks[0]] = init
	clone := func(m map[string]bool) map[string]bool {
		o := make(map[string]bool, len(m))
		for k := range m {
			o[k] = true
		}
		return o
	}
	step := func(inst ssa.Instruction, s map[string]bool) {
		call, ok := inst.(*ssa.Call)
		if !ok {
			return
		}
		kind, lock, ok := event(&call.Call)
		if !ok {
			return
		}
		switch kind {
		case "Lock":
			s[lock+":W"] = true
		case "RLock":
			s[lock+":R"] = true
		case "Unlock":
			delete(s, lock+":W")
		case "RUnlock":
			delete(s, lock+":R")
		}
	}
	work := []*ssa.BasicBlock{fn.Blocks[0]}
	for len(work) > 0 {
		b := work[0]
		work = work[1:]
		s := clone(in[b])
		for _, inst := range b.Instrs {
			step(inst, s)
		}
		for _, succ := range b.Succs {
			old, seen := in[succ]
			if !seen {
				in[succ] = clone(s)
				work = append(work, succ)
				continue
			}
			changed := false
			for k := range old {
				if !s[k] {
					delete(old, k)
					changed = true
				}
			}
			if changed {
				work = append(work, succ)
			}
		}
	}
	for _, b := range fn.Blocks {
		s, ok := in[b]
		if !ok {
			continue
		}
		s = clone(s)
		for _, inst := range b.Instrs {
			ls.before[inst] = clone(s)
			step(inst, s)
		}
	}
	return ls
}

// LockEventT is LockEvent with a type-based lock identity: the mutex is named
// by the struct type that contains it plus the field name
// ("bfe_balance/bal_gslb.BalanceGslb.lock", "bfe_balance/backend.BfeBackend.RWMutex").
// Instances are not distinguished (the held instance is assumed to be the one
// enclosing the accessed object).
func LockEventT(c *ssa.CallCommon) (kind, lock string, ok bool) {
	kind, lock, ok = LockEvent(c)
	if !ok {
		return
	}
	var recv ssa.Value
	if c.IsInvoke() {
		recv = c.Value
	} else {
		recv = c.Args[0]
	}
	if fa, isFA := recv.(*ssa.FieldAddr); isFA {
		t := fa.X.Type()
		if p, isP := t.Underlying().(*types.Pointer); isP {
			t = p.Elem()
		}
		lock = TypeStr(t) + "." + fieldName(fa.X.Type(), fa.Field)
	}
	return
}

// ComputeLockSetsT is ComputeLockSets with type-based lock identities.
func ComputeLockSetsT(fn *ssa.Function, entry ...string) *LockSets {
	return computeLockSets(fn, LockEventT, entry)
}

// ProgLocks holds type-based lock sets for a set of functions plus, for each,
// the locks held on entry by ALL of its static callers (fixpoint over the
// static call graph; functions with no static call site, or that are started
// with `go`/`defer`, or whose address is taken, get the empty set).
type ProgLocks struct {
	Sets  map[*ssa.Function]*LockSets
	Entry map[*ssa.Function]map[string]bool
}

// HeldT reports whether a lock of the given type key is held before in
// (directly or on entry of the enclosing function).
func (pl *ProgLocks) HeldT(in ssa.Instruction, lock, mode string) bool {
	fn := in.Parent()
	if ls := pl.Sets[fn]; ls != nil && ls.Holds(in, lock, mode) {
		return true
	}
	e := pl.Entry[fn]
	return e[lock+":W"] || (mode == "R" && e[lock+":R"])
}

// AllHeld lists everything held before in.
func (pl *ProgLocks) AllHeld(in ssa.Instruction) []string {
	m := map[string]bool{}
	fn := in.Parent()
	if ls := pl.Sets[fn]; ls != nil {
		for _, k := range ls.Held(in) {
			m[k] = true
		}
	}
	for k := range pl.Entry[fn] {
		m[k] = true
	}
	var s []string
	for k := range m {
		s = append(s, k)
	}
	sort.Strings(s)
	return s
}

// WholeProgramLocks computes ProgLocks over all functions of the module.
func WholeProgramLocks(p *Prog) *ProgLocks {
	pl := &ProgLocks{Sets: map[*ssa.Function]*LockSets{}, Entry: map[*ssa.Function]map[string]bool{}}
	fns := p.SrcFuncs("")
	type site struct {
		caller *ssa.Function
		in     ssa.Instruction
		plain  bool // ordinary call (not go/defer)
	}
	sites := map[*ssa.Function][]site{}
	escaped := map[*ssa.Function]bool{}
	for _, fn := range fns {
		pl.Sets[fn] = ComputeLockSetsT(fn)
		Instrs(fn, func(in ssa.Instruction) {
			if ci, ok := in.(ssa.CallInstruction); ok {
				if sc := ci.Common().StaticCallee(); sc != nil {
					_, plain := in.(*ssa.Call)
					sites[sc] = append(sites[sc], site{fn, in, plain})
				}
			}
			// function values that escape (stored, passed): unknown callers
			var ops []*ssa.Value
			for _, op := range in.Operands(ops) {
				if op == nil || *op == nil {
					continue
				}
				var f *ssa.Function
				switch x := (*op).(type) {
				case *ssa.Function:
					f = x
				case *ssa.MakeClosure:
					f, _ = x.Fn.(*ssa.Function)
				}
				if f == nil {
					continue
				}
				if ci, ok := in.(ssa.CallInstruction); ok && ci.Common().Value == *op {
					continue // direct callee position
				}
				if _, isMC := in.(*ssa.MakeClosure); isMC {
					continue
				}
				escaped[f] = true
			}
		})
	}
	const top = "\x00top"
	for _, fn := range fns {
		if len(sites[fn]) > 0 && !escaped[fn] {
			pl.Entry[fn] = map[string]bool{top: true}
		} else {
			pl.Entry[fn] = map[string]bool{}
		}
	}
	for changed := true; changed; {
		changed = false
		for _, fn := range fns {
			cur := pl.Entry[fn]
			if len(cur) == 0 {
				continue
			}
			var meet map[string]bool
			for _, s := range sites[fn] {
				h := map[string]bool{}
				if s.plain {
					ce := pl.Entry[s.caller]
					if ce[top] {
						continue // caller not yet resolved: neutral element
					}
					for k := range ce {
						h[k] = true
					}
					if ls := pl.Sets[s.caller]; ls != nil {
						for _, k := range ls.Held(s.in) {
							h[k] = true
						}
					}
				}
				if meet == nil {
					meet = h
				} else {
					for k := range meet {
						if !h[k] {
							delete(meet, k)
						}
					}
				}
			}
			if meet == nil {
				continue // all callers unresolved
			}
			if cur[top] || len(meet) != len(cur) {
				pl.Entry[fn] = meet
				changed = true
			}
		}
	}
	for _, fn := range fns {
		if pl.Entry[fn][top] { // only reachable from unresolved cycles
			pl.Entry[fn] = map[string]bool{}
		}
	}
	return pl
}
