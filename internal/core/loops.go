package core

import (
	"go/token"

	"golang.org/x/tools/go/ssa"
)

// Loop is a natural loop of a function's CFG.
type Loop struct {
	Header *ssa.BasicBlock
	Body   map[*ssa.BasicBlock]bool // includes Header
}

// Loops finds the natural loops of fn (one per header; back edges to the same
// header are merged).
func Loops(fn *ssa.Function) []*Loop {
	byHeader := map[*ssa.BasicBlock]*Loop{}
	var order []*ssa.BasicBlock
	for _, b := range fn.Blocks {
		for _, h := range b.Succs {
			if !h.Dominates(b) {
				continue
			}
			l := byHeader[h]
			if l == nil {
				l = &Loop{Header: h, Body: map[*ssa.BasicBlock]bool{h: true}}
				byHeader[h] = l
				order = append(order, h)
			}
			stack := []*ssa.BasicBlock{b}
			for len(stack) > 0 {
				x := stack[len(stack)-1]
				stack = stack[:len(stack)-1]
				if l.Body[x] {
					continue
				}
				l.Body[x] = true
				stack = append(stack, x.Preds...)
			}
		}
	}
	var out []*Loop
	for _, h := range order {
		out = append(out, byHeader[h])
	}
	return out
}

// LoopKind classifies how a loop terminates:
//   "range-slice"  rotated `for range` over a slice/array/string/int (index phi compared with len)
//   "range-map"    `for range` over a map/channel-less iterator (Next)
//   "counted"      an exit branch compares an induction variable (phi with a constant step on every back edge) with a bound that is not modified inside the loop
//   "" (unknown)   anything else (e.g. `for {}` whose exits depend on data)
// detail describes the exit condition found.
func LoopKind(l *Loop) (kind, detail string) {
	// exits: If instructions inside the loop with a successor outside
	for b := range l.Body {
		for _, in := range b.Instrs {
			if nx, ok := in.(*ssa.Next); ok && !nx.IsString {
				_ = nx
				return "range-map", "iterator exhaustion"
			}
		}
	}
	var firstUnknown string
	for b := range l.Body {
		ifi, ok := b.Instrs[len(b.Instrs)-1].(*ssa.If)
		if !ok {
			continue
		}
		exits := false
		for _, s := range b.Succs {
			if !l.Body[s] {
				exits = true
			}
		}
		if !exits {
			continue
		}
		cond, ok := ifi.Cond.(*ssa.BinOp)
		if !ok {
			if firstUnknown == "" {
				firstUnknown = Render(ifi.Cond)
			}
			continue
		}
		switch cond.Op {
		case token.LSS, token.LEQ, token.GTR, token.GEQ, token.NEQ:
		default:
			continue
		}
		for _, pair := range [][2]ssa.Value{{cond.X, cond.Y}, {cond.Y, cond.X}} {
			iv, bound := pair[0], pair[1]
			// range-over-slice: `t = rangeindex_phi + 1; if t < len`
			if isInduction(iv, l) && loopInvariant(bound, l) {
				if phi := inductionPhi(iv, l); phi != nil && phi.Comment == "rangeindex" {
					return "range-slice", Render(cond)
				}
				return "counted", Render(cond)
			}
		}
		if firstUnknown == "" {
			firstUnknown = Render(cond)
		}
	}
	return "", firstUnknown
}

func inductionPhi(v ssa.Value, l *Loop) *ssa.Phi {
	if phi, ok := v.(*ssa.Phi); ok && phi.Block() == l.Header {
		return phi
	}
	if b, ok := v.(*ssa.BinOp); ok && (b.Op == token.ADD || b.Op == token.SUB) {
		if phi, ok := b.X.(*ssa.Phi); ok && phi.Block() == l.Header {
			if _, isK := b.Y.(*ssa.Const); isK {
				return phi
			}
		}
	}
	return nil
}

// isInduction: v is a header phi (or phi±const) whose every in-loop incoming
// edge is phi ± non-zero constant.
func isInduction(v ssa.Value, l *Loop) bool {
	phi := inductionPhi(v, l)
	if phi == nil {
		return false
	}
	for i, e := range phi.Edges {
		if !l.Body[phi.Block().Preds[i]] {
			continue // initial value
		}
		b, ok := e.(*ssa.BinOp)
		if !ok || (b.Op != token.ADD && b.Op != token.SUB) || b.X != phi {
			return false
		}
		k, ok := b.Y.(*ssa.Const)
		if !ok || k.Value == nil || k.Value.ExactString() == "0" {
			return false
		}
	}
	return true
}

// loopInvariant: v is defined outside the loop, or is len()/a load of a field
// path that is not stored to inside the loop.
func loopInvariant(v ssa.Value, l *Loop) bool {
	switch x := v.(type) {
	case *ssa.Const, *ssa.Parameter, *ssa.FreeVar, *ssa.Global:
		return true
	case ssa.Instruction:
		if !l.Body[x.Block()] {
			return true
		}
		switch y := v.(type) {
		case *ssa.Call:
			if b, ok := y.Call.Value.(*ssa.Builtin); ok && b.Name() == "len" {
				return loopInvariant(y.Call.Args[0], l)
			}
		case *ssa.UnOp:
			if y.Op == token.MUL {
				path := Render(y.X)
				for b := range l.Body {
					for _, in := range b.Instrs {
						if st, ok := in.(*ssa.Store); ok && Render(st.Addr) == path {
							return false
						}
					}
				}
				return loopInvariantAddr(y.X, l)
			}
		case *ssa.Convert:
			return loopInvariant(y.X, l)
		}
	}
	return false
}

func loopInvariantAddr(v ssa.Value, l *Loop) bool {
	switch x := v.(type) {
	case *ssa.FieldAddr:
		return loopInvariant(x.X, l) || loopInvariantAddr(x.X, l)
	case *ssa.Parameter, *ssa.FreeVar, *ssa.Global:
		return true
	case *ssa.Alloc:
		return SpilledParam(x) != nil
	case ssa.Instruction:
		return !l.Body[x.Block()]
	}
	return false
}

// LoopConds returns the branch conditions of the loop headers of fn: a guard
// whose Cond is in this set (with positive polarity) is "the loop is still
// running", not a filter on the element being processed.
func LoopConds(fn *ssa.Function) map[ssa.Value]bool {
	out := map[ssa.Value]bool{}
	for _, l := range Loops(fn) {
		if n := len(l.Header.Instrs); n > 0 {
			if iff, ok := l.Header.Instrs[n-1].(*ssa.If); ok {
				out[iff.Cond] = true
			}
		}
	}
	return out
}

// SkipFilters returns the guards established at b that filter loop elements:
// b lies in a loop, the guard is not the loop's own condition, and the edge
// not taken towards b stays inside that loop (so the iteration goes on to the
// next element without reaching b). Guards whose other edge leaves the loop
// (reject the whole input, return an error) are not filters.
func SkipFilters(b *ssa.BasicBlock) []Guard {
	fn := b.Parent()
	var inner *Loop
	for _, l := range Loops(fn) {
		if l.Body[b] && (inner == nil || len(l.Body) < len(inner.Body)) {
			inner = l
		}
	}
	if inner == nil {
		return nil
	}
	var out []Guard
	for _, g := range GuardsAt(b) {
		if g.If == nil || !inner.Body[g.If.Block()] {
			continue
		}
		if g.If.Block() == inner.Header {
			continue // the loop condition
		}
		other := g.If.Block().Succs[0]
		if g.Pol {
			other = g.If.Block().Succs[1]
		}
		// does the other edge come back to the header without leaving the loop?
		seen := map[*ssa.BasicBlock]bool{}
		var reach func(x *ssa.BasicBlock) bool
		reach = func(x *ssa.BasicBlock) bool {
			if x == inner.Header {
				return true
			}
			if seen[x] || !inner.Body[x] {
				return false
			}
			seen[x] = true
			for _, s := range x.Succs {
				if reach(s) {
					return true
				}
			}
			return false
		}
		if reach(other) {
			out = append(out, g)
		}
	}
	return out
}
