package core

import (
	"sync"

	"golang.org/x/tools/go/ssa"
)

// This file makes rules robust against helper extraction / inlining, the most
// common behaviour-preserving edit: a rule anchored in function F looks at F's
// *region* (F plus its private helpers), reads guards through the single call
// site of a private helper, and lets a call of a helper count as "passes X"
// when every path through the helper passes X.

var (
	sitesMu   sync.Mutex
	sitesProg *Prog
	sitesIdx  map[*ssa.Function][]ssa.CallInstruction
)

// CallSites returns the static call sites (call, go, defer) of f in the whole
// module (closures included). The index is built once per program.
func (p *Prog) CallSites(f *ssa.Function) []ssa.CallInstruction {
	sitesMu.Lock()
	defer sitesMu.Unlock()
	if sitesProg != p {
		sitesProg = p
		sitesIdx = map[*ssa.Function][]ssa.CallInstruction{}
		for _, fn := range p.SrcFuncs("") {
			Instrs(fn, func(in ssa.Instruction) {
				if ci, ok := in.(ssa.CallInstruction); ok {
					if sc := ci.Common().StaticCallee(); sc != nil {
						sitesIdx[sc] = append(sitesIdx[sc], ci)
					}
				}
			})
		}
	}
	return sitesIdx[f]
}

// addressTaken reports whether f is used as a value anywhere (method value,
// function value, interface method table): then its call sites are not all
// static and it is not a private helper.
func (p *Prog) addressTaken(f *ssa.Function) bool {
	if f.Referrers() == nil {
		// package-level functions have no referrer list; scan for MakeClosure/ChangeType/operand uses
	}
	taken := false
	for _, fn := range p.SrcFuncs(FuncPkgRel(f)) {
		Instrs(fn, func(in ssa.Instruction) {
			for _, op := range in.Operands(nil) {
				if op == nil || *op == nil {
					continue
				}
				if g, ok := (*op).(*ssa.Function); ok && g == f {
					if ci, isCall := in.(ssa.CallInstruction); isCall && ci.Common().Value == ssa.Value(f) {
						continue
					}
					taken = true
				}
			}
		})
	}
	return taken
}

// Region returns fn followed by its private helpers: functions and methods of
// the same package, reached through static calls from the region (depth <= 4),
// that are unexported (or methods with an unexported name), are not used as
// values, and whose every static call site lies inside the region. Such a
// helper is an implementation detail of fn: extracting it from fn or inlining
// it back does not change behaviour, so a rule about fn looks at all of them.
// Anonymous functions of region members are included.
func (p *Prog) Region(fn *ssa.Function) []*ssa.Function {
	if fn == nil {
		return nil
	}
	in := map[*ssa.Function]bool{}
	var out []*ssa.Function
	add := func(f *ssa.Function) {
		for _, g := range WithClosures(f) {
			if !in[g] {
				in[g] = true
				out = append(out, g)
			}
		}
	}
	add(fn)
	for depth := 0; depth < 4; depth++ {
		grew := false
		for _, f := range append([]*ssa.Function(nil), out...) {
			Instrs(f, func(x ssa.Instruction) {
				ci, ok := x.(ssa.CallInstruction)
				if !ok {
					return
				}
				h := ci.Common().StaticCallee()
				if h == nil || in[h] || h.Blocks == nil || h.Pkg == nil || h.Pkg != fn.Pkg || h.Parent() != nil {
					return
				}
				if h.Object() == nil || h.Object().Exported() {
					return
				}
				for _, s := range p.CallSites(h) {
					if !in[s.Parent()] {
						return
					}
				}
				if p.addressTaken(h) {
					return
				}
				add(h)
				grew = true
			})
		}
		if !grew {
			break
		}
	}
	return out
}

// RegionInstrs calls f for every instruction of every function of fn's region.
func (p *Prog) RegionInstrs(fn *ssa.Function, f func(ssa.Instruction)) {
	for _, g := range p.Region(fn) {
		Instrs(g, f)
	}
}

// RegionCalls returns the call instructions of fn's region whose callee matches
// one of names (see CallIs).
func (p *Prog) RegionCalls(fn *ssa.Function, names ...string) []ssa.CallInstruction {
	var out []ssa.CallInstruction
	for _, g := range p.Region(fn) {
		out = append(out, Calls(g, names...)...)
	}
	return out
}

// GuardsAtCtx returns the guards established at b and, when b's function is a
// private helper with exactly one static call site (or an anonymous function
// called/deferred at one site), the guards established at that call site, and
// so on outwards (depth <= 4). Guards of an outer frame are rendered in that
// frame's names.
func (p *Prog) GuardsAtCtx(b *ssa.BasicBlock) []Guard {
	out := GuardsAt(b)
	f := b.Parent()
	for depth := 0; depth < 4 && f != nil; depth++ {
		if f.Object() != nil && f.Object().Exported() {
			break
		}
		sites := p.CallSites(f)
		if len(sites) != 1 || p.addressTaken(f) {
			break
		}
		sb := sites[0].Block()
		out = append(out, GuardsAt(sb)...)
		f = sb.Parent()
	}
	return out
}

// HasGuardCtx is HasGuard over GuardsAtCtx.
func (p *Prog) HasGuardCtx(b *ssa.BasicBlock, match func(g Guard) bool) bool {
	for _, g := range p.GuardsAtCtx(b) {
		if match(g) {
			return true
		}
	}
	return false
}

// AlwaysPasses reports whether every path from the entry of h to a return
// executes an instruction satisfying pred, where a call of a same-package
// function that itself always passes pred counts (depth-limited). Functions
// without a body never pass.
func AlwaysPasses(h *ssa.Function, pred func(ssa.Instruction) bool, depth int) bool {
	if h == nil || h.Blocks == nil {
		return false
	}
	lifted := LiftMust(pred, depth-1)
	first := h.Blocks[0].Instrs
	if len(first) > 0 && lifted(first[0]) {
		return true
	}
	return ReachAvoiding(h, nil, lifted, IsReturn) == nil
}

// LiftMust extends an instruction predicate used as a must-pass witness: a call
// of a function with a body in the module that passes pred on all of its paths
// is itself a witness.
func LiftMust(pred func(ssa.Instruction) bool, depth int) func(ssa.Instruction) bool {
	return func(in ssa.Instruction) bool {
		if pred(in) {
			return true
		}
		if depth <= 0 {
			return false
		}
		ci, ok := in.(ssa.CallInstruction)
		if !ok {
			return false
		}
		if _, isGo := in.(*ssa.Go); isGo {
			return false
		}
		h := ci.Common().StaticCallee()
		if h == nil || h.Blocks == nil {
			return false
		}
		return AlwaysPasses(h, pred, depth)
	}
}

// MayPass reports whether some instruction of h (or, depth-limited, of a
// function with a body that h calls statically) satisfies pred.
func MayPass(h *ssa.Function, pred func(ssa.Instruction) bool, depth int) bool {
	if h == nil || h.Blocks == nil {
		return false
	}
	found := false
	for _, g := range WithClosures(h) {
		Instrs(g, func(in ssa.Instruction) {
			if found {
				return
			}
			if pred(in) {
				found = true
				return
			}
			if depth > 0 {
				if ci, ok := in.(ssa.CallInstruction); ok {
					if c := ci.Common().StaticCallee(); c != nil && c.Blocks != nil && c != h && MayPass(c, pred, depth-1) {
						found = true
					}
				}
			}
		})
	}
	return found
}

// LiftMay extends an instruction predicate used as a may-happen event (an
// "avoid" set, a forbidden effect): a call of a function that may execute such
// an instruction is itself such an event.
func LiftMay(pred func(ssa.Instruction) bool, depth int) func(ssa.Instruction) bool {
	return func(in ssa.Instruction) bool {
		if pred(in) {
			return true
		}
		if depth <= 0 {
			return false
		}
		ci, ok := in.(ssa.CallInstruction)
		if !ok {
			return false
		}
		h := ci.Common().StaticCallee()
		return h != nil && h.Blocks != nil && MayPass(h, pred, depth-1)
	}
}
