package rules

import (
	"fmt"
	"go/token"
	"go/types"
	"strings"

	"golang.org/x/tools/go/ssa"

	"verif/internal/core"
)

// C44 — session resumption cannot be forged or used to bypass policy.
func init() {
	Register(&Rule{
		ID: "C44", Section: "5 C44",
		Technique: "guard census (dominance with boolean-phi expansion and disjunctive merge guards) on checkForResumption's `return true` and on decryptTicket; value-flow of the session state into/out of tickets and the session cache; ordering of policy inputs before the resumption decision",
		Meta: core.Meta{
			Level:       "other",
			Explanation: "Decides: (a) in Conn.decryptTicket the HMAC (key = config.SessionTicketKey[16:32], input = the ticket from byte 0 up to the tag) is compared with the ticket's tag and the mismatch branch is taken before the AES key setup, the CTR decryption and sessionState.unmarshal; the ok result is unmarshal's result on the returned state; every slicing of the ticket is preceded by the length check; encryptTicket MACs the same span with the same key; the ticket buffer is intact when it is authenticated: every instruction of decryptTicket that may write into (a re-slicing of) the ticket - element stores, copy/append into it, hash.Sum(b), stream/block cipher output, any callee not known to be read-only (in-module callees followed to depth 2) - lies behind the established MAC equality, and the recomputed HMAC is not produced into the ticket's storage (Sum(nil) or a fresh buffer), so the comparison never compares the buffer with itself; (b) serverHandshakeState.sessionState is only ever nil, decryptTicket's state (its ok==false edge cannot reach `return true`), or a fresh state whose unmarshal of ServerSessionCache.Get's value succeeded after Get reported a hit; (c) `return true` of checkForResumption is reached only under: sessionState != nil; sessionState.vers <= clientHello.vers; mutualVersion(sessionState.vers) ok and equal to sessionState.vers; sessionState.cipherSuite equal to an element of clientHello.cipherSuites; hs.suite = tryCipherSuite(sessionState.cipherSuite, config.cipherSuites(), …) non-nil; (clientAuth != RequireAnyClientCert or session has certificates) and the same for RequireAndVerifyClientCert; (d) readClientHello sets c.clientAuth and the capability flags before calling checkForResumption and not after; (e) doResumeHandshake takes the master secret from the session state and the cipher suite from the validated hs.suite, re-verifies stored client certificates, and the connection version equals the session's version (guard c.vers == sessionState.vers or an assignment); (f) the state put into tickets and the session cache is (c.vers, hs.suite.id, hs.masterSecret, hs.certsFromClient). Not covered: key rotation histories, cache implementations (ServerSessionCache), ticket lifetime, the cryptographic strength of HMAC/AES.",
			RuleText:    "obligations = each guarded operation and return of decryptTicket, each may-write use of the ticket buffer in decryptTicket and the storage of the recomputed HMAC, the MAC spans and keys of decryptTicket/encryptTicket, each store to hs.sessionState, each required guard of checkForResumption's `return true`, each store of policy inputs in readClientHello relative to the resumption call, each field copied on resumption and on ticket/cache issuance",
			Assumptions: []string{"crypto/hmac, crypto/subtle.ConstantTimeCompare, crypto/aes and crypto/cipher behave as documented", "ServerSessionCache.Get returns only values previously Put by this server"},
		},
		Run: runC44,
		Mutants: []Mutant{
			{Name: "ticket-mac-not-checked", File: "bfe_tls/ticket.go", Old: "	if subtle.ConstantTimeCompare(macBytes, expected) != 1 {\n		return nil, false\n	}\n", New: "	if subtle.ConstantTimeCompare(macBytes, expected) != 1 && len(macBytes) == 0 {\n		return nil, false\n	}\n", Expect: "ticket-mac-first"},
			{Name: "ticket-mac-skips-iv", File: "bfe_tls/ticket.go", Old: "	mac := hmac.New(sha256.New, c.config.SessionTicketKey[16:32])\n	mac.Write(encrypted[:len(encrypted)-sha256.Size])\n	expected := mac.Sum(nil)", New: "	mac := hmac.New(sha256.New, c.config.SessionTicketKey[16:32])\n	mac.Write(encrypted[aes.BlockSize : len(encrypted)-sha256.Size])\n	expected := mac.Sum(nil)", Expect: "ticket-mac-span"},
			{Name: "ticket-unmarshal-result-dropped", File: "bfe_tls/ticket.go", Old: "	ok := state.unmarshal(plaintext)\n	return state, ok", New: "	state.unmarshal(plaintext)\n	return state, true", Expect: "ticket-return"},
			{Name: "ticket-length-check-weakened", File: "bfe_tls/ticket.go", Old: "	if len(encrypted) < aes.BlockSize+sha256.Size {\n		return nil, false\n	}\n\n	iv := encrypted[:aes.BlockSize]\n	macBytes := encrypted[len(encrypted)-sha256.Size:]\n\n	mac := hmac.New(sha256.New, c.config.SessionTicketKey[16:32])\n	mac.Write(encrypted[:len(encrypted)-sha256.Size])\n	expected", New: "	if len(encrypted) < aes.BlockSize {\n		return nil, false\n	}\n\n	iv := encrypted[:aes.BlockSize]\n	macBytes := encrypted[len(encrypted)-sha256.Size:]\n\n	mac := hmac.New(sha256.New, c.config.SessionTicketKey[16:32])\n	mac.Write(encrypted[:len(encrypted)-sha256.Size])\n	expected", Expect: "ticket-length"},
			{Name: "ticket-tag-overwritten-before-compare", File: "bfe_tls/ticket.go", Old: "	expected := mac.Sum(nil)\n", New: "	expected := mac.Sum(nil)\n	copy(macBytes, expected)\n", Expect: "ticket-intact|decryptTicket:copy"},
			{Name: "ticket-mac-summed-into-ticket", File: "bfe_tls/ticket.go", Old: "	expected := mac.Sum(nil)\n", New: "	expected := mac.Sum(encrypted[:0])\n", Expect: "ticket-intact|decryptTicket:computed-mac"},
			{Name: "silent-mac-into-fresh-buffer", Silent: true, File: "bfe_tls/ticket.go", Old: "	expected := mac.Sum(nil)\n", New: "	expected := mac.Sum(make([]byte, 0, sha256.Size))\n"},
			{Name: "ticket-failure-ignored", File: "bfe_tls/handshake_server.go", Old: "		if hs.sessionState, ok = c.decryptTicket(hs.clientHello.sessionTicket); !ok {\n			return false\n		}", New: "		if hs.sessionState, ok = c.decryptTicket(hs.clientHello.sessionTicket); !ok {\n			state.TlsHandshakeCheckResumeSessionCache.Inc(1)\n		}", Expect: "session-source"},
			{Name: "cache-unmarshal-ignored", File: "bfe_tls/handshake_server.go", Old: "			if ok := candidateSession.unmarshal(sessionParam); !ok {\n				return false\n			}", New: "			candidateSession.unmarshal(sessionParam)", Expect: "session-source"},
			{Name: "session-version-above-client", File: "bfe_tls/handshake_server.go", Old: "	if hs.sessionState == nil || hs.sessionState.vers > hs.clientHello.vers {", New: "	if hs.sessionState == nil {", Expect: "resume-guard|checkForResumption:vers-le-client"},
			{Name: "mutual-version-result-unused", File: "bfe_tls/handshake_server.go", Old: "ok := c.config.mutualVersion(hs.sessionState.vers); !ok || vers != hs.sessionState.vers {", New: "ok := c.config.mutualVersion(hs.sessionState.vers); !ok && vers != hs.sessionState.vers {", Expect: "resume-guard|checkForResumption:vers-"},
			{Name: "client-suite-offer-unchecked", File: "bfe_tls/handshake_server.go", Old: "	if !cipherSuiteOk {\n		return false\n	}\n", New: "	_ = cipherSuiteOk\n", Expect: "resume-guard|checkForResumption:suite-offered"},
			{Name: "suite-offer-compares-wrong-field", File: "bfe_tls/handshake_server.go", Old: "		if id == hs.sessionState.cipherSuite {\n			cipherSuiteOk = true", New: "		if id == hs.sessionState.vers {\n			cipherSuiteOk = true", Expect: "resume-guard|checkForResumption:suite-offered"},
			{Name: "server-suite-check-dropped", File: "bfe_tls/handshake_server.go", Old: "		hs.ellipticOk, hs.ecdsaOk, hs.chachaOk, hs.useRC4)\n	if hs.suite == nil {\n		return false\n	}\n\n	sessionHasClientCerts", New: "		hs.ellipticOk, hs.ecdsaOk, hs.chachaOk, hs.useRC4)\n\n	sessionHasClientCerts", Expect: "resume-guard|checkForResumption:suite-enabled"},
			{Name: "require-and-verify-not-enforced", File: "bfe_tls/handshake_server.go", Old: "	needClientCerts := c.clientAuth == RequireAnyClientCert || c.clientAuth == RequireAndVerifyClientCert\n", New: "	needClientCerts := c.clientAuth == RequireAnyClientCert\n", Expect: "resume-guard|checkForResumption:client-cert:RequireAndVerifyClientCert"},
			{Name: "client-cert-condition-inverted", File: "bfe_tls/handshake_server.go", Old: "	if needClientCerts && !sessionHasClientCerts {\n		return false\n	}", New: "	if needClientCerts && sessionHasClientCerts {\n		return false\n	}", Expect: "resume-guard|checkForResumption:client-cert"},
			{Name: "client-auth-set-after-resumption", File: "bfe_tls/handshake_server.go", Old: "	if rule != nil && rule.ClientAuth {\n		c.clientAuth = RequireAndVerifyClientCert\n		c.clientCAs = rule.ClientCAs\n		c.clientCAName = rule.ClientCAName\n		c.clientCRLPool = rule.ClientCRLPool\n	}\n\n	// check whether chacha20-poly1305 is enabled for current connection\n	if rule != nil {\n		hs.chachaOk = rule.Chacha20\n	}\n\n	// See RFC 7507: refuse an inappropriate fallback before deciding on\n	// resumption, otherwise a resumable hello bypasses the check.\n	for _, id := range hs.clientHello.cipherSuites {\n		if id == TLS_FALLBACK_SCSV {\n			// The client is doing a fallback connection.\n			if hs.clientHello.vers < c.config.maxVersion() {\n				c.sendAlert(alertInappropriateFallback)\n				return false, errors.New(\"tls: client using inppropriate protocol fallback\")\n			}\n			break\n		}\n	}\n\n	if hs.checkForResumption() {\n		return true, nil\n	}\n", New: "	// check whether chacha20-poly1305 is enabled for current connection\n	if rule != nil {\n		hs.chachaOk = rule.Chacha20\n	}\n\n	// See RFC 7507: refuse an inappropriate fallback before deciding on\n	// resumption, otherwise a resumable hello bypasses the check.\n	for _, id := range hs.clientHello.cipherSuites {\n		if id == TLS_FALLBACK_SCSV {\n			// The client is doing a fallback connection.\n			if hs.clientHello.vers < c.config.maxVersion() {\n				c.sendAlert(alertInappropriateFallback)\n				return false, errors.New(\"tls: client using inppropriate protocol fallback\")\n			}\n			break\n		}\n	}\n\n	if hs.checkForResumption() {\n		return true, nil\n	}\n	if rule != nil && rule.ClientAuth {\n		c.clientAuth = RequireAndVerifyClientCert\n		c.clientCAs = rule.ClientCAs\n		c.clientCAName = rule.ClientCAName\n		c.clientCRLPool = rule.ClientCRLPool\n	}\n", Expect: "policy-before-resume"},
			{Name: "resumed-master-secret-fresh", File: "bfe_tls/handshake_server.go", Old: "	hs.masterSecret = hs.sessionState.masterSecret\n", New: "	hs.masterSecret = hs.clientHello.random\n", Expect: "resume-copy"},
			{Name: "ticket-stores-client-version", File: "bfe_tls/handshake_server.go", Old: "	state := sessionState{\n		vers:         c.vers,", New: "	state := sessionState{\n		vers:         hs.clientHello.vers,", Expect: "issue-state"},
			{Name: "silent-cache-lookup-and-cert-policy-extracted", Silent: true, File: "bfe_tls/handshake_server.go", Old: "\t\t\tsessionCache := c.config.ServerSessionCache\n\t\t\tsessionParam, ok := sessionCache.Get(fmt.Sprintf(\"%x\", hs.clientHello.sessionId))\n\t\t\tif !ok {\n\t\t\t\treturn false\n\t\t\t}\n\n\t\t\tcandidateSession := new(sessionState)\n\t\t\tif ok := candidateSession.unmarshal(sessionParam); !ok {\n\t\t\t\treturn false\n\t\t\t}\n\t\t\ths.sessionState = candidateSession\n\t\t}\n\t}\n\n\tif hs.sessionState == nil || hs.sessionState.vers > hs.clientHello.vers {\n\t\treturn false\n\t}\n\tif vers, ok := c.config.mutualVersion(hs.sessionState.vers); !ok || vers != hs.sessionState.vers {\n\t\treturn false\n\t}\n\t// Never resume a session for a different TLS version.\n\tif c.vers != hs.sessionState.vers {\n\t\treturn false\n\t}\n\n\tcipherSuiteOk := false\n\t// Check that the client is still offering the ciphersuite in the session.\n\tfor _, id := range hs.clientHello.cipherSuites {\n\t\tif id == hs.sessionState.cipherSuite {\n\t\t\tcipherSuiteOk = true\n\t\t\tbreak\n\t\t}\n\t}\n\tif !cipherSuiteOk {\n\t\treturn false\n\t}\n\n\t// Check that we also support the ciphersuite from the session.\n\ths.suite, _ = c.tryCipherSuite(hs.sessionState.cipherSuite, c.config.cipherSuites(), hs.sessionState.vers,\n\t\ths.ellipticOk, hs.ecdsaOk, hs.chachaOk, hs.useRC4)\n\tif hs.suite == nil {\n\t\treturn false\n\t}\n\n\tsessionHasClientCerts := len(hs.sessionState.certificates) != 0\n\tneedClientCerts := c.clientAuth == RequireAnyClientCert || c.clientAuth == RequireAndVerifyClientCert\n\tif needClientCerts && !sessionHasClientCerts {\n\t\treturn false\n\t}\n\tif sessionHasClientCerts && c.clientAuth == NoClientCert {\n\t\treturn false\n\t}\n\n\tif hs.sessionTicketOK {\n\t\tstate.TlsHandshakeShouldResumeSessionTicket.Inc(1)\n\t} else {\n\t\tstate.TlsHandshakeShouldResumeSessionCache.Inc(1)\n\t}\n\n\ths.validateHttp2Accepted()\n\n\treturn true", New: "\t\t\tcandidateSession, found := hs.loadSessionFromCache(c.config.ServerSessionCache)\n\t\t\tif !found {\n\t\t\t\treturn false\n\t\t\t}\n\t\t\ths.sessionState = candidateSession\n\t\t}\n\t}\n\n\tif hs.sessionState == nil || hs.sessionState.vers > hs.clientHello.vers {\n\t\treturn false\n\t}\n\tif vers, ok := c.config.mutualVersion(hs.sessionState.vers); !ok || vers != hs.sessionState.vers {\n\t\treturn false\n\t}\n\t// Never resume a session for a different TLS version.\n\tif c.vers != hs.sessionState.vers {\n\t\treturn false\n\t}\n\n\tcipherSuiteOk := false\n\t// Check that the client is still offering the ciphersuite in the session.\n\tfor _, id := range hs.clientHello.cipherSuites {\n\t\tif id == hs.sessionState.cipherSuite {\n\t\t\tcipherSuiteOk = true\n\t\t\tbreak\n\t\t}\n\t}\n\tif !cipherSuiteOk {\n\t\treturn false\n\t}\n\n\t// Check that we also support the ciphersuite from the session.\n\ths.suite, _ = c.tryCipherSuite(hs.sessionState.cipherSuite, c.config.cipherSuites(), hs.sessionState.vers,\n\t\ths.ellipticOk, hs.ecdsaOk, hs.chachaOk, hs.useRC4)\n\tif hs.suite == nil {\n\t\treturn false\n\t}\n\n\tif !sessionMatchesClientAuth(hs.sessionState, c.clientAuth) {\n\t\treturn false\n\t}\n\n\tif hs.sessionTicketOK {\n\t\tstate.TlsHandshakeShouldResumeSessionTicket.Inc(1)\n\t} else {\n\t\tstate.TlsHandshakeShouldResumeSessionCache.Inc(1)\n\t}\n\n\ths.validateHttp2Accepted()\n\n\treturn true\n}\n\n// sessionMatchesClientAuth reports whether the client certificates recorded in\n// the session are compatible with the client-auth policy of the connection.\nfunc sessionMatchesClientAuth(session *sessionState, clientAuth ClientAuthType) bool {\n\tsessionHasClientCerts := len(session.certificates) != 0\n\tneedClientCerts := clientAuth == RequireAnyClientCert || clientAuth == RequireAndVerifyClientCert\n\tif needClientCerts && !sessionHasClientCerts {\n\t\treturn false\n\t}\n\tif sessionHasClientCerts && clientAuth == NoClientCert {\n\t\treturn false\n\t}\n\treturn true\n}\n\n// loadSessionFromCache fetches the session state stored under the session id\n// offered by the client and decodes it. It reports false if the cache has no\n// such entry or the entry can not be decoded.\nfunc (hs *serverHandshakeState) loadSessionFromCache(sessionCache ServerSessionCache) (*sessionState, bool) {\n\tsessionParam, ok := sessionCache.Get(fmt.Sprintf(\"%x\", hs.clientHello.sessionId))\n\tif !ok {\n\t\treturn nil, false\n\t}\n\n\tcandidateSession := new(sessionState)\n\tif ok := candidateSession.unmarshal(sessionParam); !ok {\n\t\treturn nil, false\n\t}\n\treturn candidateSession, true"},
			{Name: "silent-defensive-suite-recheck-clears-suite", Silent: true, File: "bfe_tls/handshake_server.go", Old: "\t\ths.ellipticOk, hs.ecdsaOk, hs.chachaOk, hs.useRC4)\n\tif hs.suite == nil {\n\t\treturn false\n\t}\n\n\tsessionHasClientCerts", New: "\t\ths.ellipticOk, hs.ecdsaOk, hs.chachaOk, hs.useRC4)\n\tif hs.suite == nil {\n\t\treturn false\n\t}\n\t// defensive, cannot fire: tryCipherSuite never returns a TLS1.2-only suite below TLS1.2\n\tif hs.suite.flags&suiteTLS12 != 0 && hs.sessionState.vers < VersionTLS12 {\n\t\ths.suite = nil\n\t\treturn false\n\t}\n\n\tsessionHasClientCerts"},
			{Name: "silent-guard-extracted", Silent: true, File: "bfe_tls/handshake_server.go", Old: "	if hs.sessionState == nil || hs.sessionState.vers > hs.clientHello.vers {\n		return false\n	}", New: "	if hs.sessionState == nil {\n		return false\n	}\n	sessVers := hs.sessionState.vers\n	if !(sessVers <= hs.clientHello.vers) {\n		state.TlsHandshakeCheckResumeSessionCache.Inc(0)\n		return false\n	}"},
		},
	})
}

func runC44(c *core.Ctx) {
	if c.P.Pkg(tlsPkg) == nil {
		c.Missing(tlsPkg)
		return
	}
	fns := c.P.SrcFuncs(tlsPkg)
	c44Ticket(c)
	c44Resumption(c, fns)
	c44Order(c)
	c44Copy(c, fns)
}

// c44IsHMACSum: v is Sum() of a hash created by crypto/hmac.New; returns the hmac.New call.
func c44IsHMACSum(v ssa.Value) *ssa.Call {
	call, ok := core.StripConv(v).(*ssa.Call)
	if !ok || !call.Call.IsInvoke() || call.Call.Method.Name() != "Sum" {
		return nil
	}
	return tlsCallOf(call.Call.Value, "crypto/hmac.New")
}

func c44Ticket(c *core.Ctx) {
	keyF := tlsField(c, "Config.SessionTicketKey")
	dt := tlsFunc(c, "Conn.decryptTicket")
	et := tlsFunc(c, "Conn.encryptTicket")
	if keyF == nil || dt == nil {
		return
	}
	enc := tlsParamAt(dt, 1) // the ticket (by position)
	isEncSlice := func(v ssa.Value) *ssa.Slice {
		s, ok := core.StripConv(v).(*ssa.Slice)
		if !ok || !tlsIsParam(s.X, enc) {
			return nil
		}
		return s
	}
	keySlice := func(v ssa.Value) (lo, hi int64, ok bool) {
		s, isS := core.StripConv(v).(*ssa.Slice)
		if !isS {
			return 0, 0, false
		}
		if f, _ := tlsFieldAddrOf(s.X); f != keyF {
			return 0, 0, false
		}
		lo, hi = 0, 32
		if s.Low != nil {
			if lo, ok = tlsConstInt(s.Low); !ok {
				return 0, 0, false
			}
		}
		if s.High != nil {
			if hi, ok = tlsConstInt(s.High); !ok {
				return 0, 0, false
			}
		}
		return lo, hi, true
	}
	// the MAC-equal fact
	var hmacNew, sumCall *ssa.Call
	var tag *ssa.Slice
	macOK := func(f tlsFact) bool {
		check := func(call *ssa.Call) bool {
			if len(call.Call.Args) != 2 {
				return false
			}
			for _, pr := range [][2]ssa.Value{{call.Call.Args[0], call.Call.Args[1]}, {call.Call.Args[1], call.Call.Args[0]}} {
				if h := c44IsHMACSum(pr[0]); h != nil {
					if s := isEncSlice(pr[1]); s != nil {
						hmacNew, tag = h, s
						sumCall, _ = core.StripConv(pr[0]).(*ssa.Call)
						return true
					}
				}
			}
			return false
		}
		if call, eq := c42Compare(f.V); call != nil && eq == -1 {
			return f.Pol && check(call)
		}
		x, y, op, ok := tlsRel(f)
		if !ok || op != token.EQL {
			return false
		}
		for _, pr := range [][2]ssa.Value{{x, y}, {y, x}} {
			if call, eq := c42Compare(pr[0]); call != nil && eq == 1 {
				if k, isK := tlsConstInt(pr[1]); isK && k == 1 {
					return check(call)
				}
			}
		}
		return false
	}
	// guarded operations
	ord := map[string]int{}
	for _, ci := range core.AllCalls(dt) {
		cc := ci.Common()
		kind := ""
		switch {
		case core.CallIs(cc, "crypto/aes.NewCipher"):
			kind = "aes-key-setup"
		case core.CallIs(cc, "crypto/cipher.NewCTR", "crypto/cipher.NewCBCDecrypter"):
			kind = "cipher-setup"
		case cc.IsInvoke() && (cc.Method.Name() == "XORKeyStream" || cc.Method.Name() == "CryptBlocks"):
			kind = "decrypt"
		case core.CallIs(cc, tlsPkg+".sessionState.unmarshal"):
			kind = "unmarshal"
		}
		if kind == "" {
			continue
		}
		ord[kind]++
		in := ci.(ssa.Instruction)
		c.Check("ticket-mac-first", fmt.Sprintf("decryptTicket:%s#%d", kind, ord[kind]), in.Pos(), tlsDomGuarded(in.Block(), macOK),
			"decryptTicket performs "+kind+" although equality of the ticket's HMAC tag and the recomputed HMAC was not established: unauthenticated ticket bytes are decrypted/parsed; facts: "+tlsFactStrs(in.Block()))
	}
	c.Min("ticket-mac-first", 3)
	// the ticket bytes are not modified before they are authenticated
	c44TicketIntact(c, dt, enc, macOK, func() *ssa.Call { return sumCall })
	// returns
	n := 0
	for _, r := range core.Returns(dt) {
		rv := core.RetVals(r)
		if len(rv) != 2 {
			continue
		}
		if b, isK := tlsIsBoolConst(rv[1]); isK && !b {
			continue
		}
		n++
		um := tlsCallOf(rv[1], tlsPkg+".sessionState.unmarshal")
		ok := um != nil && len(um.Call.Args) == 2 && um.Call.Args[0] == rv[0] && tlsDomGuarded(r.Block(), macOK)
		c.Check("ticket-return", fmt.Sprintf("decryptTicket:return#%d", n), r.Pos(), ok,
			"decryptTicket reports ok="+core.Render(rv[1])+" for state "+core.Render(rv[0])+"; expected the result of unmarshal on that very state, after the MAC check")
	}
	c.Min("ticket-return", 1)
	// spans and keys
	if hmacNew == nil || tag == nil {
		c.Check("ticket-mac-span", "decryptTicket:hmac", dt.Pos(), false, "no comparison of an hmac.New(...).Sum() with a slice of the ticket found in decryptTicket")
	} else {
		var span *ssa.Slice
		for _, ci := range core.AllCalls(dt) {
			cc := ci.Common()
			if cc.IsInvoke() && cc.Method.Name() == "Write" && cc.Value == ssa.Value(hmacNew) && len(cc.Args) == 1 {
				span = isEncSlice(cc.Args[0])
			}
		}
		ok := span != nil && span.Low == nil && span.High != nil && tag.Low != nil && tag.High == nil && core.Render(span.High) == core.Render(tag.Low)
		c.Check("ticket-mac-span", "decryptTicket:hmac", hmacNew.Pos(), ok,
			"the HMAC of decryptTicket must cover the ticket from byte 0 (IV included) up to where the tag begins; found write="+renderOrNone(span)+" tag="+core.Render(tag))
		if len(hmacNew.Call.Args) == 2 {
			lo, hi, isKey := keySlice(hmacNew.Call.Args[1])
			c.Check("ticket-key", "decryptTicket:hmac-key", hmacNew.Pos(), isKey && lo == 16 && hi == 32, "decryptTicket's HMAC key is "+core.Render(hmacNew.Call.Args[1])+", expected config.SessionTicketKey[16:32]")
		}
	}
	for _, ci := range core.Calls(dt, "crypto/aes.NewCipher") {
		lo, hi, isKey := keySlice(ci.Common().Args[0])
		c.Check("ticket-key", "decryptTicket:aes-key", ci.Pos(), isKey && lo == 0 && hi == 16, "decryptTicket's AES key is "+core.Render(ci.Common().Args[0])+", expected config.SessionTicketKey[:16]")
	}
	c.Min("ticket-mac-span", 1)
	c.Min("ticket-key", 2)
	// every slicing of the ticket is preceded by the length check
	ns := 0
	for _, in := range tlsInstrs(dt) {
		s, ok := in.(*ssa.Slice)
		if !ok || !tlsIsParam(s.X, enc) {
			continue
		}
		ns++
		okLen := tlsDomGuarded(s.Block(), func(f tlsFact) bool {
			return tlsHolds(f, func(v ssa.Value) bool {
				call, ok := core.StripConv(v).(*ssa.Call)
				return ok && core.CalleeKey(&call.Call) == "builtin:len" && len(call.Call.Args) == 1 && tlsIsParam(call.Call.Args[0], enc)
			}, func(v ssa.Value) bool { k, ok := tlsConstInt(v); return ok && k >= 48 }, token.GEQ, token.GTR, token.EQL)
		})
		c.Check("ticket-length", fmt.Sprintf("decryptTicket:slice#%d", ns), s.Pos(), okLen, "the ticket is sliced ("+core.Render(s)+") without len(encrypted) >= aes.BlockSize+sha256.Size (48) being established: a short ticket panics or is mis-parsed")
	}
	c.Min("ticket-length", 3)
	// encryptTicket: same span, same keys
	if et != nil {
		var h *ssa.Call
		for _, ci := range core.Calls(et, "crypto/hmac.New") {
			h, _ = ci.(*ssa.Call)
		}
		okSpan, okKey, okTag := false, false, false
		if h != nil {
			if len(h.Call.Args) == 2 {
				lo, hi, isKey := keySlice(h.Call.Args[1])
				okKey = isKey && lo == 16 && hi == 32
			}
			var spanHigh string
			for _, ci := range core.AllCalls(et) {
				cc := ci.Common()
				if !cc.IsInvoke() || cc.Value != ssa.Value(h) {
					continue
				}
				switch cc.Method.Name() {
				case "Write":
					if s, ok := core.StripConv(cc.Args[0]).(*ssa.Slice); ok && s.Low == nil && s.High != nil {
						okSpan = true
						spanHigh = core.Render(s.X) + "@" + core.Render(s.High)
					}
				case "Sum":
					// Sum(macBytes[:0]) with macBytes = encrypted[len-32:]
					if s, ok := core.StripConv(cc.Args[0]).(*ssa.Slice); ok {
						if base, ok := core.StripConv(s.X).(*ssa.Slice); ok && base.Low != nil && base.High == nil {
							okTag = core.Render(base.X)+"@"+core.Render(base.Low) == spanHigh
						}
					}
				}
			}
		}
		c.Check("ticket-issue", "encryptTicket:hmac-span", et.Pos(), okSpan && okTag, "encryptTicket must MAC the ticket from byte 0 up to the tag and write the tag right after that span")
		c.Check("ticket-issue", "encryptTicket:hmac-key", et.Pos(), okKey, "encryptTicket's HMAC key must be config.SessionTicketKey[16:32]")
		okAES := false
		for _, ci := range core.Calls(et, "crypto/aes.NewCipher") {
			lo, hi, isKey := keySlice(ci.Common().Args[0])
			okAES = isKey && lo == 0 && hi == 16
		}
		c.Check("ticket-issue", "encryptTicket:aes-key", et.Pos(), okAES, "encryptTicket's AES key must be config.SessionTicketKey[:16]")
		c.Min("ticket-issue", 3)
	}
}

func renderOrNone(s *ssa.Slice) string {
	if s == nil {
		return "<none>"
	}
	return core.Render(s)
}

func c44Resumption(c *core.Ctx, fns []*ssa.Function) {
	cfr := tlsFunc(c, "serverHandshakeState.checkForResumption")
	ssF := tlsField(c, "serverHandshakeState.sessionState")
	suiteF := tlsField(c, "serverHandshakeState.suite")
	ssVers := tlsField(c, "sessionState.vers")
	ssSuite := tlsField(c, "sessionState.cipherSuite")
	ssCerts := tlsField(c, "sessionState.certificates")
	chVers := tlsField(c, "clientHelloMsg.vers")
	chSuites := tlsField(c, "clientHelloMsg.cipherSuites")
	authF := tlsField(c, "Conn.clientAuth")
	versF := tlsField(c, "Conn.vers")
	if cfr == nil || ssF == nil || suiteF == nil || ssVers == nil || ssSuite == nil || ssCerts == nil || chVers == nil || chSuites == nil || authF == nil || versF == nil {
		return
	}
	const dtName, umName, mvName, tryName = tlsPkg + ".Conn.decryptTicket", tlsPkg + ".sessionState.unmarshal", tlsPkg + ".Config.mutualVersion", tlsPkg + ".Conn.tryCipherSuite"
	var trues []*ssa.Return
	for _, r := range core.Returns(cfr) {
		rv := core.RetVals(r)
		if len(rv) != 1 {
			continue
		}
		if b, isK := tlsIsBoolConst(rv[0]); isK && !b {
			continue
		}
		trues = append(trues, r)
	}
	isTrue := func(in ssa.Instruction) bool {
		for _, r := range trues {
			if in == ssa.Instruction(r) {
				return true
			}
		}
		return false
	}
	// (b) sources of hs.sessionState (whole package)
	ord := map[string]int{}
	for _, st := range core.FieldStores(fns, ssF) {
		k := strings.TrimPrefix(core.FuncKey(st.Fn), tlsPkg+".")
		ord[k]++
		key := fmt.Sprintf("%s:store#%d", k, ord[k])
		v := st.Store.Val
		switch {
		case tlsIsNil(v):
			c.Check("session-source", key, st.Store.Pos(), true, "")
		case tlsExtractOf(v, 0) != nil && core.CallIs(&tlsExtractOf(v, 0).Call, dtName):
			call := tlsExtractOf(v, 0)
			// the !ok edge must not reach `return true`
			ok := false
			for _, in := range tlsInstrs(st.Fn) {
				ifi, isIf := in.(*ssa.If)
				if !isIf {
					continue
				}
				f := tlsNorm(ifi.Cond, true)
				if tlsExtractOf(f.V, 1) != call {
					continue
				}
				failSucc := ifi.Block().Succs[1]
				if !f.Pol {
					failSucc = ifi.Block().Succs[0]
				}
				bypass := core.ReachAvoiding(st.Fn, st.Store, func(x ssa.Instruction) bool { return x == ssa.Instruction(ifi) }, isTrue)
				ok = st.Fn == cfr && !tlsBlockReaches(cfr, failSucc, isTrue) && bypass == nil
			}
			arg := ""
			if len(call.Call.Args) == 2 {
				arg = core.Render(call.Call.Args[1])
			}
			c.Check("session-source", key, st.Store.Pos(), ok, "the session state comes from decryptTicket("+arg+") but its ok==false outcome can still lead to resumption")
		default:
			// a fresh state whose unmarshal succeeded on the cache's value after a hit,
			// built here or in a helper that reports success through a boolean result
			ok, why := c44FreshFromCache(v, st.Store.Block(), umName, 0)
			c.Check("session-source", key, st.Store.Pos(), ok, why)
		}
	}
	c.Min("session-source", 3)

	// (c) guards of `return true`
	isSessField := func(f *types.Var) func(ssa.Value) bool {
		return func(v ssa.Value) bool {
			g, base := tlsFieldOf(v)
			return g == f && tlsIsField(base, ssF)
		}
	}
	isSessVers, isSessSuite := isSessField(ssVers), isSessField(ssSuite)
	reqAny, ok1 := tlsPkgConst(c, "RequireAnyClientCert")
	reqVerify, ok2 := tlsPkgConst(c, "RequireAndVerifyClientCert")
	if !ok1 || !ok2 {
		return
	}
	hasCerts := func(f tlsFact) bool {
		// len(sessionState.certificates) != 0 (or > 0)
		return tlsHolds(f, func(v ssa.Value) bool {
			call, ok := core.StripConv(v).(*ssa.Call)
			return ok && core.CalleeKey(&call.Call) == "builtin:len" && len(call.Call.Args) == 1 && isSessField(ssCerts)(call.Call.Args[0])
		}, func(v ssa.Value) bool { k, ok := tlsConstInt(v); return ok && k == 0 }, token.NEQ, token.GTR)
	}
	authNot := func(k int64) func(tlsFact) bool {
		return func(f tlsFact) bool {
			return tlsHolds(f, func(v ssa.Value) bool { return tlsIsField(v, authF) }, func(v ssa.Value) bool { n, ok := tlsConstInt(v); return ok && n == k }, token.NEQ)
		}
	}
	for i, r := range trues {
		pre := "checkForResumption:"
		suf := ""
		if len(trues) > 1 {
			suf = fmt.Sprintf("#%d", i+1)
		}
		chk := func(name string, want func(tlsFact) bool, msg string) {
			c.Check("resume-guard", pre+name+suf, r.Pos(), tlsDomGuarded(r.Block(), want), "resumption is accepted although "+msg+"; facts: "+tlsFactStrs(r.Block()))
		}
		chk("session-present", func(f tlsFact) bool {
			x, y, op, ok := tlsRel(f)
			return ok && op == token.NEQ && ((tlsIsField(x, ssF) && tlsIsNil(y)) || (tlsIsField(y, ssF) && tlsIsNil(x)))
		}, "hs.sessionState != nil was not established")
		chk("vers-le-client", func(f tlsFact) bool {
			return tlsHolds(f, isSessVers, func(v ssa.Value) bool { return tlsIsField(v, chVers) }, token.LEQ, token.LSS, token.EQL)
		}, "sessionState.vers <= clientHello.vers was not established (a session of a higher version than the client now offers)")
		isMV := func(v ssa.Value, idx int) bool {
			call := tlsExtractOf(v, idx)
			return call != nil && core.CallIs(&call.Call, mvName) && len(call.Call.Args) == 2 && isSessVers(call.Call.Args[1])
		}
		chk("vers-enabled", func(f tlsFact) bool { return f.Pol && isMV(f.V, 1) }, "mutualVersion(sessionState.vers) ok was not established (the session's version is no longer enabled)")
		chk("vers-exact", func(f tlsFact) bool {
			return tlsHolds(f, func(v ssa.Value) bool { return isMV(v, 0) }, isSessVers, token.EQL)
		}, "mutualVersion(sessionState.vers) == sessionState.vers was not established (the session's version exceeds the configured maximum)")
		chk("suite-offered", func(f tlsFact) bool {
			return tlsHolds(f, func(v ssa.Value) bool { l, ok := tlsElemOf(v); return ok && tlsIsField(l, chSuites) }, isSessSuite, token.EQL)
		}, "the session's cipher suite was not found among clientHello.cipherSuites")
		chk("suite-enabled", func(f tlsFact) bool {
			x, y, op, ok := tlsRel(f)
			return ok && op == token.NEQ && ((tlsIsField(x, suiteF) && tlsIsNil(y)) || (tlsIsField(y, suiteF) && tlsIsNil(x)))
		}, "hs.suite != nil (tryCipherSuite accepted the session's suite against the server's list) was not established")
		chk("client-cert:RequireAnyClientCert", func(f tlsFact) bool { return hasCerts(f) || authNot(reqAny)(f) },
			"with clientAuth == RequireAnyClientCert the session was not required to carry client certificates")
		chk("client-cert:RequireAndVerifyClientCert", func(f tlsFact) bool { return hasCerts(f) || authNot(reqVerify)(f) },
			"with clientAuth == RequireAndVerifyClientCert the session was not required to carry client certificates")
		// hs.suite store on the way: tryCipherSuite(sessionState.cipherSuite, config.cipherSuites(), …)
		okStore := false
		for _, st := range core.FieldStores([]*ssa.Function{cfr}, suiteF) {
			// a store on a path that cannot reach this `return true` (clearing
			// hs.suite before refusing) does not decide the resumed suite
			if !tlsReaches(cfr, st.Store, nil, func(in ssa.Instruction) bool { return in == ssa.Instruction(r) }) {
				continue
			}
			call := tlsExtractOf(st.Store.Val, 0)
			if call == nil || !core.CallIs(&call.Call, tryName) || len(call.Call.Args) != 8 {
				okStore = false
				break
			}
			okStore = isSessSuite(call.Call.Args[1]) && tlsCallOf(call.Call.Args[2], tlsPkg+".Config.cipherSuites") != nil && core.Dominates(st.Store, r)
			if !okStore {
				break
			}
		}
		c.Check("resume-guard", pre+"suite-revalidated"+suf, r.Pos(), okStore, "hs.suite is not tryCipherSuite(sessionState.cipherSuite, config.cipherSuites(), …) on the way to `return true`")
		// version of the resumed connection
		versOK := tlsDomGuarded(r.Block(), func(f tlsFact) bool {
			return tlsHolds(f, func(v ssa.Value) bool { return tlsIsField(v, versF) }, isSessVers, token.EQL)
		})
		if !versOK {
			// or c.vers is assigned the session's version on the resumption path
			for _, fn := range []*ssa.Function{cfr, c.P.Func(tlsPkg, "serverHandshakeState.doResumeHandshake")} {
				if fn == nil {
					continue
				}
				for _, st := range core.FieldStores([]*ssa.Function{fn}, versF) {
					if isSessVers(st.Store.Val) {
						versOK = true
					}
				}
			}
		}
		c.Check("resume-version", pre+"connection-version"+suf, r.Pos(), versOK,
			"resumption is accepted with c.vers (negotiated from this hello) possibly different from sessionState.vers: neither c.vers == sessionState.vers is required nor is c.vers set from the session; the resumed connection does not keep the original version")
	}
	c.Min("resume-guard", 9)
	c.Min("resume-version", 1)
}

// (d) policy inputs are fixed before the resumption decision.
func c44Order(c *core.Ctx) {
	rch := tlsFunc(c, "serverHandshakeState.readClientHello")
	if rch == nil {
		return
	}
	calls := core.Calls(rch, tlsPkg+".serverHandshakeState.checkForResumption")
	c.Check("policy-before-resume", "readClientHello:resumption-call", rch.Pos(), len(calls) == 1, fmt.Sprintf("expected one checkForResumption call in readClientHello, found %d", len(calls)))
	c.Min("policy-before-resume", 6)
	if len(calls) != 1 {
		return
	}
	call := calls[0].(ssa.Instruction)
	for _, name := range []string{"Conn.clientAuth", "Conn.vers", "Conn.grade", "serverHandshakeState.ellipticOk", "serverHandshakeState.ecdsaOk", "serverHandshakeState.chachaOk", "serverHandshakeState.useRC4"} {
		f := tlsField(c, name)
		if f == nil {
			continue
		}
		// store events in readClientHello: direct stores and calls of helpers
		// (depth 2) that store the field; the resumption call itself is excluded
		var events []ssa.Instruction
		for _, st := range core.FieldStores([]*ssa.Function{rch}, f) {
			events = append(events, st.Store)
		}
		for _, ci := range core.AllCalls(rch) {
			cal := ci.Common().StaticCallee()
			if cal == nil || cal.Blocks == nil || ci.(ssa.Instruction) == call || core.FuncPkgRel(cal) != tlsPkg {
				continue
			}
			if len(core.FieldStores(core.TransitiveCallees(cal, 1), f)) > 0 {
				events = append(events, ci.(ssa.Instruction))
			}
		}
		stores := events
		after := false
		for _, ev := range events {
			ev := ev
			if tlsReaches(rch, call, nil, func(in ssa.Instruction) bool { return in == ev }) {
				after = true
			}
		}
		c.Check("policy-before-resume", "readClientHello:"+name, call.Pos(), len(stores) > 0 && !after,
			fmt.Sprintf("%s is a policy input of checkForResumption; it must be set in readClientHello before the call and not afterwards (stores=%d, store-after-call=%v)", name, len(stores), after))
	}
}

// (e,f) what is copied on resumption and on issuance.
func c44Copy(c *core.Ctx, fns []*ssa.Function) {
	drh := tlsFunc(c, "serverHandshakeState.doResumeHandshake")
	ssF := tlsField(c, "serverHandshakeState.sessionState")
	msF := tlsField(c, "serverHandshakeState.masterSecret")
	suiteF := tlsField(c, "serverHandshakeState.suite")
	certsF := tlsField(c, "serverHandshakeState.certsFromClient")
	ssMS := tlsField(c, "sessionState.masterSecret")
	ssCerts := tlsField(c, "sessionState.certificates")
	shSuite := tlsField(c, "serverHelloMsg.cipherSuite")
	csID := tlsField(c, "cipherSuite.id")
	versF := tlsField(c, "Conn.vers")
	if drh == nil || ssF == nil || msF == nil || suiteF == nil || certsF == nil || ssMS == nil || ssCerts == nil || shSuite == nil || csID == nil || versF == nil {
		return
	}
	fromSess := func(v ssa.Value, f *types.Var) bool {
		g, base := tlsFieldOf(v)
		return g == f && tlsIsField(base, ssF)
	}
	suiteID := func(v ssa.Value) bool {
		g, base := tlsFieldOf(v)
		return g == csID && tlsIsField(base, suiteF)
	}
	n := 0
	for _, st := range core.FieldStores([]*ssa.Function{drh}, msF) {
		n++
		c.Check("resume-copy", fmt.Sprintf("doResumeHandshake:masterSecret#%d", n), st.Store.Pos(), fromSess(st.Store.Val, ssMS), "the resumed handshake's master secret is "+core.Render(st.Store.Val)+", expected hs.sessionState.masterSecret")
	}
	c.Check("resume-copy", "doResumeHandshake:masterSecret-set", drh.Pos(), n >= 1, "doResumeHandshake does not set hs.masterSecret from the session")
	n = 0
	for _, st := range core.FieldStores([]*ssa.Function{drh}, shSuite) {
		n++
		c.Check("resume-copy", fmt.Sprintf("doResumeHandshake:cipherSuite#%d", n), st.Store.Pos(), suiteID(st.Store.Val), "the resumed ServerHello's cipher suite is "+core.Render(st.Store.Val)+", expected hs.suite.id (the session's suite re-validated by checkForResumption)")
	}
	c.Check("resume-copy", "doResumeHandshake:cipherSuite-set", drh.Pos(), n >= 1, "doResumeHandshake does not set the ServerHello's cipher suite")
	// stored client certificates are re-verified
	reverified := false
	for _, ci := range core.Calls(drh, tlsPkg+".serverHandshakeState.processCertsFromClient") {
		if len(ci.Common().Args) == 2 && fromSess(ci.Common().Args[1], ssCerts) {
			reverified = true
		}
	}
	c.Check("resume-copy", "doResumeHandshake:client-certs", drh.Pos(), reverified, "doResumeHandshake does not pass the session's stored client certificates through processCertsFromClient (verification, CRL)")
	c.Min("resume-copy", 5)

	// issuance: every sessionState composite built in the server handshake
	want := map[string]func(ssa.Value) bool{
		"vers":         func(v ssa.Value) bool { return tlsIsField(v, versF) },
		"cipherSuite":  suiteID,
		"masterSecret": func(v ssa.Value) bool { return tlsIsField(v, msF) },
		"certificates": func(v ssa.Value) bool { return tlsIsField(v, certsF) },
	}
	for _, fname := range []string{"serverHandshakeState.sendSessionTicket", "Conn.serverHandshake"} {
		fn := tlsFunc(c, fname)
		if fn == nil {
			continue
		}
		seen := map[string]bool{}
		for _, in := range tlsInstrs(fn) {
			st, ok := in.(*ssa.Store)
			if !ok {
				continue
			}
			f, base := tlsFieldAddrOf(st.Addr)
			if f == nil {
				continue
			}
			al, isAlloc := base.(*ssa.Alloc)
			if !isAlloc || !strings.HasSuffix(core.TypeStr(al.Type()), "*"+tlsPkg+".sessionState") {
				continue
			}
			w, tracked := want[f.Name()]
			if !tracked {
				continue
			}
			seen[f.Name()] = true
			c.Check("issue-state", fname+":"+f.Name(), st.Pos(), w(st.Val), "the issued session state's "+f.Name()+" is "+core.Render(st.Val)+"; expected the connection's own negotiated value (c.vers / hs.suite.id / hs.masterSecret / hs.certsFromClient)")
		}
		for name := range want {
			if !seen[name] {
				c.Check("issue-state", fname+":"+name, fn.Pos(), false, "the issued session state does not record "+name)
			}
		}
	}
	c.Min("issue-state", 8)
}

// c44FromTicket: v is the ticket parameter or a re-slicing of it (through phis).
func c44FromTicket(v ssa.Value, enc *ssa.Parameter, seen map[ssa.Value]bool) bool {
	v = core.StripConv(v)
	if seen[v] {
		return false
	}
	seen[v] = true
	if tlsIsParam(v, enc) {
		return true
	}
	switch x := v.(type) {
	case *ssa.Slice:
		return c44FromTicket(x.X, enc, seen)
	case *ssa.Phi:
		for _, e := range x.Edges {
			if c44FromTicket(e, enc, seen) {
				return true
			}
		}
	}
	return false
}

// c44ReadOnlyCallees take byte slices without modifying them.
var c44ReadOnlyCallees = []string{"crypto/subtle.ConstantTimeCompare", "crypto/hmac.Equal", "bytes.Equal", "bytes.Compare", "builtin:len", "builtin:cap"}

// c44MayWrite lists the instructions of fn that may modify the bytes of the
// slice parameter p: element stores, copy/append into it, and calls that
// receive (a re-slicing of) it in a position that is not known to be
// read-only. io.Writer.Write / hash.Hash.Write never modify their argument (the
// io.Writer contract); hash.Hash.Sum(b) appends to b and therefore writes into
// b's backing array; in-module callees are followed (depth 2).
func c44MayWrite(fn *ssa.Function, p *ssa.Parameter, depth int) (sites []ssa.Instruction, what []string) {
	from := func(v ssa.Value) bool { return c44FromTicket(v, p, map[ssa.Value]bool{}) }
	add := func(in ssa.Instruction, w string) { sites, what = append(sites, in), append(what, w) }
	for _, in := range tlsInstrs(fn) {
		switch x := in.(type) {
		case *ssa.Store:
			if ia, ok := x.Addr.(*ssa.IndexAddr); ok && from(ia.X) {
				add(in, "element-store")
			}
		case ssa.CallInstruction:
			cc := x.Common()
			key := core.CalleeKey(cc)
			n0 := len(sites)
			for i, a := range cc.Args {
				if len(sites) > n0 {
					break // one site per instruction
				}
				if _, isSlice := a.Type().Underlying().(*types.Slice); !isSlice || !from(a) {
					continue
				}
				switch {
				case key == "builtin:copy" || key == "builtin:append":
					if i == 0 {
						add(in, strings.TrimPrefix(key, "builtin:"))
					}
				case core.CallIs(cc, c44ReadOnlyCallees...):
				case cc.IsInvoke() && cc.Method.Name() == "Write":
				case cc.IsInvoke():
					add(in, cc.Method.Name())
				default:
					cal := cc.StaticCallee()
					// static calls: Args[i] binds Params[i] (the receiver is #0 in both)
					if cal != nil && cal.Blocks != nil && core.FuncPkgRel(cal) != "" && depth < 2 && i < len(cal.Params) {
						if inner, _ := c44MayWrite(cal, cal.Params[i], depth+1); len(inner) == 0 {
							continue
						}
					}
					add(in, strings.TrimPrefix(key, tlsPkg+"."))
				}
			}
		}
	}
	return sites, what
}

// c44TicketIntact: decryptTicket compares the tag carried in the ticket with a
// freshly computed HMAC. That comparison only authenticates the ticket if the
// two operands have separate storage and the ticket bytes are still the ones
// received: every instruction that may write into the ticket buffer must lie
// behind the established MAC equality, and the computed HMAC must not be
// produced into (a re-slicing of) the ticket.
func c44TicketIntact(c *core.Ctx, dt *ssa.Function, enc *ssa.Parameter, macOK func(tlsFact) bool, sum func() *ssa.Call) {
	if enc == nil {
		c.Missing(tlsPkg + ".Conn.decryptTicket parameter encrypted")
		return
	}
	sites, what := c44MayWrite(dt, enc, 0)
	ord := map[string]int{}
	for i, in := range sites {
		ord[what[i]]++
		c.Check("ticket-intact", fmt.Sprintf("decryptTicket:%s#%d", what[i], ord[what[i]]), in.Pos(), tlsDomGuarded(in.Block(), macOK),
			"decryptTicket lets "+what[i]+" write into the ticket buffer before the ticket's HMAC tag was found equal to the recomputed HMAC: the bytes that are compared (or MACed) are no longer the bytes received, so the comparison does not authenticate the ticket")
	}
	sc := sum()
	ok, got := false, "<no HMAC Sum reaches the comparison>"
	if sc != nil && len(sc.Call.Args) == 1 {
		got = core.Render(sc.Call.Args[0])
		ok = !c44FromTicket(sc.Call.Args[0], enc, map[ssa.Value]bool{})
	}
	c.Check("ticket-intact", "decryptTicket:computed-mac", dt.Pos(), ok,
		"the expected HMAC is produced with Sum("+got+"): Sum appends to its argument, which shares storage with the received ticket, so the tag in the ticket is overwritten by the expected value and the comparison compares the buffer with itself")
	c.Min("ticket-intact", 1)
}

// c44FreshFromCache: at block `at`, v is a freshly allocated session state on
// which sessionState.unmarshal(value of ServerSessionCache.Get) returned true
// after Get reported a hit. v may also be result #i of an in-module helper
// call when, at `at`, a boolean result #j of the same call is known to be
// true and every return of the helper that can report true in #j returns
// such a state in #i.
func c44FreshFromCache(v ssa.Value, at *ssa.BasicBlock, umName string, depth int) (bool, string) {
	v = core.StripConv(v)
	if al, isAlloc := v.(*ssa.Alloc); isAlloc {
		ok := tlsDomGuarded(at, func(f tlsFact) bool {
			um := tlsCallOf(f.V, umName)
			if um == nil || !f.Pol || len(um.Call.Args) != 2 || um.Call.Args[0] != ssa.Value(al) {
				return false
			}
			get := tlsExtractOf(um.Call.Args[1], 0)
			if get == nil || !get.Call.IsInvoke() || get.Call.Method.Name() != "Get" {
				return false
			}
			return tlsDomGuarded(at, func(g tlsFact) bool { return g.Pol && tlsExtractOf(g.V, 1) == get })
		})
		return ok, "the cached session is used without sessionState.unmarshal(cache value) == true after ServerSessionCache.Get reported a hit"
	}
	if ex, isEx := v.(*ssa.Extract); isEx && depth < 2 {
		call, _ := ex.Tuple.(*ssa.Call)
		var h *ssa.Function
		if call != nil && !call.Call.IsInvoke() {
			h = call.Call.StaticCallee()
		}
		if h != nil && h.Blocks != nil && core.FuncPkgRel(h) == tlsPkg {
			res := h.Signature.Results()
			for j := 0; j < res.Len(); j++ {
				if bt, ok := res.At(j).Type().Underlying().(*types.Basic); !ok || bt.Kind() != types.Bool || j == ex.Index {
					continue
				}
				j := j
				if !tlsDomGuarded(at, func(f tlsFact) bool { return f.Pol && tlsExtractOf(f.V, j) == call }) {
					continue
				}
				n := 0
				for _, r := range core.Returns(h) {
					rv := core.RetVals(r)
					if len(rv) != res.Len() {
						return false, "unexpected return arity in " + core.FuncKey(h)
					}
					if bv, isK := tlsIsBoolConst(rv[j]); isK && !bv {
						continue
					}
					n++
					if ok, why := c44FreshFromCache(rv[ex.Index], r.Block(), umName, depth+1); !ok {
						return false, "through " + core.FuncKey(h) + ": " + why
					}
				}
				if n > 0 {
					return true, ""
				}
			}
			return false, "the session state is result #" + fmt.Sprint(ex.Index) + " of " + core.FuncKey(h) + ", but no boolean result of that call is established here under which the helper returns a freshly unmarshalled cache entry"
		}
	}
	return false, "value " + core.Render(v) + " is neither nil, decryptTicket's state nor a freshly unmarshalled cache entry"
}
