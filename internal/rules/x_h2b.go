package rules

// Shared helpers of the HTTP/2 server rules C35-C38 (bfe_http2). Everything
// here works on resolved SSA values; nothing matches source text.

import (
	"go/constant"
	"go/token"
	"go/types"
	"sort"
	"strings"

	"golang.org/x/tools/go/ssa"

	"verif/internal/core"
)

const h2bPkg = "bfe_http2"

// h2bEnv is the per-run view of package bfe_http2.
type h2bEnv struct {
	c   *core.Ctx
	fns []*ssa.Function // all functions (with closures) of package bfe_http2 itself
	ix  *h2bIndex       // call-site index, regions (x_h2b_r.go)
	// anchors: the functions the rules name (resolved through fn); a region never
	// absorbs another anchor, rules about it look at it separately
	anchors map[*ssa.Function]bool
}

func h2bNew(c *core.Ctx) *h2bEnv {
	e := &h2bEnv{c: c}
	if c.P.Pkg(h2bPkg) == nil {
		c.Missing(h2bPkg)
		return nil
	}
	for _, fn := range c.P.SrcFuncs(h2bPkg) {
		if core.FuncPkgRel(fn) == h2bPkg {
			e.fns = append(e.fns, fn)
		}
	}
	return e
}

// fn resolves a function or method of bfe_http2; an unresolved anchor is recorded.
func (e *h2bEnv) fn(name string) *ssa.Function {
	f := e.c.P.Func(h2bPkg, name)
	if f == nil || f.Blocks == nil {
		e.c.Missing(h2bPkg + "." + name)
		return nil
	}
	e.c.Analysed(core.FuncKey(f))
	if !e.anchors[f] {
		if e.anchors == nil {
			e.anchors = map[*ssa.Function]bool{}
		}
		e.anchors[f] = true
		if e.ix != nil {
			e.ix.regs = map[*ssa.Function]*h2bReg{} // regions computed so far may have absorbed f
		}
	}
	return f
}

// field resolves "Type.field" of bfe_http2.
func (e *h2bEnv) field(name string) *types.Var {
	v, _ := e.c.P.Obj(h2bPkg, name).(*types.Var)
	if v == nil {
		e.c.Missing(h2bPkg + "." + name)
	}
	return v
}

func h2bName(s string) string { return h2bPkg + "." + s }

// h2bShort is the function key without the package prefix.
func h2bShort(fn *ssa.Function) string {
	return strings.TrimPrefix(core.FuncKey(fn), h2bPkg+".")
}

// ---- values ---------------------------------------------------------------

// h2bCanon peels conversions and loads of spilled parameters.
func h2bCanon(v ssa.Value) ssa.Value {
	for i := 0; i < 20; i++ {
		switch x := v.(type) {
		case *ssa.ChangeType:
			v = x.X
			continue
		case *ssa.UnOp:
			if x.Op == token.MUL {
				if a, ok := x.X.(*ssa.Alloc); ok {
					if p := core.SpilledParam(a); p != nil {
						return p
					}
				}
			}
		}
		break
	}
	return v
}

// h2bFieldLoad: v is a load of field fld (through FieldAddr or Field); returns the base.
func h2bFieldLoad(v ssa.Value, fld *types.Var) (ssa.Value, bool) {
	v = h2bCanon(v)
	switch x := v.(type) {
	case *ssa.UnOp:
		if x.Op == token.MUL {
			if fa, ok := x.X.(*ssa.FieldAddr); ok && core.FieldObj(fa.X, fa.Field) == fld {
				return fa.X, true
			}
		}
	case *ssa.Field:
		if core.FieldObj(x.X, x.Field) == fld {
			return x.X, true
		}
	}
	return nil, false
}

// h2bAnyFieldLoad: v is a load of some struct field; returns field and base.
func h2bAnyFieldLoad(v ssa.Value) (*types.Var, ssa.Value) {
	v = h2bCanon(v)
	switch x := v.(type) {
	case *ssa.UnOp:
		if x.Op == token.MUL {
			if fa, ok := x.X.(*ssa.FieldAddr); ok {
				return core.FieldObj(fa.X, fa.Field), fa.X
			}
		}
	case *ssa.Field:
		return core.FieldObj(x.X, x.Field), x.X
	}
	return nil, nil
}

// h2bStoreField: st stores into field fld; returns the base object.
func h2bStoreField(st *ssa.Store, fld *types.Var) (ssa.Value, bool) {
	if fa, ok := st.Addr.(*ssa.FieldAddr); ok && core.FieldObj(fa.X, fa.Field) == fld {
		return fa.X, true
	}
	return nil, false
}

// h2bEq: structural identity of two SSA values as storage/expressions
// (go/ssa has no CSE: two loads of st.parent are two values).
func h2bEq(a, b ssa.Value) bool { return h2bEqWith(h2bCanon, a, b, 0) }

func h2bEqD(a, b ssa.Value, d int) bool { return h2bEqWith(h2bCanon, a, b, d) }

// h2bEqWith is h2bEq with the representative function canon applied at every
// level (h2bCanon, or h2bEnv.rep to look through helper boundaries).
func h2bEqWith(canon func(ssa.Value) ssa.Value, a, b ssa.Value, d int) bool {
	return h2bEqAlt(canon, nil, a, b, d)
}

// h2bEqAlt: alt (optional) gives a second representative of a value that is
// tried when the first ones differ (the result of a helper call <-> the value
// the helper returns).
func h2bEqAlt(canon, alt func(ssa.Value) ssa.Value, a, b ssa.Value, d int) bool {
	a, b = canon(a), canon(b)
	if a == b {
		return true
	}
	if a == nil || b == nil || d > 8 {
		return false
	}
	if alt != nil {
		if a2 := alt(a); a2 != nil && h2bEqAlt(canon, alt, a2, b, d+1) {
			return true
		}
		if b2 := alt(b); b2 != nil && h2bEqAlt(canon, alt, a, b2, d+1) {
			return true
		}
	}
	switch x := a.(type) {
	case *ssa.Const:
		y, ok := b.(*ssa.Const)
		if !ok {
			return false
		}
		if x.Value == nil || y.Value == nil {
			return x.Value == nil && y.Value == nil
		}
		return constant.Compare(x.Value, token.EQL, y.Value)
	case *ssa.UnOp:
		y, ok := b.(*ssa.UnOp)
		return ok && x.Op == y.Op && h2bEqAlt(canon, alt, x.X, y.X, d+1)
	case *ssa.FieldAddr:
		y, ok := b.(*ssa.FieldAddr)
		return ok && core.FieldObj(x.X, x.Field) == core.FieldObj(y.X, y.Field) && h2bEqAlt(canon, alt, x.X, y.X, d+1)
	case *ssa.Field:
		y, ok := b.(*ssa.Field)
		return ok && core.FieldObj(x.X, x.Field) == core.FieldObj(y.X, y.Field) && h2bEqAlt(canon, alt, x.X, y.X, d+1)
	case *ssa.Convert:
		y, ok := b.(*ssa.Convert)
		return ok && types.Identical(x.Type(), y.Type()) && h2bEqAlt(canon, alt, x.X, y.X, d+1)
	case *ssa.Extract:
		y, ok := b.(*ssa.Extract)
		return ok && x.Index == y.Index && x.Tuple == y.Tuple
	case *ssa.Lookup:
		y, ok := b.(*ssa.Lookup)
		return ok && x.CommaOk == y.CommaOk && h2bEqAlt(canon, alt, x.X, y.X, d+1) && h2bEqAlt(canon, alt, x.Index, y.Index, d+1)
	case *ssa.Call:
		// pure accessors on the same receiver (len, Header(), StreamEnded()...) are
		// compared by callee and arguments
		y, ok := b.(*ssa.Call)
		if !ok || core.CalleeKey(&x.Call) != core.CalleeKey(&y.Call) || len(x.Call.Args) != len(y.Call.Args) {
			return false
		}
		if x.Call.IsInvoke() && !h2bEqAlt(canon, alt, x.Call.Value, y.Call.Value, d+1) {
			return false
		}
		for i := range x.Call.Args {
			if !h2bEqAlt(canon, alt, x.Call.Args[i], y.Call.Args[i], d+1) {
				return false
			}
		}
		return true
	case *ssa.BinOp:
		y, ok := b.(*ssa.BinOp)
		return ok && x.Op == y.Op && h2bEqAlt(canon, alt, x.X, y.X, d+1) && h2bEqAlt(canon, alt, x.Y, y.Y, d+1)
	}
	return false
}

func h2bInt(v ssa.Value) (int64, bool) {
	c, ok := core.StripConv(v).(*ssa.Const)
	if !ok || c.Value == nil || c.Value.Kind() != constant.Int {
		return 0, false
	}
	return c.Int64(), true
}

func h2bIsNil(v ssa.Value) bool {
	c, ok := core.StripConv(v).(*ssa.Const)
	return ok && c.Value == nil
}

func h2bBool(v ssa.Value) (val, ok bool) {
	c, isC := v.(*ssa.Const)
	if !isC || c.Value == nil || c.Value.Kind() != constant.Bool {
		return false, false
	}
	return constant.BoolVal(c.Value), true
}

// ---- relations established by guards ---------------------------------------

// h2bRel is a branch fact: either a comparison X Op Y that holds, or a boolean
// value Bool known to be Pol.
type h2bRel struct {
	Op   token.Token
	X, Y ssa.Value
	Bool ssa.Value
	Pol  bool
}

func h2bNegOp(op token.Token) token.Token {
	switch op {
	case token.EQL:
		return token.NEQ
	case token.NEQ:
		return token.EQL
	case token.LSS:
		return token.GEQ
	case token.GEQ:
		return token.LSS
	case token.GTR:
		return token.LEQ
	case token.LEQ:
		return token.GTR
	}
	return token.ILLEGAL
}

func h2bFlipOp(op token.Token) token.Token {
	switch op {
	case token.LSS:
		return token.GTR
	case token.GTR:
		return token.LSS
	case token.LEQ:
		return token.GEQ
	case token.GEQ:
		return token.LEQ
	}
	return op
}

// h2bRelOfCond normalises a condition with the polarity of the edge taken.
func h2bRelOfCond(cond ssa.Value, pol bool) h2bRel {
	for {
		if u, ok := cond.(*ssa.UnOp); ok && u.Op == token.NOT {
			cond, pol = u.X, !pol
			continue
		}
		break
	}
	if b, ok := cond.(*ssa.BinOp); ok {
		switch b.Op {
		case token.EQL, token.NEQ, token.LSS, token.LEQ, token.GTR, token.GEQ:
			op := b.Op
			if !pol {
				op = h2bNegOp(op)
			}
			return h2bRel{Op: op, X: b.X, Y: b.Y, Pol: true}
		}
	}
	return h2bRel{Op: token.ILLEGAL, Bool: cond, Pol: pol}
}

func h2bRelOf(g core.Guard) h2bRel { return h2bRelOfCond(g.Cond, g.Pol) }

// Cmp reports whether the relation is `x op y` (in either operand order).
func (r h2bRel) Cmp(op token.Token, x, y func(ssa.Value) bool) bool {
	if r.Op == token.ILLEGAL {
		return false
	}
	if r.Op == op && x(r.X) && y(r.Y) {
		return true
	}
	return h2bFlipOp(r.Op) == op && x(r.Y) && y(r.X)
}

// Flag reports whether the relation says that a boolean matching m has value pol.
func (r h2bRel) Flag(pol bool, m func(ssa.Value) bool) bool {
	return r.Op == token.ILLEGAL && r.Bool != nil && r.Pol == pol && m(r.Bool)
}

// h2bGuarded: on every way into b a fact accepted by pred has been established.
func h2bGuarded(b *ssa.BasicBlock, pred func(r h2bRel) bool) bool {
	return h2bGuardedD(nil, b, pred, 0)
}

// h2bExpand turns a branch fact into the relations it implies. Besides the
// condition itself: a short-circuit phi `a && b` known true came through its
// only non-false edge (so b holds and so do the facts on the way to that edge,
// which include a); dually for `a || b` known false.
func h2bExpand(cond ssa.Value, pol bool, depth int) []h2bRel {
	out := []h2bRel{h2bRelOfCond(cond, pol)}
	for {
		u, ok := cond.(*ssa.UnOp)
		if !ok || u.Op != token.NOT {
			break
		}
		cond, pol = u.X, !pol
	}
	phi, ok := cond.(*ssa.Phi)
	if !ok || depth > 4 {
		return out
	}
	idx := -1
	for i, ed := range phi.Edges {
		if v, isK := h2bBool(ed); isK && v != pol {
			continue // this edge would have produced the other truth value
		}
		if idx >= 0 {
			return out // more than one candidate edge: nothing definite
		}
		idx = i
	}
	if idx < 0 {
		return out
	}
	if _, isK := h2bBool(phi.Edges[idx]); !isK {
		out = append(out, h2bExpand(phi.Edges[idx], pol, depth+1)...)
	}
	for _, g := range core.GuardsOnEdge(phi.Block().Preds[idx], phi.Block()) {
		out = append(out, h2bExpand(g.Cond, g.Pol, depth+1)...)
	}
	return out
}

func h2bIs(v ssa.Value) func(ssa.Value) bool {
	return func(x ssa.Value) bool { return h2bEq(x, v) }
}

func h2bIsInt(n int64) func(ssa.Value) bool {
	return func(x ssa.Value) bool { k, ok := h2bInt(x); return ok && k == n }
}

func h2bNilV(x ssa.Value) bool { return h2bIsNil(x) }

func h2bGuardList(b *ssa.BasicBlock) string {
	return "{" + strings.Join(core.GuardStrs(b), " && ") + "}"
}

// ---- CFG queries -------------------------------------------------------------

// h2bReachFromBlock: starting at the first instruction of b, is an instruction
// satisfying target reachable without first executing one satisfying avoid?
func h2bReachFromBlock(b *ssa.BasicBlock, avoid, target func(ssa.Instruction) bool) ssa.Instruction {
	seen := map[*ssa.BasicBlock]bool{b: true}
	work := []*ssa.BasicBlock{b}
	for len(work) > 0 {
		cur := work[len(work)-1]
		work = work[:len(work)-1]
		stop := false
		for _, in := range cur.Instrs {
			if target(in) {
				return in
			}
			if avoid != nil && avoid(in) {
				stop = true
				break
			}
		}
		if stop {
			continue
		}
		for _, s := range cur.Succs {
			if !seen[s] {
				seen[s] = true
				work = append(work, s)
			}
		}
	}
	return nil
}

func h2bInstrIs(x ssa.Instruction) func(ssa.Instruction) bool {
	return func(in ssa.Instruction) bool { return in == x }
}

// h2bLoopHeaders returns the blocks that are targets of a back edge.
func h2bLoopHeaders(fn *ssa.Function) []*ssa.BasicBlock {
	var out []*ssa.BasicBlock
	seen := map[*ssa.BasicBlock]bool{}
	for _, b := range fn.Blocks {
		for _, s := range b.Succs {
			if s.Dominates(b) && !seen[s] {
				seen[s] = true
				out = append(out, s)
			}
		}
	}
	sort.Slice(out, func(i, j int) bool { return out[i].Index < out[j].Index })
	return out
}

// h2bIfOf returns the If terminating b, if any.
func h2bIfOf(b *ssa.BasicBlock) *ssa.If {
	if len(b.Instrs) == 0 {
		return nil
	}
	ifi, _ := b.Instrs[len(b.Instrs)-1].(*ssa.If)
	return ifi
}

// h2bIfs lists the If instructions of fn.
func h2bIfs(fn *ssa.Function) []*ssa.If {
	var out []*ssa.If
	for _, b := range fn.Blocks {
		if ifi := h2bIfOf(b); ifi != nil {
			out = append(out, ifi)
		}
	}
	return out
}

func h2bAll(fn *ssa.Function) []ssa.Instruction {
	var out []ssa.Instruction
	core.Instrs(fn, func(in ssa.Instruction) { out = append(out, in) })
	return out
}

// ---- calls ---------------------------------------------------------------------

type h2bSite struct {
	Fn   *ssa.Function
	Call ssa.CallInstruction
}

// h2bCallSites finds the calls (call/go/defer) of the named bfe_http2
// callees in the package's functions.
func (e *h2bEnv) callSites(names ...string) []h2bSite {
	var full []string
	for _, n := range names {
		full = append(full, h2bName(n))
	}
	var out []h2bSite
	for _, fn := range e.fns {
		for _, c := range core.Calls(fn, full...) {
			out = append(out, h2bSite{fn, c})
		}
	}
	return out
}

// h2bIsCall: v is a call of the named bfe_http2 function.
func h2bIsCall(v ssa.Value, name string) (*ssa.Call, bool) {
	c, ok := h2bCanon(v).(*ssa.Call)
	if !ok || !core.CallIs(&c.Call, h2bName(name)) {
		return nil, false
	}
	return c, true
}

// ---- struct literals -------------------------------------------------------------

// h2bLitOf: v is a struct value loaded from (or a pointer to) a local/new
// composite-literal allocation; returns the allocation.
func h2bLitOf(v ssa.Value) *ssa.Alloc {
	v = core.StripConv(v)
	if u, ok := v.(*ssa.UnOp); ok && u.Op == token.MUL {
		v = u.X
	}
	a, _ := v.(*ssa.Alloc)
	return a
}

// h2bLitFields collects the values stored into the fields of a literal allocation.
func h2bLitFields(a *ssa.Alloc) map[string]ssa.Value {
	out := map[string]ssa.Value{}
	if a == nil || a.Referrers() == nil {
		return out
	}
	for _, r := range *a.Referrers() {
		fa, ok := r.(*ssa.FieldAddr)
		if !ok || fa.Referrers() == nil {
			continue
		}
		f := core.FieldObj(fa.X, fa.Field)
		if f == nil {
			continue
		}
		for _, rr := range *fa.Referrers() {
			if st, ok := rr.(*ssa.Store); ok && st.Addr == fa {
				out[f.Name()] = st.Val
			}
		}
	}
	return out
}

// h2bDynType: the dynamic type put into an interface value (MakeInterface), as
// a module-relative string, or "".
func h2bDynType(v ssa.Value) string {
	if mi, ok := v.(*ssa.MakeInterface); ok {
		return core.TypeStr(mi.X.Type())
	}
	return ""
}

// h2bPos gives a usable position for instructions that carry none (If, Jump):
// the position of the condition or of the nearest positioned instruction of
// the block.
func h2bPos(in ssa.Instruction) token.Pos {
	if in == nil {
		return token.NoPos
	}
	// typed nil pointers wrapped in the interface
	switch x := in.(type) {
	case *ssa.If:
		if x == nil {
			return token.NoPos
		}
	case *ssa.Store:
		if x == nil {
			return token.NoPos
		}
	case *ssa.MapUpdate:
		if x == nil {
			return token.NoPos
		}
	case *ssa.Call:
		if x == nil {
			return token.NoPos
		}
	}
	if p := in.Pos(); p.IsValid() {
		return p
	}
	if ifi, ok := in.(*ssa.If); ok {
		if p := ifi.Cond.Pos(); p.IsValid() {
			return p
		}
	}
	b := in.Block()
	for i := len(b.Instrs) - 1; i >= 0; i-- {
		if p := b.Instrs[i].Pos(); p.IsValid() {
			return p
		}
	}
	return token.NoPos
}

// h2bSomeEdge: some way of entering b establishes a fact accepted by m (used
// for rejecting blocks reached through an `a || b || c` chain, where each
// disjunct is a separate reason).
func h2bSomeEdge(b *ssa.BasicBlock, m func(h2bRel) bool) bool {
	var gs []core.Guard
	gs = append(gs, core.GuardsAt(b)...)
	for _, p := range b.Preds {
		gs = append(gs, core.GuardsOnEdge(p, b)...)
	}
	for _, g := range gs {
		for _, r := range h2bExpand(g.Cond, g.Pol, 0) {
			if m(r) {
				return true
			}
		}
	}
	return false
}
