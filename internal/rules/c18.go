package rules

import (
	"fmt"
	"go/token"
	"go/types"
	"os"
	"path/filepath"
	"regexp"
	"sort"
	"strings"

	"golang.org/x/tools/go/ssa"

	"verif/internal/core"
)

// C18 — condition primitives implement their documented matching.
func init() {
	Register(&Rule{
		ID: "C18", Section: "4 C18",
		Technique: "wiring table agreement by fingerprints (request attribute read by each Fetcher, comparison each Matcher bottoms out in, argument-to-parameter flow in each buildPrimitive arm), normaliser agreement between constructor and Match under the fold-case flag, nil-guard dominance in fetchers, error-to-false flow in PrimitiveCond.Match, boundary evaluation of range comparisons, interval evaluation of the operands compared with configured integer bounds / used as table indices (value-domain agreement with the constructor), data dependence of the compared operand on the fetched value and the configured fields",
		Meta: core.Meta{
			Level:       "other",
			Explanation: "Decides: (a) wiring — for each of the primitives in buildPrimitive, the request attribute its fetcher's Fetch returns (access path such as req.HttpRequest.URL.Path, Header.Get(key), CachedQuery().Get(key), Session.Vip, host with the port split off), which literal argument becomes the fetcher key, the comparison family the matcher's Match bottoms out in (sorted search + ==, HasPrefix, HasSuffix, Contains, path-element prefix, MatchString, bytes.Compare range, IP.Equal, hash bucket, time Before/After, Clock), which argument is the pattern and whether the case flag is the documented argument (case_insensitive parameter in docs/en_us/condition) or the reviewed fixed value; fetchers and matchers are identified by what their methods do, not by type name; the five primitives that are conditions on their own (default_t, req_cip_trusted, req_proto_secure, req_query_exist, ses_tls_client_auth) are checked by the expression their Match returns; (b) fold-case agreement — every matcher with a case flag stores the constructor's flag parameter in the field its Match tests, and constructor and Match apply the same normaliser (ToUpper/ToLower) under that flag; matchers using binary search sort their patterns after normalising; HostMatcher normalises unconditionally on both sides and rejects patterns with a port; (c) missing attribute => false — PrimitiveCond.Match, evaluated by an SSA interpreter on every combination of {req, req.Session, req.HttpRequest nil or not, Fetch failing or not, verdict of matcher.Match on the fetched value} (private helpers included), returns false on nil request/session/http request and whenever Fetch returns an error, and the matcher's verdict on the fetched value otherwise; every dereference of an optional pointer attribute (HttpResponse, ClientAddr, RemoteAddr, TlsState, URL) in a Fetch/Match method is dominated by a nil test of that pointer (tests may be assembled with && / || into named booleans; what a branch on such a boolean implies is unfolded); (d) ranges are inclusive — IPMatcher.Match, TimeMatcher.Match and PeriodicTimeMatcher.Match are evaluated by the interpreter for a value below the lower bound, equal to it, strictly inside, equal to the upper bound, above it and for a single-point range, answering bytes.Compare / Before / After / Equal / integer comparisons against the receiver's bounds from that position (either argument order): the result is true exactly inside [lower, upper], whatever the spelling (early returns, one conjunction, negated or mirrored tests, named booleans, helpers); fold-case agreement and the sort-after-normalise rule follow private helpers (a helper called under the flag, or handed the flag as a parameter); (e) value domains (interval evaluation over SSA: ranges of the time.Time accessors, Go's sign rule for %, conversions, local variables, phis refined by the branch conditions of their edges, module callees with parameters bound to the argument ranges) — in every matcher whose Match compares the tested value with integer bounds of the receiver, every value the tested operand can take lies in the range the constructor can give the bound (PeriodicTimeMatcher: the seconds of day compared with [startTime, endTime] stay in [0, 86399], so a negative remainder for zones west of UTC is reported), the tested operand is computed from the value handed to Match and from every other configured field (the zone offset reaches the comparison), an index into a table of the receiver lies in [0, len) of the table the constructor builds (HashValueMatcher: bucket in [0, HashMatcherBucketSize)), and every field a matcher constructor sets is read by Match. Not covered: regular-expression semantics, the direction and magnitude of the time-zone shift (only that the configured offset reaches the comparison and the compared value stays a second of day), the murmur hash and the distribution of its buckets, header canonicalisation inside bfe_http.Header.Get, cookie/query parsing (bfe_http), IPv6 literal hosts in HostFetcher/PortFetcher (both split at the first colon; documented only for host:port).",
			RuleText:    "obligations = one per primitive arm (wiring), one per matcher type with a case flag, per binary-search matcher, per Fetch/Match method with optional-pointer dereferences, the links of PrimitiveCond.Match, each bound test of the three range matchers, each integer bound comparison and each table index of a Match method (domain, dependence), each matcher constructor (fields used)",
			Assumptions: []string{"req, req.Session and req.HttpRequest are non-nil for conditions evaluated by PrimitiveCond (its Match tests them first); the five stand-alone matchers are only evaluated on fully constructed requests"},
		},
		Run: runC18,
		Mutants: []Mutant{
			{Name: "path-prefix-uses-suffix-matcher", File: "bfe_basic/condition/build.go", Old: "			matcher: NewPrefixInMatcher(node.Args[0].Value, node.Args[1].ToBool()),", New: "			matcher: NewSuffixInMatcher(node.Args[0].Value, node.Args[1].ToBool()),", Expect: "wiring|req_path_prefix_in"},
			{Name: "cookie-value-fold-fixed", File: "bfe_basic/condition/build.go", Old: "			fetcher: &CookieValueFetcher{node.Args[0].Value},\n			matcher: NewContainMatcher(node.Args[1].Value, node.Args[2].ToBool()),", New: "			fetcher: &CookieValueFetcher{node.Args[0].Value},\n			matcher: NewContainMatcher(node.Args[1].Value, true),", Expect: "wiring|req_cookie_value_contain"},
			{Name: "cip-range-reads-vip", File: "bfe_basic/condition/build.go", Old: "			fetcher: &CIPFetcher{},\n			matcher: matcher,\n		}, nil\n	case \"req_cip_hash_in\":", New: "			fetcher: &VIPFetcher{},\n			matcher: matcher,\n		}, nil\n	case \"req_cip_hash_in\":", Expect: "wiring|req_cip_range"},
			{Name: "header-value-key-from-wrong-arg", File: "bfe_basic/condition/build.go", Old: "			fetcher: &HeaderValueFetcher{node.Args[0].Value},\n			matcher: NewInMatcher(node.Args[1].Value, node.Args[2].ToBool()),", New: "			fetcher: &HeaderValueFetcher{node.Args[1].Value},\n			matcher: NewInMatcher(node.Args[1].Value, node.Args[2].ToBool()),", Expect: "wiring|req_header_value_in"},
			{Name: "host-port-not-stripped", File: "bfe_basic/condition/primitive.go", Old: "	host := strings.SplitN(req.HttpRequest.Host, \":\", 2)[0]\n	return host, nil", New: "	host := req.HttpRequest.Host\n	return host, nil", Expect: "wiring|req_host_in"},
			{Name: "prefix-ctor-lowercases", File: "bfe_basic/condition/primitive.go", Old: "func NewPrefixInMatcher(patterns string, foldCase bool) *PrefixInMatcher {\n	p := strings.Split(patterns, \"|\")\n\n	if foldCase {\n		p = toUpper(p)\n	}", New: "func NewPrefixInMatcher(patterns string, foldCase bool) *PrefixInMatcher {\n	p := strings.Split(patterns, \"|\")\n\n	if foldCase {\n		for i := range p {\n			p[i] = strings.ToLower(p[i])\n		}\n	}", Expect: "fold|PrefixInMatcher"},
			{Name: "contain-match-ignores-flag", File: "bfe_basic/condition/primitive.go", Old: "	if cm.foldCase {\n		vs = strings.ToUpper(vs)\n	}\n\n	return contain(vs, cm.patterns)", New: "	vs = strings.ToUpper(vs)\n\n	return contain(vs, cm.patterns)", Expect: "fold|ContainMatcher"},
			{Name: "in-sorted-before-upper", File: "bfe_basic/condition/primitive.go", Old: "	if foldCase {\n		p = toUpper(p)\n	}\n\n	sort.Strings(p)\n\n	return &InMatcher{", New: "	sort.Strings(p)\n\n	if foldCase {\n		p = toUpper(p)\n	}\n\n	return &InMatcher{", Expect: "sorted|InMatcher"},
			{Name: "ip-range-excludes-end", File: "bfe_basic/condition/primitive.go", Old: "	if bytes.Compare(ipAddr, ip.endIP) > 0 {", New: "	if bytes.Compare(ipAddr, ip.endIP) >= 0 {", Expect: "inclusive|IPMatcher.Match"},
			{Name: "periodic-excludes-start", File: "bfe_basic/condition/primitive.go", Old: "	return seconds >= t.startTime && seconds <= t.endTime", New: "	return seconds > t.startTime && seconds <= t.endTime", Expect: "inclusive|PeriodicTimeMatcher.Match"},
			{Name: "fetch-error-matches", File: "bfe_basic/condition/primitive.go", Old: "	fetched, err := p.fetcher.Fetch(req)\n	if err != nil {\n		return false\n	}", New: "	fetched, err := p.fetcher.Fetch(req)\n	if err != nil {\n		fetched = \"\"\n	}", Expect: "match-flow|"},
			{Name: "response-nil-check-dropped", File: "bfe_basic/condition/primitive.go", Old: "func (rf *ResCodeFetcher) Fetch(req *bfe_basic.Request) (interface{}, error) {\n	if req == nil || req.HttpResponse == nil {", New: "func (rf *ResCodeFetcher) Fetch(req *bfe_basic.Request) (interface{}, error) {\n	if req == nil {", Expect: "nil-guard|ResCodeFetcher.Fetch"},
			{Name: "prefix-helper-args-swapped", File: "bfe_basic/condition/primitive.go", Old: "		if strings.HasPrefix(v, pattern) {", New: "		if strings.HasPrefix(pattern, v) {", Expect: "helper|prefixIn"},
			{Name: "in-helper-inverted", File: "bfe_basic/condition/primitive.go", Old: "	return i < len(patterns) && patterns[i] == v", New: "	return i < len(patterns) && patterns[i] != v", Expect: "helper|in"},
			{Name: "suffix-match-negated", File: "bfe_basic/condition/primitive.go", Old: "	return suffixIn(vs, p.patterns)", New: "	return !suffixIn(vs, p.patterns)", Expect: "match-result|SuffixInMatcher"},
			{Name: "header-key-in-inverted", File: "bfe_basic/condition/primitive.go", Old: "		if val := req.HttpRequest.Header.Get(key); val != \"\" {", New: "		if val := req.HttpRequest.Header.Get(key); val == \"\" {", Expect: "wiring|req_header_key_in"},
			{Name: "periodic-zone-by-signed-remainder", File: "bfe_basic/condition/primitive.go", Old: "	tm = tm.In(time.FixedZone(\"zone\", t.offset))\n	hour, minute, second := tm.Clock()\n	seconds := hour*3600 + minute*60 + second\n", New: "	hour, minute, second := tm.UTC().Clock()\n	seconds := (hour*3600 + minute*60 + second + t.offset) % 86400\n", Expect: "value-domain|PeriodicTimeMatcher.Match"},
			{Name: "hash-bucket-by-signed-remainder", File: "bfe_basic/condition/primitive.go", Old: "	return int(hash % uint64(base))", New: "	return int(int64(hash) % int64(base))", Expect: "value-domain|HashValueMatcher.Match:index"},
			{Name: "hash-bucket-base-off-by-one", File: "bfe_basic/condition/primitive.go", Old: "	bucket := GetHash([]byte(value), HashMatcherBucketSize)", New: "	bucket := GetHash([]byte(value), HashMatcherBucketSize+1)", Expect: "value-domain|HashValueMatcher.Match:index"},
			{Name: "periodic-zone-not-applied", File: "bfe_basic/condition/primitive.go", Old: "	tm = tm.In(time.FixedZone(\"zone\", t.offset))\n", New: "", Expect: "value-applied|PeriodicTimeMatcher.Match"},
			{Name: "hash-case-flag-ignored", File: "bfe_basic/condition/primitive.go", Old: "	if matcher.insensitive {\n		value = strings.ToLower(rawValue)\n	}\n", New: "", Expect: "ctor-fields-used|HashValueMatcher"},
			{Name: "silent-periodic-zone-by-normalised-remainder", Silent: true, File: "bfe_basic/condition/primitive.go", Old: "	tm = tm.In(time.FixedZone(\"zone\", t.offset))\n	hour, minute, second := tm.Clock()\n	seconds := hour*3600 + minute*60 + second\n", New: "	hour, minute, second := tm.UTC().Clock()\n	seconds := ((hour*3600+minute*60+second+t.offset)%86400 + 86400) % 86400\n"},
			{Name: "silent-periodic-zone-by-remainder-and-fixup", Silent: true, File: "bfe_basic/condition/primitive.go", Old: "	tm = tm.In(time.FixedZone(\"zone\", t.offset))\n	hour, minute, second := tm.Clock()\n	seconds := hour*3600 + minute*60 + second\n", New: "	hour, minute, second := tm.UTC().Clock()\n	seconds := (hour*3600 + minute*60 + second + t.offset) % 86400\n	if seconds < 0 {\n		seconds += 86400\n	}\n"},
			{Name: "silent-fold-step-extracted", File: "bfe_basic/condition/primitive.go", Old: "\tif p.foldCase {\n\t\tvs = strings.ToUpper(vs)\n\t}\n\n\treturn suffixIn(vs, p.patterns)\n}\n\nfunc NewSuffixInMatcher(patterns string, foldCase bool) *SuffixInMatcher {\n\tp := strings.Split(patterns, \"|\")\n\n\tif foldCase {\n\t\tp = toUpper(p)\n\t}\n", New: "\tvs = upperIf(vs, p.foldCase)\n\n\treturn suffixIn(vs, p.patterns)\n}\n\nfunc upperIf(s string, fold bool) string {\n\tif !fold {\n\t\treturn s\n\t}\n\treturn strings.ToUpper(s)\n}\n\nfunc splitAndFold(list string, fold bool) []string {\n\tparts := strings.Split(list, \"|\")\n\tif fold {\n\t\tparts = toUpper(parts)\n\t}\n\treturn parts\n}\n\nfunc NewSuffixInMatcher(patterns string, foldCase bool) *SuffixInMatcher {\n\tp := splitAndFold(patterns, foldCase)\n", Silent: true},
			{Name: "silent-ip-range-as-conjunction", File: "bfe_basic/condition/primitive.go", Old: "\tif bytes.Compare(ipAddr, ip.startIP) < 0 {\n\t\treturn false\n\t}\n\n\tif bytes.Compare(ipAddr, ip.endIP) > 0 {\n\t\treturn false\n\t}\n\n\treturn true\n}\n", New: "\tnotBelow := bytes.Compare(ip.startIP, ipAddr) <= 0\n\tnotAbove := !(bytes.Compare(ipAddr, ip.endIP) > 0)\n\treturn notBelow && notAbove\n}\n", Silent: true},
			{Name: "silent-nil-guards-as-named-booleans", File: "bfe_basic/condition/primitive.go", Old: "\tif ses == nil || !ses.IsSecure || ses.TlsState == nil || !ses.TlsState.ClientAuth ||\n\t\tses.TlsState.ClientCAName == \"\" {\n\t\treturn nil, fmt.Errorf(\"fetcher: no client CA name\")\n\t}\n", New: "\tsecure := ses != nil && ses.IsSecure\n\thasState := secure && ses.TlsState != nil\n\tnamed := hasState && ses.TlsState.ClientAuth && ses.TlsState.ClientCAName != \"\"\n\tif !named {\n\t\treturn nil, fmt.Errorf(\"fetcher: no client CA name\")\n\t}\n", Silent: true},
			{Name: "silent-primitive-match-restructured", File: "bfe_basic/condition/primitive.go", Old: "\tif req == nil || req.Session == nil || req.HttpRequest == nil {\n\t\treturn false\n\t}\n\n\tfetched, err := p.fetcher.Fetch(req)\n\tif err != nil {\n\t\treturn false\n\t}\n\n\tr := p.matcher.Match(fetched)\n\treturn r\n}\n", New: "\tif !usable(req) {\n\t\treturn false\n\t}\n\n\tfetched, err := p.fetcher.Fetch(req)\n\tif err == nil {\n\t\treturn p.matcher.Match(fetched)\n\t}\n\treturn false\n}\n\nfunc usable(req *bfe_basic.Request) bool {\n\treturn req != nil && req.Session != nil && req.HttpRequest != nil\n}\n", Silent: true},
			{Name: "silent-host-patterns-via-toupper", File: "bfe_basic/condition/primitive.go", Old: "\tupper := make([]string, len(patterns))\n\n\tfor i, v := range patterns {\n\t\t// port shoud not be included in host\n\t\tif strings.Contains(v, \":\") {\n\t\t\treturn nil, fmt.Errorf(\"port shoud not be included in host(%s)\", v)\n\t\t}\n\n\t\tupper[i] = strings.ToUpper(v)\n\t}\n\n\treturn upper, nil\n", New: "\tfor _, v := range patterns {\n\t\t// port shoud not be included in host\n\t\tif strings.Contains(v, \":\") {\n\t\t\treturn nil, fmt.Errorf(\"port shoud not be included in host(%s)\", v)\n\t\t}\n\t}\n\n\treturn toUpper(patterns), nil\n", Silent: true},
			{Name: "silent-host-fetch-through-helper", File: "bfe_basic/condition/primitive.go", Old: "\thost := strings.SplitN(req.HttpRequest.Host, \":\", 2)[0]\n\treturn host, nil\n}\n", New: "\treturn hostWithoutPort(req.HttpRequest.Host), nil\n}\n\nfunc hostWithoutPort(hostport string) string {\n\treturn strings.SplitN(hostport, \":\", 2)[0]\n}\n", Silent: true},
			{Name: "silent-in-helper-as-if-chain", File: "bfe_basic/condition/primitive.go", Old: "\treturn i < len(patterns) && patterns[i] == v", New: "\tif i >= len(patterns) {\n\t\treturn false\n\t}\n\treturn v == patterns[i]", Silent: true},
			{Name: "silent-fetcher-type-renamed-helper", File: "bfe_basic/condition/primitive.go", Old: "func (mf *MethodFetcher) Fetch(req *bfe_basic.Request) (interface{}, error) {\n	if req == nil || req.HttpRequest == nil {\n		return nil, fmt.Errorf(\"fetcher: nil pointer\")\n	}\n\n	return req.HttpRequest.Method, nil", New: "func (mf *MethodFetcher) Fetch(req *bfe_basic.Request) (interface{}, error) {\n	if req == nil || req.HttpRequest == nil {\n		return nil, fmt.Errorf(\"fetcher: nil pointer\")\n	}\n	httpReq := req.HttpRequest\n	method := httpReq.Method\n	return method, nil", Silent: true},
		},
	})
}

// c18Want is the reviewed wiring of one primitive.
type c18Want struct {
	fetch  []string // substrings the rendered fetched value must contain
	keyArg int      // literal argument that becomes the fetcher key (-1: none)
	ops    string   // comparison family of the matcher ("," joined, sorted)
	pat    int      // literal argument that becomes the pattern (-1: none)
	fold   string   // "argN" | "true" | "false" | "-" (no flag)
}

const (
	opIn       = "==,sort.SearchStrings"
	opPrefix   = "strings.HasPrefix"
	opSuffix   = "strings.HasSuffix"
	opContain  = "strings.Contains"
	opElemPref = "strings.HasPrefix,strings.HasSuffix"
	opRegex    = "regexp.Regexp.MatchString"
	opIPRange  = "bytes.Compare"
	opIPIn     = "net.IP.Equal"
	opHash     = "bfe_basic/condition.GetHash"
	opExact    = "=="
	opBypass   = ""
)

var (
	fHost   = []string{`strings.SplitN(req.HttpRequest.Host, ":", 2)[0]`}
	fPath   = []string{"req.HttpRequest.URL.Path"}
	fQueryV = []string{"net/url.Values.Get(bfe_basic.Request.CachedQuery(req), recv.key)"}
	fCookV  = []string{"bfe_basic.Request.Cookie(req, recv.key)#0.Value"}
	fHdrV   = []string{"bfe_http.Header.Get(req.HttpRequest.Header, recv.key)"}
	fResHV  = []string{"bfe_http.Header.Get(req.HttpResponse.Header, recv.key)"}
	fVip    = []string{"req.Session.Vip"}
	fCip    = []string{"req.ClientAddr.IP"}
	fSip    = []string{"req.Session.RemoteAddr.IP"}
)

var c18Table = map[string]c18Want{
	"req_vip_in":                 {fVip, -1, opIPIn, 0, "-"},
	"req_vip_range":              {fVip, -1, opIPRange, 0, "-"},
	"ses_vip_range":              {fVip, -1, opIPRange, 0, "-"},
	"req_cip_range":              {fCip, -1, opIPRange, 0, "-"},
	"ses_sip_range":              {fSip, -1, opIPRange, 0, "-"},
	"req_cip_hash_in":            {fCip, -1, opHash, 0, "false"},
	"req_proto_match":            {[]string{"bfe_basic.Request.Protocol(req)"}, -1, opExact, 0, "true"},
	"req_host_in":                {fHost, -1, opIn, 0, "-"},
	"req_host_tag_in":            {[]string{"req.Route.HostTag"}, -1, opIn, 0, "true"},
	"req_host_regmatch":          {fHost, -1, opRegex, 0, "-"},
	"req_host_suffix_in":         {fHost, -1, opSuffix, 0, "true"},
	"req_path_in":                {fPath, -1, opIn, 0, "arg1"},
	"req_path_prefix_in":         {fPath, -1, opPrefix, 0, "arg1"},
	"req_path_suffix_in":         {fPath, -1, opSuffix, 0, "arg1"},
	"req_path_element_prefix_in": {fPath, -1, opElemPref, 0, "arg1"},
	"req_path_regmatch":          {fPath, -1, opRegex, 0, "-"},
	"req_path_contain":           {fPath, -1, opContain, 0, "arg1"},
	"req_url_regmatch":           {[]string{"req.HttpRequest.RequestURI"}, -1, opRegex, 0, "-"},
	"req_query_key_in":           {[]string{"true<-[bfe_basic.Request.CachedQuery(req)[recv.keys["}, 0, opBypass, -1, "-"},
	"req_query_key_prefix_in":    {[]string{"true<-[bfe_basic/condition.prefixIn(next(range(bfe_basic.Request.CachedQuery(req)))#1, recv.keys)"}, 0, opBypass, -1, "-"},
	"req_query_value_in":         {fQueryV, 0, opIn, 1, "arg2"},
	"req_query_value_prefix_in":  {fQueryV, 0, opPrefix, 1, "arg2"},
	"req_query_value_suffix_in":  {fQueryV, 0, opSuffix, 1, "arg2"},
	"req_query_value_regmatch":   {fQueryV, 0, opRegex, 1, "-"},
	"req_query_value_contain":    {fQueryV, 0, opContain, 1, "arg2"},
	"req_query_value_hash_in":    {fQueryV, 0, opHash, 1, "arg2"},
	"req_cookie_key_in":          {[]string{"true<-[bfe_basic.Request.Cookie(req, recv.keys["}, 0, opBypass, -1, "-"},
	"req_cookie_value_in":        {fCookV, 0, opIn, 1, "arg2"},
	"req_cookie_value_prefix_in": {fCookV, 0, opPrefix, 1, "arg2"},
	"req_cookie_value_suffix_in": {fCookV, 0, opSuffix, 1, "arg2"},
	"req_cookie_value_contain":   {fCookV, 0, opContain, 1, "arg2"},
	"req_cookie_value_hash_in":   {fCookV, 0, opHash, 1, "arg2"},
	"req_port_in":                {[]string{`"80"`, "req.HttpRequest.Host[", `strings.Index(req.HttpRequest.Host, ":")`}, -1, opIn, 0, "false"},
	"req_tag_match":              {[]string{"req.Tags.TagTable[recv.key]"}, 0, "==,strings.Split", 1, "-"},
	"req_ua_regmatch":            {[]string{`bfe_http.Header.Get(req.HttpRequest.Header, "User-Agent")`}, -1, opRegex, 0, "-"},
	"req_header_key_in":          {[]string{"true<-[(bfe_http.Header.Get(req.HttpRequest.Header, recv.keys[", `]) != "") && `}, 0, opBypass, -1, "-"},
	"req_header_value_in":        {fHdrV, 0, opIn, 1, "arg2"},
	"req_header_value_prefix_in": {fHdrV, 0, opPrefix, 1, "arg2"},
	"req_header_value_suffix_in": {fHdrV, 0, opSuffix, 1, "arg2"},
	"req_header_value_regmatch":  {fHdrV, 0, opRegex, 1, "-"},
	"req_header_value_contain":   {fHdrV, 0, opContain, 1, "arg2"},
	"req_header_value_hash_in":   {fHdrV, 0, opHash, 1, "arg2"},
	"req_method_in":              {[]string{"req.HttpRequest.Method"}, -1, opIn, 0, "true"},
	"res_code_in":                {[]string{"strconv.Itoa(req.HttpResponse.StatusCode)"}, -1, opIn, 0, "false"},
	"res_header_key_in":          {[]string{"true<-[(bfe_http.Header.Get(req.HttpResponse.Header, recv.keys[", `]) != "") && `}, 0, opBypass, -1, "-"},
	"res_header_value_in":        {fResHV, 0, opIn, 1, "arg2"},
	"ses_tls_sni_in":             {[]string{"req.Session.TlsState.ServerName"}, -1, opIn, 0, "true"},
	"ses_tls_client_ca_in":       {[]string{"req.Session.TlsState.ClientCAName"}, -1, opIn, 0, "false"},
	"req_context_value_in":       {[]string{"bfe_basic.Request.GetContext(req, recv.key)"}, 0, opIn, 1, "arg2"},
	"bfe_time_range":             {[]string{"time.Time.In(time.Now(), time.UTC)"}, -1, "time.Time.After,time.Time.Before", 0, "-"},
	"bfe_periodic_time_range":    {[]string{"time.Time.In(time.Now(), time.UTC)"}, -1, "time.Time.Clock", 0, "-"},
}

// stand-alone conditions: the expression Match(req) returns
var c18Direct = map[string]string{
	"default_t":           "true",
	"req_cip_trusted":     "bfe_basic.Session.TrustSource(req.Session)",
	"req_proto_secure":    "req.Session.IsSecure",
	"req_query_exist":     "(builtin:len(bfe_basic.Request.CachedQuery(req)) != 0)",
	"ses_tls_client_auth": "req.Session.TlsState.ClientAuth",
}

var c18OpCallees = map[string]bool{
	"strings.HasPrefix": true, "strings.HasSuffix": true, "strings.Contains": true, "sort.SearchStrings": true,
	"regexp.Regexp.MatchString": true, "bytes.Compare": true, "net.IP.Equal": true, "bfe_basic/condition.GetHash": true,
	"time.Time.Before": true, "time.Time.After": true, "time.Time.Clock": true, "strings.Split": true,
	"strings.EqualFold": true, "strings.Index": true, "strings.HasPrefixFold": true, "regexp.Regexp.Match": true, "regexp.Regexp.FindString": true,
}

// c18MatchOps: the comparison family of a Match method (callees expanded to depth 2 inside the module).
func c18MatchOps(fn *ssa.Function) string {
	set := map[string]bool{}
	for _, f := range core.TransitiveCallees(fn, 2) {
		if core.FuncPkgRel(f) == "" {
			continue
		}
		core.Instrs(f, func(in ssa.Instruction) {
			switch x := in.(type) {
			case ssa.CallInstruction:
				if k := core.CalleeKey(x.Common()); c18OpCallees[k] {
					set[k] = true
				}
			case *ssa.BinOp:
				if x.Op == token.EQL || x.Op == token.NEQ {
					if b, ok := x.X.Type().Underlying().(*types.Basic); ok && b.Info()&types.IsString != 0 {
						set[x.Op.String()] = true
					}
				}
			}
		})
	}
	return strings.Join(cxSortedKeys(set), ",")
}

// c18Method resolves method `name` of the (pointer to) named type of v.
func c18Method(c *core.Ctx, t types.Type, name string) *ssa.Function {
	pk := c.P.Pkg(condPkg)
	if pk == nil {
		return nil
	}
	obj, _, _ := types.LookupFieldOrMethod(t, true, pk.Types, name)
	f, ok := obj.(*types.Func)
	if !ok {
		return nil
	}
	return c.P.SSA.FuncValue(f)
}

// c18FetchFP: rendered values of the success returns of a Fetch method.
func c18FetchFP(fn *ssa.Function) string {
	set := map[string]bool{}
	for _, r := range core.Returns(fn) {
		rv := core.RetVals(r)
		if len(rv) != 2 || !isNilConst(rv[1]) {
			continue
		}
		v := core.StripConv(rv[0])
		for _, alt := range c18RenderInl(v, 0) {
			set[cxCanon(fn, alt, "recv", "req")] = true
		}
		// a fetcher that computes a boolean itself: what controls `true`
		if k, ok := v.(*ssa.Const); ok && k.Value != nil && k.Value.ExactString() == "true" {
			set[cxCanon(fn, "true<-["+strings.Join(core.GuardStrs(r.Block()), " && ")+"]", "recv", "req")] = true
		}
		if phi, ok := v.(*ssa.Phi); ok {
			for i, e := range phi.Edges {
				if k, ok := e.(*ssa.Const); ok && k.Value != nil && k.Value.ExactString() == "true" {
					var gs []string
					for _, g := range core.GuardsOnEdge(phi.Block().Preds[i], phi.Block()) {
						gs = append(gs, g.Str)
					}
					set[cxCanon(fn, "true<-["+strings.Join(gs, " && ")+"]", "recv", "req")] = true
				}
			}
		}
	}
	return strings.Join(cxSortedKeys(set), " | ")
}

// c18RenderInl renders a fetched value; when the value is the result of a
// private helper of the package (`hostOf(req.HttpRequest.Host)`) it renders what
// the helper returns with the helper's parameters replaced by the arguments, so
// that extracting the computation into a helper keeps the fingerprint.
func c18RenderInl(v ssa.Value, depth int) []string {
	v = core.StripConv(v)
	var call *ssa.Call
	switch x := v.(type) {
	case *ssa.Call:
		call = x
	case *ssa.Extract:
		if x.Index == 0 {
			call, _ = x.Tuple.(*ssa.Call)
		}
	}
	if call == nil || depth > 1 {
		return []string{core.Render(v)}
	}
	h := call.Call.StaticCallee()
	if h == nil || h.Blocks == nil || core.FuncPkgRel(h) != condPkg || h.Object() == nil || h.Object().Exported() || h.Signature.Recv() != nil && (h.Name() == "Fetch" || h.Name() == "Match") {
		return []string{core.Render(v)}
	}
	args := make([]string, len(call.Call.Args))
	for i, a := range call.Call.Args {
		args[i] = core.Render(a)
	}
	var out []string
	for _, r := range core.Returns(h) {
		rv := core.RetVals(r)
		if len(rv) == 0 || len(rv) == 2 && !isNilConst(rv[1]) {
			continue
		}
		for _, alt := range c18RenderInl(rv[0], depth+1) {
			out = append(out, cxCanon(h, alt, args...))
		}
	}
	if len(out) == 0 {
		return []string{core.Render(v)}
	}
	return out
}

var reArg = regexp.MustCompile(`node\.Args\[(\d+)\]`)

// c18ArgFlow: which literal arguments reach v as .Value (pattern/key) and as
// .ToBool() (flag); a constant flag is reported as "true"/"false".
func c18ArgFlow(fn *ssa.Function, vals []ssa.Value) (valueArgs []int, fold string) {
	fold = "-"
	seen := map[int]bool{}
	for _, v := range vals {
		s := cxCanon(fn, core.Render(v), "node")
		if k, ok := core.StripConv(v).(*ssa.Const); ok && k.Value != nil && (s == "true" || s == "false") {
			fold = s
			continue
		}
		for _, m := range reArg.FindAllStringSubmatchIndex(s, -1) {
			idx := int(s[m[2]] - '0')
			rest := s[m[1]:]
			before := s[:m[0]]
			switch {
			case strings.HasSuffix(before, "BasicLit.ToBool("):
				fold = fmt.Sprintf("arg%d", idx)
			case strings.HasPrefix(rest, ".Value"):
				if !seen[idx] {
					seen[idx] = true
					valueArgs = append(valueArgs, idx)
				}
			}
		}
	}
	sort.Ints(valueArgs)
	return
}

// storesInto: values stored into fields of the object allocated by a.
func c18StoresInto(a ssa.Value) []ssa.Value {
	var out []ssa.Value
	refs := a.Referrers()
	if refs == nil {
		return nil
	}
	for _, r := range *refs {
		fa, ok := r.(*ssa.FieldAddr)
		if !ok || fa.Referrers() == nil {
			continue
		}
		for _, u := range *fa.Referrers() {
			if st, ok := u.(*ssa.Store); ok && st.Addr == fa {
				out = append(out, st.Val)
			}
		}
	}
	return out
}

func runC18(c *core.Ctx) {
	bp := c.P.Func(condPkg, "buildPrimitive")
	if bp == nil {
		c.Missing(condPkg + ".buildPrimitive")
		return
	}
	c.Analysed(core.FuncKey(bp))
	arms := cxSwitchArms(bp, cxP(bp, 0)+".Fun.Name")
	// documented case flags
	docFold := map[string]string{}
	docFiles, _ := filepath.Glob(core.FileOf(condDocs + "/*/*.md"))
	docFiles = append(docFiles, core.FileOf(condDocs+"/condition_primitive_index.md"))
	for _, f := range docFiles {
		b, err := os.ReadFile(f)
		if err != nil {
			continue
		}
		for n, ps := range cxMdPrimitives(string(b)) {
			for i, p := range ps {
				if p == "case_insensitive" {
					docFold[n] = fmt.Sprintf("arg%d", i)
				}
			}
		}
	}
	names := make([]string, 0, len(arms))
	for n := range arms {
		names = append(names, n)
	}
	sort.Strings(names)
	matcherTypes := map[string]*types.Named{}
	fetchFns := map[*ssa.Function]bool{}
	for _, name := range names {
		entry := arms[name]
		pos := entry.Instrs[0].Pos()
		blocks := c17Region(bp, entry)
		// the success return value
		var result ssa.Value
		for _, b := range blocks {
			if r, ok := b.Instrs[len(b.Instrs)-1].(*ssa.Return); ok && len(r.Results) == 2 && isNilConst(r.Results[1]) {
				result = core.StripConv(r.Results[0])
			}
		}
		if result == nil {
			c.Check("wiring", name, pos, false, "arm has no success return")
			continue
		}
		rt, _ := result.Type().(*types.Pointer)
		var rn *types.Named
		if rt != nil {
			rn, _ = rt.Elem().(*types.Named)
		}
		if want, isDirect := c18Direct[name]; isDirect {
			ok, got := false, "?"
			if rn != nil {
				if m := c18Method(c, result.Type(), "Match"); m != nil {
					c.Analysed(core.FuncKey(m))
					fetchFns[m] = true
					set := map[string]bool{}
					for _, r := range core.Returns(m) {
						v := cxCanon(m, core.Render(core.RetVals(r)[0]), "recv", "req")
						if v != "false" || want == "false" {
							set[v] = true
						}
					}
					got = strings.Join(cxSortedKeys(set), " | ")
					ok = got == want
				}
			}
			c.Check("wiring", name, pos, ok, fmt.Sprintf("%s is a stand-alone condition whose Match returns {%s}; reviewed meaning: %s", name, got, want))
			continue
		}
		want, known := c18Table[name]
		if !known {
			c.Check("wiring", name, pos, false, "primitive "+name+" has no reviewed wiring entry: its fetcher/matcher pair cannot be compared with its documented meaning")
			continue
		}
		if rn == nil || rn.Obj().Name() != "PrimitiveCond" {
			c.Check("wiring", name, pos, false, "arm does not build a PrimitiveCond (returns "+core.TypeStr(result.Type())+")")
			continue
		}
		var fetcher, matcher ssa.Value
		refs := result.Referrers()
		if refs != nil {
			for _, r := range *refs {
				fa, ok := r.(*ssa.FieldAddr)
				if !ok || fa.Referrers() == nil {
					continue
				}
				f := core.FieldObj(fa.X, fa.Field)
				for _, u := range *fa.Referrers() {
					st, ok := u.(*ssa.Store)
					if !ok || st.Addr != fa || f == nil {
						continue
					}
					switch f.Name() {
					case "fetcher":
						fetcher = core.StripConv(st.Val)
					case "matcher":
						matcher = core.StripConv(st.Val)
					}
				}
			}
		}
		if fetcher == nil || matcher == nil {
			c.Check("wiring", name, pos, false, "arm does not set both fetcher and matcher of the PrimitiveCond")
			continue
		}
		var problems []string
		// fetcher
		fetchFP, keyArgs := "?", []int(nil)
		if m := c18Method(c, fetcher.Type(), "Fetch"); m != nil {
			c.Analysed(core.FuncKey(m))
			fetchFns[m] = true
			fetchFP = c18FetchFP(m)
		}
		if os.Getenv("C18_DEBUG") != "" {
			c.Note("FP %s: %s", name, fetchFP)
		}
		keyArgs, _ = c18ArgFlow(bp, c18StoresInto(fetcher))
		for _, sub := range want.fetch {
			if !strings.Contains(fetchFP, sub) {
				problems = append(problems, fmt.Sprintf("the fetcher returns {%s}, expected it to read %s", fetchFP, sub))
				break
			}
		}
		switch {
		case want.keyArg < 0 && len(keyArgs) > 0:
			problems = append(problems, fmt.Sprintf("argument(s) %v flow into the fetcher, none expected", keyArgs))
		case want.keyArg >= 0 && (len(keyArgs) != 1 || keyArgs[0] != want.keyArg):
			problems = append(problems, fmt.Sprintf("the fetcher key comes from argument(s) %v, expected argument %d", keyArgs, want.keyArg))
		}
		// matcher
		ops := "?"
		if m := c18Method(c, matcher.Type(), "Match"); m != nil {
			c.Analysed(core.FuncKey(m))
			ops = c18MatchOps(m)
		}
		if pt, ok := matcher.Type().(*types.Pointer); ok {
			if n, ok := pt.Elem().(*types.Named); ok {
				matcherTypes[n.Obj().Name()] = n
			}
		}
		if ops != want.ops {
			problems = append(problems, fmt.Sprintf("the matcher (%s) compares with {%s}, expected {%s}", core.TypeStr(matcher.Type()), ops, want.ops))
		}
		var margs []ssa.Value
		switch x := matcher.(type) {
		case *ssa.Call:
			margs = x.Call.Args
		case *ssa.Extract:
			if call, ok := x.Tuple.(*ssa.Call); ok {
				margs = call.Call.Args
			}
		case *ssa.Alloc:
			margs = c18StoresInto(x)
		}
		patArgs, fold := c18ArgFlow(bp, margs)
		switch {
		case want.pat < 0 && len(patArgs) > 0:
			problems = append(problems, fmt.Sprintf("argument(s) %v flow into the matcher, none expected", patArgs))
		case want.pat >= 0 && (len(patArgs) == 0 || patArgs[0] != want.pat):
			problems = append(problems, fmt.Sprintf("the pattern comes from argument(s) %v, expected argument %d", patArgs, want.pat))
		}
		wantFold := want.fold
		if d, ok := docFold[name]; ok && d != wantFold {
			problems = append(problems, fmt.Sprintf("the documentation lists case_insensitive as %s but the reviewed table says %s", d, wantFold))
		}
		if fold != wantFold {
			problems = append(problems, fmt.Sprintf("the case flag passed to the matcher is %s, documented/reviewed: %s", fold, wantFold))
		}
		c.Check("wiring", name, pos, len(problems) == 0, "primitive "+name+": "+strings.Join(problems, "; "))
	}
	c.Min("wiring", 50)
	for n := range c18Table {
		if arms[n] == nil {
			c.Check("wiring", n, bp.Pos(), false, "reviewed primitive "+n+" has no arm in buildPrimitive")
		}
	}

	c18Fold(c, matcherTypes)
	c18Helpers(c, matcherTypes)
	c18MatchFlow(c)
	c18NilGuards(c)
	c18Inclusive(c)
	c18Domains(c, matcherTypes)
}

// ---- (b) fold-case agreement -----------------------------------------------------------

// c18IsNormaliser: a call of strings.ToUpper / strings.ToLower.
func c18IsNormaliser(in ssa.Instruction) bool {
	ci, ok := in.(ssa.CallInstruction)
	if !ok {
		return false
	}
	k := core.CalleeKey(ci.Common())
	return k == "strings.ToUpper" || k == "strings.ToLower"
}

// c18AllNormalisers adds every normaliser fn may apply (package helpers expanded).
func c18AllNormalisers(fn *ssa.Function, depth int, set map[string]bool) {
	core.Instrs(fn, func(in ssa.Instruction) {
		ci, ok := in.(ssa.CallInstruction)
		if !ok {
			return
		}
		if c18IsNormaliser(in) {
			set[core.CalleeKey(ci.Common())] = true
			return
		}
		if sc := ci.Common().StaticCallee(); sc != nil && sc.Blocks != nil && core.FuncPkgRel(sc) == condPkg && depth < 3 {
			c18AllNormalisers(sc, depth+1, set)
		}
	})
}

// c18Normalisers collects the case normalisers fn applies, split into those
// applied only when the case flag is set (`under`) and the others (`outside`).
// isFlag recognises the flag in fn's frame. A helper of the package is
// followed: a call made under the flag puts everything the helper does under
// the flag; otherwise the helper is analysed with the flag bound to the
// parameter(s) that receive it at this call site (`foldUpper(s, m.foldCase)`).
func c18Normalisers(fn *ssa.Function, isFlag func(ssa.Value) bool, depth int, under, outside map[string]bool) {
	core.Instrs(fn, func(in ssa.Instruction) {
		ci, ok := in.(ssa.CallInstruction)
		if !ok {
			return
		}
		guarded := cxHasFact(in.Block(), func(g core.Guard) bool { return g.Pol && isFlag(g.Cond) })
		if c18IsNormaliser(in) {
			if guarded {
				under[core.CalleeKey(ci.Common())] = true
			} else {
				outside[core.CalleeKey(ci.Common())] = true
			}
			return
		}
		sc := ci.Common().StaticCallee()
		if sc == nil || sc.Blocks == nil || core.FuncPkgRel(sc) != condPkg || depth >= 3 {
			return
		}
		if guarded {
			c18AllNormalisers(sc, depth+1, under)
			return
		}
		args := ci.Common().Args
		inner := func(v ssa.Value) bool {
			p, ok := core.StripConv(v).(*ssa.Parameter)
			if !ok || p.Parent() != sc {
				return false
			}
			for i, q := range sc.Params {
				if q == p && i < len(args) {
					return isFlag(args[i])
				}
			}
			return false
		}
		c18Normalisers(sc, inner, depth+1, under, outside)
	})
}

func c18Fold(c *core.Ctx, matcherTypes map[string]*types.Named) {
	pk := c.P.Pkg(condPkg)
	if pk == nil {
		return
	}
	// constructors: functions of the package whose first result is *T
	ctors := map[string]*ssa.Function{}
	for _, fn := range c.P.SrcFuncs(condPkg) {
		if fn.Parent() != nil || fn.Signature.Recv() != nil || fn.Signature.Results().Len() == 0 || !strings.HasPrefix(fn.Name(), "New") {
			continue
		}
		if pt, ok := fn.Signature.Results().At(0).Type().(*types.Pointer); ok {
			if n, ok := pt.Elem().(*types.Named); ok {
				ctors[n.Obj().Name()] = fn
			}
		}
	}
	tnames := make([]string, 0, len(matcherTypes))
	for n := range matcherTypes {
		tnames = append(tnames, n)
	}
	sort.Strings(tnames)
	for _, tn := range tnames {
		nt := matcherTypes[tn]
		st, ok := nt.Underlying().(*types.Struct)
		if !ok {
			continue
		}
		match := c18Method(c, types.NewPointer(nt), "Match")
		ctor := ctors[tn]
		var flag *types.Var
		hasPatterns := false
		for i := 0; i < st.NumFields(); i++ {
			f := st.Field(i)
			if b, ok := f.Type().Underlying().(*types.Basic); ok && b.Kind() == types.Bool {
				flag = f
			}
			switch core.TypeStr(f.Type()) {
			case "[]string", "string":
				hasPatterns = true
			}
		}
		usesSearch := match != nil && strings.Contains(c18MatchOps(match), "sort.SearchStrings")
		if usesSearch {
			ok, detail := false, "no constructor found"
			if ctor != nil {
				// a call that sorts the patterns (possibly inside a helper that always does) and
				// a call that may change their case (possibly inside a helper)
				isSort := core.LiftMust(func(in ssa.Instruction) bool {
					ci, isC := in.(ssa.CallInstruction)
					return isC && core.CallIs(ci.Common(), "sort.Strings")
				}, 3)
				mayNormalise := core.LiftMay(c18IsNormaliser, 3)
				isSuccess := func(in ssa.Instruction) bool {
					r, isR := in.(*ssa.Return)
					if !isR {
						return false
					}
					rv := core.RetVals(r)
					return len(rv) > 0 && !isNilConst(rv[0])
				}
				ok = true
				detail = ""
				if miss := core.ReachAvoiding(ctor, nil, isSort, isSuccess); miss != nil {
					ok = false
					detail = "the constructor can return a matcher without having sorted the patterns that Match searches with sort.SearchStrings"
				}
				core.Instrs(ctor, func(in ssa.Instruction) {
					if !mayNormalise(in) || isSort(in) {
						return
					}
					if later := core.ReachAvoiding(ctor, in, isSort, isSuccess); later != nil {
						ok = false
						detail = "patterns are case-normalised after sort.Strings: the slice handed to sort.SearchStrings is no longer sorted"
					}
				})
			}
			c.Check("sorted", tn, posOfFn(ctor, match), ok, tn+": "+detail)
		}
		if flag == nil {
			if tn == "HostMatcher" && match != nil && ctor != nil {
				// unconditional on both sides
				mo, co := map[string]bool{}, map[string]bool{}
				c18AllNormalisers(match, 0, mo)
				c18AllNormalisers(ctor, 0, co)
				same := len(mo) == 1 && strings.Join(cxSortedKeys(mo), ",") == strings.Join(cxSortedKeys(co), ",")
				c.Check("fold", tn, match.Pos(), same, fmt.Sprintf("HostMatcher must normalise case unconditionally with the same function on both sides; Match applies {%s}, constructor {%s}", strings.Join(cxSortedKeys(mo), ","), strings.Join(cxSortedKeys(co), ",")))
				// patterns with a port are rejected (the fetcher strips the port)
				rej := false
				for _, f := range core.TransitiveCallees(ctor, 1) {
					for _, call := range core.Calls(f, "strings.Contains") {
						if s, ok := core.ConstString(call.Common().Args[1]); ok && s == ":" {
							in := call.(ssa.Instruction)
							if v, isV := in.(ssa.Value); isV {
								for _, b := range f.Blocks {
									if core.HasGuard(b, func(g core.Guard) bool { return g.Cond == v && g.Pol }) {
										if r, ok := b.Instrs[len(b.Instrs)-1].(*ssa.Return); ok {
											rv := core.RetVals(r)
											if !isNilConst(rv[len(rv)-1]) {
												rej = true
											}
										}
									}
								}
							}
						}
					}
				}
				c.Check("fold", "HostMatcher:port-rejected", ctor.Pos(), rej, "NewHostMatcher must reject host patterns containing ':' (HostFetcher strips the port, such a pattern could never match)")
			}
			continue
		}
		if match == nil || ctor == nil {
			c.Check("fold", tn, nt.Obj().Pos(), false, tn+" has a case flag but no Match method or New… constructor was found")
			continue
		}
		c.Analysed(core.FuncKey(match), core.FuncKey(ctor))
		mUnder, mOut := map[string]bool{}, map[string]bool{}
		c18Normalisers(match, func(v ssa.Value) bool {
			base, ok := cxLoadField(v, flag.Name())
			return ok && cxBind{}.resolve(base) == ssa.Value(match.Params[0])
		}, 0, mUnder, mOut)
		// the constructor parameter stored into the flag field
		var param *ssa.Parameter
		for _, g := range c.P.Region(ctor) {
			core.Instrs(g, func(in ssa.Instruction) {
				if st, ok := in.(*ssa.Store); ok {
					if fa, ok := st.Addr.(*ssa.FieldAddr); ok && core.FieldObj(fa.X, fa.Field) == flag {
						if p, ok := core.StripConv(st.Val).(*ssa.Parameter); ok && p.Parent() == ctor {
							param = p
						}
					}
				}
			})
		}
		var problems []string
		if param == nil {
			problems = append(problems, "the constructor does not store its flag parameter in ."+flag.Name())
		}
		cUnder, cOut := map[string]bool{}, map[string]bool{}
		c18Normalisers(ctor, func(v ssa.Value) bool { return param != nil && core.StripConv(v) == ssa.Value(param) }, 0, cUnder, cOut)
		mu, cu := strings.Join(cxSortedKeys(mUnder), ","), strings.Join(cxSortedKeys(cUnder), ",")
		if len(mOut) > 0 {
			problems = append(problems, "Match normalises case outside the flag test ("+strings.Join(cxSortedKeys(mOut), ",")+")")
		}
		if len(cOut) > 0 {
			problems = append(problems, "the constructor normalises patterns outside the flag test ("+strings.Join(cxSortedKeys(cOut), ",")+")")
		}
		if len(mUnder) != 1 {
			problems = append(problems, "Match applies {"+mu+"} under the flag, expected exactly one normaliser")
		}
		if hasPatterns && tn != "HashValueMatcher" && mu != cu {
			problems = append(problems, "Match applies {"+mu+"} to the value but the constructor applies {"+cu+"} to the patterns under the same flag")
		}
		c.Check("fold", tn, match.Pos(), len(problems) == 0, tn+": "+strings.Join(problems, "; "))
	}
	c.Min("fold", 6)
	c.Min("sorted", 2)
}

func posOfFn(fs ...*ssa.Function) token.Pos {
	for _, f := range fs {
		if f != nil {
			return f.Pos()
		}
	}
	return token.NoPos
}

// ---- (c) PrimitiveCond.Match ---------------------------------------------------------------

func c18MatchFlow(c *core.Ctx) {
	fn := c.P.Func(condPkg, "PrimitiveCond.Match")
	if fn == nil {
		c.Missing(condPkg + ".PrimitiveCond.Match")
		return
	}
	for _, g := range c.P.Region(fn) {
		c.Analysed(core.FuncKey(g))
	}
	nFetch, nMatch := 0, 0
	c.P.RegionInstrs(fn, func(in ssa.Instruction) {
		if call, ok := in.(*ssa.Call); ok && call.Call.IsInvoke() {
			switch call.Call.Method.Name() {
			case "Fetch":
				nFetch++
			case "Match":
				nMatch++
			}
		}
	})
	if nFetch == 0 || nMatch == 0 {
		c.Check("match-flow", "PrimitiveCond.Match:calls", fn.Pos(), false, "PrimitiveCond.Match must call fetcher.Fetch and matcher.Match")
		return
	}
	// The method is evaluated on abstract inputs: which of req, req.Session and
	// req.HttpRequest is nil, whether Fetch fails, and the matcher's verdict on
	// the fetched value. if-chains, inverted tests, named booleans, early
	// returns and private helpers evaluate alike.
	type input struct {
		reqNil, sesNil, httpNil, fetchErr, verdict bool
	}
	run := func(x input) (result, decided bool, why string) {
		it := &cxInterp{NonNil: true}
		it.Oracle = func(it *cxInterp, fr *cxFrame, v ssa.Value) (cxVal, bool) {
			switch y := v.(type) {
			case *ssa.UnOp:
				if y.Op != token.MUL {
					return nil, false
				}
				switch k, _ := cxSymKey(it.get(fr, y.X)); k {
				case "&req.Session":
					if x.sesNil {
						return cxNilV{}, true
					}
				case "&req.HttpRequest":
					if x.httpNil {
						return cxNilV{}, true
					}
				}
			case *ssa.Call:
				if !y.Call.IsInvoke() {
					return nil, false
				}
				rk, _ := cxSymKey(it.get(fr, y.Call.Value))
				switch y.Call.Method.Name() {
				case "Fetch":
					if ak, _ := cxSymKey(it.get(fr, y.Call.Args[0])); rk == "recv.fetcher" && ak == "req" && !x.sesNil && !x.httpNil {
						if x.fetchErr {
							return cxTuple{nil, cxSym{"fetch-error"}}, true
						}
						return cxTuple{cxSym{"fetched"}, cxNilV{}}, true
					}
					return nil, true
				case "Match":
					if ak, _ := cxSymKey(it.get(fr, y.Call.Args[0])); rk == "recv.matcher" && ak == "fetched" {
						return x.verdict, true
					}
					return nil, true
				}
			}
			return nil, false
		}
		var req cxVal = cxSym{"req"}
		if x.reqNil {
			req = cxNilV{}
		}
		res, done := it.Run(fn, []cxVal{cxSym{"recv"}, req})
		if !done || len(res) != 1 {
			return false, false, it.Why
		}
		b, isBool := res[0].(bool)
		if !isBool {
			return false, false, "the result is not determined by the request, the fetch result and the matcher's verdict on the fetched value"
		}
		return b, true, ""
	}
	falseFor := func(x input) (bool, string) {
		for _, v := range []bool{false, true} {
			x.verdict = v
			got, decided, why := run(x)
			if !decided {
				return false, "undecided: " + why
			}
			if got {
				return false, "returns true"
			}
		}
		return true, ""
	}
	ok, why := falseFor(input{reqNil: true, sesNil: true, httpNil: true})
	c.Check("match-flow", "PrimitiveCond.Match:req!=nil", fn.Pos(), ok, "PrimitiveCond.Match must return false before fetching when req is nil (fetchers dereference it): "+why)
	ok, why = falseFor(input{sesNil: true})
	c.Check("match-flow", "PrimitiveCond.Match:req.Session!=nil", fn.Pos(), ok, "PrimitiveCond.Match must return false before fetching when req.Session is nil (fetchers dereference it): "+why)
	ok, why = falseFor(input{httpNil: true})
	c.Check("match-flow", "PrimitiveCond.Match:req.HttpRequest!=nil", fn.Pos(), ok, "PrimitiveCond.Match must return false before fetching when req.HttpRequest is nil (fetchers dereference it): "+why)
	ok, why = falseFor(input{fetchErr: true})
	c.Check("match-flow", "PrimitiveCond.Match:error=>false", fn.Pos(), ok, "when fetcher.Fetch returns an error the primitive must be false (a missing attribute never matches): "+why)
	okArg, okRet, detail := true, true, ""
	for _, v := range []bool{false, true} {
		got, decided, why := run(input{verdict: v})
		if !decided {
			okArg = false
			detail = why
		} else if got != v {
			okRet = false
		}
	}
	c.Check("match-flow", "PrimitiveCond.Match:value", fn.Pos(), okArg, "matcher.Match must be applied to the value returned by p.fetcher.Fetch(req) and decide the result: "+detail)
	c.Check("match-flow", "PrimitiveCond.Match:result", fn.Pos(), okArg && okRet, "PrimitiveCond.Match must return the matcher's verdict, and false on every other path")
	c.Min("match-flow", 6)
}

// c18NilTest: +1 when g establishes <path> != nil, -1 for == nil.
func c18NilTest(g core.Guard, path string) int {
	bo, ok := g.Cond.(*ssa.BinOp)
	if !ok || (bo.Op != token.NEQ && bo.Op != token.EQL) {
		return 0
	}
	var v ssa.Value
	switch {
	case isNilConst(bo.Y):
		v = bo.X
	case isNilConst(bo.X):
		v = bo.Y
	default:
		return 0
	}
	if core.Render(v) != path {
		return 0
	}
	if (bo.Op == token.NEQ) == g.Pol {
		return 1
	}
	return -1
}

// c18NilGuards: dereferences of optional pointer attributes need a dominating nil test.
func c18NilGuards(c *core.Ctx) {
	optional := map[string]bool{"HttpResponse": true, "ClientAddr": true, "RemoteAddr": true, "TlsState": true, "URL": true, "Stat": true, "OutRequest": true}
	n := 0
	for _, fn := range c.P.SrcFuncs(condPkg) {
		if fn.Parent() != nil || fn.Signature.Recv() == nil || (fn.Name() != "Fetch" && fn.Name() != "Match") || len(fn.Params) != 2 {
			continue
		}
		if !strings.HasSuffix(core.TypeStr(fn.Params[1].Type()), "bfe_basic.Request") {
			continue
		}
		type deref struct {
			path string
			ok   bool
		}
		var ds []deref
		core.Instrs(fn, func(in ssa.Instruction) {
			var base ssa.Value
			switch x := in.(type) {
			case *ssa.FieldAddr:
				base = x.X
			case ssa.CallInstruction:
				if !x.Common().IsInvoke() && len(x.Common().Args) > 0 && x.Common().Signature().Recv() != nil {
					base = x.Common().Args[0]
				}
			}
			ld, ok := base.(*ssa.UnOp)
			if !ok || ld.Op != token.MUL {
				return
			}
			fa, ok := ld.X.(*ssa.FieldAddr)
			if !ok {
				return
			}
			f := core.FieldObj(fa.X, fa.Field)
			if f == nil || !optional[f.Name()] {
				return
			}
			if _, isPtr := f.Type().Underlying().(*types.Pointer); !isPtr {
				return
			}
			path := core.Render(ld)
			ok = cxAllEdgesFact(in.Block(), func(g core.Guard) bool { return c18NilTest(g, path) == 1 })
			ds = append(ds, deref{path, ok})
		})
		if len(ds) == 0 {
			continue
		}
		n++
		c.Analysed(core.FuncKey(fn))
		var bad []string
		for _, d := range ds {
			if !d.ok {
				bad = append(bad, d.path)
			}
		}
		key := core.FuncKey(fn)
		key = key[strings.LastIndex(key, "/")+1:]
		key = strings.TrimPrefix(key, "condition.")
		c.Check("nil-guard", key, fn.Pos(), len(bad) == 0, key+" dereferences "+strings.Join(cxUniq(bad), ", ")+" without a dominating nil test: a request without that attribute panics instead of making the primitive false")
	}
	c.Min("nil-guard", 8)
	c.Note("nil-guard: %d Fetch/Match methods dereference optional request attributes", n)
}

// ---- (d) inclusive ranges ----------------------------------------------------------------------

// c18RangeTable evaluates the Match method of a range matcher on abstract
// inputs: lo and hi are the order of the value under test relative to the lower
// and the upper bound held in the receiver (-1 below, 0 equal, +1 above). The
// comparisons the method may use are answered from them: bytes.Compare(x,
// bound) (either argument order), time.Time.Before/After/Equal/Compare against
// a bound, and integer comparisons `x op bound`. Everything else is computed
// by the interpreter, so early-return chains, one conjunction, negated tests,
// named booleans and private helpers give the same table.
func c18RangeTable(fn *ssa.Function, loField, hiField string, lo, hi int) (result, decided bool, why string) {
	pos := func(key string) (int, bool) {
		switch key {
		case "recv." + loField:
			return lo, true
		case "recv." + hiField:
			return hi, true
		}
		return 0, false
	}
	derived := func(v cxVal) bool {
		k, ok := cxSymKey(v)
		return ok && (k == "v" || strings.HasPrefix(k, "v:"))
	}
	it := &cxInterp{NonNil: true}
	it.Oracle = func(it *cxInterp, fr *cxFrame, v ssa.Value) (cxVal, bool) {
		switch x := v.(type) {
		case *ssa.TypeAssert:
			if x.CommaOk && derived(it.get(fr, x.X)) {
				return cxTuple{it.get(fr, x.X), true}, true
			}
		case *ssa.BinOp:
			switch x.Op {
			case token.LSS, token.LEQ, token.GTR, token.GEQ, token.EQL, token.NEQ:
			default:
				return nil, false
			}
			if k, ok := cxSymKey(it.get(fr, x.Y)); ok {
				if p, isBound := pos(k); isBound {
					return c18EvalCmp(x.Op, p, 0), true
				}
			}
			if k, ok := cxSymKey(it.get(fr, x.X)); ok {
				if p, isBound := pos(k); isBound {
					return c18EvalCmp(x.Op, 0, p), true
				}
			}
		case *ssa.Call:
			if x.Call.IsInvoke() {
				return nil, false
			}
			callee := x.Call.StaticCallee()
			if callee == nil || callee.Blocks != nil && core.FuncPkgRel(callee) != "" {
				return nil, false
			}
			args := make([]cxVal, len(x.Call.Args))
			for i, a := range x.Call.Args {
				args[i] = it.get(fr, a)
			}
			key := core.CalleeKey(&x.Call)
			if len(args) == 2 {
				// order of the tested value relative to the bound, whichever side the bound is on
				ord, known := 0, false
				if k, ok := cxSymKey(args[1]); ok && derived(args[0]) {
					if p, isBound := pos(k); isBound {
						ord, known = p, true
					}
				}
				if k, ok := cxSymKey(args[0]); ok && derived(args[1]) {
					if p, isBound := pos(k); isBound {
						ord, known = -p, true
					}
				}
				if known {
					switch key {
					case "bytes.Compare", "time.Time.Compare":
						return int64(ord), true
					case "time.Time.Before":
						return ord < 0, true
					case "time.Time.After":
						return ord > 0, true
					case "time.Time.Equal", "bytes.Equal", "net.IP.Equal":
						return ord == 0, true
					}
				}
			}
			// a value computed from the value under test by a library function is still "the value"
			for _, a := range args {
				if derived(a) {
					return cxSym{"v:" + key}, true
				}
			}
		}
		return nil, false
	}
	res, done := it.Run(fn, []cxVal{cxSym{"recv"}, cxSym{"v"}})
	if !done || len(res) != 1 {
		return false, false, it.Why
	}
	b, isBool := res[0].(bool)
	if !isBool {
		return false, false, "the result is not determined by the order of the value relative to " + loField + " and " + hiField
	}
	return b, true, ""
}

func c18Inclusive(c *core.Ctx) {
	for _, w := range []struct{ typ, lo, hi, what string }{
		{"IPMatcher", "startIP", "endIP", "[start_ip, end_ip]"},
		{"PeriodicTimeMatcher", "startTime", "endTime", "[start_time, end_time]"},
		{"TimeMatcher", "startTime", "endTime", "[start_time, end_time]"},
	} {
		fn := c.P.Func(condPkg, w.typ+".Match")
		if fn == nil {
			c.Missing(condPkg + "." + w.typ + ".Match")
			continue
		}
		c.Analysed(core.FuncKey(fn))
		type pt struct {
			lo, hi int
			want   bool
			name   string
		}
		check := func(bound string, pts []pt) {
			ok, detail := true, ""
			for _, p := range pts {
				got, decided, why := c18RangeTable(fn, w.lo, w.hi, p.lo, p.hi)
				switch {
				case !decided:
					ok = false
					detail += fmt.Sprintf("for a value %s the result is undecided (%s); ", p.name, why)
				case got != p.want:
					ok = false
					detail += fmt.Sprintf("a value %s yields %v; ", p.name, got)
				}
			}
			c.Check("inclusive", w.typ+".Match:"+bound, fn.Pos(), ok, fmt.Sprintf("%s.Match, bound %s: %sthe documented range %s includes both ends and nothing outside", w.typ, bound, detail, w.what))
		}
		check(w.lo, []pt{{-1, -1, false, "below " + w.lo}, {0, -1, true, "equal to " + w.lo}, {0, 0, true, "equal to both bounds (single-point range)"}})
		check(w.hi, []pt{{1, -1, true, "strictly inside the range"}, {1, 0, true, "equal to " + w.hi}, {1, 1, false, "above " + w.hi}})
	}
	c.Min("inclusive", 6)
}

func c18EvalCmp(op token.Token, l, r int) bool {
	switch op {
	case token.LSS:
		return l < r
	case token.LEQ:
		return l <= r
	case token.GTR:
		return l > r
	case token.GEQ:
		return l >= r
	case token.EQL:
		return l == r
	case token.NEQ:
		return l != r
	}
	return false
}

// ---- (a2) matcher helpers and verdict polarity -------------------------------------------

func c18Helpers(c *core.Ctx, matcherTypes map[string]*types.Named) {
	helpers := map[*ssa.Function]bool{}
	tnames := make([]string, 0, len(matcherTypes))
	for n := range matcherTypes {
		tnames = append(tnames, n)
	}
	sort.Strings(tnames)
	isOp := func(v ssa.Value) bool {
		switch x := v.(type) {
		case *ssa.Call:
			if c18OpCallees[core.CalleeKey(&x.Call)] {
				return true
			}
			if sc := x.Call.StaticCallee(); sc != nil && core.FuncPkgRel(sc) == condPkg {
				return true
			}
		case *ssa.BinOp:
			return x.Op == token.EQL
		case *ssa.Extract: // comma-ok of a type assertion is not a comparison
			return false
		}
		return false
	}
	rangeMatchers := map[string]bool{"IPMatcher": true, "TimeMatcher": true}
	for _, tn := range tnames {
		m := c18Method(c, types.NewPointer(matcherTypes[tn]), "Match")
		if m == nil {
			continue
		}
		for _, call := range core.AllCalls(m) {
			if sc := call.Common().StaticCallee(); sc != nil && core.FuncPkgRel(sc) == condPkg && sc.Signature.Recv() == nil && sc.Signature.Params().Len() == 2 && sc.Signature.Results().Len() == 1 {
				if core.TypeStr(sc.Signature.Params().At(0).Type()) == "string" && core.TypeStr(sc.Signature.Params().At(1).Type()) == "[]string" {
					helpers[sc] = true
				}
			}
		}
		var problems []string
		for _, r := range core.Returns(m) {
			rv := core.RetVals(r)[0]
			if u, ok := rv.(*ssa.UnOp); ok && u.Op == token.NOT {
				problems = append(problems, "returns the negation "+cxTrim(core.Render(rv), 120))
			}
			if core.Render(rv) == "true" && !rangeMatchers[tn] {
				if !core.HasGuard(r.Block(), func(g core.Guard) bool { return g.Pol && isOp(g.Cond) }) {
					problems = append(problems, "returns true without a positive comparison controlling it (guards: "+cxTrim(strings.Join(core.GuardStrs(r.Block()), " && "), 200)+")")
				}
			}
			if call, ok := rv.(*ssa.Call); ok {
				// the value handed to a helper is the (normalised) value under test, the patterns are the receiver's
				if sc := call.Call.StaticCallee(); sc != nil && helpers[sc] && len(call.Call.Args) == 2 {
					if !strings.HasPrefix(core.Render(call.Call.Args[1]), cxP(m, 0)+".") {
						problems = append(problems, "helper "+sc.Name()+" is not given the receiver's patterns")
					}
				}
			}
		}
		c.Check("match-result", tn, m.Pos(), len(problems) == 0, tn+".Match: "+strings.Join(cxUniq(problems), "; "))
	}
	c.Min("match-result", 10)
	var hs []*ssa.Function
	for h := range helpers {
		hs = append(hs, h)
	}
	sort.Slice(hs, func(i, j int) bool { return hs[i].Name() < hs[j].Name() })
	for _, h := range hs {
		c.Analysed(core.FuncKey(h))
		v, pats := cxP(h, 0), cxP(h, 1)
		var problems []string
		nOps := 0
		for _, call := range core.AllCalls(h) {
			k := core.CalleeKey(call.Common())
			if !c18OpCallees[k] {
				continue
			}
			nOps++
			a := call.Common().Args
			switch k {
			case "strings.HasPrefix", "strings.HasSuffix", "strings.Contains":
				if core.Render(a[0]) != v || !strings.HasPrefix(core.Render(a[1]), pats+"[") {
					problems = append(problems, fmt.Sprintf("%s(%s, %s): expected (value, pattern)", k, core.Render(a[0]), cxTrim(core.Render(a[1]), 60)))
				}
				val := call.(ssa.Value)
				okTrue := false
				for _, r := range core.Returns(h) {
					rv := core.Render(core.RetVals(r)[0])
					pos := core.HasGuard(r.Block(), func(g core.Guard) bool { return g.Cond == val && g.Pol })
					switch {
					case rv == "true" && pos:
						okTrue = true
					case rv == "true":
						problems = append(problems, "returns true without the comparison having succeeded")
					case rv != "false":
						problems = append(problems, "returns "+cxTrim(rv, 80))
					case pos:
						problems = append(problems, "returns false although the comparison succeeded")
					}
				}
				if !okTrue {
					problems = append(problems, "no `return true` under a successful comparison")
				}
			case "sort.SearchStrings":
				if core.Render(a[0]) != pats || core.Render(a[1]) != v {
					problems = append(problems, "sort.SearchStrings must search the patterns for the value")
				}
				// the result is `i < len(patterns) && patterns[i] == value` with i the search position,
				// in any spelling: evaluated for both outcomes of the two tests
				for _, inRange := range []bool{false, true} {
					for _, equal := range []bool{false, true} {
						got, decided, why := c18SearchTable(h, inRange, equal)
						switch {
						case !decided:
							problems = append(problems, "the result must be `i < len(patterns) && patterns[i] == value` with i the search position; it is undecided: "+why)
						case got != (inRange && equal):
							problems = append(problems, fmt.Sprintf("the result must be `i < len(patterns) && patterns[i] == value` with i the search position; with i<len=%v and patterns[i]==value=%v it is %v", inRange, equal, got))
						}
					}
				}
			}
		}
		if nOps != 1 {
			problems = append(problems, fmt.Sprintf("%d comparison calls, expected one", nOps))
		}
		c.Check("helper", h.Name(), h.Pos(), len(problems) == 0, "helper "+h.Name()+"(value, patterns): "+strings.Join(cxUniq(problems), "; "))
	}
	c.Min("helper", 4)
}

// c18SearchTable evaluates a `(value, patterns) bool` helper built on
// sort.SearchStrings for the two facts that decide membership: the search
// position lies inside the slice, and the pattern found there equals the value.
// Reading patterns[i] when the position is outside makes the run undecided.
func c18SearchTable(h *ssa.Function, inRange, equal bool) (result, decided bool, why string) {
	ord := 0 // position relative to len(patterns): -1 inside, 0 at the end (not found)
	if inRange {
		ord = -1
	}
	it := &cxInterp{NonNil: true}
	key := func(fr *cxFrame, v ssa.Value) string { k, _ := cxSymKey(it.get(fr, v)); return k }
	oob := false
	it.Oracle = func(it *cxInterp, fr *cxFrame, v ssa.Value) (cxVal, bool) {
		switch x := v.(type) {
		case *ssa.Call:
			if b, ok := x.Call.Value.(*ssa.Builtin); ok && b.Name() == "len" && len(x.Call.Args) == 1 && key(fr, x.Call.Args[0]) == "patterns" {
				return cxSym{"len"}, true
			}
			if core.CallIs(&x.Call, "sort.SearchStrings") && len(x.Call.Args) == 2 {
				if key(fr, x.Call.Args[0]) == "patterns" && key(fr, x.Call.Args[1]) == "v" {
					return cxSym{"idx"}, true
				}
				return nil, true
			}
		case *ssa.IndexAddr:
			if key(fr, x.X) == "patterns" && key(fr, x.Index) == "idx" {
				if !inRange {
					return cxSym{"&out-of-range"}, true
				}
				return cxSym{"&patterns[idx]"}, true
			}
		case *ssa.UnOp:
			if x.Op == token.MUL && key(fr, x.X) == "&out-of-range" {
				oob = true
				return nil, true
			}
		case *ssa.BinOp:
			kx, ky := key(fr, x.X), key(fr, x.Y)
			switch {
			case kx == "idx" && ky == "len":
				return c18EvalCmp(x.Op, ord, 0), true
			case kx == "len" && ky == "idx":
				return c18EvalCmp(x.Op, 0, ord), true
			case kx == "patterns[idx]" && ky == "v" || kx == "v" && ky == "patterns[idx]":
				switch x.Op {
				case token.EQL:
					return equal, true
				case token.NEQ:
					return !equal, true
				}
			}
		}
		return nil, false
	}
	res, done := it.Run(h, []cxVal{cxSym{"v"}, cxSym{"patterns"}})
	if oob {
		return false, false, "patterns[i] is read although i may equal len(patterns)"
	}
	if !done || len(res) != 1 {
		return false, false, it.Why
	}
	b, isBool := res[0].(bool)
	if !isBool {
		return false, false, "the result is not determined by `i < len(patterns)` and `patterns[i] == value`"
	}
	return b, true, ""
}

// ---- (e) value domains of the range matchers --------------------------------------------

// c18Ctors: New… functions of the condition package by the type they build.
func c18Ctors(c *core.Ctx) map[string]*ssa.Function {
	ctors := map[string]*ssa.Function{}
	for _, fn := range c.P.SrcFuncs(condPkg) {
		if fn.Parent() != nil || fn.Signature.Recv() != nil || fn.Signature.Results().Len() == 0 || !strings.HasPrefix(fn.Name(), "New") {
			continue
		}
		if pt, ok := fn.Signature.Results().At(0).Type().(*types.Pointer); ok {
			if n, ok := pt.Elem().(*types.Named); ok {
				ctors[n.Obj().Name()] = fn
			}
		}
	}
	return ctors
}

// c18RecvField: v is a load of field f of the method's receiver; returns f.
func c18RecvField(fn *ssa.Function, v ssa.Value) *types.Var {
	fa, ok := rtLoadOf(v).(*ssa.FieldAddr)
	if !ok || len(fn.Params) == 0 {
		return nil
	}
	if root, fields := rtPathOf(fa.X); root != ssa.Value(fn.Params[0]) || len(fields) != 0 {
		return nil
	}
	return core.FieldObj(fa.X, fa.Field)
}

// c18Domains decides, for every matcher whose Match compares the value under
// test with integer bounds held in the receiver or uses it as an index into a
// table held in the receiver:
//   - domain: every value the tested operand can take lies in the range the
//     constructor can give the bound (a bound of 0 / 86399 only means "from
//     midnight" / "to midnight" if the operand never leaves [0, 86399]); an
//     index lies in [0, len(table));
//   - applied: the tested operand is computed from the value handed to Match
//     and from every other field the constructor sets (a zone offset that is
//     stored but does not reach the comparison is a parameter that is
//     ignored);
//   - used: every field a constructor sets is read by Match.
func c18Domains(c *core.Ctx, matcherTypes map[string]*types.Named) {
	ctors := c18Ctors(c)
	pkgFns := c.P.SrcFuncs(condPkg)
	tnames := make([]string, 0, len(matcherTypes))
	for n := range matcherTypes {
		tnames = append(tnames, n)
	}
	sort.Strings(tnames)
	isInt := func(t types.Type) bool {
		b, ok := t.Underlying().(*types.Basic)
		return ok && b.Info()&types.IsInteger != 0
	}
	for _, tn := range tnames {
		nt := matcherTypes[tn]
		st, ok := nt.Underlying().(*types.Struct)
		if !ok {
			continue
		}
		m := c18Method(c, types.NewPointer(nt), "Match")
		if m == nil || len(m.Params) != 2 {
			continue
		}
		ctor := ctors[tn]
		// ---- used: fields the constructor sets are read by Match (callees inside the package included)
		if ctor != nil && st.NumFields() > 0 {
			var scope []*ssa.Function
			for _, f := range core.TransitiveCallees(m, 2) {
				if core.FuncPkgRel(f) == condPkg {
					scope = append(scope, f)
				}
			}
			var unused []string
			n := 0
			for i := 0; i < st.NumFields(); i++ {
				f := st.Field(i)
				if len(core.FieldStores([]*ssa.Function{ctor}, f)) == 0 {
					continue
				}
				n++
				if len(core.FieldReads(scope, f)) == 0 {
					unused = append(unused, f.Name())
				}
			}
			if n > 0 {
				c.Check("ctor-fields-used", tn, m.Pos(), len(unused) == 0, tn+": "+core.FuncKey(ctor)+" sets "+strings.Join(unused, ", ")+" but Match never reads it: a configured parameter of the primitive has no effect")
			}
		}
		// ---- bounds
		type cmp struct {
			bo    *ssa.BinOp
			other ssa.Value
			f     *types.Var
		}
		var cmps []cmp
		boundField := map[*types.Var]bool{}
		core.Instrs(m, func(in ssa.Instruction) {
			bo, ok := in.(*ssa.BinOp)
			if !ok {
				return
			}
			switch bo.Op {
			case token.LSS, token.LEQ, token.GTR, token.GEQ:
			default:
				return
			}
			if !isInt(bo.X.Type()) {
				return
			}
			if f := c18RecvField(m, bo.Y); f != nil {
				cmps = append(cmps, cmp{bo, bo.X, f})
				boundField[f] = true
			} else if f := c18RecvField(m, bo.X); f != nil {
				cmps = append(cmps, cmp{bo, bo.Y, f})
				boundField[f] = true
			}
		})
		for _, cp := range cmps {
			// the range the constructor can give the bound
			dom, n := ivl{}, 0
			for _, s := range core.FieldStores(pkgFns, cp.f) {
				if s.Fn == m {
					continue
				}
				r := ivOf(s.Store.Val, newIvEnv())
				if n == 0 {
					dom = r
				} else {
					dom = ivHull(dom, r)
				}
				n++
			}
			if n == 0 {
				dom = ivType(cp.f.Type())
			}
			got := ivOf(cp.other, newIvEnv())
			c.Check("value-domain", tn+".Match:"+cp.f.Name(), cp.bo.Pos(), got.within(dom),
				fmt.Sprintf("%s.Match compares %s, which can take values in %s, with %s, which the constructor keeps in %s: values outside the bound's range make the documented window [start, end] miss instants it contains (Go's %% keeps the sign of the dividend; a wall-clock second of day is never negative)", tn, cxTrim(core.Render(cp.other), 120), got, cp.f.Name(), dom))
			// applied: computed from the value under test and from the other configured fields
			deps := ivDepends(cp.other)
			var missing []string
			if !deps[m.Params[1]] {
				missing = append(missing, "the value handed to Match")
			}
			if ctor != nil {
				for i := 0; i < st.NumFields(); i++ {
					f := st.Field(i)
					if boundField[f] || len(core.FieldStores([]*ssa.Function{ctor}, f)) == 0 {
						continue
					}
					found := false
					for d := range deps {
						if c18RecvField(m, d) == f {
							found = true
						}
					}
					if !found {
						missing = append(missing, "the configured "+f.Name())
					}
				}
			}
			c.Check("value-applied", tn+".Match:"+cp.f.Name(), cp.bo.Pos(), len(missing) == 0, tn+".Match: the operand compared with "+cp.f.Name()+" does not depend on "+strings.Join(missing, " / "))
		}
		// ---- tables indexed by a computed value
		core.Instrs(m, func(in ssa.Instruction) {
			ia, ok := in.(*ssa.IndexAddr)
			if !ok {
				return
			}
			f := c18RecvField(m, ia.X)
			if f == nil {
				return
			}
			if _, isSlice := f.Type().Underlying().(*types.Slice); !isSlice || rtAscendingIndex(ia.Index) {
				return
			}
			if _, isK := ia.Index.(*ssa.Const); isK {
				return
			}
			okLen, minLen := true, int64(ivPosInf)
			n := 0
			for _, s := range core.FieldStores(pkgFns, f) {
				n++
				l, ok := ivSliceLen(s.Store.Val, newIvEnv())
				if !ok || l.lo <= 0 {
					okLen = false
					continue
				}
				if l.lo < minLen {
					minLen = l.lo
				}
			}
			got := ivOf(ia.Index, newIvEnv())
			ok = okLen && n > 0 && got.lo >= 0 && got.hi < minLen
			lenStr := "unknown"
			if okLen && n > 0 {
				lenStr = fmt.Sprint(minLen)
			}
			c.Check("value-domain", tn+".Match:index("+f.Name()+")", ia.Pos(), ok,
				fmt.Sprintf("%s.Match indexes %s (length %s as built by the constructor) with %s, which can take values in %s: an index outside the table panics or reads the wrong bucket", tn, f.Name(), lenStr, cxTrim(core.Render(ia.Index), 120), got))
		})
	}
	c.Min("value-domain", 3)
	c.Min("value-applied", 2)
	c.Min("ctor-fields-used", 8)
}
