package rules

import (
	"fmt"
	"go/token"
	"go/types"
	"sort"
	"strings"

	"golang.org/x/tools/go/ssa"

	"verif/internal/core"
)

// C29 — the client address cannot be spoofed by untrusted peers.
func init() {
	Register(&Rule{
		ID: "C29", Section: "5 C29",
		Technique: "who-may-write census (Request.ClientAddr, the TCPAddr objects behind ClientAddr/RemoteAddr, Session.isTrustSource, Session/Request.RemoteAddr, bfe_http.Request.RemoteAddr), who-may-call census (parseClientAddr, setClientAddr, SetTrustSource, setHeaderRealAddr), control dependence of header-derived stores on Session.TrustSource(), witness-path analysis of setClientAddr, backward value flow for the X-Real-*/X-Forwarded-For values, use census of the X-Real-Ip/X-Real-Port constants (header-key uses; comparisons and log arguments are not uses), value-origin analysis of the ip argument of parseClientAddr with the facts on the way of each origin (X-Real-Ip precedence), key classification (constant / constant table / computed-and-compared) of every request-header deletion after mod_header's callback",
		Meta: core.Meta{
			Level:       "other",
			Explanation: "Decides: (a) Request.ClientAddr is written only by bfe_server.setClientAddr and parseClientAddr; in setClientAddr every path that did not see req.Session.TrustSource() == true stores req.RemoteAddr into req.ClientAddr and nothing can overwrite it afterwards; every other non-nil store and every parseClientAddr call is control-dependent on TrustSource() == true of the request's own session; parseClientAddr is called only from setClientAddr and writes IP/Port only into a TCPAddr it allocated itself (never into the shared socket address object); nobody else writes through ClientAddr/RemoteAddr; setClientAddr is called only from ReverseProxy.ServeHTTP and dominates every module callback and clusterInvoke there; (a2) for trusted peers the documented precedence holds: the ip handed to parseClientAddr comes from Header.Get(X-Real-Ip), and from any other header (X-Forwarded-For) only on ways that established Header.Get(X-Real-Ip) == \"\" (value origins traced through phis, helper results and helper parameters); setClientAddr stands for its region (unexported helpers called from nowhere else), objects are compared structurally (the parameter of a helper stands for the argument it receives), never by local name; (b) Session.isTrustSource is touched only by Session.TrustSource/SetTrustSource, TrustSource() is `flag == SessionTrustSource` and SetTrustSource stores that constant only under its argument being true; SetTrustSource is called only by mod_trust_clientip's accept handler with the result of IPTable.Search(session.RemoteAddr.IP) of the same session; Session.RemoteAddr is written only by NewSession from conn.RemoteAddr(), Request.RemoteAddr only by NewRequest from the session it stores; (c) mod_header: setHeaderRealAddr is called only by setDefaultHeader with values derived from request.ClientAddr (IP.String(), Itoa(Port)) and writes X-Real-Ip / X-Real-Port with Header.Set (overwrite) from exactly those parameters; setDefaultHeader skips it only when ClientAddr == nil; the X-Forwarded-For value set by modHeaderForwardedAddr ends with the host part of HttpRequest.RemoteAddr, which is written only from the connection's RemoteAddr().String(); no other function of the program uses the X-Real-Ip / X-Real-Port names as a header key or passes them on (a comparison with the name, or a log line printing it, neither reads nor writes the header and is not a use). (d) the headers mod_header wrote survive: in ReverseProxy.ServeHTTP and the bfe_server helpers it calls after the HandleAfterLocation callback, every Header.Del / delete on a request header takes a constant or an element of a constant table that does not name X-Real-Ip / X-Real-Port / X-Forwarded-For, or a computed key that was compared against all three names (a key taken from the client's Connection header cannot strip them). Not covered: module ordering at run time (mod_trust_clientip must run at accept), modules that run in HandleForward after mod_header, the disableDefaultHeader switch, header rules of mod_header that a configuration may add, correctness of IPTable.Search, ClientAddr == nil for a trusted peer that sent no usable header (the client's X-Real-Ip then passes through).",
			RuleText:    "obligations = each writer of the listed fields, each caller of the listed functions, each store/call in setClientAddr and parseClientAddr, each X-Real-*/X-Forwarded-For header write of mod_header, each function using the X-Real-* names as a key, per parseClientAddr call the origins of its ip argument, each request-header deletion between the HandleAfterLocation callback and the backend send",
			Assumptions: []string{"net.TCPAddr values reachable from Session.RemoteAddr are not mutated through other aliases (the census covers the three access paths ClientAddr, Request.RemoteAddr, Session.RemoteAddr)"},
		},
		Run: runC29,
		Mutants: []Mutant{
			{Name: "trust-check-inverted", File: "bfe_server/set_client_addr.go", Old: "	if !req.Session.TrustSource() { // request not from upstream bfe server", New: "	if req.Session.TrustSource() {", Expect: "untrusted-gets-peer"},
			{Name: "untrusted-falls-through", File: "bfe_server/set_client_addr.go", Old: "		req.ClientAddr = req.RemoteAddr\n		return\n	}", New: "		req.ClientAddr = req.RemoteAddr\n	}", Expect: "peer-is-final"},
			{Name: "header-parsed-for-everyone", File: "bfe_server/reverseproxy.go", Old: "	setClientAddr(basicReq)\n", New: "	setClientAddr(basicReq)\n	parseClientAddr(basicReq, req.Header.Get(\"X-Real-Ip\"), \"\")\n", Expect: "parse-callers"},
			{Name: "trust-everything", File: "bfe_basic/session.go", Old: "	val := SessionNotTrustSource\n	if isTrustSource {", New: "	val := SessionTrustSource\n	if isTrustSource {", Expect: "trust-flag"},
			{Name: "trust-or-vip", File: "bfe_modules/mod_trust_clientip/mod_trust_clientip.go", Old: "	session.SetTrustSource(trusted)", New: "	session.SetTrustSource(trusted || session.Vip != nil)", Expect: "settrust-callers"},
			{Name: "search-on-vip", File: "bfe_modules/mod_trust_clientip/mod_trust_clientip.go", Old: "	trusted := m.trustTable.Search(session.RemoteAddr.IP)", New: "	trusted := m.trustTable.Search(session.Vip)", Expect: "settrust-callers"},
			{Name: "real-ip-added-not-set", File: "bfe_modules/mod_header/default_header.go", Old: "	req.HttpRequest.Header.Set(bfe_basic.HeaderRealIP, clientIP)", New: "	req.HttpRequest.Header.Add(bfe_basic.HeaderRealIP, clientIP)", Expect: "real-addr-set"},
			{Name: "real-ip-from-header", File: "bfe_modules/mod_header/mod_header.go", Old: "		setHeaderRealAddr(request, request.ClientAddr.IP.String(), strconv.Itoa(request.ClientAddr.Port))", New: "		setHeaderRealAddr(request, request.HttpRequest.Header.Get(\"X-Forwarded-For\"), strconv.Itoa(request.ClientAddr.Port))", Expect: "real-addr-callers"},
			{Name: "xff-peer-prepended", File: "bfe_modules/mod_header/default_header.go", Old: "			clientIP = strings.Join(prior, \", \") + \", \" + clientIP", New: "			clientIP = clientIP + \", \" + strings.Join(prior, \", \")", Expect: "xff-suffix"},
			{Name: "parse-writes-shared-addr", File: "bfe_server/set_client_addr.go", Old: "		req.ClientAddr = new(net.TCPAddr)\n		req.ClientAddr.IP = ip", New: "		if req.ClientAddr == nil {\n			req.ClientAddr = new(net.TCPAddr)\n		}\n		req.ClientAddr.IP = ip", Expect: "fresh-object"},
			{Name: "foreign-clientaddr-writer", File: "bfe_server/reverseproxy.go", Old: "	setClientAddr(basicReq)\n", New: "	setClientAddr(basicReq)\n	if basicReq.ClientAddr == nil {\n		basicReq.ClientAddr = &net.TCPAddr{}\n	}\n", Expect: "clientaddr-writers"},
			{Name: "peer-string-from-header", File: "bfe_server/http_conn.go", Old: "	req.RemoteAddr = c.remoteAddr\n", New: "	req.RemoteAddr = c.remoteAddr\n	if v := req.Header.Get(\"X-Peer\"); v != \"\" {\n		req.RemoteAddr = v\n	}\n", Expect: "peer-string-writers"},
			{Name: "connection-options-strip-real-addr", File: "bfe_server/reverseproxy.go", Old: "	hopByHopHeaderRemove(outreq, req)\n", New: "	hopByHopHeaderRemove(outreq, req)\n	for _, opt := range req.Header[\"Connection\"] {\n		outreq.Header.Del(opt)\n	}\n", Expect: "real-addr-survives|"},
			{Name: "hop-table-lists-forwarded-for", File: "bfe_basic/common.go", Old: "	\"Transfer-Encoding\",\n	\"Upgrade\",\n}", New: "	\"Transfer-Encoding\",\n	\"Upgrade\",\n	\"X-Forwarded-For\",\n}", Expect: "real-addr-survives|"},
			{Name: "silent-del-through-helper", Silent: true, File: "bfe_server/reverseproxy.go", Old: "		outreq.Header.Del(h)\n	}\n}", New: "		dropHopHeader(outreq, h)\n	}\n}\n\nfunc dropHopHeader(r *bfe_http.Request, name string) {\n	r.Header.Del(name)\n}"},
			{Name: "silent-locals", Silent: true, File: "bfe_server/set_client_addr.go", Old: "	if !req.Session.TrustSource() { // request not from upstream bfe server\n		req.ClientAddr = req.RemoteAddr\n		return\n	}\n", New: "	trusted := req.Session.TrustSource()\n	if !trusted {\n		peer := req.RemoteAddr\n		req.ClientAddr = peer\n		return\n	}\n"},
			{Name: "silent-trust-test-in-helper", Silent: true, File: "bfe_server/set_client_addr.go", Old: "\tif !req.Session.TrustSource() { // request not from upstream bfe server\n\t\treq.ClientAddr = req.RemoteAddr\n\t\treturn\n\t}\n\n\treq.ClientAddr = nil\n\tclientip := req.HttpRequest.Header.Get(bfe_basic.HeaderRealIP)\n\tclientport := req.HttpRequest.Header.Get(bfe_basic.HeaderRealPort)\n\tif clientip == \"\" {\n\t\tclientip = getFirstSplitFromHeader(req, bfe_basic.HeaderForwardedFor, \",\")\n\t\tclientport = getFirstSplitFromHeader(req, bfe_basic.HeaderForwardedPort, \",\")\n\t}\n\tif clientip != \"\" {\n\t\tparseClientAddr(req, clientip, clientport)\n\t}\n}\n", New: "\tif !fromTrustedPeer(req) { // request not from upstream bfe server\n\t\treq.ClientAddr = req.RemoteAddr\n\t\treturn\n\t}\n\n\treq.ClientAddr = nil\n\tclientip := req.HttpRequest.Header.Get(bfe_basic.HeaderRealIP)\n\tclientport := req.HttpRequest.Header.Get(bfe_basic.HeaderRealPort)\n\tif clientip == \"\" {\n\t\tclientip = getFirstSplitFromHeader(req, bfe_basic.HeaderForwardedFor, \",\")\n\t\tclientport = getFirstSplitFromHeader(req, bfe_basic.HeaderForwardedPort, \",\")\n\t}\n\tif clientip != \"\" {\n\t\tparseClientAddr(req, clientip, clientport)\n\t}\n}\n\n// fromTrustedPeer reports whether the TCP peer is an upstream bfe server.\nfunc fromTrustedPeer(r *bfe_basic.Request) bool {\n\treturn r.Session.TrustSource()\n}\n"},
			{Name: "silent-log-mentions-real-ip", Silent: true, File: "bfe_server/reverseproxy.go", Old: "\t\tlog.Logger.Debug(\"ReverseProxy.ServeHTTP(): cluster name = %s\", clusterName)\n", New: "\t\tlog.Logger.Debug(\"ReverseProxy.ServeHTTP(): cluster name = %s, %s = %v\", clusterName, bfe_basic.HeaderRealIP, basicReq.ClientAddr)\n"},
			{Name: "fallback-when-port-missing", File: "bfe_server/set_client_addr.go", Old: "\tif clientip == \"\" {\n\t\tclientip = getFirstSplitFromHeader(req, bfe_basic.HeaderForwardedFor, \",\")", New: "\tif clientip == \"\" || clientport == \"\" {\n\t\tclientip = getFirstSplitFromHeader(req, bfe_basic.HeaderForwardedFor, \",\")", Expect: "real-ip-precedence|"},
		},
	})
}

func runC29(c *core.Ctx) {
	const srv = "bfe_server"
	const hdr = "bfe_modules/mod_header"
	const trust = "bfe_modules/mod_trust_clientip"
	all := c.P.SrcFuncs("")
	clientAddr := h1bField(c, "bfe_basic", "Request.ClientAddr")
	reqRemote := h1bField(c, "bfe_basic", "Request.RemoteAddr")
	reqSession := h1bField(c, "bfe_basic", "Request.Session")
	sesRemote := h1bField(c, "bfe_basic", "Session.RemoteAddr")
	flag := h1bField(c, "bfe_basic", "Session.isTrustSource")
	httpRemote := h1bField(c, "bfe_http", "Request.RemoteAddr")
	setCA := h1bFunc(c, srv, "setClientAddr")
	parseCA := h1bFunc(c, srv, "parseClientAddr")
	trustFn := h1bFunc(c, "bfe_basic", "Session.TrustSource")
	setTrust := h1bFunc(c, "bfe_basic", "Session.SetTrustSource")
	if clientAddr == nil || reqRemote == nil || reqSession == nil || sesRemote == nil || setCA == nil || parseCA == nil || trustFn == nil || setTrust == nil {
		return
	}
	isNil := func(v ssa.Value) bool { k, ok := v.(*ssa.Const); return ok && k.Value == nil }
	// the private helpers of setClientAddr (parseClientAddr, getFirstSplitFromHeader,
	// anything extracted from it) belong to the reviewed mechanism
	caRegion := h1bRegionSet(c.P, setCA)
	parseRegion := h1bRegionSet(c.P, parseCA)
	// fieldOn: v is field fld of the object base (compared structurally; a
	// parameter of a helper of setClientAddr stands for the argument it receives)
	fieldOn := func(fld *types.Var, base ssa.Value) func(ssa.Value) bool {
		return func(v ssa.Value) bool {
			f, b := h1bFieldOf(v)
			if f != fld || b == nil {
				return false
			}
			return base == nil || h1bSamePath(c.P, caRegion, b, base)
		}
	}

	// (a) writers of ClientAddr
	n := map[string]int{}
	for _, st := range core.FieldStores(all, clientAddr) {
		k := core.FuncKey(st.Fn)
		c.Check("clientaddr-writers", h1bOrd(k, n), st.Store.Pos(), caRegion[st.Fn] || parseRegion[st.Fn],
			"Request.ClientAddr is written in "+k+"; only setClientAddr and parseClientAddr (whose header-derived writes are gated on the trusted-source flag) are reviewed")
	}
	c.Min("clientaddr-writers", 3)

	// setClientAddr
	if len(setCA.Params) == 1 {
		req := setCA.Params[0]
		trusted := func(pol bool) func(h1bFact) bool {
			return func(f h1bFact) bool {
				call, ok := f.V.(*ssa.Call)
				if !ok || f.Pol != pol || call.Call.StaticCallee() != trustFn || len(call.Call.Args) != 1 {
					return false
				}
				return fieldOn(reqSession, req)(call.Call.Args[0])
			}
		}
		isPeerStore := func(x ssa.Instruction) bool {
			st, ok := x.(*ssa.Store)
			return ok && fieldOn(clientAddr, req)(st.Addr) && fieldOn(reqRemote, req)(st.Val)
		}
		isParse := func(x ssa.Instruction) bool {
			ci, ok := x.(ssa.CallInstruction)
			return ok && ci.Common().StaticCallee() == parseCA
		}
		bad := h1bReachR(c.P, setCA, nil, isPeerStore, trusted(true), core.IsReturn)
		c.Check("untrusted-gets-peer", "setClientAddr", setCA.Pos(), bad == nil,
			"setClientAddr can return without `req.ClientAddr = req.RemoteAddr` on a path that did not see req.Session.TrustSource() == true: for an untrusted peer the client address is not the socket address")
		c.Min("untrusted-gets-peer", 1)
		nP := 0
		c.P.RegionInstrs(setCA, func(x ssa.Instruction) {
			if !isPeerStore(x) {
				return
			}
			nP++
			later := h1bReachR(c.P, setCA, x, nil, nil, func(y ssa.Instruction) bool {
				if st, ok := y.(*ssa.Store); ok && y != x {
					f, _ := h1bFieldOf(st.Addr)
					return f == clientAddr
				}
				return isParse(y)
			})
			c.Check("peer-is-final", fmt.Sprintf("setClientAddr:peer-store#%d", nP), x.Pos(), later == nil,
				"after `req.ClientAddr = req.RemoteAddr` another write of ClientAddr (or parseClientAddr) is reachable: the socket address chosen for an untrusted peer can be replaced by header data")
		})
		c.Min("peer-is-final", 1)
		nG := map[string]int{}
		c.P.RegionInstrs(setCA, func(x ssa.Instruction) {
			if parseRegion[x.Parent()] {
				return // reviewed through its call (below) and by rule fresh-object
			}
			what := ""
			if st, ok := x.(*ssa.Store); ok {
				if f, _ := h1bFieldOf(st.Addr); f == clientAddr && !isPeerStore(x) && !isNil(st.Val) {
					what = "store:" + core.Render(st.Val)
				}
			}
			if isParse(x) {
				what = "parseClientAddr"
			}
			if ci, ok := x.(ssa.CallInstruction); ok && what == "" {
				if sc := ci.Common().StaticCallee(); sc != nil && sc != trustFn && core.FuncPkgRel(sc) == srv && !caRegion[sc] {
					// any other bfe_server function that receives the request may write it
					for _, a := range ci.Common().Args {
						if h1bSamePath(c.P, caRegion, a, req) && len(core.FieldStores(core.TransitiveCallees(sc, 2), clientAddr)) > 0 {
							what = "helper:" + core.FuncKey(sc)
						}
					}
				}
			}
			if what == "" {
				return
			}
			kind := what
			if i := strings.Index(kind, ":"); i > 0 {
				kind = kind[:i]
			}
			c.Check("header-derived-guarded", h1bOrd("setClientAddr:"+kind, nG), x.Pos(), h1bGuardedR(c.P, x.Block(), trusted(true)),
				"setClientAddr derives the client address from request headers ("+what+") without being control-dependent on req.Session.TrustSource() == true; established: "+h1bJoinFacts(h1bFactsAtR(c.P, x.Block())))
		})
		c.Min("header-derived-guarded", 1)
	}
	// parseClientAddr: callers, fresh object
	n = map[string]int{}
	for _, ci := range h1bStaticCallers(all, parseCA) {
		k := core.FuncKey(ci.Parent())
		c.Check("parse-callers", h1bOrd(k, n), ci.Pos(), caRegion[ci.Parent()], "parseClientAddr (header-derived client address) is called from "+k+", outside the TrustSource() gate of setClientAddr")
	}
	for _, u := range h1bFuncValueUses(all, parseCA) {
		c.Check("parse-callers", h1bOrd(core.FuncKey(u.Parent())+":value", n), u.Pos(), false, "parseClientAddr is used as a function value; its callers cannot be enumerated")
	}
	c.Min("parse-callers", 1)
	n = map[string]int{}
	for _, fn := range all {
		core.Instrs(fn, func(in ssa.Instruction) {
			st, ok := in.(*ssa.Store)
			if !ok {
				return
			}
			fa, ok := st.Addr.(*ssa.FieldAddr)
			if !ok || core.TypeStr(fa.X.Type()) != "*net.TCPAddr" {
				return
			}
			via, _ := h1bFieldOf(fa.X)
			if via != clientAddr && via != reqRemote && via != sesRemote {
				return
			}
			k := core.FuncKey(fn)
			ok2 := parseRegion[fn] && via == clientAddr
			if ok2 {
				// dominated by a store of a fresh allocation into req.ClientAddr
				ok2 = false
				for _, s2 := range h1bStoresOf(fn, clientAddr) {
					if _, isAlloc := core.StripConv(s2.Val).(*ssa.Alloc); isAlloc && core.Dominates(s2, st) {
						ok2 = true
					}
				}
			}
			c.Check("fresh-object", h1bOrd(k+":"+via.Name(), n), st.Pos(), ok2,
				"a field of the TCPAddr reached through "+via.Name()+" is written in "+k+" without a dominating `req.ClientAddr = new(net.TCPAddr)` in the same function: for an untrusted peer ClientAddr aliases the socket address object (Request/Session.RemoteAddr), so the write would change the peer address itself")
		})
	}
	c.Min("fresh-object", 2)
	// setClientAddr callers and position
	serve := h1bFunc(c, srv, "ReverseProxy.ServeHTTP")
	n = map[string]int{}
	for _, ci := range h1bStaticCallers(all, setCA) {
		k := core.FuncKey(ci.Parent())
		c.Check("setaddr-callers", h1bOrd(k, n), ci.Pos(), ci.Parent() == serve, "setClientAddr is called from "+k+"; only the call at the top of ReverseProxy.ServeHTTP is reviewed")
	}
	c.Min("setaddr-callers", 1)
	if serve != nil {
		sets := h1bStaticCallers([]*ssa.Function{serve}, setCA)
		n = map[string]int{}
		for _, ci := range core.AllCalls(serve) {
			sc := ci.Common().StaticCallee()
			if sc == nil {
				continue
			}
			key := core.FuncKey(sc)
			if !(strings.HasPrefix(key, "bfe_module.HandlerList.Filter") || key == srv+".ReverseProxy.clusterInvoke") {
				continue
			}
			ok := false
			for _, s := range sets {
				if core.Dominates(s.(ssa.Instruction), ci.(ssa.Instruction)) {
					ok = true
				}
			}
			c.Check("addr-before-handlers", h1bOrd("ServeHTTP:"+sc.Name(), n), ci.Pos(), ok, "a module callback / the backend invocation in ServeHTTP is reachable before setClientAddr ran: conditions, balancing and logging would see no (or a stale) client address")
		}
		c.Min("addr-before-handlers", 3)
	}

	// (b) trust flag
	if flag != nil {
		n = map[string]int{}
		for _, fn := range all {
			core.Instrs(fn, func(in ssa.Instruction) {
				fa, ok := in.(*ssa.FieldAddr)
				if !ok || core.FieldObj(fa.X, fa.Field) != flag {
					return
				}
				c.Check("trust-flag-access", h1bOrd(core.FuncKey(fn), n), in.Pos(), fn == trustFn || fn == setTrust, "Session.isTrustSource is accessed in "+core.FuncKey(fn)+"; only TrustSource/SetTrustSource are reviewed")
			})
		}
		c.Min("trust-flag-access", 2)
		var kTrust int64 = -1
		kObj, _ := c.P.Obj("bfe_basic", "SessionTrustSource").(*types.Const)
		if kObj == nil {
			c.Missing("bfe_basic.SessionTrustSource")
		} else {
			kTrust, _ = h1bConstInt(ssa.NewConst(kObj.Val(), kObj.Type()))
		}
		isFlagLoad := func(v ssa.Value) bool {
			call := h1bCallOf(v, "sync/atomic.LoadInt32")
			if call == nil || len(call.Call.Args) != 1 {
				return false
			}
			f, _ := h1bFieldOf(call.Call.Args[0])
			if f == flag {
				return true
			}
			return false
		}
		for i, r := range core.Returns(trustFn) {
			vals := core.RetVals(r)
			ok := false
			if len(vals) == 1 {
				ok = h1bEq(h1bFact{vals[0], true}, isFlagLoad, h1bIsInt(kTrust))
			}
			c.Check("trust-flag", fmt.Sprintf("Session.TrustSource:return#%d", i+1), r.Pos(), ok, "Session.TrustSource does not return `atomic.LoadInt32(&s.isTrustSource) == SessionTrustSource`; returns "+core.Render(vals[0]))
		}
		nS := 0
		for _, ci := range core.Calls(setTrust, "sync/atomic.StoreInt32") {
			args := ci.Common().Args
			if f, _ := h1bFieldOf(args[0]); len(args) != 2 || f != flag {
				continue
			}
			nS++
			ok := false
			detail := core.Render(args[1])
			if phi, isPhi := args[1].(*ssa.Phi); isPhi && len(setTrust.Params) == 2 {
				ok = true
				sawTrust := false
				for j, ed := range phi.Edges {
					kv, isK := h1bConstInt(ed)
					if !isK {
						ok = false
						continue
					}
					if kv != kTrust {
						continue
					}
					sawTrust = true
					okE := false
					for _, f := range h1bFactsOnEdge(phi.Block().Preds[j], phi.Block()) {
						if f.Pol && f.V == ssa.Value(setTrust.Params[1]) {
							okE = true
						}
					}
					if !okE {
						ok = false
					}
				}
				ok = ok && sawTrust
			}
			c.Check("trust-flag", fmt.Sprintf("Session.SetTrustSource:store#%d", nS), ci.Pos(), ok, "SetTrustSource stores "+detail+": the trusted constant must be stored only on the edge where the argument is true (and some edge must store it)")
		}
		c.Min("trust-flag", 2)
	}
	// SetTrustSource callers
	accept := h1bFunc(c, trust, "ModuleTrustClientIP.acceptHandler")
	n = map[string]int{}
	for _, ci := range h1bStaticCallers(all, setTrust) {
		k := core.FuncKey(ci.Parent())
		args := ci.Common().Args
		ok := ci.Parent() == accept && len(args) == 2
		why := ""
		if ok {
			call := h1bCallOf(args[1], "bfe_util/ipdict.IPTable.Search")
			switch {
			case call == nil || core.StripConv(args[1]) != ssa.Value(call):
				ok, why = false, "; the argument is "+core.Render(args[1])+", not the plain result of IPTable.Search"
			default:
				// Search argument: (<receiver session>.RemoteAddr).IP
				ipF, base := h1bFieldOf(call.Call.Args[1])
				okArg := ipF != nil && ipF.Name() == "IP" && core.TypeStr(base.Type()) == "*net.TCPAddr" && fieldOn(sesRemote, args[0])(base)
				if !okArg {
					ok, why = false, "; IPTable.Search is applied to "+core.Render(call.Call.Args[1])+", not to the socket address session.RemoteAddr.IP of the session being marked"
				}
			}
		}
		c.Check("settrust-callers", h1bOrd(k, n), ci.Pos(), ok, "Session.SetTrustSource is called from "+k+why+"; only mod_trust_clientip's accept handler with IPTable.Search(session.RemoteAddr.IP) is reviewed")
	}
	for _, u := range h1bFuncValueUses(all, setTrust) {
		c.Check("settrust-callers", h1bOrd(core.FuncKey(u.Parent())+":value", n), u.Pos(), false, "SetTrustSource is used as a function value; its callers cannot be enumerated")
	}
	c.Min("settrust-callers", 1)
	// peer address sources
	newSession := h1bFunc(c, "bfe_basic", "NewSession")
	newRequest := h1bFunc(c, "bfe_basic", "NewRequest")
	n = map[string]int{}
	for _, st := range core.FieldStores(all, sesRemote) {
		k := core.FuncKey(st.Fn)
		ok := newSession != nil && st.Fn == newSession
		if ok {
			ta, isTA := core.StripConv(st.Store.Val).(*ssa.TypeAssert)
			ok = false
			if isTA {
				if call, isCall := ta.X.(*ssa.Call); isCall && call.Call.IsInvoke() && call.Call.Method.Name() == "RemoteAddr" {
					ok = true
				}
			}
		}
		c.Check("peer-writers", h1bOrd(k+":Session.RemoteAddr", n), st.Store.Pos(), ok, "Session.RemoteAddr is written with "+core.Render(st.Store.Val)+" in "+k+"; only NewSession from conn.RemoteAddr() is reviewed")
	}
	for _, st := range core.FieldStores(all, reqRemote) {
		k := core.FuncKey(st.Fn)
		ok := newRequest != nil && st.Fn == newRequest && h1bIsField(sesRemote)(st.Store.Val)
		if ok {
			// the session whose address is copied is the one stored in Request.Session
			_, sb := h1bFieldOf(st.Store.Val)
			ok = false
			for _, s2 := range h1bStoresOf(st.Fn, reqSession) {
				if core.StripConv(s2.Val) == core.StripConv(sb) {
					ok = true
				}
			}
		}
		c.Check("peer-writers", h1bOrd(k+":Request.RemoteAddr", n), st.Store.Pos(), ok, "Request.RemoteAddr is written with "+core.Render(st.Store.Val)+" in "+k+"; only NewRequest copying the RemoteAddr of the session it stores in Request.Session is reviewed")
	}
	c.Min("peer-writers", 2)

	// (c) mod_header
	realFn := h1bFunc(c, hdr, "setHeaderRealAddr")
	defFn := h1bFunc(c, hdr, "ModuleHeader.setDefaultHeader")
	fwdFn := h1bFunc(c, hdr, "modHeaderForwardedAddr")
	if realFn != nil && defFn != nil && len(realFn.Params) == 3 {
		n = map[string]int{}
		for _, ci := range h1bStaticCallers(all, realFn) {
			k := core.FuncKey(ci.Parent())
			args := ci.Common().Args
			ok := ci.Parent() == defFn && len(args) == 3
			why := ""
			if ok {
				for j, a := range args[1:] {
					via := map[string]bool{}
					fromCA := h1bDerives(a, func(v ssa.Value) bool {
						f, b := h1bFieldOf(v)
						return f == clientAddr && b != nil && h1bSamePath(c.P, nil, b, args[0])
					}, via)
					tainted := h1bDerives(a, func(v ssa.Value) bool {
						if call, isCall := v.(*ssa.Call); isCall && core.CallIs(&call.Call, "bfe_http.Header.Get", "bfe_http.Header.GetDirect", "bfe_http.Header.Values") {
							return true
						}
						_, isLk := v.(*ssa.Lookup)
						return isLk
					}, nil)
					if !fromCA || tainted {
						ok = false
						why += fmt.Sprintf("; argument %d is %s", j+1, core.Render(a))
					}
				}
			}
			c.Check("real-addr-callers", h1bOrd(k, n), ci.Pos(), ok, "setHeaderRealAddr (X-Real-Ip / X-Real-Port toward the backend) is called from "+k+why+"; only setDefaultHeader with values derived from request.ClientAddr and from no header is reviewed")
		}
		c.Min("real-addr-callers", 1)
		want := map[string]int{"X-Real-Ip": 1, "X-Real-Port": 2}
		seen := map[string]bool{}
		for _, fn := range c.P.SrcFuncs(hdr) {
			for _, ci := range core.Calls(fn, "bfe_http.Header.Set", "bfe_http.Header.Add") {
				args := ci.Common().Args
				if len(args) != 3 {
					continue
				}
				name, isK := core.ConstString(args[1])
				pi, isReal := want[h1bCanonical(name)]
				if !isK || !isReal {
					continue
				}
				ok := fn == realFn && core.CallIs(ci.Common(), "bfe_http.Header.Set") && args[2] == ssa.Value(realFn.Params[pi]) && core.MustPass(fn, nil, func(x ssa.Instruction) bool { return x == ci.(ssa.Instruction) }) == nil
				if ok {
					seen[h1bCanonical(name)] = true
				}
				c.Check("real-addr-set", core.FuncKey(fn)+":"+h1bCanonical(name), ci.Pos(), ok,
					name+" is written by "+core.Render(ci.Value())+": it must be Header.Set (overwriting whatever the client sent) of setHeaderRealAddr's own parameter, on every path")
			}
		}
		for name := range want {
			if !seen[name] {
				c.Check("real-addr-set", "setHeaderRealAddr:"+name+":missing", realFn.Pos(), false, "setHeaderRealAddr no longer overwrites "+name)
			}
		}
		c.Min("real-addr-set", 2)
		bad := h1bReach(defFn, nil, func(x ssa.Instruction) bool {
			ci, ok := x.(ssa.CallInstruction)
			return ok && ci.Common().StaticCallee() == realFn
		}, func(f h1bFact) bool { return h1bEq(f, h1bIsField(clientAddr), isNil) }, core.IsReturn)
		c.Check("default-header-overwrites", "setDefaultHeader:real-addr", defFn.Pos(), bad == nil, "setDefaultHeader can return without setHeaderRealAddr although it did not see ClientAddr == nil: the client's own X-Real-Ip would be forwarded")
		if fwdFn != nil {
			badF := core.MustPass(defFn, nil, func(x ssa.Instruction) bool {
				ci, ok := x.(ssa.CallInstruction)
				return ok && ci.Common().StaticCallee() == fwdFn
			})
			c.Check("default-header-overwrites", "setDefaultHeader:forwarded", defFn.Pos(), badF == nil, "setDefaultHeader can return without modHeaderForwardedAddr (X-Forwarded-For is not extended with the peer)")
		}
		c.Min("default-header-overwrites", 2)
	}
	if fwdFn != nil && httpRemote != nil {
		isPeerHost := func(v ssa.Value) bool {
			ex, ok := core.StripConv(v).(*ssa.Extract)
			if !ok || ex.Index != 0 {
				return false
			}
			call, ok := ex.Tuple.(*ssa.Call)
			return ok && core.CallIs(&call.Call, "net.SplitHostPort") && len(call.Call.Args) == 1 && h1bIsField(httpRemote)(call.Call.Args[0])
		}
		var suffixIsPeer func(v ssa.Value, d int) bool
		suffixIsPeer = func(v ssa.Value, d int) bool {
			if d > 6 {
				return false
			}
			if isPeerHost(v) {
				return true
			}
			switch x := v.(type) {
			case *ssa.BinOp:
				return x.Op == token.ADD && suffixIsPeer(x.Y, d+1)
			case *ssa.Phi:
				for _, ed := range x.Edges {
					if !suffixIsPeer(ed, d+1) {
						return false
					}
				}
				return len(x.Edges) > 0
			}
			return false
		}
		k := 0
		for _, ci := range core.Calls(fwdFn, "bfe_http.Header.Set", "bfe_http.Header.Add") {
			args := ci.Common().Args
			if len(args) != 3 || !h1bIsStr("X-Forwarded-For")(args[1]) {
				continue
			}
			k++
			c.Check("xff-suffix", fmt.Sprintf("modHeaderForwardedAddr:xff#%d", k), ci.Pos(), core.CallIs(ci.Common(), "bfe_http.Header.Set") && suffixIsPeer(args[2], 0),
				"X-Forwarded-For is written as "+core.Render(args[2])+": the value must end with the host part of HttpRequest.RemoteAddr (the socket peer) and replace the header (Set)")
		}
		c.Min("xff-suffix", 1)
	}
	// writers of bfe_http.Request.RemoteAddr (the peer string)
	if httpRemote != nil {
		srcFields := map[*types.Var]bool{httpRemote: true}
		for _, fq := range [][2]string{{srv, "conn.remoteAddr"}, {"bfe_http2", "serverConn.remoteAddrStr"}, {"bfe_spdy", "serverConn.remoteAddrStr"}} {
			if f := h1bField(c, fq[0], fq[1]); f != nil {
				srcFields[f] = true
			}
		}
		isConnAddrString := func(v ssa.Value) bool {
			call, ok := core.StripConv(v).(*ssa.Call)
			if !ok || !call.Call.IsInvoke() || call.Call.Method.Name() != "String" {
				return false
			}
			in, ok := call.Call.Value.(*ssa.Call)
			return ok && in.Call.IsInvoke() && in.Call.Method.Name() == "RemoteAddr"
		}
		n = map[string]int{}
		for fld := range srcFields {
			for _, st := range core.FieldStores(all, fld) {
				f, _ := h1bFieldOf(st.Store.Val)
				ok := f != nil && srcFields[f] || fld != httpRemote && isConnAddrString(st.Store.Val)
				c.Check("peer-string-writers", h1bOrd(core.FuncKey(st.Fn)+":"+fld.Name(), n), st.Store.Pos(), ok,
					fld.Name()+" is written with "+core.Render(st.Store.Val)+" in "+core.FuncKey(st.Fn)+"; reviewed sources: conn.RemoteAddr().String() for the connection fields, a connection field or another Request.RemoteAddr for bfe_http.Request.RemoteAddr")
			}
		}
		c.Min("peer-string-writers", 4)
	}
	// the headers written by mod_header survive to the backend
	c29RealAddrSurvives(c, serve)
	// who uses the X-Real-* names as a header key (a comparison with the name
	// or a log line that prints it neither reads nor writes the header)
	n = map[string]int{}
	allowed := h1bRegionSet(c.P, setCA, realFn)
	isRealName := func(s string) bool {
		if len(s) >= 16 {
			return false
		}
		cs := h1bCanonical(s)
		return cs == "X-Real-Ip" || cs == "X-Real-Port"
	}
	for _, fn := range all {
		uses := h1bHeaderKeyUses(fn, isRealName)
		if len(uses) == 0 {
			continue
		}
		c.Check("real-name-census", h1bOrd(core.FuncKey(fn), n), fn.Pos(), allowed[fn], core.FuncKey(fn)+" uses the header name X-Real-Ip / X-Real-Port (as a key or passes it on: "+strings.TrimSpace(uses[0].String())+"); only setClientAddr and its private helpers (read under the trusted-source gate, rule real-ip-precedence) and setHeaderRealAddr (overwrites it) are reviewed")
	}
	c29RealIPPrecedence(c, setCA, parseCA)
	c.Min("real-name-census", 2)
}

// c29RealAddrSurvives: mod_header writes X-Real-Ip / X-Real-Port /
// X-Forwarded-For from the socket address in the HandleAfterLocation callback
// of ReverseProxy.ServeHTTP. Between that callback and the backend send, every
// deletion on a request header (Header.Del / delete) is an obligation: its key
// must be a constant or an element of a constant table, none of them one of
// the three names - or, when the key is computed (e.g. taken from the client's
// Connection header), `key != name` must be established for all three names
// where the deletion happens. A key bound to a helper's parameter is
// classified at the helper's call sites.
func c29RealAddrSurvives(c *core.Ctx, serve *ssa.Function) {
	const srv = "bfe_server"
	const rule = "real-addr-survives"
	if serve == nil {
		return
	}
	reqHeader := h1bField(c, "bfe_http", "Request.Header")
	var protected []string
	for _, name := range []string{"HeaderRealIP", "HeaderRealPort", "HeaderForwardedFor"} {
		k, _ := c.P.Obj("bfe_basic", name).(*types.Const)
		if k == nil {
			c.Missing("bfe_basic." + name)
			return
		}
		if v, ok := core.ConstString(ssa.NewConst(k.Val(), k.Type())); ok {
			protected = append(protected, h1bCanonical(v))
		}
	}
	point, _ := c.P.Obj("bfe_module", "HandleAfterLocation").(*types.Const)
	if reqHeader == nil || point == nil || len(protected) != 3 {
		c.Missing("bfe_module.HandleAfterLocation / bfe_http.Request.Header")
		return
	}
	pv, _ := h1bConstInt(ssa.NewConst(point.Val(), point.Type()))
	isProtected := func(s string) bool {
		for _, p := range protected {
			if h1bCanonical(s) == p {
				return true
			}
		}
		return false
	}
	// the callback that runs mod_header's request handler
	var cb ssa.Instruction
	for _, ci := range core.Calls(serve, "bfe_module.HandlerList.FilterRequest") {
		if len(ci.Common().Args) < 1 {
			continue
		}
		if get := h1bCallOf(h1aResolve(ci.Common().Args[0]), "bfe_module.BfeCallbacks.GetHandlerList"); get != nil && len(get.Call.Args) == 2 && h1bIsInt(pv)(get.Call.Args[1]) {
			cb = ci.(ssa.Instruction)
		}
	}
	if cb == nil {
		c.Missing("ReverseProxy.ServeHTTP: FilterRequest call on GetHandlerList(HandleAfterLocation)")
		return
	}
	c.Check(rule, "ServeHTTP:after-location-callback", cb.Pos(), true, "")
	after := func(in ssa.Instruction) bool {
		return core.ReachAvoiding(serve, cb, nil, func(x ssa.Instruction) bool { return x == in }) != nil
	}
	// functions that run after the callback: ServeHTTP itself (the part reachable
	// from the callback) and the bfe_server helpers called from there, two levels deep
	type scoped struct {
		fn    *ssa.Function
		whole bool
	}
	scope := []scoped{{serve, false}}
	seenFn := map[*ssa.Function]bool{serve: true}
	for _, ci := range core.AllCalls(serve) {
		sc := ci.Common().StaticCallee()
		if sc == nil || sc.Blocks == nil || core.FuncPkgRel(sc) != srv || !after(ci.(ssa.Instruction)) {
			continue
		}
		for _, f := range core.TransitiveCallees(sc, 2) {
			if core.FuncPkgRel(f) == srv && !seenFn[f] {
				seenFn[f] = true
				scope = append(scope, scoped{f, true})
			}
		}
	}
	all := c.P.SrcFuncs("")
	var classify func(v ssa.Value, at *ssa.BasicBlock, fn *ssa.Function, d int) (bool, string)
	classify = func(v ssa.Value, at *ssa.BasicBlock, fn *ssa.Function, d int) (bool, string) {
		v = core.StripConv(v)
		if s, ok := core.ConstString(v); ok {
			return !isProtected(s), fmt.Sprintf("the constant %q", s)
		}
		if pk, name, ok := sh1GlobalElem(v); ok {
			vals, _, okT := h1bStringTable(c, pk, name)
			if !okT {
				return false, "an element of " + pk + "." + name + ", which is not a literal of constant strings"
			}
			for _, s := range vals {
				if isProtected(s) {
					return false, fmt.Sprintf("an element of %s.%s, which lists %q", pk, name, s)
				}
			}
			return true, "an element of the constant table " + pk + "." + name
		}
		if d < 3 {
			if phi, ok := v.(*ssa.Phi); ok {
				for _, e := range phi.Edges {
					if ok, why := classify(e, at, fn, d+1); !ok {
						return false, why
					}
				}
				return true, "constants"
			}
			if prm, ok := v.(*ssa.Parameter); ok && fn != serve {
				idx := -1
				for i, q := range fn.Params {
					if q == prm {
						idx = i
					}
				}
				callers := h1bStaticCallers(all, fn)
				if idx >= 0 && len(callers) > 0 && len(h1bFuncValueUses(all, fn)) == 0 {
					for _, ci := range callers {
						if idx >= len(ci.Common().Args) {
							return false, "a parameter whose call sites cannot be followed"
						}
						if ok, why := classify(ci.Common().Args[idx], ci.Block(), ci.Parent(), d+1); !ok {
							return false, why + " (passed by " + core.FuncKey(ci.Parent()) + ")"
						}
					}
					return true, "a parameter bound to constants at every call site"
				}
			}
		}
		// computed key: must be compared against each protected name
		isKey := func(x ssa.Value) bool {
			x = core.StripConv(x)
			if x == v {
				return true
			}
			if call, ok := x.(*ssa.Call); ok && core.CallIs(&call.Call, "bfe_http.CanonicalHeaderKey", "bfe_net/textproto.CanonicalMIMEHeaderKey") && len(call.Call.Args) == 1 {
				return core.StripConv(call.Call.Args[0]) == v
			}
			return false
		}
		for _, p := range protected {
			if !h1bGuarded(at, func(f h1bFact) bool {
				return h1bNe(f, isKey, func(y ssa.Value) bool { s, ok := core.ConstString(y); return ok && h1bCanonical(s) == p })
			}) {
				src := ""
				if h1bDerives(v, func(x ssa.Value) bool {
					if call, ok := x.(*ssa.Call); ok && core.CallIs(&call.Call, "bfe_http.Header.Get", "bfe_http.Header.GetDirect", "bfe_http.Header.Values") {
						return true
					}
					lk, ok := x.(*ssa.Lookup)
					return ok && core.TypeStr(lk.X.Type()) == "bfe_http.Header"
				}, nil) {
					src = " (it derives from a request header value, i.e. it is chosen by the peer)"
				}
				return false, "the computed value " + core.Render(v) + src + ", not compared against " + p
			}
		}
		return true, "a computed key compared against the protected names"
	}
	n := map[string]int{}
	for _, sf := range scope {
		fn := sf.fn
		for _, ci := range core.AllCalls(fn) {
			cc := ci.Common()
			var target, key ssa.Value
			if core.CallIs(cc, "bfe_http.Header.Del", "bfe_net/textproto.MIMEHeader.Del") && len(cc.Args) == 2 {
				target, key = cc.Args[0], cc.Args[1]
			} else if b, isB := cc.Value.(*ssa.Builtin); isB && b.Name() == "delete" && len(cc.Args) == 2 {
				target, key = cc.Args[0], cc.Args[1]
			}
			if key == nil {
				continue
			}
			if f, _ := h1bFieldOf(target); f != reqHeader {
				continue
			}
			if !sf.whole && !after(ci.(ssa.Instruction)) {
				continue
			}
			c.Analysed(core.FuncKey(fn))
			ok, why := classify(key, ci.Block(), fn, 0)
			c.Check(rule, h1bOrd(core.FuncKey(fn)+":del", n), ci.Pos(), ok,
				"after mod_header wrote X-Real-Ip / X-Real-Port / X-Forwarded-For from the socket address (HandleAfterLocation callback) and before the request is sent to the backend, "+core.FuncKey(fn)+" deletes a request header field whose name is "+why+": an untrusted peer can have the address headers BFE set removed from the forwarded request (e.g. `Connection: X-Real-Ip, X-Forwarded-For`), so the backend no longer receives the peer's socket address")
		}
	}
	c.Min(rule, 1)
}

// c29RealIPPrecedence: "for trusted peers the documented headers are
// honoured": the address handed to parseClientAddr is the value of X-Real-Ip
// whenever that header is present; a value taken from another header
// (X-Forwarded-For) is used only where `Header.Get(X-Real-Ip) == ""` is
// established. The ip argument of every parseClientAddr call in the region of
// setClientAddr is traced back through phis, helper results and helper
// parameters to the Header.Get calls it comes from; each origin that is not
// X-Real-Ip needs the fact on its way.
func c29RealIPPrecedence(c *core.Ctx, setCA, parseCA *ssa.Function) {
	const rule = "real-ip-precedence"
	p := c.P
	region := h1bRegionSet(p, setCA)
	type subst map[*ssa.Parameter]ssa.Value
	resolve := func(v ssa.Value, sub subst) ssa.Value {
		for i := 0; i < 8; i++ {
			v = core.StripConv(v)
			prm, ok := v.(*ssa.Parameter)
			if !ok {
				break
			}
			w, bound := sub[prm]
			if !bound {
				break
			}
			v = w
		}
		return v
	}
	isGetOf := func(name string) func(ssa.Value) bool {
		return func(v ssa.Value) bool {
			call := h1bCallOf(v, "bfe_http.Header.Get", "bfe_http.Header.GetDirect")
			if call == nil || len(call.Call.Args) != 2 {
				return false
			}
			s, ok := core.ConstString(call.Call.Args[1])
			return ok && h1bCanonical(s) == name
		}
	}
	realEmpty := func(fs []h1bFact) bool {
		for _, f := range fs {
			if h1bEq(f, isGetOf("X-Real-Ip"), h1bIsStr("")) {
				return true
			}
			isLen := func(v ssa.Value) bool {
				call, ok := core.StripConv(v).(*ssa.Call)
				if !ok || len(call.Call.Args) != 1 {
					return false
				}
				b, ok := call.Call.Value.(*ssa.Builtin)
				return ok && b.Name() == "len" && isGetOf("X-Real-Ip")(call.Call.Args[0])
			}
			if h1bEq(f, isLen, h1bIsInt(0)) {
				return true
			}
		}
		return false
	}
	type leaf struct {
		hdr   string // canonical header name, "" = not a header value
		what  string
		facts []h1bFact
	}
	var leaves []leaf
	var walk func(v ssa.Value, facts []h1bFact, sub subst, seen map[ssa.Value]bool, d int)
	walk = func(v ssa.Value, facts []h1bFact, sub subst, seen map[ssa.Value]bool, d int) {
		v = resolve(v, sub)
		if v == nil || d > 24 {
			leaves = append(leaves, leaf{"", "a value the rule cannot follow", facts})
			return
		}
		if seen[v] {
			return
		}
		seen[v] = true
		defer delete(seen, v)
		add := func(b *ssa.BasicBlock) []h1bFact {
			return append(append([]h1bFact(nil), facts...), h1bFactsAt(b)...)
		}
		switch x := v.(type) {
		case *ssa.Const:
			return // a constant (the empty string of "no such header")
		case *ssa.Phi:
			for i, e := range x.Edges {
				fs := append(append([]h1bFact(nil), facts...), h1bFactsOnEdge(x.Block().Preds[i], x.Block())...)
				walk(e, fs, sub, seen, d+1)
			}
		case *ssa.Parameter:
			g := x.Parent()
			sites := h1bCallSitesIn(p, g, region)
			if g == setCA || len(sites) == 0 {
				leaves = append(leaves, leaf{"", "parameter " + x.Name() + " of " + core.FuncKey(g), facts})
				return
			}
			idx := -1
			for i, q := range g.Params {
				if q == x {
					idx = i
				}
			}
			for _, s := range sites {
				if idx >= 0 && idx < len(s.Call.Args) {
					walk(s.Call.Args[idx], add(s.Block()), sub, seen, d+1)
				}
			}
		case *ssa.Extract:
			if call, ok := x.Tuple.(*ssa.Call); ok {
				if sc := call.Call.StaticCallee(); sc != nil && sc.Blocks != nil && core.FuncPkgRel(sc) != "" {
					ns := subst{}
					for k, w := range sub {
						ns[k] = w
					}
					for i, prm := range sc.Params {
						if i < len(call.Call.Args) {
							ns[prm] = resolve(call.Call.Args[i], sub)
						}
					}
					for _, r := range core.Returns(sc) {
						vals := core.RetVals(r)
						if x.Index < len(vals) {
							walk(vals[x.Index], add(r.Block()), ns, seen, d+1)
						}
					}
					return
				}
			}
			walk(x.Tuple, facts, sub, seen, d+1)
		case *ssa.Call:
			if isGet := h1bCallOf(x, "bfe_http.Header.Get", "bfe_http.Header.GetDirect", "bfe_http.Header.Values"); isGet != nil && len(x.Call.Args) == 2 {
				name := "?"
				if s, ok := core.ConstString(resolve(x.Call.Args[1], sub)); ok {
					name = h1bCanonical(s)
				}
				leaves = append(leaves, leaf{name, "Header.Get(" + name + ")", facts})
				return
			}
			if sc := x.Call.StaticCallee(); sc != nil && sc.Blocks != nil && core.FuncPkgRel(sc) != "" {
				ns := subst{}
				for k, w := range sub {
					ns[k] = w
				}
				for i, prm := range sc.Params {
					if i < len(x.Call.Args) {
						ns[prm] = resolve(x.Call.Args[i], sub)
					}
				}
				for _, r := range core.Returns(sc) {
					if vals := core.RetVals(r); len(vals) >= 1 {
						walk(vals[0], add(r.Block()), ns, seen, d+1)
					}
				}
				return
			}
			// a library function of strings (TrimSpace, Split, ...): the value derives from its arguments
			n := 0
			for _, a := range x.Call.Args {
				if t, ok := a.Type().Underlying().(*types.Basic); ok && t.Info()&types.IsString != 0 {
					if _, isK := core.StripConv(a).(*ssa.Const); !isK {
						walk(a, facts, sub, seen, d+1)
						n++
					}
				} else if _, isSl := a.Type().Underlying().(*types.Slice); isSl {
					walk(a, facts, sub, seen, d+1)
					n++
				}
			}
			if n == 0 {
				leaves = append(leaves, leaf{"", "the result of " + core.CalleeKey(&x.Call), facts})
			}
		case *ssa.Lookup:
			name := "?"
			if s, ok := core.ConstString(resolve(x.Index, sub)); ok {
				name = h1bCanonical(s)
			}
			leaves = append(leaves, leaf{name, "header[" + name + "]", facts})
		case *ssa.UnOp:
			walk(x.X, facts, sub, seen, d+1)
		case *ssa.IndexAddr:
			walk(x.X, facts, sub, seen, d+1)
		case *ssa.Index:
			walk(x.X, facts, sub, seen, d+1)
		case *ssa.Slice:
			walk(x.X, facts, sub, seen, d+1)
		case *ssa.BinOp:
			walk(x.X, facts, sub, seen, d+1)
			walk(x.Y, facts, sub, seen, d+1)
		case *ssa.Alloc:
			k := 0
			if x.Referrers() != nil {
				for _, r := range *x.Referrers() {
					if st, ok := r.(*ssa.Store); ok && st.Addr == ssa.Value(x) {
						walk(st.Val, add(st.Block()), sub, seen, d+1)
						k++
					}
				}
			}
			if k == 0 {
				leaves = append(leaves, leaf{"", "an unassigned variable", facts})
			}
		default:
			leaves = append(leaves, leaf{"", core.Render(v), facts})
		}
	}
	k := 0
	for _, ci := range h1bStaticCallers(p.Region(setCA), parseCA) {
		args := ci.Common().Args
		if len(args) != 3 {
			continue
		}
		k++
		leaves = nil
		walk(args[1], h1bFactsAtR(p, ci.Block()), subst{}, map[ssa.Value]bool{}, 0)
		sawReal := false
		var bad []string
		for _, l := range leaves {
			switch {
			case l.hdr == "X-Real-Ip":
				sawReal = true
			case realEmpty(l.facts):
			default:
				bad = append(bad, l.what)
			}
		}
		sort.Strings(bad)
		key := fmt.Sprintf("setClientAddr:parse#%d:", k)
		c.Check(rule, key+"real-ip-honoured", ci.Pos(), sawReal,
			"the address parseClientAddr receives never comes from Header.Get(X-Real-Ip): the header a trusted upstream BFE sets is not honoured")
		c.Check(rule, key+"fallback-only-if-absent", ci.Pos(), len(bad) == 0,
			"the client address of a trusted peer can be taken from "+strings.Join(uniqStrings(bad), ", ")+" on a way that did not establish Header.Get(X-Real-Ip) == \"\": the documented precedence (X-Real-Ip first, X-Forwarded-For only when it is absent) is not kept, so the address reported by the upstream proxy is replaced by a value the original client controls")
	}
	c.Min(rule, 2)
}
