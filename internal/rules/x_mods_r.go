package rules

// Helpers that make the module rules (C49, C50, C51) robust against
// behaviour-preserving restructuring: path searches that honour edge facts
// (a defensive `x == nil` branch is not a path on which x needs closing),
// error-gate reasoning across the call boundary of a private helper.

import (
	"golang.org/x/tools/go/ssa"

	"verif/internal/core"
)

// mdReachSkippingEdges is core.ReachAvoiding with one more way of cutting a
// path: control-flow edges for which skip(pred, succ) holds are not followed.
// Starting just after from, is there a path to an instruction satisfying
// target that neither executes an instruction satisfying avoid nor takes a
// skipped edge? Returns the first such target.
func mdReachSkippingEdges(from ssa.Instruction, avoid, target func(ssa.Instruction) bool, skip func(pred, succ *ssa.BasicBlock) bool) ssa.Instruction {
	seen := map[*ssa.BasicBlock]bool{}
	var work []*ssa.BasicBlock
	scan := func(b *ssa.BasicBlock, i int) ssa.Instruction {
		for ; i < len(b.Instrs); i++ {
			in := b.Instrs[i]
			if target(in) {
				return in
			}
			if avoid != nil && avoid(in) {
				return nil
			}
		}
		for _, s := range b.Succs {
			if skip != nil && skip(b, s) {
				continue
			}
			if !seen[s] {
				seen[s] = true
				work = append(work, s)
			}
		}
		return nil
	}
	b := from.Block()
	start := 0
	for i, x := range b.Instrs {
		if x == from {
			start = i + 1
		}
	}
	if r := scan(b, start); r != nil {
		return r
	}
	for len(work) > 0 {
		x := work[len(work)-1]
		work = work[:len(work)-1]
		if r := scan(x, 0); r != nil {
			return r
		}
	}
	return nil
}

// mdErrEnforcedAt: the error result of call k (a call of an error-returning
// function inside fn) decides fn's verdict: no return of fn that may carry a
// nil error is reachable from the call except through the edge
// `err(k) == nil` - or by returning k's error itself (`return helper(x)`).
// accepting tells which returns may report success.
func mdErrEnforcedAt(k *ssa.Call, accepting func(r *ssa.Return) bool) bool {
	isNilEdge := func(pred, succ *ssa.BasicBlock) bool {
		f, ok := mdEdgeFact(pred, succ)
		if !ok {
			return false
		}
		x, nonNil, isNil := mdNilTest(f)
		return isNil && !nonNil && mdIsErrOf(x, k)
	}
	bad := mdReachSkippingEdges(k, nil, func(in ssa.Instruction) bool {
		r, ok := in.(*ssa.Return)
		if !ok || !accepting(r) {
			return false
		}
		rv := core.RetVals(r)
		if len(rv) > 0 && mdIsErrOf(rv[len(rv)-1], k) {
			return false // the helper's own verdict is handed on
		}
		return true
	}, isNilEdge)
	return bad == nil
}
