package rules

// Shared helpers of the bfe_tls rules (C41, C42, C44, C45): branch facts with
// boolean-phi expansion, disjunctive dominance guards, value matchers.

import (
	"go/constant"
	"go/token"
	"go/types"
	"strings"
	"sync"

	"golang.org/x/tools/go/ssa"

	"verif/internal/core"
)

const tlsPkg = "bfe_tls"

// tlsFact: the SSA value V is known to be true (Pol) or false (!Pol).
type tlsFact struct {
	V   ssa.Value
	Pol bool
}

func (f tlsFact) String() string {
	if f.Pol {
		return core.Render(f.V)
	}
	return "!" + core.Render(f.V)
}

// tlsNorm strips logical negations and comparisons with boolean constants
// (`ok == false`, `found != true`).
func tlsNorm(v ssa.Value, pol bool) tlsFact {
	for {
		if u, ok := v.(*ssa.UnOp); ok && u.Op == token.NOT {
			v, pol = u.X, !pol
			continue
		}
		if b, ok := v.(*ssa.BinOp); ok && (b.Op == token.EQL || b.Op == token.NEQ) {
			x, k := b.X, b.Y
			if _, isK := tlsIsBoolConst(x); isK {
				x, k = k, x
			}
			if bv, isK := tlsIsBoolConst(k); isK {
				if (b.Op == token.EQL) != bv {
					pol = !pol
				}
				v = x
				continue
			}
		}
		return tlsFact{v, pol}
	}
}

// tlsBranch is the fact established by moving from p to s.
func tlsBranch(p, s *ssa.BasicBlock) (tlsFact, bool) {
	if len(p.Instrs) == 0 || len(p.Succs) != 2 || p.Succs[0] == p.Succs[1] {
		return tlsFact{}, false
	}
	ifi, ok := p.Instrs[len(p.Instrs)-1].(*ssa.If)
	if !ok {
		return tlsFact{}, false
	}
	return tlsNorm(ifi.Cond, p.Succs[0] == s), true
}

func tlsIsBoolConst(v ssa.Value) (bool, bool) {
	k, ok := v.(*ssa.Const)
	if !ok || k.Value == nil || k.Value.Kind() != constant.Bool {
		return false, false
	}
	return constant.BoolVal(k.Value), true
}

// tlsExpand returns f plus the facts implied by f when f.V is a boolean phi
// (the SSA form of && / || / flag variables): the phi can only have the value
// f.Pol through the edges that do not carry the opposite constant; what holds
// on all of those edges holds.
func tlsExpand(f tlsFact, depth int) []tlsFact {
	out := []tlsFact{f}
	phi, ok := f.V.(*ssa.Phi)
	if !ok || depth > 3 {
		return out
	}
	if b, ok := phi.Type().Underlying().(*types.Basic); !ok || b.Kind() != types.Bool {
		return out
	}
	var sets []map[string]tlsFact
	for i, e := range phi.Edges {
		if i >= len(phi.Block().Preds) {
			return out
		}
		pred := phi.Block().Preds[i]
		var extra []tlsFact
		if bv, isK := tlsIsBoolConst(e); isK {
			if bv != f.Pol {
				continue
			}
		} else {
			extra = tlsExpand(tlsNorm(e, f.Pol), depth+1)
		}
		set := map[string]tlsFact{}
		for _, x := range tlsFactsAtDepth(pred, depth+1) {
			set[x.String()] = x
		}
		if bf, ok := tlsBranch(pred, phi.Block()); ok {
			for _, x := range tlsExpand(bf, depth+1) {
				set[x.String()] = x
			}
		}
		for _, x := range extra {
			set[x.String()] = x
		}
		sets = append(sets, set)
	}
	if len(sets) == 0 {
		return out
	}
	for k, x := range sets[0] {
		all := true
		for _, s := range sets[1:] {
			if _, ok := s[k]; !ok {
				all = false
				break
			}
		}
		if all {
			out = append(out, x)
		}
	}
	return out
}

// tlsFactsAt: facts that hold on every path reaching b (walk up the dominator
// tree through single-predecessor edges; conditions inside merged regions are
// dropped), with boolean phis expanded.
func tlsFactsAt(b *ssa.BasicBlock) []tlsFact { return tlsFactsAtDepth(b, 0) }

func tlsFactsAtDepth(b *ssa.BasicBlock, depth int) []tlsFact {
	var out []tlsFact
	seen := map[*ssa.BasicBlock]bool{}
	for cur := b; cur != nil && !seen[cur]; {
		seen[cur] = true
		if len(cur.Preds) == 1 {
			p := cur.Preds[0]
			if f, ok := tlsBranch(p, cur); ok {
				out = append(out, tlsExpand(f, depth)...)
			}
			cur = p
			continue
		}
		cur = cur.Idom()
	}
	return out
}

// tlsEstablished: some fact holding at b satisfies want.
func tlsEstablished(b *ssa.BasicBlock, want func(tlsFact) bool) bool {
	for _, f := range tlsFactsAt(b) {
		if want(f) {
			return true
		}
	}
	return false
}

// tlsDomGuarded: on every path reaching b a fact accepted by want has been
// established: either directly (dominating branch) or, at a merge point on the
// dominator chain, on every incoming edge (the shape of `if A && !B { bail }`
// and `if A || B { bail }` continuations). A branch on a boolean phi (a named
// boolean such as `bad := A && !B`, evaluated before the `if`) is read through
// the phi: the condition must be entailed on every edge through which the phi
// can take the observed value (tlsImplies). Incoming edges of a merge point
// that contradict a comparison established between the merge point and b
// (`for … { if x { break } }; if i < 0 { panic }` - the loop-exit edge carries
// !(i >= 0)) cannot lie on a path to b and are skipped.
func tlsDomGuarded(b *ssa.BasicBlock, want func(tlsFact) bool) bool {
	budget := 400000
	return tlsDomGuardedRec(b, want, map[*ssa.BasicBlock]bool{}, 0, nil, &budget)
}

// The budget bounds the work of one tlsDomGuarded query (merge points are
// explored recursively without memoisation); when it is exhausted the guard
// counts as not established (an alarm, never a silent pass).

// tlsOpSet maps a comparison to the subset of {<, =, >} it admits (bits 1, 2, 4).
func tlsOpSet(op token.Token) int {
	switch op {
	case token.LSS:
		return 1
	case token.LEQ:
		return 3
	case token.EQL:
		return 2
	case token.GEQ:
		return 6
	case token.GTR:
		return 4
	case token.NEQ:
		return 5
	}
	return 7
}

// tlsSameVal: the same SSA value, or two constants of the same type and value
// (go/ssa does not share constant objects).
func tlsSameVal(a, b ssa.Value) bool {
	if a == b {
		return true
	}
	ka, okA := a.(*ssa.Const)
	kb, okB := b.(*ssa.Const)
	if !okA || !okB || !types.Identical(ka.Type(), kb.Type()) {
		return false
	}
	if ka.Value == nil || kb.Value == nil {
		return ka.Value == nil && kb.Value == nil
	}
	return constant.Compare(ka.Value, token.EQL, kb.Value)
}

// tlsContradict: the two facts cannot hold together (same condition with
// opposite truth values, or two comparisons of the same operands without a
// common solution).
func tlsContradict(f, g tlsFact) bool {
	if f.V == g.V {
		return f.Pol != g.Pol
	}
	x1, y1, op1, ok1 := tlsRel(f)
	x2, y2, op2, ok2 := tlsRel(g)
	if !ok1 || !ok2 {
		return false
	}
	if tlsSameVal(x1, y2) && tlsSameVal(y1, x2) && !tlsSameVal(x1, y1) {
		x2, y2, op2 = y2, x2, tlsFlip(op2)
	}
	if !tlsSameVal(x1, x2) || !tlsSameVal(y1, y2) {
		return false
	}
	return tlsOpSet(op1)&tlsOpSet(op2) == 0
}

// ---- frames: reading a fact through a boolean helper ------------------------

// tlsEnv binds the parameters of a helper to the arguments of the call that
// is being read through (see tlsImplies): while a binding is active the value
// matchers below see the caller's argument in place of the helper's parameter,
// so a guard extracted into `func sessionOK(s *sessionState, auth ClientAuthType) bool`
// is matched by the same predicates as the inline code.
var (
	tlsEnvMu sync.Mutex
	tlsEnv   = map[ssa.Value]ssa.Value{}
)

// tlsResolve maps a bound helper parameter to the caller's argument.
func tlsResolve(v ssa.Value) ssa.Value {
	if _, isP := v.(*ssa.Parameter); !isP {
		return v
	}
	tlsEnvMu.Lock()
	defer tlsEnvMu.Unlock()
	for i := 0; i < 4; i++ {
		a, ok := tlsEnv[v]
		if !ok {
			break
		}
		v = a
	}
	return v
}

func tlsBind(h *ssa.Function, args []ssa.Value) func() {
	tlsEnvMu.Lock()
	var bound []ssa.Value
	for i, p := range h.Params {
		if i < len(args) {
			if _, dup := tlsEnv[p]; !dup {
				tlsEnv[p] = args[i]
				bound = append(bound, p)
			}
		}
	}
	tlsEnvMu.Unlock()
	return func() {
		tlsEnvMu.Lock()
		for _, p := range bound {
			delete(tlsEnv, p)
		}
		tlsEnvMu.Unlock()
	}
}

// tlsBoolHelper: v is a call of an in-module function with a body and a single
// boolean result (a predicate helper).
func tlsBoolHelper(v ssa.Value) (*ssa.Call, *ssa.Function) {
	call, ok := v.(*ssa.Call)
	if !ok || call.Call.IsInvoke() {
		return nil, nil
	}
	h := call.Call.StaticCallee()
	if h == nil || h.Blocks == nil || core.FuncPkgRel(h) == "" || h.Signature.Results().Len() != 1 {
		return nil, nil
	}
	// a predicate helper is a small unexported function (an extracted
	// condition); parsers and whole protocol steps that happen to return a
	// bool are not read through
	if len(h.Blocks) > 24 || h.Object() == nil || h.Object().Exported() {
		return nil, nil
	}
	if b, ok := h.Signature.Results().At(0).Type().Underlying().(*types.Basic); !ok || b.Kind() != types.Bool {
		return nil, nil
	}
	return call, h
}

// tlsOnCycle: b can reach itself.
func tlsOnCycle(b *ssa.BasicBlock) bool {
	seen := map[*ssa.BasicBlock]bool{}
	work := append([]*ssa.BasicBlock(nil), b.Succs...)
	for len(work) > 0 {
		x := work[len(work)-1]
		work = work[:len(work)-1]
		if x == b {
			return true
		}
		if seen[x] {
			continue
		}
		seen[x] = true
		work = append(work, x.Succs...)
	}
	return false
}

// tlsImplies: the fact f entails a fact accepted by want - f itself or, when
// f.V is a boolean phi (&&, ||, a flag variable, a named boolean), on every
// edge through which the phi can carry the value f.Pol: the edge's value, the
// branch taken into the phi's block, or what is established on every path to
// the edge's source block.
func tlsImplies(f tlsFact, want func(tlsFact) bool, visiting map[*ssa.BasicBlock]bool, depth int, below []tlsFact, budget *int) bool {
	if want(f) {
		return true
	}
	if depth > 12 {
		return false
	}
	// a predicate helper: `if !sessionOK(s, auth) { return false }`. The call
	// returned f.Pol, so one of the helper's returns that can produce f.Pol
	// was taken; what is established at every such return (read in the
	// caller's terms) holds.
	if call, h := tlsBoolHelper(f.V); h != nil && depth < 8 {
		// (depth+8 below: predicate helpers are read one level deep only)
		unbind := tlsBind(h, call.Call.Args)
		defer unbind()
		n := 0
		for _, r := range core.Returns(h) {
			rv := core.RetVals(r)
			if len(rv) != 1 {
				return false
			}
			ok := false
			if bv, isK := tlsIsBoolConst(rv[0]); isK {
				if bv != f.Pol {
					continue
				}
			} else {
				ok = tlsImplies(tlsNorm(rv[0], f.Pol), want, map[*ssa.BasicBlock]bool{}, depth+8, nil, budget)
			}
			n++
			if !ok && !tlsDomGuardedRec(r.Block(), want, map[*ssa.BasicBlock]bool{}, depth+8, nil, budget) {
				return false
			}
		}
		return n > 0
	}
	phi, ok := f.V.(*ssa.Phi)
	if !ok {
		return false
	}
	if b, ok := phi.Type().Underlying().(*types.Basic); !ok || b.Kind() != types.Bool {
		return false
	}
	if len(phi.Edges) != len(phi.Block().Preds) {
		return false
	}
	n := 0
	for i, e := range phi.Edges {
		pred := phi.Block().Preds[i]
		ok := false
		if bv, isK := tlsIsBoolConst(e); isK {
			if bv != f.Pol {
				continue
			}
		} else {
			ok = tlsImplies(tlsNorm(e, f.Pol), want, visiting, depth+1, below, budget)
		}
		n++
		if !ok {
			if bf, has := tlsBranch(pred, phi.Block()); has {
				ok = tlsImplies(bf, want, visiting, depth+1, below, budget)
			}
		}
		if !ok && !tlsDomGuardedRec(pred, want, visiting, depth+2, below, budget) {
			return false
		}
	}
	return n > 0
}

func tlsDomGuardedRec(b *ssa.BasicBlock, want func(tlsFact) bool, visiting map[*ssa.BasicBlock]bool, depth int, below []tlsFact, budget *int) bool {
	if depth > 12 || *budget <= 0 {
		return false
	}
	*budget--
	below = append([]tlsFact(nil), below...)
	seen := map[*ssa.BasicBlock]bool{}
	for cur := b; cur != nil && !seen[cur]; {
		seen[cur] = true
		if len(cur.Preds) == 1 {
			p := cur.Preds[0]
			if f, ok := tlsBranch(p, cur); ok {
				if tlsImplies(f, want, visiting, depth+1, below, budget) {
					return true
				}
				below = append(below, f)
			}
			cur = p
			continue
		}
		if len(cur.Preds) >= 2 && !visiting[cur] {
			visiting[cur] = true
			all, feasible := true, 0
			// pruning compares SSA values across the merge point: only sound
			// when the merge point is not on a cycle (one instance per value)
			prune := len(below) > 0 && !tlsOnCycle(cur)
			for _, p := range cur.Preds {
				ok := false
				if f, has := tlsBranch(p, cur); has {
					infeasible := false
					for _, g := range below {
						if prune && tlsContradict(f, g) {
							infeasible = true
						}
					}
					if infeasible {
						continue
					}
					ok = tlsImplies(f, want, visiting, depth+1, below, budget)
				}
				feasible++
				if !ok && !tlsDomGuardedRec(p, want, visiting, depth+1, below, budget) {
					all = false
					break
				}
			}
			delete(visiting, cur)
			if all && feasible > 0 {
				return true
			}
		}
		cur = cur.Idom()
	}
	return false
}

// tlsFactStrs renders the facts at b (for messages).
func tlsFactStrs(b *ssa.BasicBlock) string {
	var s []string
	seen := map[string]bool{}
	for _, f := range tlsFactsAt(b) {
		if x := f.String(); !seen[x] {
			seen[x] = true
			s = append(s, x)
		}
	}
	if len(s) > 14 {
		s = append(s[:14], "…")
	}
	return strings.Join(s, " && ")
}

// ---- relations ---------------------------------------------------------

func tlsNegate(op token.Token) token.Token {
	switch op {
	case token.EQL:
		return token.NEQ
	case token.NEQ:
		return token.EQL
	case token.LSS:
		return token.GEQ
	case token.GEQ:
		return token.LSS
	case token.GTR:
		return token.LEQ
	case token.LEQ:
		return token.GTR
	}
	return token.ILLEGAL
}

func tlsFlip(op token.Token) token.Token {
	switch op {
	case token.LSS:
		return token.GTR
	case token.GTR:
		return token.LSS
	case token.LEQ:
		return token.GEQ
	case token.GEQ:
		return token.LEQ
	}
	return op
}

// tlsRel reads a fact as a comparison "x op y" that holds.
func tlsRel(f tlsFact) (x, y ssa.Value, op token.Token, ok bool) {
	b, isB := f.V.(*ssa.BinOp)
	if !isB {
		return nil, nil, token.ILLEGAL, false
	}
	switch b.Op {
	case token.EQL, token.NEQ, token.LSS, token.LEQ, token.GTR, token.GEQ:
	default:
		return nil, nil, token.ILLEGAL, false
	}
	op = b.Op
	if !f.Pol {
		op = tlsNegate(op)
	}
	return b.X, b.Y, op, true
}

// tlsHolds: the fact states "A op B" for operands recognised by isA / isB
// (either operand order); ops lists the accepted operators for the A-op-B
// orientation.
func tlsHolds(f tlsFact, isA, isB func(ssa.Value) bool, ops ...token.Token) bool {
	x, y, op, ok := tlsRel(f)
	if !ok {
		return false
	}
	in := func(o token.Token) bool {
		for _, w := range ops {
			if w == o {
				return true
			}
		}
		return false
	}
	if isA(x) && isB(y) && in(op) {
		return true
	}
	if isA(y) && isB(x) && in(tlsFlip(op)) {
		return true
	}
	return false
}

// ---- value matchers ------------------------------------------------------

// tlsLoad peels a load: *addr -> addr.
func tlsLoad(v ssa.Value) (ssa.Value, bool) {
	if u, ok := v.(*ssa.UnOp); ok && u.Op == token.MUL {
		return u.X, true
	}
	return nil, false
}

// tlsFieldOf: v is the value of field f of base (a load of &base.f, or
// base.f on a struct value); conversions are peeled.
func tlsFieldOf(v ssa.Value) (f *types.Var, base ssa.Value) {
	v = core.StripConv(tlsResolve(core.StripConv(v)))
	if a, ok := tlsLoad(v); ok {
		if fa, ok := a.(*ssa.FieldAddr); ok {
			return core.FieldObj(fa.X, fa.Field), tlsResolve(fa.X)
		}
		return nil, nil
	}
	if fv, ok := v.(*ssa.Field); ok {
		return core.FieldObj(fv.X, fv.Field), tlsResolve(fv.X)
	}
	return nil, nil
}

// tlsIsField: v is a read of the given field (any base).
func tlsIsField(v ssa.Value, f *types.Var) bool {
	if f == nil {
		return false
	}
	g, _ := tlsFieldOf(v)
	return g == f
}

// tlsFieldAddrOf: addr is &base.f.
func tlsFieldAddrOf(addr ssa.Value) (*types.Var, ssa.Value) {
	if fa, ok := addr.(*ssa.FieldAddr); ok {
		return core.FieldObj(fa.X, fa.Field), fa.X
	}
	return nil, nil
}

// tlsElemOf: v is an element read list[i]; returns the list value.
func tlsElemOf(v ssa.Value) (ssa.Value, bool) {
	v = core.StripConv(tlsResolve(core.StripConv(v)))
	if a, ok := tlsLoad(v); ok {
		if ia, ok := a.(*ssa.IndexAddr); ok {
			return tlsResolve(ia.X), true
		}
	}
	if ix, ok := v.(*ssa.Index); ok {
		return tlsResolve(ix.X), true
	}
	return nil, false
}

// tlsCallOf: v is the (single) result of a call to one of names.
func tlsCallOf(v ssa.Value, names ...string) *ssa.Call {
	c, ok := core.StripConv(tlsResolve(core.StripConv(v))).(*ssa.Call)
	if !ok || !core.CallIs(&c.Call, names...) {
		return nil
	}
	return c
}

// tlsExtractOf: v is result #i of a call; returns the call.
func tlsExtractOf(v ssa.Value, i int) *ssa.Call {
	ex, ok := core.StripConv(tlsResolve(core.StripConv(v))).(*ssa.Extract)
	if !ok || ex.Index != i {
		return nil
	}
	c, _ := ex.Tuple.(*ssa.Call)
	return c
}

func tlsConstInt(v ssa.Value) (int64, bool) {
	k, ok := core.StripConv(tlsResolve(core.StripConv(v))).(*ssa.Const)
	if !ok || k.Value == nil || k.Value.Kind() != constant.Int {
		return 0, false
	}
	n, exact := constant.Int64Val(k.Value)
	return n, exact
}

func tlsIsNil(v ssa.Value) bool {
	k, ok := tlsResolve(v).(*ssa.Const)
	return ok && k.Value == nil
}

// tlsPkgConst resolves an integer constant of bfe_tls by object.
func tlsPkgConst(c *core.Ctx, name string) (int64, bool) {
	k, ok := c.P.Obj(tlsPkg, name).(*types.Const)
	if !ok || k.Val().Kind() != constant.Int {
		c.Missing(tlsPkg + "." + name)
		return 0, false
	}
	n, _ := constant.Int64Val(k.Val())
	return n, true
}

// tlsField resolves a struct field object "Type.field" of bfe_tls.
func tlsField(c *core.Ctx, name string) *types.Var {
	v, ok := c.P.Obj(tlsPkg, name).(*types.Var)
	if !ok || !v.IsField() {
		c.Missing(tlsPkg + "." + name)
		return nil
	}
	return v
}

// tlsFunc resolves a function of bfe_tls, recording a missing anchor.
func tlsFunc(c *core.Ctx, name string) *ssa.Function {
	fn := c.P.Func(tlsPkg, name)
	if fn == nil || fn.Blocks == nil {
		c.Missing(tlsPkg + "." + name)
		return nil
	}
	c.Analysed(core.FuncKey(fn))
	return fn
}

func tlsInstrs(fn *ssa.Function) []ssa.Instruction {
	var out []ssa.Instruction
	core.Instrs(fn, func(in ssa.Instruction) { out = append(out, in) })
	return out
}

// tlsParam returns the parameter of fn with the given name.
func tlsParam(fn *ssa.Function, name string) *ssa.Parameter {
	for _, p := range fn.Params {
		if p.Name() == name {
			return p
		}
	}
	return nil
}

// tlsParamAt returns parameter #i of fn (the receiver is #0). Parameters are
// identified by position: their names are free to change.
func tlsParamAt(fn *ssa.Function, i int) *ssa.Parameter {
	if fn == nil || i < 0 || i >= len(fn.Params) {
		return nil
	}
	return fn.Params[i]
}

// tlsIsParam: v is (a load of the spill slot of) parameter p.
func tlsIsParam(v ssa.Value, p *ssa.Parameter) bool {
	if p == nil {
		return false
	}
	v = core.StripConv(tlsResolve(core.StripConv(v)))
	if v == p {
		return true
	}
	if a, ok := tlsLoad(v); ok {
		if al, ok := a.(*ssa.Alloc); ok && core.SpilledParam(al) == p {
			return true
		}
	}
	return false
}

// tlsReaches: starting after `from`, can an instruction satisfying target be
// reached (without passing avoid)?
func tlsReaches(fn *ssa.Function, from ssa.Instruction, avoid, target func(ssa.Instruction) bool) bool {
	return core.ReachAvoiding(fn, from, avoid, target) != nil
}

// tlsBlockReaches: entering block b, can target be reached?
func tlsBlockReaches(fn *ssa.Function, b *ssa.BasicBlock, target func(ssa.Instruction) bool) bool {
	if len(b.Instrs) == 0 {
		return false
	}
	if target(b.Instrs[0]) {
		return true
	}
	return core.ReachAvoiding(fn, b.Instrs[0], nil, target) != nil
}

// tlsStaticCallers lists the call instructions in fns that statically call callee.
func tlsStaticCallers(fns []*ssa.Function, callee *ssa.Function) []ssa.CallInstruction {
	var out []ssa.CallInstruction
	for _, fn := range fns {
		for _, ci := range core.AllCalls(fn) {
			if ci.Common().StaticCallee() == callee {
				out = append(out, ci)
			}
		}
	}
	return out
}

// tlsPhiLeaves collects the non-phi values a value may take through phis.
func tlsPhiLeaves(v ssa.Value) []ssa.Value {
	var out []ssa.Value
	seen := map[ssa.Value]bool{}
	var walk func(x ssa.Value)
	walk = func(x ssa.Value) {
		if seen[x] {
			return
		}
		seen[x] = true
		if p, ok := x.(*ssa.Phi); ok {
			for _, e := range p.Edges {
				walk(e)
			}
			return
		}
		out = append(out, x)
	}
	walk(v)
	return out
}

// tlsStoredValue: when v is a load of a local slot (a variable that lives in
// memory: named result with defer, captured variable) returns the value of the
// last store to that slot that precedes the load in the same block; otherwise v.
func tlsStoredValue(v ssa.Value) ssa.Value {
	u, ok := v.(*ssa.UnOp)
	if !ok || u.Op != token.MUL {
		return v
	}
	a, ok := u.X.(*ssa.Alloc)
	if !ok {
		return v
	}
	instrs := u.Block().Instrs
	at := -1
	for i, in := range instrs {
		if in == ssa.Instruction(u) {
			at = i
		}
	}
	for i := at - 1; i >= 0; i-- {
		if st, ok := instrs[i].(*ssa.Store); ok && st.Addr == ssa.Value(a) {
			return st.Val
		}
		if _, isCall := instrs[i].(ssa.CallInstruction); isCall && a.Heap {
			return v // the slot may be written by the callee (captured variable)
		}
	}
	return v
}
