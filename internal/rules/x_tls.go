package rules

// Shared helpers of the bfe_tls rules (C41, C42, C44, C45): branch facts with
// boolean-phi expansion, disjunctive dominance guards, value matchers.

import (
	"go/constant"
	"go/token"
	"go/types"
	"strings"

	"golang.org/x/tools/go/ssa"

	"verif/internal/core"
)

const tlsPkg = "bfe_tls"

// tlsFact: the SSA value V is known to be true (Pol) or false (!Pol).
type tlsFact struct {
	V   ssa.Value
	Pol bool
}

func (f tlsFact) String() string {
	if f.Pol {
		return core.Render(f.V)
	}
	return "!" + core.Render(f.V)
}

// tlsNorm strips logical negations.
func tlsNorm(v ssa.Value, pol bool) tlsFact {
	for {
		if u, ok := v.(*ssa.UnOp); ok && u.Op == token.NOT {
			v, pol = u.X, !pol
			continue
		}
		return tlsFact{v, pol}
	}
}

// tlsBranch is the fact established by moving from p to s.
func tlsBranch(p, s *ssa.BasicBlock) (tlsFact, bool) {
	if len(p.Instrs) == 0 || len(p.Succs) != 2 || p.Succs[0] == p.Succs[1] {
		return tlsFact{}, false
	}
	ifi, ok := p.Instrs[len(p.Instrs)-1].(*ssa.If)
	if !ok {
		return tlsFact{}, false
	}
	return tlsNorm(ifi.Cond, p.Succs[0] == s), true
}

func tlsIsBoolConst(v ssa.Value) (bool, bool) {
	k, ok := v.(*ssa.Const)
	if !ok || k.Value == nil || k.Value.Kind() != constant.Bool {
		return false, false
	}
	return constant.BoolVal(k.Value), true
}

// tlsExpand returns f plus the facts implied by f when f.V is a boolean phi
// (the SSA form of && / || / flag variables): the phi can only have the value
// f.Pol through the edges that do not carry the opposite constant; what holds
// on all of those edges holds.
func tlsExpand(f tlsFact, depth int) []tlsFact {
	out := []tlsFact{f}
	phi, ok := f.V.(*ssa.Phi)
	if !ok || depth > 3 {
		return out
	}
	if b, ok := phi.Type().Underlying().(*types.Basic); !ok || b.Kind() != types.Bool {
		return out
	}
	var sets []map[string]tlsFact
	for i, e := range phi.Edges {
		if i >= len(phi.Block().Preds) {
			return out
		}
		pred := phi.Block().Preds[i]
		var extra []tlsFact
		if bv, isK := tlsIsBoolConst(e); isK {
			if bv != f.Pol {
				continue
			}
		} else {
			extra = tlsExpand(tlsNorm(e, f.Pol), depth+1)
		}
		set := map[string]tlsFact{}
		for _, x := range tlsFactsAtDepth(pred, depth+1) {
			set[x.String()] = x
		}
		if bf, ok := tlsBranch(pred, phi.Block()); ok {
			for _, x := range tlsExpand(bf, depth+1) {
				set[x.String()] = x
			}
		}
		for _, x := range extra {
			set[x.String()] = x
		}
		sets = append(sets, set)
	}
	if len(sets) == 0 {
		return out
	}
	for k, x := range sets[0] {
		all := true
		for _, s := range sets[1:] {
			if _, ok := s[k]; !ok {
				all = false
				break
			}
		}
		if all {
			out = append(out, x)
		}
	}
	return out
}

// tlsFactsAt: facts that hold on every path reaching b (walk up the dominator
// tree through single-predecessor edges; conditions inside merged regions are
// dropped), with boolean phis expanded.
func tlsFactsAt(b *ssa.BasicBlock) []tlsFact { return tlsFactsAtDepth(b, 0) }

func tlsFactsAtDepth(b *ssa.BasicBlock, depth int) []tlsFact {
	var out []tlsFact
	seen := map[*ssa.BasicBlock]bool{}
	for cur := b; cur != nil && !seen[cur]; {
		seen[cur] = true
		if len(cur.Preds) == 1 {
			p := cur.Preds[0]
			if f, ok := tlsBranch(p, cur); ok {
				out = append(out, tlsExpand(f, depth)...)
			}
			cur = p
			continue
		}
		cur = cur.Idom()
	}
	return out
}

// tlsEstablished: some fact holding at b satisfies want.
func tlsEstablished(b *ssa.BasicBlock, want func(tlsFact) bool) bool {
	for _, f := range tlsFactsAt(b) {
		if want(f) {
			return true
		}
	}
	return false
}

// tlsDomGuarded: on every path reaching b a fact accepted by want has been
// established: either directly (dominating branch) or, at a merge point on the
// dominator chain, on every incoming edge (the shape of `if A && !B { bail }`
// and `if A || B { bail }` continuations).
func tlsDomGuarded(b *ssa.BasicBlock, want func(tlsFact) bool) bool {
	return tlsDomGuardedRec(b, want, map[*ssa.BasicBlock]bool{}, 0)
}

func tlsDomGuardedRec(b *ssa.BasicBlock, want func(tlsFact) bool, visiting map[*ssa.BasicBlock]bool, depth int) bool {
	if depth > 12 {
		return false
	}
	seen := map[*ssa.BasicBlock]bool{}
	for cur := b; cur != nil && !seen[cur]; {
		seen[cur] = true
		if len(cur.Preds) == 1 {
			p := cur.Preds[0]
			if f, ok := tlsBranch(p, cur); ok {
				for _, x := range tlsExpand(f, 0) {
					if want(x) {
						return true
					}
				}
			}
			cur = p
			continue
		}
		if len(cur.Preds) >= 2 && !visiting[cur] {
			visiting[cur] = true
			all := true
			for _, p := range cur.Preds {
				ok := false
				if f, has := tlsBranch(p, cur); has {
					for _, x := range tlsExpand(f, 0) {
						if want(x) {
							ok = true
						}
					}
				}
				if !ok && !tlsDomGuardedRec(p, want, visiting, depth+1) {
					all = false
					break
				}
			}
			delete(visiting, cur)
			if all {
				return true
			}
		}
		cur = cur.Idom()
	}
	return false
}

// tlsFactStrs renders the facts at b (for messages).
func tlsFactStrs(b *ssa.BasicBlock) string {
	var s []string
	seen := map[string]bool{}
	for _, f := range tlsFactsAt(b) {
		if x := f.String(); !seen[x] {
			seen[x] = true
			s = append(s, x)
		}
	}
	if len(s) > 14 {
		s = append(s[:14], "…")
	}
	return strings.Join(s, " && ")
}

// ---- relations ---------------------------------------------------------

func tlsNegate(op token.Token) token.Token {
	switch op {
	case token.EQL:
		return token.NEQ
	case token.NEQ:
		return token.EQL
	case token.LSS:
		return token.GEQ
	case token.GEQ:
		return token.LSS
	case token.GTR:
		return token.LEQ
	case token.LEQ:
		return token.GTR
	}
	return token.ILLEGAL
}

func tlsFlip(op token.Token) token.Token {
	switch op {
	case token.LSS:
		return token.GTR
	case token.GTR:
		return token.LSS
	case token.LEQ:
		return token.GEQ
	case token.GEQ:
		return token.LEQ
	}
	return op
}

// tlsRel reads a fact as a comparison "x op y" that holds.
func tlsRel(f tlsFact) (x, y ssa.Value, op token.Token, ok bool) {
	b, isB := f.V.(*ssa.BinOp)
	if !isB {
		return nil, nil, token.ILLEGAL, false
	}
	switch b.Op {
	case token.EQL, token.NEQ, token.LSS, token.LEQ, token.GTR, token.GEQ:
	default:
		return nil, nil, token.ILLEGAL, false
	}
	op = b.Op
	if !f.Pol {
		op = tlsNegate(op)
	}
	return b.X, b.Y, op, true
}

// tlsHolds: the fact states "A op B" for operands recognised by isA / isB
// (either operand order); ops lists the accepted operators for the A-op-B
// orientation.
func tlsHolds(f tlsFact, isA, isB func(ssa.Value) bool, ops ...token.Token) bool {
	x, y, op, ok := tlsRel(f)
	if !ok {
		return false
	}
	in := func(o token.Token) bool {
		for _, w := range ops {
			if w == o {
				return true
			}
		}
		return false
	}
	if isA(x) && isB(y) && in(op) {
		return true
	}
	if isA(y) && isB(x) && in(tlsFlip(op)) {
		return true
	}
	return false
}

// ---- value matchers ------------------------------------------------------

// tlsLoad peels a load: *addr -> addr.
func tlsLoad(v ssa.Value) (ssa.Value, bool) {
	if u, ok := v.(*ssa.UnOp); ok && u.Op == token.MUL {
		return u.X, true
	}
	return nil, false
}

// tlsFieldOf: v is the value of field f of base (a load of &base.f, or
// base.f on a struct value); conversions are peeled.
func tlsFieldOf(v ssa.Value) (f *types.Var, base ssa.Value) {
	v = core.StripConv(v)
	if a, ok := tlsLoad(v); ok {
		if fa, ok := a.(*ssa.FieldAddr); ok {
			return core.FieldObj(fa.X, fa.Field), fa.X
		}
		return nil, nil
	}
	if fv, ok := v.(*ssa.Field); ok {
		return core.FieldObj(fv.X, fv.Field), fv.X
	}
	return nil, nil
}

// tlsIsField: v is a read of the given field (any base).
func tlsIsField(v ssa.Value, f *types.Var) bool {
	if f == nil {
		return false
	}
	g, _ := tlsFieldOf(v)
	return g == f
}

// tlsFieldAddrOf: addr is &base.f.
func tlsFieldAddrOf(addr ssa.Value) (*types.Var, ssa.Value) {
	if fa, ok := addr.(*ssa.FieldAddr); ok {
		return core.FieldObj(fa.X, fa.Field), fa.X
	}
	return nil, nil
}

// tlsElemOf: v is an element read list[i]; returns the list value.
func tlsElemOf(v ssa.Value) (ssa.Value, bool) {
	v = core.StripConv(v)
	if a, ok := tlsLoad(v); ok {
		if ia, ok := a.(*ssa.IndexAddr); ok {
			return ia.X, true
		}
	}
	if ix, ok := v.(*ssa.Index); ok {
		return ix.X, true
	}
	return nil, false
}

// tlsCallOf: v is the (single) result of a call to one of names.
func tlsCallOf(v ssa.Value, names ...string) *ssa.Call {
	c, ok := core.StripConv(v).(*ssa.Call)
	if !ok || !core.CallIs(&c.Call, names...) {
		return nil
	}
	return c
}

// tlsExtractOf: v is result #i of a call; returns the call.
func tlsExtractOf(v ssa.Value, i int) *ssa.Call {
	ex, ok := core.StripConv(v).(*ssa.Extract)
	if !ok || ex.Index != i {
		return nil
	}
	c, _ := ex.Tuple.(*ssa.Call)
	return c
}

func tlsConstInt(v ssa.Value) (int64, bool) {
	k, ok := core.StripConv(v).(*ssa.Const)
	if !ok || k.Value == nil || k.Value.Kind() != constant.Int {
		return 0, false
	}
	n, exact := constant.Int64Val(k.Value)
	return n, exact
}

func tlsIsNil(v ssa.Value) bool {
	k, ok := v.(*ssa.Const)
	return ok && k.Value == nil
}

// tlsPkgConst resolves an integer constant of bfe_tls by object.
func tlsPkgConst(c *core.Ctx, name string) (int64, bool) {
	k, ok := c.P.Obj(tlsPkg, name).(*types.Const)
	if !ok || k.Val().Kind() != constant.Int {
		c.Missing(tlsPkg + "." + name)
		return 0, false
	}
	n, _ := constant.Int64Val(k.Val())
	return n, true
}

// tlsField resolves a struct field object "Type.field" of bfe_tls.
func tlsField(c *core.Ctx, name string) *types.Var {
	v, ok := c.P.Obj(tlsPkg, name).(*types.Var)
	if !ok || !v.IsField() {
		c.Missing(tlsPkg + "." + name)
		return nil
	}
	return v
}

// tlsFunc resolves a function of bfe_tls, recording a missing anchor.
func tlsFunc(c *core.Ctx, name string) *ssa.Function {
	fn := c.P.Func(tlsPkg, name)
	if fn == nil || fn.Blocks == nil {
		c.Missing(tlsPkg + "." + name)
		return nil
	}
	c.Analysed(core.FuncKey(fn))
	return fn
}

func tlsInstrs(fn *ssa.Function) []ssa.Instruction {
	var out []ssa.Instruction
	core.Instrs(fn, func(in ssa.Instruction) { out = append(out, in) })
	return out
}

// tlsParam returns the parameter of fn with the given name.
func tlsParam(fn *ssa.Function, name string) *ssa.Parameter {
	for _, p := range fn.Params {
		if p.Name() == name {
			return p
		}
	}
	return nil
}

// tlsIsParam: v is (a load of the spill slot of) parameter p.
func tlsIsParam(v ssa.Value, p *ssa.Parameter) bool {
	if p == nil {
		return false
	}
	v = core.StripConv(v)
	if v == p {
		return true
	}
	if a, ok := tlsLoad(v); ok {
		if al, ok := a.(*ssa.Alloc); ok && core.SpilledParam(al) == p {
			return true
		}
	}
	return false
}

// tlsReaches: starting after `from`, can an instruction satisfying target be
// reached (without passing avoid)?
func tlsReaches(fn *ssa.Function, from ssa.Instruction, avoid, target func(ssa.Instruction) bool) bool {
	return core.ReachAvoiding(fn, from, avoid, target) != nil
}

// tlsBlockReaches: entering block b, can target be reached?
func tlsBlockReaches(fn *ssa.Function, b *ssa.BasicBlock, target func(ssa.Instruction) bool) bool {
	if len(b.Instrs) == 0 {
		return false
	}
	if target(b.Instrs[0]) {
		return true
	}
	return core.ReachAvoiding(fn, b.Instrs[0], nil, target) != nil
}

// tlsStaticCallers lists the call instructions in fns that statically call callee.
func tlsStaticCallers(fns []*ssa.Function, callee *ssa.Function) []ssa.CallInstruction {
	var out []ssa.CallInstruction
	for _, fn := range fns {
		for _, ci := range core.AllCalls(fn) {
			if ci.Common().StaticCallee() == callee {
				out = append(out, ci)
			}
		}
	}
	return out
}

// tlsPhiLeaves collects the non-phi values a value may take through phis.
func tlsPhiLeaves(v ssa.Value) []ssa.Value {
	var out []ssa.Value
	seen := map[ssa.Value]bool{}
	var walk func(x ssa.Value)
	walk = func(x ssa.Value) {
		if seen[x] {
			return
		}
		seen[x] = true
		if p, ok := x.(*ssa.Phi); ok {
			for _, e := range p.Edges {
				walk(e)
			}
			return
		}
		out = append(out, x)
	}
	walk(v)
	return out
}
