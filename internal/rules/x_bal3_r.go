package rules

import (
	"fmt"
	"go/constant"
	"go/token"
	"go/types"
	"strings"

	"golang.org/x/tools/go/ssa"

	"verif/internal/core"
)

// Helpers that make the rules of C08, C09 and C13 independent of the surface
// form of the code: values are followed through the parameters and results of
// private helpers, guards are expanded through negations and named booleans
// (`ok := a && b; if ok`), comparisons are matched by operand identity (field
// object, parameter, constant) instead of by rendered text.

// rParamOf: v is a parameter, or a load of the Alloc a captured parameter was
// spilled to.
func rParamOf(v ssa.Value) *ssa.Parameter {
	switch x := v.(type) {
	case *ssa.Parameter:
		return x
	case *ssa.UnOp:
		if x.Op == token.MUL {
			if a, ok := x.X.(*ssa.Alloc); ok {
				return core.SpilledParam(a)
			}
		}
	}
	return nil
}

// rRegion is the region of a root function (core.Prog.Region) with the call
// sites of its helpers, computed once per run.
type rRegion struct {
	p     *core.Prog
	root  *ssa.Function
	fns   []*ssa.Function
	in    map[*ssa.Function]bool
	sites map[*ssa.Function][]ssa.CallInstruction
}

func rNewRegion(p *core.Prog, root *ssa.Function) *rRegion {
	r := &rRegion{p: p, root: root, in: map[*ssa.Function]bool{}, sites: map[*ssa.Function][]ssa.CallInstruction{}}
	r.fns = p.Region(root)
	for _, f := range r.fns {
		r.in[f] = true
	}
	for _, f := range r.fns {
		if f != root {
			r.sites[f] = p.CallSites(f)
		}
	}
	return r
}

// instrs calls f for every instruction of the region.
func (r *rRegion) instrs(f func(ssa.Instruction)) {
	for _, g := range r.fns {
		core.Instrs(g, f)
	}
}

// calls lists the call instructions of the region whose callee is one of names.
func (r *rRegion) calls(names ...string) []ssa.CallInstruction {
	var out []ssa.CallInstruction
	for _, g := range r.fns {
		out = append(out, core.Calls(g, names...)...)
	}
	return out
}

// origins resolves v through the parameters of the region's helpers to the
// values passed at their call sites (transitively). A value that is not a
// parameter of a helper is its own origin.
func (r *rRegion) origins(v ssa.Value) []ssa.Value {
	var out []ssa.Value
	seen := map[ssa.Value]bool{}
	var walk func(v ssa.Value, d int)
	walk = func(v ssa.Value, d int) {
		v = core.StripConv(v)
		if seen[v] {
			return
		}
		seen[v] = true
		if par := rParamOf(v); par != nil && d < 6 {
			h := par.Parent()
			if h != r.root && r.in[h] && h.Parent() == nil && len(r.sites[h]) > 0 {
				i := paramIndex(par)
				for _, s := range r.sites[h] {
					if i >= 0 && i < len(s.Common().Args) {
						walk(s.Common().Args[i], d+1)
					}
				}
				return
			}
		}
		out = append(out, v)
	}
	walk(v, 0)
	return out
}

// rootParam returns the parameter of the root whose type prints as typ.
func (r *rRegion) rootParam(typ string) *ssa.Parameter {
	for _, q := range r.root.Params {
		if core.TypeStr(q.Type()) == typ {
			return q
		}
	}
	return nil
}

// isRootParam: every origin of v is the root's parameter par.
func (r *rRegion) isRootParam(v ssa.Value, par *ssa.Parameter) bool {
	if par == nil {
		return false
	}
	os := r.origins(v)
	if len(os) == 0 {
		return false
	}
	for _, o := range os {
		if rParamOf(o) != par {
			return false
		}
	}
	return true
}

// rFieldLoad: v (conversions peeled) is a load of field fld; returns the base.
func rFieldLoad(v ssa.Value, fld *types.Var) ssa.Value {
	if fld == nil {
		return nil
	}
	v = core.StripConv(v)
	switch x := v.(type) {
	case *ssa.UnOp:
		if x.Op == token.MUL {
			return rFieldAddr(x.X, fld)
		}
	case *ssa.Field:
		if core.FieldObj(x.X, x.Field) == fld {
			return x.X
		}
	}
	return nil
}

// rFieldAddr: addr is &base.fld; returns base.
func rFieldAddr(addr ssa.Value, fld *types.Var) ssa.Value {
	if fa, ok := addr.(*ssa.FieldAddr); ok && fld != nil && core.FieldObj(fa.X, fa.Field) == fld {
		return fa.X
	}
	return nil
}

func rMkGuard(v ssa.Value, pol bool) core.Guard {
	s := core.Render(v)
	if !pol {
		s = "!" + s
	}
	return core.Guard{Cond: v, Pol: pol, Str: s}
}

func rBoolConst(v ssa.Value) (val, ok bool) {
	k, isK := v.(*ssa.Const)
	if !isK || k.Value == nil || k.Value.Kind() != constant.Bool {
		return false, false
	}
	return constant.BoolVal(k.Value), true
}

// rImplied: does the guard g establish a fact accepted by match? Besides g
// itself this looks through `!x` and through boolean phis, the SSA form of
// named booleans built with && and ||: when `ok := a && b` is observed true,
// every incoming edge that can carry true contributes the guards of that edge
// and its own value; the fact must hold for each such edge.
func rImplied(g core.Guard, match func(core.Guard) bool, depth int) bool {
	if match(g) {
		return true
	}
	if depth <= 0 {
		return false
	}
	switch x := g.Cond.(type) {
	case *ssa.UnOp:
		if x.Op == token.NOT {
			return rImplied(rMkGuard(x.X, !g.Pol), match, depth-1)
		}
	case *ssa.Phi:
		n := 0
		for i, e := range x.Edges {
			pred := x.Block().Preds[i]
			edge := core.GuardsOnEdge(pred, x.Block())
			if k, isK := rBoolConst(e); isK {
				if k != g.Pol {
					continue // this edge cannot carry the observed value
				}
				if !rAnyImplied(edge, match, depth-1) {
					return false
				}
				n++
				continue
			}
			if !rAnyImplied(edge, match, depth-1) && !rImplied(rMkGuard(e, g.Pol), match, depth-1) {
				return false
			}
			n++
		}
		return n > 0
	}
	return false
}

func rAnyImplied(gs []core.Guard, match func(core.Guard) bool, depth int) bool {
	for _, g := range gs {
		if rImplied(g, match, depth) {
			return true
		}
	}
	return false
}

// rHolds: a fact accepted by match is established on every way of reaching b;
// guards at the single call site of a private helper count inside it.
func rHolds(p *core.Prog, b *ssa.BasicBlock, match func(core.Guard) bool) bool {
	if rAnyImplied(core.GuardsAt(b), match, 4) {
		return true
	}
	if f := b.Parent(); (f.Object() == nil || !f.Object().Exported()) && rAnyImplied(rGuardsAtCtx(p, b, 4), match, 4) {
		return true
	}
	if len(b.Preds) < 2 {
		return false
	}
	for _, pr := range b.Preds {
		if !rAnyImplied(core.GuardsOnEdge(pr, b), match, 4) {
			return false
		}
	}
	return true
}

// rAlt is one alternative (a conjunction of guards) under which something holds.
type rAlt []core.Guard

func (a rAlt) has(match func(core.Guard) bool) bool { return rAnyImplied(a, match, 4) }

// rBlockAlts: the alternatives under which b is reached: its established
// guards, or for a merge block (`if a || b {`) one alternative per incoming edge.
func rBlockAlts(p *core.Prog, b *ssa.BasicBlock) []rAlt {
	gs := rGuardsAtCtx(p, b, 4)
	if len(b.Preds) < 2 {
		return []rAlt{gs}
	}
	var out []rAlt
	for _, pr := range b.Preds {
		a := append(rAlt{}, gs...)
		a = append(a, core.GuardsOnEdge(pr, b)...)
		out = append(out, a)
	}
	return out
}

// rTrueAlts: the alternatives under which the boolean v, observed under base,
// equals want. Constants select or kill the alternative, `!x` flips, a phi
// contributes one alternative per incoming edge, anything else is recorded as
// a guard on the value itself.
func rTrueAlts(v ssa.Value, base rAlt, want bool, depth int) []rAlt {
	if k, ok := rBoolConst(v); ok {
		if k == want {
			return []rAlt{base}
		}
		return nil
	}
	if depth > 0 {
		switch x := v.(type) {
		case *ssa.UnOp:
			if x.Op == token.NOT {
				return rTrueAlts(x.X, base, !want, depth-1)
			}
		case *ssa.Phi:
			var out []rAlt
			for i, e := range x.Edges {
				a := append(rAlt{}, base...)
				a = append(a, core.GuardsOnEdge(x.Block().Preds[i], x.Block())...)
				out = append(out, rTrueAlts(e, a, want, depth-1)...)
			}
			return out
		}
	}
	a := append(rAlt{}, base...)
	return []rAlt{append(a, rMkGuard(v, want))}
}

// rCmp matches a guard that establishes "X op Y" (any spelling or polarity).
func rCmp(op token.Token, mx, my func(ssa.Value) bool) func(core.Guard) bool {
	return func(g core.Guard) bool { return g.CmpIs(op, mx, my) }
}

// rNonNil matches a guard establishing that a value accepted by mv is not nil.
func rNonNil(mv func(ssa.Value) bool) func(core.Guard) bool {
	return rCmp(token.NEQ, mv, isNilConst)
}

func rIsIntConst(want string) func(ssa.Value) bool {
	return func(v ssa.Value) bool {
		k, ok := core.StripConv(v).(*ssa.Const)
		return ok && k.Value != nil && k.Value.ExactString() == want
	}
}

// rLoopOf returns the innermost natural loop of fn containing b.
func rLoopOf(loops []*core.Loop, b *ssa.BasicBlock) *core.Loop {
	var inner *core.Loop
	for _, l := range loops {
		if l.Body[b] && (inner == nil || len(l.Body) < len(inner.Body)) {
			inner = l
		}
	}
	return inner
}

// rIsSuccessReturn: a return whose last result is not known to be a non-nil error.
func rIsSuccessReturn(x ssa.Instruction) bool {
	r, ok := x.(*ssa.Return)
	if !ok {
		return false
	}
	rv := core.RetVals(r)
	return len(rv) == 0 || isNilConst(rv[len(rv)-1])
}

// ---- path-sensitive reachability ---------------------------------------------------------
//
// rPaths answers "can a success return (or another target) be reached from
// this edge without first executing X" on the SSA CFG while keeping the
// truth values that the path itself has fixed: a condition already branched
// on (the same SSA value tested again, as in `a := x == K; known := a || b;
// need := a || c`) and boolean phis fed by constants (named booleans, flag
// variables). Branches contradicting those values are not followed. The
// search is bounded; when the budget is exhausted the answer is "reachable"
// (undecided counts against the code).
type rPaths struct {
	budget   int
	Exceeded bool
}

func rEvalBool(v ssa.Value, env map[ssa.Value]bool) (val, known bool) {
	if k, ok := rBoolConst(v); ok {
		return k, true
	}
	if b, ok := env[v]; ok {
		return b, true
	}
	switch x := v.(type) {
	case *ssa.UnOp:
		if x.Op == token.NOT {
			if b, ok := rEvalBool(x.X, env); ok {
				return !b, true
			}
		}
	case *ssa.BinOp:
		if x.Op == token.EQL || x.Op == token.NEQ {
			a, oka := rEvalBool(x.X, env)
			b, okb := rEvalBool(x.Y, env)
			if oka && okb {
				return (a == b) == (x.Op == token.EQL), true
			}
		}
	}
	return false, false
}

func rSetBool(env map[ssa.Value]bool, v ssa.Value, val bool) {
	for {
		u, ok := v.(*ssa.UnOp)
		if !ok || u.Op != token.NOT {
			break
		}
		env[v] = val
		v, val = u.X, !val
	}
	env[v] = val
}

// reach: starting at instruction i of b with the facts env, is an instruction
// satisfying target reachable without first executing one satisfying avoid?
func (w *rPaths) reach(b *ssa.BasicBlock, i int, env map[ssa.Value]bool, avoid, target func(ssa.Instruction) bool) bool {
	if w.budget == 0 {
		w.budget = 4000
	}
	onPath := map[*ssa.BasicBlock]int{b: 1}
	return w.walk(b, i, env, onPath, avoid, target)
}

func (w *rPaths) walk(b *ssa.BasicBlock, i int, env map[ssa.Value]bool, onPath map[*ssa.BasicBlock]int, avoid, target func(ssa.Instruction) bool) bool {
	w.budget--
	if w.budget <= 0 {
		w.Exceeded = true
		return true
	}
	for ; i < len(b.Instrs); i++ {
		in := b.Instrs[i]
		if target(in) {
			return true
		}
		if avoid != nil && avoid(in) {
			return false
		}
	}
	var cond ssa.Value
	val, known := false, false
	if ifi, ok := b.Instrs[len(b.Instrs)-1].(*ssa.If); ok && len(b.Succs) == 2 && b.Succs[0] != b.Succs[1] {
		cond = ifi.Cond
		val, known = rEvalBool(cond, env)
	}
	for si, s := range b.Succs {
		if cond != nil && known && val != (si == 0) {
			continue
		}
		if onPath[s] >= 2 {
			continue
		}
		env2 := make(map[ssa.Value]bool, len(env)+2)
		for k, v := range env {
			env2[k] = v
		}
		if cond != nil && !known {
			rSetBool(env2, cond, si == 0)
		}
		pi := -1
		for j, p := range s.Preds {
			if p == b {
				pi = j
			}
		}
		if pi >= 0 {
			type upd struct {
				phi   *ssa.Phi
				v, ok bool
			}
			var ups []upd
			for _, in := range s.Instrs {
				phi, ok := in.(*ssa.Phi)
				if !ok {
					break
				}
				v, k := rEvalBool(phi.Edges[pi], env2)
				ups = append(ups, upd{phi, v, k})
			}
			for _, u := range ups {
				if u.ok {
					env2[u.phi] = u.v
				} else {
					delete(env2, u.phi)
				}
			}
		}
		onPath[s]++
		r := w.walk(s, 0, env2, onPath, avoid, target)
		onPath[s]--
		if r {
			return true
		}
	}
	return false
}

// rNilTest describes a branch on "v == nil" / "v != nil" (either operand order).
type rNilTest struct {
	If      *ssa.If
	V       ssa.Value
	NilSucc *ssa.BasicBlock // successor taken when v is nil
	EqlForm bool            // spelled with ==
}

func rNilTestOf(in ssa.Instruction) (rNilTest, bool) {
	ifi, ok := in.(*ssa.If)
	if !ok {
		return rNilTest{}, false
	}
	b, ok := ifi.Cond.(*ssa.BinOp)
	if !ok || (b.Op != token.EQL && b.Op != token.NEQ) {
		return rNilTest{}, false
	}
	blk := ifi.Block()
	if len(blk.Succs) != 2 || blk.Succs[0] == blk.Succs[1] {
		return rNilTest{}, false
	}
	var v ssa.Value
	switch {
	case isNilConst(b.Y):
		v = b.X
	case isNilConst(b.X):
		v = b.Y
	default:
		return rNilTest{}, false
	}
	t := rNilTest{If: ifi, V: v, EqlForm: b.Op == token.EQL}
	if b.Op == token.EQL {
		t.NilSucc = blk.Succs[0]
	} else {
		t.NilSucc = blk.Succs[1]
	}
	return t, true
}

// rejectsOrDefaults: once the nil edge of t is taken, no success return can be
// reached unless the tested location was assigned first (the file is rejected
// or a default is installed), whatever shape the code between has (direct
// return, `noX := x == nil || len(*x) == 0; if noX { return err }`, switch).
func (t rNilTest) rejectsOrDefaults() bool {
	var addr ssa.Value
	if u, ok := t.V.(*ssa.UnOp); ok && u.Op == token.MUL {
		addr = u.X
	}
	path := ""
	if addr != nil {
		path = core.Render(addr)
	}
	w := &rPaths{}
	env := map[ssa.Value]bool{}
	rSetBool(env, t.If.Cond, t.NilSucc == t.If.Block().Succs[0])
	// phis of the nil successor
	s := t.NilSucc
	for j, p := range s.Preds {
		if p != t.If.Block() {
			continue
		}
		for _, in := range s.Instrs {
			phi, ok := in.(*ssa.Phi)
			if !ok {
				break
			}
			if v, k := rEvalBool(phi.Edges[j], env); k {
				env[phi] = v
			}
		}
	}
	reach := w.reach(s, 0, env, func(x ssa.Instruction) bool {
		st, ok := x.(*ssa.Store)
		return ok && addr != nil && (st.Addr == addr || core.Render(st.Addr) == path)
	}, rIsSuccessReturn)
	return !reach
}

// rOnEverySuccessPath: every path from the entry of fn to a success return executes in.
func rOnEverySuccessPath(fn *ssa.Function, in ssa.Instruction) bool {
	return core.ReachAvoiding(fn, nil, func(x ssa.Instruction) bool { return x == in }, rIsSuccessReturn) == nil
}

// rUnconditionalInLoop: b is executed for every element of exactly one
// (non-nested) loop of fn that lies on every success path: each guard at b is
// a loop condition or an early reject (the edge not taken towards b cannot
// reach a success return); element filters (`continue`) and enclosing
// conditions that merely skip the loop do not qualify.
func rUnconditionalInLoop(fn *ssa.Function, b *ssa.BasicBlock) bool {
	loops := core.Loops(fn)
	var in []*core.Loop
	for _, l := range loops {
		if l.Body[b] {
			in = append(in, l)
		}
	}
	if len(in) != 1 {
		return false
	}
	l := in[0]
	if kind, _ := core.LoopKind(l); kind == "" {
		return false
	}
	conds := core.LoopConds(fn)
	for _, g := range core.GuardsAt(b) {
		if conds[g.Cond] {
			continue
		}
		if g.If == nil {
			return false
		}
		other := g.If.Block().Succs[0]
		if g.Pol {
			other = g.If.Block().Succs[1]
		}
		w := &rPaths{}
		env := map[ssa.Value]bool{}
		rSetBool(env, g.Cond, !g.Pol)
		if w.reach(other, 0, env, nil, rIsSuccessReturn) {
			return false
		}
	}
	// the loop itself is entered on every success path
	if len(l.Header.Instrs) == 0 {
		return false
	}
	return rOnEverySuccessPath(fn, l.Header.Instrs[0])
}

// isMembershipFlag: the boolean v is true only where a value accepted by isKey
// was compared equal to an element of a range over the field named table: a
// flag variable (`find := false; for ... { if k == e { find = true; break } }`)
// or the result of a private helper of the region doing that search for the
// key passed as argument.
func isMembershipFlag(rg *rRegion, v ssa.Value, isKey func(ssa.Value) bool, table string, depth int) bool {
	if depth < 0 {
		return false
	}
	isElem := func(x ssa.Value) bool {
		ex, ok := core.StripConv(x).(*ssa.Extract)
		if !ok || ex.Index != 2 {
			return false
		}
		nx, ok := ex.Tuple.(*ssa.Next)
		if !ok {
			return false
		}
		r, ok := nx.Iter.(*ssa.Range)
		return ok && fieldLoadOf(r.X, table) != nil
	}
	eq := rCmp(token.EQL, isKey, isElem)
	sawTrue := false
	seen := map[ssa.Value]bool{}
	var flag func(v ssa.Value, edge []core.Guard) bool
	flag = func(v ssa.Value, edge []core.Guard) bool {
		if k, ok := rBoolConst(v); ok {
			if !k {
				return true
			}
			sawTrue = true
			return rAnyImplied(edge, eq, 3)
		}
		switch x := v.(type) {
		case *ssa.Phi:
			if seen[x] {
				return true
			}
			seen[x] = true
			for i, e := range x.Edges {
				if !flag(e, core.GuardsOnEdge(x.Block().Preds[i], x.Block())) {
					return false
				}
			}
			return true
		case *ssa.Call:
			h := x.Call.StaticCallee()
			if h == nil || h == rg.root || !rg.in[h] || h.Blocks == nil {
				return false
			}
			var par *ssa.Parameter
			for i, a := range x.Call.Args {
				if isKey(a) && i < len(h.Params) {
					par = h.Params[i]
				}
			}
			if par == nil {
				return false
			}
			isPar := func(y ssa.Value) bool { return rParamOf(core.StripConv(y)) == par }
			eq2 := rCmp(token.EQL, isPar, isElem)
			for _, r := range core.Returns(h) {
				rv := core.RetVals(r)
				if len(rv) != 1 {
					return false
				}
				if k, ok := rBoolConst(rv[0]); ok {
					if k {
						sawTrue = true
						if !rHolds(rg.p, r.Block(), eq2) {
							return false
						}
					}
					continue
				}
				if !isMembershipFlag(rg, rv[0], isPar, table, depth-1) {
					return false
				}
				sawTrue = true
			}
			return true
		}
		return false
	}
	return flag(v, nil) && sawTrue
}

// rElemCoversAll: the element value v (loaded inside loop l) ranges over every
// element of its container: a range loop, an index loop starting at 0, or a
// lookup under the key of a range over the same map.
func rElemCoversAll(l *core.Loop, v ssa.Value) bool {
	switch x := v.(type) {
	case *ssa.UnOp:
		ia, ok := x.X.(*ssa.IndexAddr)
		if x.Op != token.MUL || !ok {
			return false
		}
		return rIndexFromZero(l, ia.Index)
	case *ssa.Extract:
		switch t := x.Tuple.(type) {
		case *ssa.Next:
			return l.Body[t.Block()]
		case *ssa.Lookup:
			return rKeyOfRangeOver(t.Index, t.X)
		}
	case *ssa.Lookup:
		return rKeyOfRangeOver(x.Index, x.X)
	case *ssa.Index:
		return rIndexFromZero(l, x.Index)
	}
	return false
}

func rKeyOfRangeOver(k, m ssa.Value) bool {
	ex, ok := core.StripConv(k).(*ssa.Extract)
	if !ok || ex.Index != 1 {
		return false
	}
	nx, ok := ex.Tuple.(*ssa.Next)
	if !ok {
		return false
	}
	r, ok := nx.Iter.(*ssa.Range)
	return ok && (r.X == m || core.Render(r.X) == core.Render(m))
}

// rIndexFromZero: idx is the induction variable of l (a header phi, possibly
// plus a constant) whose first value is 0 and whose step is 1.
func rIndexFromZero(l *core.Loop, idx ssa.Value) bool {
	off := int64(0)
	phi, _ := idx.(*ssa.Phi)
	if b, ok := idx.(*ssa.BinOp); ok && b.Op == token.ADD {
		if k, isK := b.Y.(*ssa.Const); isK && k.Value != nil && k.Value.Kind() == constant.Int {
			phi, _ = b.X.(*ssa.Phi)
			off, _ = constant.Int64Val(k.Value)
		}
	}
	if phi == nil || phi.Block() != l.Header {
		return false
	}
	for i, e := range phi.Edges {
		if l.Body[phi.Block().Preds[i]] {
			b, ok := e.(*ssa.BinOp)
			if !ok || b.Op != token.ADD || b.X != ssa.Value(phi) {
				return false
			}
			k, isK := b.Y.(*ssa.Const)
			if !isK || k.Value == nil || k.Value.ExactString() != "1" {
				return false
			}
			continue
		}
		k, isK := e.(*ssa.Const)
		if !isK || k.Value == nil || k.Value.Kind() != constant.Int {
			return false
		}
		init, _ := constant.Int64Val(k.Value)
		if init+off != 0 {
			return false
		}
	}
	return true
}

// rClosureSite: the anonymous function f is called at exactly one place and
// used nowhere else (`helper := func(...) {...}; helper(x)`); returns that call.
func rClosureSite(f *ssa.Function) ssa.CallInstruction {
	parent := f.Parent()
	if parent == nil {
		return nil
	}
	var site ssa.CallInstruction
	n := 0
	for _, g := range core.WithClosures(parent) {
		core.Instrs(g, func(in ssa.Instruction) {
			switch x := in.(type) {
			case *ssa.MakeClosure:
				if x.Fn != ssa.Value(f) {
					return
				}
				if x.Referrers() == nil {
					n += 2
					return
				}
				for _, r := range *x.Referrers() {
					ci, ok := r.(ssa.CallInstruction)
					if _, isGo := r.(*ssa.Go); ok && !isGo && ci.Common().Value == ssa.Value(x) {
						site = ci
						n++
					} else {
						n += 2
					}
				}
			default:
				for _, op := range in.Operands(nil) {
					if op == nil || *op != ssa.Value(f) {
						continue
					}
					ci, ok := in.(ssa.CallInstruction)
					if _, isGo := in.(*ssa.Go); ok && !isGo && ci.Common().Value == ssa.Value(f) {
						site = ci
						n++
					} else {
						n += 2
					}
				}
			}
		})
	}
	if n != 1 {
		return nil
	}
	return site
}

// rGuardsAtCtx is core.Prog.GuardsAtCtx that also continues through the single
// call site of an anonymous function that captures variables.
func rGuardsAtCtx(p *core.Prog, b *ssa.BasicBlock, depth int) []core.Guard {
	f := b.Parent()
	if f.Parent() == nil || depth <= 0 {
		return p.GuardsAtCtx(b)
	}
	out := core.GuardsAt(b)
	if s := rClosureSite(f); s != nil {
		out = append(out, rGuardsAtCtx(p, s.Block(), depth-1)...)
	}
	return out
}

// rAlwaysOnParam: the call ci hands e to a private helper (or local closure)
// of the region that, on every path, executes a call of callee with that
// parameter as receiver/first argument.
func rAlwaysOnParam(rg *rRegion, ci ssa.CallInstruction, e ssa.Value, callee string) bool {
	h := ci.Common().StaticCallee()
	if h == nil || h == rg.root || !rg.in[h] || h.Blocks == nil {
		return false
	}
	if _, isGo := ci.(*ssa.Go); isGo {
		return false
	}
	for i, a := range ci.Common().Args {
		if a != e || i >= len(h.Params) {
			continue
		}
		par := h.Params[i]
		if core.AlwaysPasses(h, func(x ssa.Instruction) bool {
			cc, ok := x.(ssa.CallInstruction)
			return ok && core.CallIs(cc.Common(), callee) && len(cc.Common().Args) > 0 && rParamOf(cc.Common().Args[0]) == par
		}, 1) {
			return true
		}
	}
	return false
}

// checkExcludePredicateR is checkExcludePredicate (c03.go) with the operands
// identified by role instead of by name: in BalanceGslb.randomSelectExclude
// the counting site (the increment of the counter that is later compared with
// zero) and every success return are guarded by the three-conjunct candidate
// predicate: candidate != the excluded sub-cluster (the *SubCluster
// parameter), candidate.weight >= 0, candidate.sType != TypeGslbBlackhole, in
// any spelling, polarity or operand order, also behind named booleans.
func checkExcludePredicateR(c *core.Ctx, rule string) {
	const gslb = "bfe_balance/bal_gslb"
	fn := c.P.Func(gslb, "BalanceGslb.randomSelectExclude")
	if fn == nil {
		c.Missing(gslb + ".BalanceGslb.randomSelectExclude")
		return
	}
	c.Analysed(core.FuncKey(fn))
	var excl *ssa.Parameter
	for i, q := range fn.Params {
		if i > 0 && core.TypeStr(q.Type()) == "*"+gslb+".SubCluster" {
			excl = q
		}
	}
	weight, _ := c.P.Obj(gslb, "SubCluster.weight").(*types.Var)
	sType, _ := c.P.Obj(gslb, "SubCluster.sType").(*types.Var)
	black := ""
	if k, ok := c.P.Obj(gslb, "TypeGslbBlackhole").(*types.Const); ok {
		black = k.Val().ExactString()
	}
	if excl == nil || weight == nil || sType == nil || black == "" {
		c.Missing(gslb + ": randomSelectExclude's *SubCluster parameter, SubCluster.weight, SubCluster.sType, TypeGslbBlackhole")
		return
	}
	isExcl := func(v ssa.Value) bool { return rParamOf(core.StripConv(v)) == excl }
	zero := rIsIntConst("0")
	// candidates: the values compared with the excluded sub-cluster
	var cands []ssa.Value
	for _, in := range allInstrs(fn) {
		if b, ok := in.(*ssa.BinOp); ok && (b.Op == token.EQL || b.Op == token.NEQ) {
			switch {
			case isExcl(b.Y) && !isExcl(b.X):
				cands = append(cands, core.StripConv(b.X))
			case isExcl(b.X) && !isExcl(b.Y):
				cands = append(cands, core.StripConv(b.Y))
			}
		}
	}
	// the predicate must be established inside the function (guards of the caller speak about other values)
	holds := func(blk *ssa.BasicBlock, match func(core.Guard) bool) bool {
		if rAnyImplied(core.GuardsAt(blk), match, 4) {
			return true
		}
		if len(blk.Preds) < 2 {
			return false
		}
		for _, pr := range blk.Preds {
			if !rAnyImplied(core.GuardsOnEdge(pr, blk), match, 4) {
				return false
			}
		}
		return true
	}
	sites := 0
	check := func(in ssa.Instruction, what string, selected ssa.Value) {
		sites++
		best := []string{"!=exclude", "weight>=0", "sType!=blackhole"}
		for _, x := range cands {
			x := x
			same := func(v ssa.Value) bool { return core.StripConv(v) == x }
			ofX := func(fld *types.Var) func(ssa.Value) bool {
				return func(v ssa.Value) bool { b := rFieldLoad(v, fld); return b != nil && same(b) }
			}
			var missing []string
			if !holds(in.Block(), rCmp(token.NEQ, same, isExcl)) {
				missing = append(missing, "!=exclude")
			}
			if !holds(in.Block(), func(g core.Guard) bool {
				return g.CmpIs(token.GEQ, ofX(weight), zero) || g.CmpIs(token.GTR, ofX(weight), zero)
			}) {
				missing = append(missing, "weight>=0")
			}
			if !holds(in.Block(), rCmp(token.NEQ, ofX(sType), rIsIntConst(black))) {
				missing = append(missing, "sType!=blackhole")
			}
			if selected != nil && !same(selected) {
				missing = append(missing, "selected==candidate")
			}
			if len(missing) < len(best) {
				best = missing
			}
		}
		c.Check(rule, "randomSelectExclude:"+what, in.Pos(), len(best) == 0, "cross-retry candidate predicate lacks conjunct(s) "+strings.Join(best, ", ")+" at the "+what)
	}
	// the candidate counter: x+1 on a loop-carried variable whose value is later compared with zero
	comparedWithZero := func(v ssa.Value) bool {
		seen := map[ssa.Value]bool{}
		var walk func(v ssa.Value) bool
		walk = func(v ssa.Value) bool {
			if seen[v] || v.Referrers() == nil {
				return false
			}
			seen[v] = true
			for _, r := range *v.Referrers() {
				switch x := r.(type) {
				case *ssa.Phi:
					if walk(x) {
						return true
					}
				case *ssa.BinOp:
					switch x.Op {
					case token.EQL, token.NEQ, token.GTR, token.LEQ, token.LSS, token.GEQ:
						if (x.X == v && zero(x.Y)) || (x.Y == v && zero(x.X)) {
							return true
						}
					}
				}
			}
			return false
		}
		return walk(v)
	}
	for _, in := range allInstrs(fn) {
		if b, ok := in.(*ssa.BinOp); ok && b.Op == token.ADD && rIsIntConst("1")(b.Y) {
			if _, isPhi := b.X.(*ssa.Phi); isPhi && comparedWithZero(b) {
				check(in, "count", nil)
			}
		}
		if r, ok := in.(*ssa.Return); ok && isNilConst(core.RetVals(r)[1]) {
			check(in, "selection", core.RetVals(r)[0])
		}
	}
	if sites < 2 {
		c.Check(rule, "randomSelectExclude:sites", fn.Pos(), false, fmt.Sprintf("expected a counting site and a selecting site, found %d", sites))
	}
}
