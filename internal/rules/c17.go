package rules

import (
	"fmt"
	"go/ast"
	"go/constant"
	"go/token"
	"go/types"
	"os"
	"path/filepath"
	"sort"
	"strings"

	"golang.org/x/tools/go/ssa"

	"verif/internal/core"
)

// C17 — condition parsing and building are total and type-checked.
func init() {
	Register(&Rule{
		ID: "C17", Section: "4 C17",
		Technique: "table agreement (funcProtos map literal, buildPrimitive switch arms, documentation index), per-arm argument index/type census against the prototype table, error-result discipline of fallible constructors, guard/dominance analysis of the Parse -> prototypeCheck -> Build gate, constant-bound index/slice checker with length-guard inference on the functions reachable from condition.Build, scanner progress and slice-bound path rules",
		Meta: core.Meta{
			Level:       "other",
			Explanation: "Decides: (a) the keys of parser.funcProtos equal the case labels of condition.buildPrimitive, every primitive listed in docs/en_us/condition (index and per-primitive headings) is in funcProtos with the documented number and types (String/Boolean) of parameters; (b) in each arm of buildPrimitive every constant index into node.Args is below the arity declared in funcProtos, .ToBool() is applied only to arguments declared BOOL and .Value only to arguments declared STRING (a private helper or function literal that is handed the node and a constant index is followed with the index bound at the call site); the fall-through arm returns an error; (c) for every call in an arm whose last result is an error (NewIPMatcher, NewIpInMatcher, NewHashMatcher, NewHostMatcher, regexp.Compile, NewTimeMatcher, NewPeriodicTimeMatcher, …) the error is tested, a non-nil error is returned under err != nil and every success return of the arm is reached only under err == nil; (d) the gate: Build calls build only when parser.Parse returned no error and no unresolved identifier; parser.Parse returns a tree only when Parser.Error() is nil; Parser.Error is nil only when no error was recorded; Parser.Parse returns before the prototype check only when errors were recorded; primitiveCheck descends into Binary/Unary/Paren nodes, runs prototypeCheck on every CallExpr and records its error on every path; Walk visits X and Y; prototypeCheck returns nil only for a known name with equal argument count and has the per-argument kind test in its loop; scanner and lexer errors are routed to the same error list (Init wires Parser.addError into both, Lex's default arm reports and stops); (e) Scanner.Scan consumes input on every path (termination of the token loop); (f) every index or slice with a constant bound into a string or slice, in all functions statically reachable from Build (parser driver, scanner, argument parsers such as ParseTimeOfDay, hash-section parser), is dominated by a length test that implies it, and scanner slices of the form src[a : offset-k] are preceded by an advancing next() on every path; (g) the hash bucket table is allocated with the same constant that bounds parsed bucket numbers and the hash modulus; every bucket number parsed in parserHashSectionConf (strconv.Atoi, also inside a private helper) crosses, on every path to a success return, a branch edge that establishes 0 <= number and number < HashMatcherBucketSize (facts are closed under negation, &&/|| assembled booleans and named booleans, operands may be mirrored). Error tests and length tests are read modulo spelling (inverted branches, named booleans, conjunctions); the call that hands the parsed tree to the builder in Build is identified by the value it receives. Not covered: non-constant index arithmetic inside the generated yacc driver and the scanner beyond clause (f) (no general bounds prover, DESIGN 2.8); panics inside the standard library (regexp, fmt.Sscanf, time.Parse); stack depth on deeply nested input.",
			RuleText:    "obligations = 4 table relations, one per buildPrimitive arm, one per gate link, one per (function, indexed operand) pair with a constant bound, one per scanner slice with a subtracted bound, the hash-size agreements; keyed by primitive name / function and operand",
			Assumptions: []string{"the yacc driver in y.go is goyacc's (checked under C16 by regeneration)", "standard-library parsers return errors instead of panicking"},
		},
		Run: runC17,
		Mutants: []Mutant{
			{Name: "proto-arity-shrunk", File: "bfe_basic/condition/parser/semant.go", Old: "	\"req_cookie_value_in\":        {STRING, STRING, BOOL},", New: "	\"req_cookie_value_in\":        {STRING, STRING},", Expect: "arm|req_cookie_value_in"},
			{Name: "proto-type-changed", File: "bfe_basic/condition/parser/semant.go", Old: "	\"req_path_contain\":           {STRING, BOOL},", New: "	\"req_path_contain\":           {STRING, STRING},", Expect: "arm|req_path_contain"},
			{Name: "proto-entry-removed", File: "bfe_basic/condition/parser/semant.go", Old: "	\"req_method_in\":              {STRING},\n", New: "", Expect: "proto-table|"},
			{Name: "ctor-error-ignored", File: "bfe_basic/condition/build.go", Old: "	case \"req_host_in\":\n		matcher, err := NewHostMatcher(node.Args[0].Value)\n		if err != nil {\n			return nil, err\n		}\n", New: "	case \"req_host_in\":\n		matcher, _ := NewHostMatcher(node.Args[0].Value)\n", Expect: "arm|req_host_in"},
			{Name: "regexp-error-swallowed", File: "bfe_basic/condition/build.go", Old: "	case \"req_url_regmatch\":\n		reg, err := regexp.Compile(node.Args[0].Value)\n		if err != nil {\n			return nil, fmt.Errorf(\"compile regexp err %s\", err)\n		}", New: "	case \"req_url_regmatch\":\n		reg, err := regexp.Compile(node.Args[0].Value)\n		if err != nil {\n			reg = regexp.MustCompile(\"^$\")\n		}", Expect: "arm|req_url_regmatch"},
			{Name: "unresolved-ident-accepted", File: "bfe_basic/condition/build.go", Old: "	if len(identList) != 0 {\n		return nil, fmt.Errorf(\"found unresolved variable %s %d\", identList[0].Name, identList[0].Pos())\n	}\n", New: "	_ = identList\n", Expect: "gate|Build:identifiers"},
			{Name: "argcount-check-weakened", File: "bfe_basic/condition/parser/semant.go", Old: "	if len(argsType) != len(expr.Args) {", New: "	if len(argsType) > len(expr.Args) {", Expect: "gate|prototypeCheck:count"},
			{Name: "primitivecheck-stops-at-not", File: "bfe_basic/condition/parser/semant.go", Old: "func (p *Parser) primitiveCheck(n Node) bool {\n	switch x := n.(type) {\n	case *BinaryExpr, *UnaryExpr, *ParenExpr:\n		return true", New: "func (p *Parser) primitiveCheck(n Node) bool {\n	switch x := n.(type) {\n	case *UnaryExpr:\n		return false\n	case *BinaryExpr, *ParenExpr:\n		return true", Expect: "gate|primitiveCheck:descend"},
			{Name: "parse-errors-ignored", File: "bfe_basic/condition/parser/parser.go", Old: "	if len(p.errors) == 0 {\n		return nil\n	}\n\n	return p.errors[0]", New: "	if len(p.errors) <= 1 {\n		return nil\n	}\n\n	return p.errors[0]", Expect: "gate|Parser.Error"},
			{Name: "hash-limit-off-by-one", File: "bfe_basic/condition/primitive.go", Old: "		if number < 0 || number >= HashMatcherBucketSize {", New: "		if number < 0 || number > HashMatcherBucketSize {", Expect: "hash-bound|"},
			{Name: "scan-no-progress", File: "bfe_basic/condition/parser/scanner.go", Old: "	default:\n		s.next() // always make progress\n		switch ch {\n		case -1:", New: "	default:\n		if ch != '#' {\n			s.next() // always make progress\n		}\n		switch ch {\n		case -1:", Expect: "scan-progress|"},
			{Name: "comment-loop-ignores-eof", File: "bfe_basic/condition/parser/scanner.go", Old: "	for s.ch != '\\n' && s.ch >= 0 {", New: "	for s.ch != '\\n' {", Expect: "scan-loops|bfe_basic/condition/parser.Scanner.scanComment"},
			{Name: "whitespace-loop-no-advance", File: "bfe_basic/condition/parser/scanner.go", Old: "	for s.ch == ' ' || s.ch == '\\t' || s.ch == '\\r' || s.ch == '\\n' {\n		s.next()\n	}", New: "	for s.ch == ' ' || s.ch == '\\t' || s.ch == '\\r' || s.ch == '\\n' {\n		if s.ch != '\\r' {\n			s.next()\n		}\n	}", Expect: "scan-loops|bfe_basic/condition/parser.Scanner.skipWhitespace"},
			{Name: "parsetime-unchecked-slice", File: "bfe_util/time.go", Old: "	tm, err := time.Parse(\"20060102150405\", prefixTimeStr)", New: "	tm, err := time.Parse(\"20060102150405\", timeStr[:14])", Expect: "const-index|bfe_util.ParseTime"},
			{Name: "silent-arm-helper-takes-node-and-index", File: "bfe_basic/condition/build.go", Old: "\tcase \"req_path_regmatch\":\n\t\treg, err := regexp.Compile(node.Args[0].Value)\n\t\tif err != nil {\n\t\t\treturn nil, fmt.Errorf(\"compile regexp err %s\", err)\n\t\t}\n", New: "\tcase \"req_path_regmatch\":\n\t\treg, err := func(call *parser.CallExpr, i int) (*regexp.Regexp, error) {\n\t\t\tcompiled, cerr := regexp.Compile(call.Args[i].Value)\n\t\t\tif cerr == nil {\n\t\t\t\treturn compiled, nil\n\t\t\t}\n\t\t\treturn nil, fmt.Errorf(\"compile regexp err %s\", cerr)\n\t\t}(node, 0)\n\t\tfailed := err != nil\n\t\tif failed {\n\t\t\treturn nil, err\n\t\t}\n", Silent: true},
			{Name: "silent-prototypecheck-named-booleans", File: "bfe_basic/condition/parser/semant.go", Old: "\tif len(argsType) != len(expr.Args) {\n\t\treturn fmt.Errorf(\"primitive args len error, expect %v, got %v\", len(argsType), len(expr.Args))\n\t}\n\n\tfor i, argType := range argsType {\n\t\tif argType != expr.Args[i].Kind {\n", New: "\tsameArity := len(expr.Args) == len(argsType)\n\tif !sameArity {\n\t\treturn fmt.Errorf(\"primitive args len error, expect %v, got %v\", len(argsType), len(expr.Args))\n\t}\n\n\tfor i, argType := range argsType {\n\t\tif i >= len(expr.Args) {\n\t\t\tbreak\n\t\t}\n\t\tif kindOK := expr.Args[i].Kind == argType; !kindOK {\n", Silent: true},
			{Name: "silent-hash-bound-test-respelled", File: "bfe_basic/condition/primitive.go", Old: "\t\tif number < 0 || number >= HashMatcherBucketSize {\n\t\t\treturn 0, 0, fmt.Errorf(\"hash value check section %s number %s overlimit\",\n\t\t\t\tsection, numberStr)\n\t\t}\n", New: "\t\tinRange := 0 <= number && HashMatcherBucketSize > number\n\t\tif !inRange {\n\t\t\treturn 0, 0, fmt.Errorf(\"hash value check section %s number %s overlimit\",\n\t\t\t\tsection, numberStr)\n\t\t}\n", Silent: true},
			{Name: "silent-build-gate-inverted", File: "bfe_basic/condition/build.go", Old: "\tif err != nil {\n\t\treturn nil, err\n\t}\n\n\tif len(identList) != 0 {\n\t\treturn nil, fmt.Errorf(\"found unresolved variable %s %d\", identList[0].Name, identList[0].Pos())\n\t}\n\n\treturn build(node)\n", New: "\tif err == nil {\n\t\tresolved := len(identList) == 0\n\t\tif resolved {\n\t\t\treturn build(node)\n\t\t}\n\t\treturn nil, fmt.Errorf(\"found unresolved variable %s %d\", identList[0].Name, identList[0].Pos())\n\t}\n\treturn nil, err\n", Silent: true},
			{Name: "silent-arm-debug-print", File: "bfe_basic/condition/build.go", Old: "\tcase \"req_vip_in\":\n\t\tmatcher, err := NewIpInMatcher(node.Args[0].Value)\n", New: "\tcase \"req_vip_in\":\n\t\tfmt.Println(\"building primitive\", node.Fun.Name)\n\t\tmatcher, err := NewIpInMatcher(node.Args[0].Value)\n", Silent: true},
			{Name: "silent-ctor-error-wrapped", File: "bfe_basic/condition/build.go", Old: "	case \"req_host_in\":\n		matcher, err := NewHostMatcher(node.Args[0].Value)\n		if err != nil {\n			return nil, err\n		}\n", New: "	case \"req_host_in\":\n		pattern := node.Args[0].Value\n		matcher, err := NewHostMatcher(pattern)\n		if err != nil {\n			return nil, fmt.Errorf(\"req_host_in: %s\", err)\n		}\n", Silent: true},
		},
	})
}

// cxProtoTable reads parser.funcProtos: name -> parameter kinds ("STRING", "BOOL").
func cxProtoTable(c *core.Ctx) (map[string][]string, token.Pos) {
	pk := c.P.Pkg(condParse)
	if pk == nil {
		return nil, token.NoPos
	}
	obj := pk.Types.Scope().Lookup("funcProtos")
	f := cxFileOfObj(pk, obj)
	if f == nil {
		return nil, token.NoPos
	}
	var lit *ast.CompositeLit
	ast.Inspect(f, func(n ast.Node) bool {
		vs, ok := n.(*ast.ValueSpec)
		if !ok {
			return true
		}
		for i, id := range vs.Names {
			if pk.TypesInfo.Defs[id] == obj && i < len(vs.Values) {
				lit, _ = vs.Values[i].(*ast.CompositeLit)
			}
		}
		return true
	})
	if lit == nil {
		return nil, obj.Pos()
	}
	out := map[string][]string{}
	for _, el := range lit.Elts {
		kv, ok := el.(*ast.KeyValueExpr)
		if !ok {
			continue
		}
		tv, ok := pk.TypesInfo.Types[kv.Key]
		if !ok || tv.Value == nil {
			continue
		}
		name := strings.Trim(tv.Value.ExactString(), `"`)
		kinds := []string{}
		if cl, ok := kv.Value.(*ast.CompositeLit); ok {
			for _, e := range cl.Elts {
				k := "?"
				if id, ok := e.(*ast.Ident); ok {
					if co, ok := pk.TypesInfo.Uses[id].(*types.Const); ok {
						k = co.Name()
					}
				}
				kinds = append(kinds, k)
			}
		}
		out[name] = kinds
	}
	return out, obj.Pos()
}

// cxSwitchArms finds the arms of a `switch <string expr>` compiled to a chain of
// `x == "lit"` tests: label -> entry block of the arm body.
func cxSwitchArms(fn *ssa.Function, subject string) map[string]*ssa.BasicBlock {
	out := map[string]*ssa.BasicBlock{}
	for _, b := range fn.Blocks {
		ifi, ok := b.Instrs[len(b.Instrs)-1].(*ssa.If)
		if !ok {
			continue
		}
		bo, ok := ifi.Cond.(*ssa.BinOp)
		if !ok || bo.Op != token.EQL {
			continue
		}
		for _, pr := range [][2]ssa.Value{{bo.X, bo.Y}, {bo.Y, bo.X}} {
			if s, ok := core.ConstString(pr[1]); ok && core.Render(pr[0]) == subject {
				out[s] = b.Succs[0]
			}
		}
	}
	return out
}

// c17Region returns the blocks dominated by entry.
func c17Region(fn *ssa.Function, entry *ssa.BasicBlock) []*ssa.BasicBlock {
	var out []*ssa.BasicBlock
	for _, b := range fn.Blocks {
		if entry.Dominates(b) {
			out = append(out, b)
		}
	}
	return out
}

func cxIsErrorType(t types.Type) bool {
	n, ok := t.(*types.Named)
	return ok && n.Obj().Pkg() == nil && n.Obj().Name() == "error"
}

// cxErrTest: g tests `v != nil` (returns +1 when the guard establishes v != nil,
// -1 when it establishes v == nil, 0 otherwise).
func cxErrTest(g core.Guard, v ssa.Value) int {
	bo, ok := g.Cond.(*ssa.BinOp)
	if !ok || (bo.Op != token.NEQ && bo.Op != token.EQL) {
		return 0
	}
	if !(bo.X == v && isNilConst(bo.Y) || bo.Y == v && isNilConst(bo.X)) {
		return 0
	}
	if (bo.Op == token.NEQ) == g.Pol {
		return 1
	}
	return -1
}

func runC17(c *core.Ctx) {
	protos, protoPos := cxProtoTable(c)
	if protos == nil {
		c.Missing(condParse + ".funcProtos")
		return
	}
	bp := c.P.Func(condPkg, "buildPrimitive")
	if bp == nil {
		c.Missing(condPkg + ".buildPrimitive")
		return
	}
	c.Analysed(core.FuncKey(bp))
	node := cxP(bp, 0)
	arms := cxSwitchArms(bp, node+".Fun.Name")

	// ---- (a) tables -----------------------------------------------------------
	var noCase, noProto []string
	for n := range protos {
		if arms[n] == nil {
			noCase = append(noCase, n)
		}
	}
	for n := range arms {
		if _, ok := protos[n]; !ok {
			noProto = append(noProto, n)
		}
	}
	sort.Strings(noCase)
	sort.Strings(noProto)
	c.Check("proto-table", "funcProtos⊆cases", protoPos, len(noCase) == 0 && len(protos) >= 50,
		fmt.Sprintf("%d prototypes; primitives that pass prototypeCheck but have no arm in buildPrimitive (Build returns `unsupported primitive` although the parser accepted it): %s", len(protos), strings.Join(noCase, ", ")))
	c.Check("proto-table", "cases⊆funcProtos", bp.Pos(), len(noProto) == 0 && len(arms) >= 50,
		fmt.Sprintf("%d arms; arms of buildPrimitive without a prototype (unreachable, or reachable without argument checking): %s", len(arms), strings.Join(noProto, ", ")))
	docPrims := map[string][]string{} // name -> params
	docTypes := map[string][]string{} // name -> STRING/BOOL per documented parameter row
	docWhere := map[string]string{}   // name -> file
	docFiles, _ := filepath.Glob(core.FileOf(condDocs + "/*/*.md"))
	docFiles = append(docFiles, core.FileOf(condDocs+"/condition_primitive_index.md"))
	sort.Strings(docFiles)
	for _, f := range docFiles {
		b, err := os.ReadFile(f)
		if err != nil {
			continue
		}
		for n, ps := range cxMdPrimitives(string(b)) {
			if old, ok := docPrims[n]; ok && len(old) != len(ps) {
				c.CheckAt("proto-table", "docs-consistent:"+n, c.P.Rel(f), false, fmt.Sprintf("%s is documented with %d and with %d parameters", n, len(old), len(ps)))
			}
			docPrims[n] = ps
			docWhere[n] = c.P.Rel(f)
		}
		for n, ts := range cxMdParamTypes(string(b)) {
			docTypes[n] = ts
		}
	}
	if len(docPrims) < 30 {
		c.Missing(condDocs + " primitive index (found only " + fmt.Sprint(len(docPrims)) + " primitives)")
	}
	var undocCode, arityBad, typeBad []string
	for n, ps := range docPrims {
		kinds, ok := protos[n]
		if !ok {
			undocCode = append(undocCode, n+" ("+docWhere[n]+")")
			continue
		}
		if len(kinds) != len(ps) {
			arityBad = append(arityBad, fmt.Sprintf("%s: documented (%s), prototype %v", n, strings.Join(ps, ", "), kinds))
		}
		if ts, ok := docTypes[n]; ok && len(ts) == len(kinds) {
			for i := range ts {
				if ts[i] != kinds[i] {
					typeBad = append(typeBad, fmt.Sprintf("%s parameter %d: documented %s, prototype %s", n, i+1, ts[i], kinds[i]))
				}
			}
		}
	}
	sort.Strings(undocCode)
	sort.Strings(arityBad)
	sort.Strings(typeBad)
	c.CheckAt("proto-table", "docs⊆funcProtos", condDocs, len(undocCode) == 0, "documented primitives the parser rejects as `not found`: "+strings.Join(undocCode, ", "))
	c.CheckAt("proto-table", "doc-arity", condDocs, len(arityBad) == 0, "documented parameter lists that prototypeCheck rejects: "+strings.Join(arityBad, "; "))
	c.CheckAt("proto-table", "doc-types", condDocs, len(typeBad) == 0 && len(docTypes) >= 30, fmt.Sprintf("%d primitives with documented parameter types; mismatches: %s", len(docTypes), strings.Join(typeBad, "; ")))
	c.Min("proto-table", 5)
	c.Note("tables: %d prototypes, %d buildPrimitive arms, %d documented primitives (%d with parameter type tables)", len(protos), len(arms), len(docPrims), len(docTypes))

	// ---- (b)(c) arms ------------------------------------------------------------
	names := make([]string, 0, len(arms))
	for n := range arms {
		names = append(names, n)
	}
	sort.Strings(names)
	for _, name := range names {
		entry := arms[name]
		kinds, hasProto := protos[name]
		var problems []string
		blocks := c17Region(bp, entry)
		var succRets []*ssa.Return
		for _, b := range blocks {
			if r, ok := b.Instrs[len(b.Instrs)-1].(*ssa.Return); ok && len(r.Results) == 2 && isNilConst(r.Results[1]) {
				succRets = append(succRets, r)
			}
		}
		if len(succRets) == 0 {
			problems = append(problems, "the arm has no success return")
		}
		// one use of node.Args[k] (k < 0: the index is not a constant)
		checkIndex := func(x *ssa.IndexAddr, k int) {
			if k < 0 {
				problems = append(problems, "non-constant index into node.Args")
				return
			}
			if !hasProto || k >= len(kinds) {
				problems = append(problems, fmt.Sprintf("uses node.Args[%d] but the prototype declares %d argument(s): index out of range at build time", k, len(kinds)))
				return
			}
			for _, use := range c17ArgUses(x) {
				switch {
				case use == "ToBool" && kinds[k] != "BOOL":
					problems = append(problems, fmt.Sprintf("node.Args[%d].ToBool() but the prototype declares %s (ToBool yields false for every non-BOOL literal)", k, kinds[k]))
				case use == "Value" && kinds[k] != "STRING":
					problems = append(problems, fmt.Sprintf("node.Args[%d].Value used as a string but the prototype declares %s", k, kinds[k]))
				}
			}
		}
		// helperUses: a private helper of the package that is handed the node indexes node.Args on the
		// arm's behalf (`compileRegexpArg(node, 0)`); its index is a constant or a parameter bound to a
		// constant at this call site.
		var helperUses func(call *ssa.Call, bind cxBind, depth int)
		helperUses = func(call *ssa.Call, bind cxBind, depth int) {
			h := call.Call.StaticCallee()
			if h == nil || h.Blocks == nil || core.FuncPkgRel(h) != condPkg || depth > 2 {
				return
			}
			if o := h.Object(); o != nil && o.Exported() {
				return // constructors and other API take values, not the node
			}
			inner := bind.enter(h, &call.Call)
			passesNode := false
			for _, a := range inner {
				if a == ssa.Value(bp.Params[0]) {
					passesNode = true
				}
			}
			if !passesNode {
				return
			}
			core.Instrs(h, func(in ssa.Instruction) {
				switch y := in.(type) {
				case *ssa.IndexAddr:
					base, ok := cxLoadField(y.X, "Args")
					if !ok || inner.resolve(base) != ssa.Value(bp.Params[0]) {
						return
					}
					if k, isK := cxConstInt(inner.resolve(y.Index)); isK {
						checkIndex(y, int(k))
					} else {
						checkIndex(y, -1)
					}
				case *ssa.Call:
					helperUses(y, inner, depth+1)
				}
			})
		}
		for _, b := range blocks {
			for _, in := range b.Instrs {
				switch x := in.(type) {
				case *ssa.IndexAddr:
					if core.Render(x.X) != node+".Args" {
						continue
					}
					if k64, isConst := cxConstInt(x.Index); isConst {
						checkIndex(x, int(k64))
					} else {
						checkIndex(x, -1)
					}
				case *ssa.Call:
					helperUses(x, cxBind{}, 0)
					sig := x.Call.Signature()
					if sig == nil || sig.Results().Len() == 0 || !cxIsErrorType(sig.Results().At(sig.Results().Len()-1).Type()) {
						continue
					}
					callee := core.CalleeKey(&x.Call)
					if callee == "fmt.Errorf" || strings.HasPrefix(callee, "errors.") {
						continue
					}
					// printing / logging through a library function whose results are not used at all
					// (fmt.Fprintf, log.Output) builds nothing: its error is not a build error
					if sc := x.Call.StaticCallee(); sc != nil && core.FuncPkgRel(sc) == "" && (x.Referrers() == nil || len(*x.Referrers()) == 0) {
						continue
					}
					var errV ssa.Value
					if sig.Results().Len() == 1 {
						errV = x
					} else if x.Referrers() != nil {
						for _, r := range *x.Referrers() {
							if ex, ok := r.(*ssa.Extract); ok && ex.Index == sig.Results().Len()-1 {
								errV = ex
							}
						}
					}
					if errV == nil {
						problems = append(problems, "the error result of "+callee+" is discarded")
						continue
					}
					for _, r := range succRets {
						if !x.Block().Dominates(r.Block()) {
							continue
						}
						if !cxAllEdgesFact(r.Block(), func(g core.Guard) bool { return cxErrTest(g, errV) == -1 }) {
							problems = append(problems, "a success return is reachable without the error of "+callee+" having been tested nil")
						}
					}
					propagated := false
					for _, b2 := range blocks {
						r, ok := b2.Instrs[len(b2.Instrs)-1].(*ssa.Return)
						if !ok || len(r.Results) != 2 || isNilConst(r.Results[1]) {
							continue
						}
						if cxHasFact(b2, func(g core.Guard) bool { return cxErrTest(g, errV) == 1 }) {
							propagated = true
						}
					}
					if !propagated {
						problems = append(problems, "no error return under a non-nil error of "+callee)
					}
				}
			}
		}
		c.Check("arm", name, entry.Instrs[0].Pos(), len(problems) == 0, "buildPrimitive arm "+name+": "+strings.Join(cxUniq(problems), "; "))
	}
	c.Min("arm", 50)
	// fall-through: no label matched => error
	defaultOK, nDefault := true, 0
	armBlocks := map[*ssa.BasicBlock]bool{}
	for _, e := range arms {
		for _, b := range c17Region(bp, e) {
			armBlocks[b] = true
		}
	}
	for _, r := range core.Returns(bp) {
		if armBlocks[r.Block()] {
			continue
		}
		nDefault++
		if len(r.Results) != 2 || !isNilConst(r.Results[0]) || isNilConst(r.Results[1]) {
			defaultOK = false
		}
	}
	c.Check("arm", "default", bp.Pos(), defaultOK && nDefault >= 1, "the fall-through of buildPrimitive (no primitive name matched) must return (nil, error)")

	c17Gate(c)
	c17Scanner(c)
	c17ScannerLoops(c)
	c17ConstIndex(c)
	c17HashBound(c)
}

// c17ArgUses classifies how the *BasicLit at &node.Args[k] is used.
func c17ArgUses(ia *ssa.IndexAddr) []string {
	var out []string
	if ia.Referrers() == nil {
		return nil
	}
	for _, r := range *ia.Referrers() {
		ld, ok := r.(*ssa.UnOp)
		if !ok || ld.Op != token.MUL || ld.Referrers() == nil {
			continue
		}
		for _, u := range *ld.Referrers() {
			switch y := u.(type) {
			case *ssa.FieldAddr:
				if f := core.FieldObj(y.X, y.Field); f != nil {
					out = append(out, f.Name())
				}
			case *ssa.Call:
				if sc := y.Call.StaticCallee(); sc != nil {
					out = append(out, sc.Name())
				}
			default:
				out = append(out, "escapes")
			}
		}
	}
	return out
}

// cxMdParamTypes reads, for each `## name(params)` heading, the parameter type
// column ("String<br>…" / "Boolean<br>…") of the table that follows.
func cxMdParamTypes(doc string) map[string][]string {
	out := map[string][]string{}
	cur := ""
	for _, ln := range strings.Split(doc, "\n") {
		if m := reMdPrim.FindStringSubmatch(ln); m != nil && strings.HasPrefix(strings.TrimSpace(ln), "#") {
			cur = m[1]
			out[cur] = []string{}
			continue
		}
		if strings.HasPrefix(strings.TrimSpace(ln), "#") {
			cur = ""
			continue
		}
		if cur == "" {
			continue
		}
		for _, r := range cxMdTableRows(ln) {
			if len(r) != 2 {
				continue
			}
			low := strings.ToLower(r[1])
			switch {
			case strings.HasPrefix(low, "string"):
				out[cur] = append(out[cur], "STRING")
			case strings.HasPrefix(low, "boolean"), strings.HasPrefix(low, "bool"):
				out[cur] = append(out[cur], "BOOL")
			}
		}
	}
	for k, v := range out {
		if len(v) == 0 {
			delete(out, k)
		}
	}
	return out
}

// ---- (d) the gate ----------------------------------------------------------------

func c17Gate(c *core.Ctx) {
	// Build
	if fn := c.P.Func(condPkg, "Build"); fn == nil {
		c.Missing(condPkg + ".Build")
	} else {
		c.Analysed(core.FuncKey(fn))
		var perr, idents ssa.Value
		for _, call := range core.Calls(fn, condParse+".Parse") {
			if v, ok := call.(*ssa.Call); ok && v.Referrers() != nil {
				for _, r := range *v.Referrers() {
					if ex, ok := r.(*ssa.Extract); ok {
						switch ex.Index {
						case 1:
							idents = ex
						case 2:
							perr = ex
						}
					}
				}
			}
		}
		// the calls that hand the parsed tree on to the builder (identified by the value they
		// receive, not by the builder's name)
		var builds []ssa.CallInstruction
		var node ssa.Value
		for _, call := range core.Calls(fn, condParse+".Parse") {
			if v, ok := call.(*ssa.Call); ok && v.Referrers() != nil {
				for _, r := range *v.Referrers() {
					if ex, ok := r.(*ssa.Extract); ok && ex.Index == 0 {
						node = ex
					}
				}
			}
		}
		if node != nil && node.Referrers() != nil {
			for _, r := range *node.Referrers() {
				if ci, ok := r.(ssa.CallInstruction); ok {
					if h := ci.Common().StaticCallee(); h != nil && core.FuncPkgRel(h) == condPkg {
						builds = append(builds, ci)
					}
				}
			}
		}
		okErr, okId := len(builds) > 0 && perr != nil, len(builds) > 0 && idents != nil
		for _, b := range builds {
			blk := b.(ssa.Instruction).Block()
			if perr == nil || !cxAllEdgesFact(blk, func(g core.Guard) bool { return cxErrTest(g, perr) == -1 }) {
				okErr = false
			}
			if idents == nil || cxLenLowerOrZero(blk, idents) != 0 {
				okId = false
			}
		}
		c.Check("gate", "Build:parse-error", fn.Pos(), okErr, "condition.Build must call build(node) only after parser.Parse returned a nil error (otherwise unchecked or nil trees reach buildPrimitive)")
		c.Check("gate", "Build:identifiers", fn.Pos(), okId, "condition.Build must call build(node) only when the list of unresolved identifiers is empty (len(identList) == 0 on every path to the call)")
		// early returns carry an error
		okRet := true
		for _, r := range core.Returns(fn) {
			rv := core.RetVals(r)
			if len(rv) == 2 && isNilConst(rv[0]) && isNilConst(rv[1]) {
				okRet = false
			}
		}
		c.Check("gate", "Build:no-nil-nil", fn.Pos(), okRet, "condition.Build returns (nil, nil) on some path: neither a usable condition nor an error")
	}
	// parser.Parse
	if fn := c.P.Func(condParse, "Parse"); fn == nil {
		c.Missing(condParse + ".Parse")
	} else {
		c.Analysed(core.FuncKey(fn))
		var perr ssa.Value
		for _, call := range core.Calls(fn, condParse+".Parser.Error") {
			if v, ok := call.(*ssa.Call); ok {
				perr = v
			}
		}
		ok := perr != nil
		n := 0
		for _, r := range core.Returns(fn) {
			rv := core.RetVals(r)
			if len(rv) != 3 || !isNilConst(rv[2]) {
				continue
			}
			n++
			if perr == nil || !cxAllEdgesFact(r.Block(), func(g core.Guard) bool { return cxErrTest(g, perr) == -1 }) {
				ok = false
			}
		}
		runs := len(core.Calls(fn, condParse+".Parser.Parse")) > 0 && len(core.Calls(fn, condParse+".Parser.Init")) > 0
		c.Check("gate", "parser.Parse:error-return", fn.Pos(), ok && n > 0 && runs, "parser.Parse must run Init and Parse and return a nil error only when Parser.Error() is nil")
	}
	// Parser.Error
	if fn := c.P.Func(condParse, "Parser.Error"); fn == nil {
		c.Missing(condParse + ".Parser.Error")
	} else {
		c.Analysed(core.FuncKey(fn))
		ok, n := true, 0
		for _, r := range core.Returns(fn) {
			if !isNilConst(core.RetVals(r)[0]) {
				continue
			}
			n++
			if !cxLenIsZeroGuard(r.Block(), cxP(fn, 0)+".errors") {
				ok = false
			}
		}
		c.Check("gate", "Parser.Error", fn.Pos(), ok && n > 0, "Parser.Error returns nil although errors may have been recorded (a nil return must be controlled by len(p.errors) == 0)")
	}
	// Parser.Parse
	if fn := c.P.Func(condParse, "Parser.Parse"); fn == nil {
		c.Missing(condParse + ".Parser.Parse")
	} else {
		c.Analysed(core.FuncKey(fn))
		var check ssa.Instruction
		for _, call := range core.Calls(fn, condParse+".Inspect") {
			args := call.Common().Args
			if len(args) == 2 {
				if mc, ok := args[1].(*ssa.MakeClosure); ok && strings.Contains(core.FuncKey(mc.Fn.(*ssa.Function)), "primitiveCheck") && core.Render(args[0]) == cxP(fn, 0)+".ast" {
					check = call.(ssa.Instruction)
				}
			}
		}
		ok := check != nil
		for _, r := range core.Returns(fn) {
			if check != nil && core.Dominates(check, r) {
				continue
			}
			if cxLenLowerBoundAt(r.Block(), cxP(fn, 0)+".errors") < 1 {
				ok = false
			}
		}
		c.Check("gate", "Parser.Parse:prototype-check", fn.Pos(), ok, "Parser.Parse must run Inspect(p.ast, p.primitiveCheck) before returning, except on paths where errors are already recorded (len(p.errors) > 0)")
	}
	// primitiveCheck
	if fn := c.P.Func(condParse, "Parser.primitiveCheck"); fn == nil {
		c.Missing(condParse + ".Parser.primitiveCheck")
	} else {
		c.Analysed(core.FuncKey(fn))
		desc := map[string]bool{}
		for _, r := range core.Returns(fn) {
			ts := c17EdgeArmTypes(r.Block())
			for _, t := range ts {
				if core.Render(core.RetVals(r)[0]) == "true" {
					desc[t] = true
				} else {
					desc[t] = false
				}
			}
		}
		var miss []string
		for _, t := range []string{"BinaryExpr", "UnaryExpr", "ParenExpr"} {
			if !desc[t] {
				miss = append(miss, t)
			}
		}
		c.Check("gate", "primitiveCheck:descend", fn.Pos(), len(miss) == 0, "primitiveCheck does not return true (descend into children) for *"+strings.Join(miss, ", *")+": primitives nested below such a node are never prototype-checked")
		calls := core.Calls(fn, condParse+".prototypeCheck")
		ok := len(calls) >= 1
		detail := fmt.Sprintf("%d calls of prototypeCheck", len(calls))
		for _, ci := range calls {
			call, isCall := ci.(*ssa.Call)
			if !isCall {
				ok = false
				detail = "prototypeCheck is called with go/defer: its result is lost"
				continue
			}
			_, ts := enclosingArm(call.Block())
			if !(len(ts) == 1 && strings.HasSuffix(core.TypeStr(ts[0]), "CallExpr")) {
				ok = false
				detail = "prototypeCheck is not called in the *CallExpr arm"
			}
			// err != nil => addError on every path
			for _, b := range fn.Blocks {
				ifi, isIf := b.Instrs[len(b.Instrs)-1].(*ssa.If)
				if !isIf {
					continue
				}
				g := core.Guard{Cond: ifi.Cond, Pol: true}
				if cxErrTest(g, call) == 0 {
					continue
				}
				bad := b.Succs[0]
				if cxErrTest(g, call) == -1 {
					bad = b.Succs[1]
				}
				isAdd := func(in ssa.Instruction) bool {
					ci, ok := in.(ssa.CallInstruction)
					return ok && core.CallIs(ci.Common(), condParse+".Parser.addError")
				}
				if first := bad.Instrs[0]; !isAdd(first) && core.ReachAvoiding(fn, first, isAdd, core.IsReturn) != nil {
					ok = false
					detail = "a path on which prototypeCheck failed reaches return without Parser.addError"
				}
			}
			if call.Referrers() == nil || len(*call.Referrers()) == 0 {
				ok = false
				detail = "the result of prototypeCheck is discarded"
			}
		}
		c.Check("gate", "primitiveCheck:records-error", fn.Pos(), ok, "primitiveCheck: "+detail)
	}
	// Walk
	if fn := c.P.Func(condParse, "Walk"); fn == nil {
		c.Missing(condParse + ".Walk")
	} else {
		c.Analysed(core.FuncKey(fn))
		visited := map[string]bool{}
		for _, call := range core.Calls(fn, condParse+".Walk") {
			_, ts := enclosingArm(call.Block())
			if len(ts) != 1 || len(call.Common().Args) != 2 {
				continue
			}
			tn := core.TypeStr(ts[0])
			tn = tn[strings.LastIndex(tn, ".")+1:]
			r := core.Render(call.Common().Args[1])
			visited[tn+r[strings.LastIndex(r, "."):]] = true
		}
		var miss []string
		for _, w := range []string{"BinaryExpr.X", "BinaryExpr.Y", "UnaryExpr.X", "ParenExpr.X"} {
			if !visited[w] {
				miss = append(miss, w)
			}
		}
		c.Check("gate", "Walk:children", fn.Pos(), len(miss) == 0, "Walk does not visit "+strings.Join(miss, ", ")+": primitives in that operand are never prototype-checked")
	}
	// prototypeCheck
	if fn := c.P.Func(condParse, "prototypeCheck"); fn == nil {
		c.Missing(condParse + ".prototypeCheck")
	} else {
		c.Analysed(core.FuncKey(fn))
		var okV ssa.Value // funcProtos[name] comma-ok
		core.Instrs(fn, func(in ssa.Instruction) {
			if ex, ok := in.(*ssa.Extract); ok && ex.Index == 1 {
				if lk, ok := ex.Tuple.(*ssa.Lookup); ok && lk.CommaOk && strings.HasPrefix(core.Render(lk.X), "parser.funcProtos") && strings.HasSuffix(core.Render(lk.Index), ".Fun.Name") {
					okV = ex
				}
			}
		})
		isCount := func(g core.Guard) int {
			bo, ok := g.Cond.(*ssa.BinOp)
			if !ok || (bo.Op != token.NEQ && bo.Op != token.EQL) {
				return 0
			}
			x, y := core.Render(bo.X), core.Render(bo.Y)
			if !(strings.HasPrefix(x, "builtin:len(") && strings.HasPrefix(y, "builtin:len(")) || !(strings.Contains(x+y, cxP(fn, 0)+".Args") && strings.Contains(x+y, "funcProtos")) {
				return 0
			}
			if (bo.Op == token.EQL) == g.Pol {
				return 1 // equal established
			}
			return -1
		}
		okName, okCount, nSucc := okV != nil, true, 0
		for _, r := range core.Returns(fn) {
			if !isNilConst(core.RetVals(r)[0]) {
				continue
			}
			nSucc++
			if okV == nil || !cxHasFact(r.Block(), func(g core.Guard) bool { return g.Cond == okV && g.Pol }) {
				okName = false
			}
			if !cxHasFact(r.Block(), func(g core.Guard) bool { return isCount(g) == 1 }) {
				okCount = false
			}
		}
		c.Check("gate", "prototypeCheck:name", fn.Pos(), okName && nSucc > 0, "prototypeCheck returns nil for a primitive name that is not a key of funcProtos")
		c.Check("gate", "prototypeCheck:count", fn.Pos(), okCount && nSucc > 0, "prototypeCheck returns nil although len(prototype) == len(expr.Args) was not established: buildPrimitive then indexes node.Args out of range")
		// kind test in the loop
		okKind := false
		for _, b := range fn.Blocks {
			ifi, isIf := b.Instrs[len(b.Instrs)-1].(*ssa.If)
			if !isIf {
				continue
			}
			bo, isB := ifi.Cond.(*ssa.BinOp)
			if !isB || (bo.Op != token.NEQ && bo.Op != token.EQL) {
				continue
			}
			x, y := core.Render(bo.X), core.Render(bo.Y)
			if !(strings.HasSuffix(x, ".Kind") && strings.Contains(y, "funcProtos") || strings.HasSuffix(y, ".Kind") && strings.Contains(x, "funcProtos")) {
				continue
			}
			bad := b.Succs[0]
			if bo.Op == token.EQL {
				bad = b.Succs[1]
			}
			// the mismatch branch leads to a non-nil return without reaching the nil return
			reachNil := core.ReachAvoiding(fn, bad.Instrs[0], nil, func(in ssa.Instruction) bool {
				r, ok := in.(*ssa.Return)
				return ok && isNilConst(core.RetVals(r)[0])
			})
			_, firstIsNilRet := bad.Instrs[0].(*ssa.Return)
			if reachNil == nil && !(firstIsNilRet && isNilConst(core.RetVals(bad.Instrs[0].(*ssa.Return))[0])) {
				okKind = true
			}
		}
		c.Check("gate", "prototypeCheck:kind", fn.Pos(), okKind, "prototypeCheck has no per-argument test `prototype kind != argument Kind` whose mismatch branch always ends in an error")
	}
	// error routing: Init wires addError into scanner and lexer; Lex default arm reports
	if fn := c.P.Func(condParse, "Parser.Init"); fn == nil {
		c.Missing(condParse + ".Parser.Init")
	} else {
		c.Analysed(core.FuncKey(fn))
		isAdd := func(v ssa.Value) bool {
			mc, ok := core.StripConv(v).(*ssa.MakeClosure)
			return ok && strings.Contains(core.FuncKey(mc.Fn.(*ssa.Function)), "addError")
		}
		okScan := false
		for _, call := range core.Calls(fn, condParse+".Scanner.Init") {
			a := call.Common().Args
			if len(a) == 4 && isAdd(a[3]) {
				okScan = true
			}
		}
		okLex := false
		core.Instrs(fn, func(in ssa.Instruction) {
			if st, ok := in.(*ssa.Store); ok {
				if fa, ok := st.Addr.(*ssa.FieldAddr); ok {
					if f := core.FieldObj(fa.X, fa.Field); f != nil && f.Name() == "err" && isAdd(st.Val) {
						okLex = true
					}
				}
			}
		})
		c.Check("gate", "Parser.Init:scanner-errors", fn.Pos(), okScan, "Parser.Init must hand Parser.addError to Scanner.Init so that scan errors make Parse fail")
		c.Check("gate", "Parser.Init:lexer-errors", fn.Pos(), okLex, "Parser.Init must set condLex.err to Parser.addError so that syntax errors make Parse fail")
	}
	if fn := c.P.Func(condParse, "condLex.Error"); fn == nil {
		c.Missing(condParse + ".condLex.Error")
	} else {
		c.Analysed(core.FuncKey(fn))
		called := false
		core.Instrs(fn, func(in ssa.Instruction) {
			if ci, ok := in.(ssa.CallInstruction); ok && !ci.Common().IsInvoke() && ci.Common().StaticCallee() == nil && core.Render(ci.Common().Value) == cxP(fn, 0)+".err" {
				called = true
			}
		})
		c.Check("gate", "condLex.Error:forwards", fn.Pos(), called, "condLex.Error must call the error handler x.err")
	}
	if fn := c.P.Func(condParse, "Scanner.error"); fn == nil {
		c.Missing(condParse + ".Scanner.error")
	} else {
		c.Analysed(core.FuncKey(fn))
		called := false
		core.Instrs(fn, func(in ssa.Instruction) {
			if ci, ok := in.(ssa.CallInstruction); ok && !ci.Common().IsInvoke() && ci.Common().StaticCallee() == nil && core.Render(ci.Common().Value) == cxP(fn, 0)+".err" {
				called = true
			}
		})
		c.Check("gate", "Scanner.error:forwards", fn.Pos(), called, "Scanner.error must call the error handler s.err")
	}
	if fn := c.P.Func(condParse, "condLex.Lex"); fn == nil {
		c.Missing(condParse + ".condLex.Lex")
	} else {
		c.Analysed(core.FuncKey(fn))
		// every return of a constant <= 0 that is not controlled by tok == EOF passes condLex.Error
		ok, n := true, 0
		for _, r := range core.Returns(fn) {
			k, isK := cxConstInt(core.RetVals(r)[0])
			if !isK || k > 0 {
				continue
			}
			eofArm := core.AllEdgesGuarded(r.Block(), func(g core.Guard) bool {
				bo, isB := g.Cond.(*ssa.BinOp)
				if !isB || bo.Op != token.EQL || !g.Pol {
					return false
				}
				kk, isKK := cxConstInt(bo.Y)
				return isKK && kk == 0
			})
			if eofArm {
				continue
			}
			n++
			reported := false
			for _, in := range r.Block().Instrs {
				if ci, isC := in.(ssa.CallInstruction); isC && core.CallIs(ci.Common(), condParse+".condLex.Error") {
					reported = true
				}
			}
			if !reported {
				ok = false
			}
		}
		c.Check("gate", "condLex.Lex:unknown-token", fn.Pos(), ok && n > 0, "condLex.Lex ends the token stream for a token it does not pass to the parser (ILLEGAL, FLOAT, …) without reporting an error: the remainder of the input would be silently ignored")
	}
	c.Min("gate", 15)
}

// c17EdgeArmTypes: the asserted type names under which control enters b (type
// switch arms, including multi-type arms with one predecessor per type).
func c17EdgeArmTypes(b *ssa.BasicBlock) []string {
	var out []string
	for _, t := range armTypes(b) {
		s := core.TypeStr(t)
		out = append(out, s[strings.LastIndex(s, ".")+1:])
	}
	if len(out) == 0 {
		if _, ts := enclosingArm(b); len(ts) > 0 {
			for _, t := range ts {
				s := core.TypeStr(t)
				out = append(out, s[strings.LastIndex(s, ".")+1:])
			}
		}
	}
	return out
}

// ---- length guards -------------------------------------------------------------------

// cxLenBoundFromGuard: what g says about len(<operand>): a lower bound (>= 0) or
// exact zero (zero=true).
func cxLenBoundFromGuard(g core.Guard, match func(ssa.Value) bool) (lower int, zero bool) {
	bo, ok := g.Cond.(*ssa.BinOp)
	if !ok {
		return 0, false
	}
	isLen := func(v ssa.Value) bool {
		call, ok := v.(*ssa.Call)
		if !ok {
			return false
		}
		b, ok := call.Call.Value.(*ssa.Builtin)
		return ok && b.Name() == "len" && len(call.Call.Args) == 1 && match(call.Call.Args[0])
	}
	op := bo.Op
	var k int64
	switch {
	case isLen(bo.X):
		v, ok := cxConstInt(bo.Y)
		if !ok {
			return 0, false
		}
		k = v
	case isLen(bo.Y):
		v, ok := cxConstInt(bo.X)
		if !ok {
			return 0, false
		}
		k = v
		switch op { // c op len  ==  len op' c
		case token.LSS:
			op = token.GTR
		case token.LEQ:
			op = token.GEQ
		case token.GTR:
			op = token.LSS
		case token.GEQ:
			op = token.LEQ
		}
	default:
		return 0, false
	}
	if !g.Pol {
		switch op {
		case token.LSS:
			op = token.GEQ
		case token.LEQ:
			op = token.GTR
		case token.GTR:
			op = token.LEQ
		case token.GEQ:
			op = token.LSS
		case token.EQL:
			op = token.NEQ
		case token.NEQ:
			op = token.EQL
		}
	}
	switch op {
	case token.GEQ:
		return int(k), false
	case token.GTR:
		return int(k) + 1, false
	case token.EQL:
		return int(k), k == 0
	case token.NEQ:
		if k == 0 {
			return 1, false
		}
	case token.LEQ:
		return 0, k == 0
	case token.LSS:
		return 0, k == 1
	}
	return 0, false
}

// cxLenLowerBoundAt: the largest lower bound on len(<path>) implied by the
// guards that hold at b.
func cxLenLowerBoundAt(b *ssa.BasicBlock, path string) int {
	best := 0
	for _, g := range cxFactsAt(b) {
		if lo, _ := cxLenBoundFromGuard(g, func(v ssa.Value) bool { return core.Render(v) == path }); lo > best {
			best = lo
		}
	}
	return best
}

// cxLenIsZeroGuard: every way into b establishes len(<path>) == 0.
func cxLenIsZeroGuard(b *ssa.BasicBlock, path string) bool {
	return cxAllEdgesFact(b, func(g core.Guard) bool {
		_, z := cxLenBoundFromGuard(g, func(v ssa.Value) bool { return core.Render(v) == path })
		return z
	})
}

// cxLenLowerOrZero returns 0 when len(v) == 0 is established at b, else 1.
func cxLenLowerOrZero(b *ssa.BasicBlock, v ssa.Value) int {
	if cxAllEdgesFact(b, func(g core.Guard) bool {
		_, z := cxLenBoundFromGuard(g, func(x ssa.Value) bool { return x == v })
		return z
	}) {
		return 0
	}
	return 1
}

// ---- (e) scanner -------------------------------------------------------------------

func c17Scanner(c *core.Ctx) {
	scan := c.P.Func(condParse, "Scanner.Scan")
	if scan == nil {
		c.Missing(condParse + ".Scanner.Scan")
		return
	}
	c.Analysed(core.FuncKey(scan))
	// a call of s.next(), of a helper that calls it on all of its paths, or of scanIdentifier /
	// scanNumber (reviewed: entered only on a letter / digit, which they consume)
	consumes := core.LiftMust(func(in ssa.Instruction) bool {
		ci, ok := in.(ssa.CallInstruction)
		return ok && core.CallIs(ci.Common(), condParse+".Scanner.next", condParse+".Scanner.scanIdentifier", condParse+".Scanner.scanNumber")
	}, 3)
	bad := core.MustPass(scan, nil, consumes)
	c.Check("scan-progress", "Scanner.Scan", scan.Pos(), bad == nil, "a path through Scanner.Scan returns a token without consuming input (no next/scanIdentifier/scanNumber call): the parser's token loop would not terminate")
	c.Min("scan-progress", 1)
	// slices src[a : s.offset-k]
	n := 0
	for _, fn := range c.P.SrcFuncs(condParse) {
		if fn.Signature.Recv() == nil || !strings.HasSuffix(core.TypeStr(fn.Signature.Recv().Type()), "Scanner") {
			continue
		}
		core.Instrs(fn, func(in ssa.Instruction) {
			sl, ok := in.(*ssa.Slice)
			if !ok || sl.High == nil {
				return
			}
			bo, ok := sl.High.(*ssa.BinOp)
			if !ok || bo.Op != token.SUB || !strings.HasSuffix(core.Render(bo.X), ".offset") {
				return
			}
			k, isK := cxConstInt(bo.Y)
			if !isK || k <= 0 {
				return
			}
			n++
			c.Analysed(core.FuncKey(fn))
			// every path from entry to the slice passes an advancing next()
			miss := core.ReachAvoiding(fn, nil, func(x ssa.Instruction) bool {
				ci, ok := x.(ssa.CallInstruction)
				return ok && core.CallIs(ci.Common(), condParse+".Scanner.next")
			}, func(x ssa.Instruction) bool { return x == in })
			c.Check("scan-slice", core.FuncKey(fn)+":"+core.Render(sl.X)+"[:offset-"+fmt.Sprint(k)+"]", sl.Pos(), miss == nil,
				fmt.Sprintf("%s takes %s[start+1 : s.offset-%d] (start = offset of the opening quote) but a path from entry reaches the slice without any s.next() (the `not terminated` break at end of input or newline): s.offset is then start+1, the upper bound is below the lower bound and the slice expression panics, e.g. on an input ending in an opening quote", core.FuncKey(fn), core.Render(sl.X), k))
		})
	}
	c.Note("scanner: %d slice(s) with a subtracted upper bound", n)
}

// ---- (f) constant-bound index checker -----------------------------------------------------

func c17ConstIndex(c *core.Ctx) {
	roots := [][2]string{
		{condPkg, "Build"}, {condParse, "condParserImpl.Parse"}, {condParse, "condLex.Lex"}, {condParse, "condlex1"},
		{condParse, "Parser.primitiveCheck"}, {condParse, "Parser.collectVariable"}, {condParse, "Walk"}, {condParse, "condErrorMessage"},
	}
	seen := map[*ssa.Function]bool{}
	var fns []*ssa.Function
	for _, r := range roots {
		fn := c.P.Func(r[0], r[1])
		if fn == nil {
			c.Missing(r[0] + "." + r[1])
			continue
		}
		for _, f := range core.TransitiveCallees(fn, 8) {
			if !seen[f] && core.FuncPkgRel(f) != "" {
				seen[f] = true
				fns = append(fns, f)
			}
		}
	}
	sort.Slice(fns, func(i, j int) bool { return core.FuncKey(fns[i]) < core.FuncKey(fns[j]) })
	type site struct {
		pos  token.Pos
		need int
		have int
	}
	sites := map[string][]site{}
	isSeq := func(t types.Type) bool {
		switch u := t.Underlying().(type) {
		case *types.Slice:
			return true
		case *types.Basic:
			return u.Info()&types.IsString != 0
		}
		return false
	}
	for _, fn := range fns {
		c.Analysed(core.FuncKey(fn))
		core.Instrs(fn, func(in ssa.Instruction) {
			var x ssa.Value
			need := 0
			switch y := in.(type) {
			case *ssa.IndexAddr:
				if k, ok := cxConstInt(y.Index); ok && isSeq(y.X.Type()) {
					x, need = y.X, int(k)+1
				}
			case *ssa.Lookup:
				if k, ok := cxConstInt(y.Index); ok && isSeq(y.X.Type()) {
					x, need = y.X, int(k)+1
				}
			case *ssa.Slice:
				if !isSeq(y.X.Type()) {
					return
				}
				for _, b := range []ssa.Value{y.Low, y.High, y.Max} {
					if b == nil {
						continue
					}
					if k, ok := cxConstInt(b); ok && int(k) > need {
						x, need = y.X, int(k)
					}
				}
			}
			if x == nil || need <= 0 {
				return
			}
			path := core.Render(x)
			if core.FuncKey(fn) == condPkg+".buildPrimitive" && path == cxP(fn, 0)+".Args" {
				return // decided per arm against funcProtos
			}
			have := cxLenLowerBoundAt(in.Block(), path)
			// strings.Split/SplitN with a non-empty separator never return an empty slice
			if call, ok := x.(*ssa.Call); ok && need == 1 && core.CallIs(&call.Call, "strings.Split", "strings.SplitN") && len(call.Call.Args) >= 2 {
				if s, ok := core.ConstString(call.Call.Args[1]); ok && s != "" {
					have = 1
				}
			}
			if sl, ok := x.(*ssa.Slice); ok {
				// x = base[a-k1 : a+k2] has length k1+k2
				if n, ok := c17SliceLen(sl); ok && n > have {
					have = n
				}
			}
			if len(path) > 60 {
				path = core.TypeStr(x.Type())
			}
			key := core.FuncKey(fn) + ":" + path
			sites[key] = append(sites[key], site{in.Pos(), need, have})
		})
	}
	keys := make([]string, 0, len(sites))
	for k := range sites {
		keys = append(keys, k)
	}
	sort.Strings(keys)
	for _, k := range keys {
		ok := true
		maxNeed, minHave := 0, 1<<30
		pos := sites[k][0].pos
		for _, s := range sites[k] {
			if s.have < s.need {
				ok = false
				pos = s.pos
			}
			if s.need > maxNeed {
				maxNeed = s.need
			}
			if s.have < minHave {
				minHave = s.have
			}
		}
		c.Check("const-index", k, pos, ok, fmt.Sprintf("%s is indexed/sliced with constant bounds that need a length of at least %d, but the dominating conditions only establish a length of at least %d: an argument shorter than that panics during condition.Build", k[strings.Index(k, ":")+1:], maxNeed, minHave))
	}
	c.Min("const-index", 3)
	c.Note("const-index: %d functions reachable from Build scanned, %d (function, operand) pairs with constant bounds", len(fns), len(keys))
}

// c17SliceLen: the length of base[e-k1 : e+k2] (same e, constant offsets).
func c17SliceLen(sl *ssa.Slice) (int, bool) {
	off := func(v ssa.Value) (string, int, bool) {
		if v == nil {
			return "", 0, false
		}
		if bo, ok := v.(*ssa.BinOp); ok && (bo.Op == token.ADD || bo.Op == token.SUB) {
			if k, ok := cxConstInt(bo.Y); ok {
				if bo.Op == token.SUB {
					k = -k
				}
				return core.Render(bo.X), int(k), true
			}
		}
		return core.Render(v), 0, true
	}
	lb, lo, ok1 := off(sl.Low)
	hb, hi, ok2 := off(sl.High)
	if !ok1 || !ok2 || lb != hb || hi < lo {
		return 0, false
	}
	// the bases must be the same SSA value, not merely the same access path
	base := func(v ssa.Value) ssa.Value {
		if bo, ok := v.(*ssa.BinOp); ok {
			return bo.X
		}
		return v
	}
	if base(sl.Low) != base(sl.High) {
		return 0, false
	}
	return hi - lo, true
}

// ---- (g) hash bucket size --------------------------------------------------------------

func c17HashBound(c *core.Ctx) {
	size, ok := cxObjConstInt(c.P, condPkg, "HashMatcherBucketSize")
	if !ok {
		c.Missing(condPkg + ".HashMatcherBucketSize")
		return
	}
	if fn := c.P.Func(condPkg, "NewHashMatcher"); fn == nil {
		c.Missing(condPkg + ".NewHashMatcher")
	} else {
		c.Analysed(core.FuncKey(fn))
		good, n := true, 0
		core.Instrs(fn, func(in ssa.Instruction) {
			switch ms := in.(type) {
			case *ssa.MakeSlice:
				n++
				if k, isK := cxConstInt(ms.Len); !isK || k != size {
					good = false
				}
			case *ssa.Alloc:
				// make([]T, const) is compiled to an array allocation that is then sliced
				if pt, ok := ms.Type().Underlying().(*types.Pointer); ok && ms.Comment == "makeslice" {
					if at, ok := pt.Elem().Underlying().(*types.Array); ok {
						n++
						if at.Len() != size {
							good = false
						}
					}
				}
			}
		})
		c.Check("hash-bound", "NewHashMatcher:make", fn.Pos(), good && n == 1, fmt.Sprintf("the bucket table must be allocated with HashMatcherBucketSize (%d) entries", size))
	}
	if fn := c.P.Func(condPkg, "parserHashSectionConf"); fn == nil {
		c.Missing(condPkg + ".parserHashSectionConf")
	} else {
		// Every bucket number parsed (strconv.Atoi, possibly inside a private helper) must be
		// established to lie in [0, HashMatcherBucketSize) on every path from the place it is
		// parsed to a success return: a path rule over branch edges and the facts they imply,
		// so the spelling of the test (a || b, named booleans, inverted branches, mirrored
		// operands, switch, early continue) does not matter.
		isSuccess := func(in ssa.Instruction) bool {
			r, ok := in.(*ssa.Return)
			if !ok {
				return false
			}
			rv := core.RetVals(r)
			return len(rv) > 0 && isNilConst(rv[len(rv)-1])
		}
		isK := func(k int64) func(ssa.Value) bool {
			return func(v ssa.Value) bool { n, ok := cxConstInt(v); return ok && n == k }
		}
		var check func(f *ssa.Function, depth int) (nSrc int, upperBad, lowerBad bool)
		check = func(f *ssa.Function, depth int) (nSrc int, upperBad, lowerBad bool) {
			c.Analysed(core.FuncKey(f))
			core.Instrs(f, func(in ssa.Instruction) {
				call, ok := in.(*ssa.Call)
				if !ok || call.Referrers() == nil {
					return
				}
				isSrc := core.CallIs(&call.Call, "strconv.Atoi")
				if !isSrc && depth < 2 {
					// a private helper that parses a number and hands it back unchecked or checked
					if h := call.Call.StaticCallee(); h != nil && h.Blocks != nil && core.FuncPkgRel(h) == condPkg && h != fn && h.Signature.Results().Len() >= 1 {
						if b, isB := h.Signature.Results().At(0).Type().Underlying().(*types.Basic); isB && b.Info()&types.IsInteger != 0 {
							if n, ub, lb := check(h, depth+1); n > 0 {
								if !ub && !lb {
									nSrc += n // parsed and checked inside the helper
									return
								}
								isSrc = true
							}
						}
					}
				}
				if !isSrc {
					return
				}
				var num ssa.Value
				for _, r := range *call.Referrers() {
					if ex, ok := r.(*ssa.Extract); ok && ex.Index == 0 {
						num = ex
					}
				}
				if num == nil {
					return
				}
				nSrc++
				isNum := func(v ssa.Value) bool { return core.StripConv(v) == num }
				if cxReachAvoidingEdges(in, func(g core.Guard) bool {
					return g.CmpIs(token.LSS, isNum, isK(size)) || g.CmpIs(token.LEQ, isNum, isK(size-1))
				}, isSuccess) != nil {
					upperBad = true
				}
				if cxReachAvoidingEdges(in, func(g core.Guard) bool {
					return g.CmpIs(token.GEQ, isNum, isK(0)) || g.CmpIs(token.GTR, isNum, isK(-1))
				}, isSuccess) != nil {
					lowerBad = true
				}
			})
			return
		}
		nSrc, upperBad, lowerBad := check(fn, 0)
		c.Check("hash-bound", "parserHashSectionConf:upper", fn.Pos(), nSrc > 0 && !upperBad, fmt.Sprintf("parserHashSectionConf must reject bucket numbers >= HashMatcherBucketSize (%d) before they are used as indexes into the bucket table (%d parsed number(s) found; a success return is reachable from one of them without a test that establishes number < %d)", size, nSrc, size))
		c.Check("hash-bound", "parserHashSectionConf:lower", fn.Pos(), nSrc > 0 && !lowerBad, "parserHashSectionConf must reject negative bucket numbers (a success return is reachable from a parsed number without a test that establishes number >= 0)")
	}
	if fn := c.P.Func(condPkg, "setHashBuckets"); fn == nil {
		c.Missing(condPkg + ".setHashBuckets")
	} else {
		c.Analysed(core.FuncKey(fn))
		// stores into the table happen only after parserHashSectionConf returned a nil error
		var perr ssa.Value
		for _, call := range core.Calls(fn, condPkg+".parserHashSectionConf") {
			if v, ok := call.(*ssa.Call); ok && v.Referrers() != nil {
				for _, r := range *v.Referrers() {
					if ex, ok := r.(*ssa.Extract); ok && ex.Index == 2 {
						perr = ex
					}
				}
			}
		}
		ok, n := perr != nil, 0
		core.Instrs(fn, func(in ssa.Instruction) {
			st, isSt := in.(*ssa.Store)
			if !isSt {
				return
			}
			if _, isIdx := st.Addr.(*ssa.IndexAddr); !isIdx {
				return
			}
			n++
			// loop body: guards at the loop header's dominator chain
			found := false
			for b := in.Block(); b != nil; b = b.Idom() {
				if core.HasGuard(b, func(g core.Guard) bool { return perr != nil && cxErrTest(g, perr) == -1 }) {
					found = true
					break
				}
			}
			if !found {
				ok = false
			}
		})
		c.Check("hash-bound", "setHashBuckets:checked-range", fn.Pos(), ok && n > 0, "setHashBuckets must write buckets[i] only after parserHashSectionConf validated the section (nil error)")
	}
	if fn := c.P.Func(condPkg, "HashValueMatcher.Match"); fn == nil {
		c.Missing(condPkg + ".HashValueMatcher.Match")
	} else {
		c.Analysed(core.FuncKey(fn))
		good, n := true, 0
		for _, call := range core.Calls(fn, condPkg+".GetHash") {
			n++
			if k, isK := cxConstInt(call.Common().Args[1]); !isK || k != size {
				good = false
			}
		}
		c.Check("hash-bound", "HashValueMatcher.Match:modulus", fn.Pos(), good && n > 0, fmt.Sprintf("the hash must be reduced modulo HashMatcherBucketSize (%d), the length of the bucket table it indexes", size))
	}
	c.Min("hash-bound", 5)
}

// ---- (e2) scanner loops terminate -------------------------------------------------------

// c17Interp is a tiny concrete interpreter over SSA used to decide that the
// scanner's loops leave at end of input: loads of <receiver>.ch yield -1 (the
// EOF marker Scanner.next stores), integer/boolean arithmetic on known values
// is folded, pure helper functions (isLetter, isDigit, digitVal) are executed,
// everything else is unknown and both branches are explored.
type c17Interp struct {
	fn    *ssa.Function
	binds map[ssa.Value]constant.Value // parameters bound to constants
	fuel  int
}

func (it *c17Interp) eval(v ssa.Value, env map[ssa.Value]constant.Value) constant.Value {
	it.fuel--
	if it.fuel < 0 {
		return nil
	}
	switch x := v.(type) {
	case *ssa.Const:
		if x.Value != nil && (x.Value.Kind() == constant.Int || x.Value.Kind() == constant.Bool) {
			return x.Value
		}
	case *ssa.Parameter:
		return it.binds[x]
	case *ssa.Phi:
		return env[x]
	case *ssa.Convert:
		if b, ok := x.Type().Underlying().(*types.Basic); ok && b.Info()&types.IsInteger != 0 {
			return it.eval(x.X, env)
		}
	case *ssa.ChangeType:
		return it.eval(x.X, env)
	case *ssa.UnOp:
		switch x.Op {
		case token.MUL:
			if fa, ok := x.X.(*ssa.FieldAddr); ok && len(it.fn.Params) > 0 && fa.X == it.fn.Params[0] {
				if f := core.FieldObj(fa.X, fa.Field); f != nil && f.Name() == "ch" {
					return constant.MakeInt64(-1)
				}
			}
		case token.NOT:
			if c := it.eval(x.X, env); c != nil && c.Kind() == constant.Bool {
				return constant.MakeBool(!constant.BoolVal(c))
			}
		case token.SUB:
			if c := it.eval(x.X, env); c != nil && c.Kind() == constant.Int {
				return constant.UnaryOp(token.SUB, c, 0)
			}
		}
	case *ssa.BinOp:
		a, b := it.eval(x.X, env), it.eval(x.Y, env)
		if a == nil || b == nil || a.Kind() != b.Kind() {
			return nil
		}
		switch x.Op {
		case token.EQL, token.NEQ, token.LSS, token.LEQ, token.GTR, token.GEQ:
			if a.Kind() == constant.Bool {
				if x.Op == token.EQL {
					return constant.MakeBool(constant.BoolVal(a) == constant.BoolVal(b))
				}
				if x.Op == token.NEQ {
					return constant.MakeBool(constant.BoolVal(a) != constant.BoolVal(b))
				}
				return nil
			}
			return constant.MakeBool(constant.Compare(a, x.Op, b))
		case token.ADD, token.SUB, token.MUL:
			if a.Kind() == constant.Int {
				return constant.BinaryOp(a, x.Op, b)
			}
		}
	case *ssa.Call:
		callee := x.Call.StaticCallee()
		if callee == nil || callee.Blocks == nil || callee.Signature.Recv() != nil || core.FuncPkgRel(callee) != condParse || callee.Signature.Results().Len() != 1 {
			return nil
		}
		binds := map[ssa.Value]constant.Value{}
		for i, a := range x.Call.Args {
			c := it.eval(a, env)
			if c == nil {
				return nil
			}
			binds[callee.Params[i]] = c
		}
		sub := &c17Interp{fn: callee, binds: binds, fuel: it.fuel}
		var result constant.Value
		multiple := false
		sub.run(callee.Blocks[0], nil, map[ssa.Value]constant.Value{}, map[*ssa.BasicBlock]int{}, nil, func(r *ssa.Return, env map[ssa.Value]constant.Value) {
			c := sub.eval(r.Results[0], env)
			if result != nil && (c == nil || !constant.Compare(result, token.EQL, c)) {
				multiple = true
			}
			if c == nil {
				multiple = true
			}
			result = c
		})
		it.fuel = sub.fuel
		if multiple {
			return nil
		}
		return result
	}
	return nil
}

// run explores the CFG from block b (entered from pred). stop(b) ends a path
// with failure reporting (returns true when b must not be entered); onRet is
// called at returns.
func (it *c17Interp) run(b, pred *ssa.BasicBlock, env map[ssa.Value]constant.Value, visits map[*ssa.BasicBlock]int, stop func(*ssa.BasicBlock) bool, onRet func(*ssa.Return, map[ssa.Value]constant.Value)) bool {
	if it.fuel < 0 {
		return false
	}
	if stop != nil && pred != nil && stop(b) {
		return false
	}
	if visits[b] >= 3 {
		return true // an inner loop that the interpreter cannot bound: not this loop's concern
	}
	visits[b]++
	defer func() { visits[b]-- }()
	env2 := env
	if pred != nil {
		env2 = map[ssa.Value]constant.Value{}
		for k, v := range env {
			env2[k] = v
		}
		pi := -1
		for i, p := range b.Preds {
			if p == pred {
				pi = i
			}
		}
		type nv struct {
			phi *ssa.Phi
			c   constant.Value
		}
		var nvs []nv
		for _, in := range b.Instrs {
			phi, ok := in.(*ssa.Phi)
			if !ok {
				break
			}
			var c constant.Value
			if pi >= 0 {
				c = it.eval(phi.Edges[pi], env)
			}
			nvs = append(nvs, nv{phi, c})
		}
		for _, x := range nvs {
			if x.c == nil {
				delete(env2, x.phi)
			} else {
				env2[x.phi] = x.c
			}
		}
	}
	switch last := b.Instrs[len(b.Instrs)-1].(type) {
	case *ssa.Return:
		if onRet != nil {
			onRet(last, env2)
		}
		return true
	case *ssa.Panic:
		return true
	case *ssa.If:
		c := it.eval(last.Cond, env2)
		ok := true
		for i, s := range b.Succs {
			if c != nil && c.Kind() == constant.Bool && constant.BoolVal(c) != (i == 0) {
				continue
			}
			if !it.run(s, b, env2, visits, stop, onRet) {
				ok = false
			}
		}
		return ok
	default:
		ok := true
		for _, s := range b.Succs {
			if !it.run(s, b, env2, visits, stop, onRet) {
				ok = false
			}
		}
		return ok
	}
}

func c17ScannerLoops(c *core.Ctx) {
	scan := c.P.Func(condParse, "Scanner.Scan")
	next := c.P.Func(condParse, "Scanner.next")
	if scan == nil || next == nil {
		return // reported by c17Scanner
	}
	// Scanner.next at end of input stores the EOF marker and nothing else moves
	okEOF := false
	core.Instrs(next, func(in ssa.Instruction) {
		st, ok := in.(*ssa.Store)
		if !ok {
			return
		}
		fa, ok := st.Addr.(*ssa.FieldAddr)
		if !ok {
			return
		}
		if f := core.FieldObj(fa.X, fa.Field); f == nil || f.Name() != "ch" {
			return
		}
		if k, isK := cxConstInt(st.Val); isK && k == -1 {
			okEOF = cxHasFact(st.Block(), func(g core.Guard) bool {
				return g.CmpIs(token.GEQ,
					func(v ssa.Value) bool { _, ok := cxLoadField(v, "rdOffset"); return ok },
					func(v ssa.Value) bool { return strings.HasPrefix(core.Render(v), "builtin:len(") })
			})
		}
	})
	c.Check("scan-loops", "Scanner.next:eof-marker", next.Pos(), okEOF, "Scanner.next must set s.ch = -1 when rdOffset has reached len(src): the scanner's loops rely on that marker to stop")
	var fns []*ssa.Function
	for _, f := range core.TransitiveCallees(scan, 6) {
		if core.FuncPkgRel(f) == condParse {
			fns = append(fns, f)
		}
	}
	sort.Slice(fns, func(i, j int) bool { return core.FuncKey(fns[i]) < core.FuncKey(fns[j]) })
	isNext := func(in ssa.Instruction) bool {
		ci, ok := in.(ssa.CallInstruction)
		return ok && core.CallIs(ci.Common(), condParse+".Scanner.next")
	}
	nLoops := 0
	for _, fn := range fns {
		ord := 0
		loopOf := map[*ssa.BasicBlock]*core.Loop{}
		for _, l := range core.Loops(fn) {
			loopOf[l.Header] = l
		}
		for _, h := range fn.Blocks {
			l := loopOf[h]
			if l == nil {
				continue
			}
			var outside []*ssa.BasicBlock
			for _, p := range h.Preds {
				if !l.Body[p] {
					outside = append(outside, p)
				}
			}
			kind, _ := core.LoopKind(l)
			if kind == "range-slice" || kind == "range-map" {
				continue // bounded by the length of the operand
			}
			ord++
			nLoops++
			c.Analysed(core.FuncKey(fn))
			var problems []string
			// a loop over an induction variable with a constant step against a bound that the loop does
			// not modify (`for n > 0 { …; n-- }`, an index loop over a slice) terminates whatever the input is
			bounded := c17CounterBounded(h) || kind == "counted"
			// (1) every cycle consumes input
			if again := core.ReachAvoiding(fn, h.Instrs[0], core.LiftMust(isNext, 2), func(in ssa.Instruction) bool { return in == h.Instrs[0] }); again != nil && !bounded {
				problems = append(problems, "a cycle of the loop does not call s.next(): no input is consumed")
			}
			// (2) at end of input the loop is left
			// parameter bindings: constants passed at every static call site in the package
			bindSets := []map[ssa.Value]constant.Value{{}}
			if len(fn.Params) > 1 {
				bindSets = nil
				for _, caller := range c.P.SrcFuncs(condParse) {
					for _, call := range core.Calls(caller, core.FuncKey(fn)) {
						b := map[ssa.Value]constant.Value{}
						for i, a := range call.Common().Args {
							if k, ok := a.(*ssa.Const); ok && k.Value != nil && (k.Value.Kind() == constant.Int || k.Value.Kind() == constant.Bool) && i < len(fn.Params) {
								b[fn.Params[i]] = k.Value
							}
						}
						bindSets = append(bindSets, b)
					}
				}
				if len(bindSets) == 0 {
					bindSets = []map[ssa.Value]constant.Value{{}}
				}
			}
			leaves := true
			if bounded {
				bindSets = nil
			}
			for _, binds := range bindSets {
				for _, p := range outside {
					// re-entering the header from inside the loop is the failure
					it := &c17Interp{fn: fn, binds: binds, fuel: 200000}
					first := true
					ok := it.run(h, p, map[ssa.Value]constant.Value{}, map[*ssa.BasicBlock]int{}, func(b *ssa.BasicBlock) bool {
						if b == h && !first {
							return true
						}
						if b == h {
							first = false
						}
						return false
					}, nil)
					if !ok || it.fuel < 0 {
						leaves = false
					}
				}
			}
			if !leaves {
				problems = append(problems, "with the current character at the end-of-input marker (-1) the loop can be entered again: the scanner does not terminate on a truncated literal/comment")
			}
			c.Check("scan-loops", fmt.Sprintf("%s:loop#%d", core.FuncKey(fn), ord), h.Instrs[0].Pos(), len(problems) == 0, fmt.Sprintf("%s, loop %d: %s", core.FuncKey(fn), ord, strings.Join(problems, "; ")))
		}
	}
	c.Min("scan-loops", 8)
	c.Note("scan-loops: %d loops in the %d scanner functions reachable from Scan", nLoops, len(fns))
}

// c17CounterBounded: the loop at header h is `for n > 0 { … n -= c }`: the
// header's exit test compares a header phi with 0 and every back edge feeds
// that phi with itself minus a positive constant.
func c17CounterBounded(h *ssa.BasicBlock) bool {
	ifi, ok := h.Instrs[len(h.Instrs)-1].(*ssa.If)
	if !ok {
		return false
	}
	bo, ok := ifi.Cond.(*ssa.BinOp)
	if !ok {
		return false
	}
	phi, ok := bo.X.(*ssa.Phi)
	if !ok || phi.Block() != h {
		return false
	}
	k, isK := cxConstInt(bo.Y)
	if !isK || !(bo.Op == token.GTR && k >= 0 || bo.Op == token.GEQ && k >= 1) {
		return false
	}
	// the true edge stays in the loop, the false edge leaves it
	if h.Dominates(h.Succs[1]) && c17ReachesBlock(h.Succs[1], h) {
		return false
	}
	for i, p := range h.Preds {
		if !h.Dominates(p) {
			continue
		}
		dec, ok := phi.Edges[i].(*ssa.BinOp)
		if !ok || dec.X != phi {
			return false
		}
		d, isD := cxConstInt(dec.Y)
		if !isD || !(dec.Op == token.SUB && d > 0 || dec.Op == token.ADD && d < 0) {
			return false
		}
	}
	return true
}

func c17ReachesBlock(from, to *ssa.BasicBlock) bool {
	seen := map[*ssa.BasicBlock]bool{}
	work := []*ssa.BasicBlock{from}
	for len(work) > 0 {
		b := work[len(work)-1]
		work = work[:len(work)-1]
		if b == to {
			return true
		}
		if seen[b] {
			continue
		}
		seen[b] = true
		work = append(work, b.Succs...)
	}
	return false
}
