package rules

import (
	"fmt"
	"go/token"
	"go/types"
	"sort"
	"strings"

	"golang.org/x/tools/go/ssa"

	"verif/internal/core"
)

// C26 — hop-by-hop headers are not forwarded to the backend.
func init() {
	Register(&Rule{
		ID: "C26", Section: "5 C26",
		Technique: "table agreement (HopHeaders / reqWriteExcludeHeader against the RFC 7230 list), dominance of hopByHopHeaderRemove over clusterInvoke/RoundTrip on the same request object, path census of the removal loop over the region of hopByHopHeaderRemove (iterations that skip the Del; boolean-phi sensitive, private helpers inlined), who-may-write census of Request.OutRequest, backward value flow from Header.Del to the Connection header value, use census of the package-level tables (read-only after initialisation: no store, element write, append over the shared backing array, escape), who-may-overwrite census of bfe_http.Request objects (whole-struct stores and Header replacements only on objects the function allocated itself, or with a fresh map)",
		Meta: core.Meta{
			Level:       "other",
			Explanation: "Decides: (a) each of Connection, Keep-Alive, Proxy-Authenticate, Proxy-Authorization, Te, Trailer, Transfer-Encoding, Upgrade is, in canonical MIME form, an element of bfe_basic.HopHeaders or a true key of bfe_http.reqWriteExcludeHeader; Request.write emits req.Header only through WriteSubset with that exclude map and Header.sortedKeyValues appends an entry only under !exclude[key]; (b) in ReverseProxy.ServeHTTP a call hopByHopHeaderRemove(outreq, …) dominates every clusterInvoke call, outreq is the object stored in basicReq.OutRequest, the struct copy *outreq = *req happens before the removal, Request.OutRequest has no other writer in the program, clusterInvoke has no other caller, and every RoundTripper.RoundTrip call of bfe_server sends request.OutRequest; (c) inside hopByHopHeaderRemove the loop ranges over bfe_basic.HopHeaders, Header.Del is applied to outreq.Header with the loop element, and an iteration can skip the Del only when outreq.Header.Get(element) == \"\" or when element == \"Te\" and the value == \"trailers\" (exactly); every path through hopByHopHeaderRemove enters that loop (an early return is accepted only under `outgoing header empty`) and the loop is left only at its header, i.e. after the whole table; clause (c) is decided on the region of hopByHopHeaderRemove (the function plus the unexported helpers that are called from nowhere else, which the path search inlines at their call sites with parameters bound to arguments and the result bound to what the helper returned), values are identified structurally (the element of bfe_basic.HopHeaders whether the loop is a range or an index loop, the Header field of the first parameter, the result of Header.Get on them), and a skipped iteration is decided per path from the loop header back to the loop header that avoids the Del - it must establish `value == \"\"` / `len(value) == 0`, or `element == \"Te\"` together with `value == \"trailers\"`, or a comparison of the element with a name the table literal does not list (a branch that can never be taken) - however the tests are spelled (continue, nested positive conditions, named booleans, a boolean helper); (d) some Header.Del on the outgoing header takes a key that flows from the Connection header's value through a comma split (Connection-listed fields); (e) the tables of (a) still hold their literal contents when a request is forwarded: every function of the program that touches bfe_basic.HopHeaders or bfe_http.reqWriteExcludeHeader only reads it (range/index/lookup/len, passing it to module callees that only read it) - no reassignment, element or entry write, delete, copy into, append onto the table or a sub-slice of it (the in-place filter idiom t[:0]+append rewrites the shared backing array), no store/return/capture that would let an alias escape; (f) the cleaned outgoing request is not refilled: anywhere in the program, a whole-struct store `*r = *other` of a bfe_http.Request and a store to Request.Header are accepted only when the target object was allocated by the same function (new/composite literal, also through a local variable) or - for Header - when the stored map is fresh (make, or a module function returning only fresh maps); a pre-existing object (parameter, field load such as request.OutRequest in clusterInvoke's retry loop) may be the cleaned outgoing request and the copy would re-alias the client's header map. Forms the rule does not follow and therefore reports: a removal loop whose element is not read as bfe_basic.HopHeaders[i] (a copy of the table built element by element), a Del moved more than four helper levels away, the construction of the outgoing request and the removal call of clause (b) moved out of the body of ReverseProxy.ServeHTTP into a helper. Not covered: headers re-added by modules between the removal and RoundTrip, non-canonical keys inserted into the map directly, the outgoing Trailer/Transfer-Encoding lines that Request.write generates itself for the request body, upgrade (websocket) requests, backends spoken to through the HTTP/2 or FastCGI transports (they do not use reqWriteExcludeHeader).",
			RuleText:    "obligations = one per required header name, one per clusterInvoke/RoundTrip call site, one per writer of Request.OutRequest, one per Del of the removal loop for the paths of an iteration that bypass it, the loop-bypass and early-exit queries per removal loop, the Del target/key, the exclude-map use in Request.write, the Connection-token flow, one per function using a hop-by-hop table (read-only), one per whole-struct store of a bfe_http.Request and per store to Request.Header in the program (fresh target or fresh map)",
			Assumptions: []string{"bfe_http.Header.Get/Del canonicalise their key (textproto.MIMEHeader), so table entries are compared in canonical form", "header maps hold canonical keys (true for headers parsed by bfe_http.ReadRequest)"},
		},
		Run: runC26,
		Mutants: []Mutant{
			{Name: "hop-table-drops-upgrade", File: "bfe_basic/common.go", Old: "	\"Transfer-Encoding\",\n	\"Upgrade\",\n}", New: "	\"Transfer-Encoding\",\n}", Expect: "hop-table|Upgrade"},
			{Name: "hop-table-noncanonical-te", File: "bfe_basic/common.go", Old: "	\"Te\", // canonicalized version of \"TE\"", New: "	\"TE\",", Expect: "hop-table|Te"},
			{Name: "exclude-map-drops-trailer", File: "bfe_http/request.go", Old: "	\"Transfer-Encoding\": true,\n	\"Trailer\":           true,\n}", New: "	\"Transfer-Encoding\": true,\n	\"Trailer\":           false,\n}", Expect: "hop-table|Trailer"},
			{Name: "removal-after-invoke", File: "bfe_server/reverseproxy.go", Old: "	hopByHopHeaderRemove(outreq, req)\n\n	// invoke cluster to get response\n	res, action, err = p.clusterInvoke(srv, cluster, basicReq, rw)\n", New: "	// invoke cluster to get response\n	res, action, err = p.clusterInvoke(srv, cluster, basicReq, rw)\n	hopByHopHeaderRemove(outreq, req)\n", Expect: "hop-dominates"},
			{Name: "removal-before-copy", File: "bfe_server/reverseproxy.go", Old: "	outreq = new(bfe_http.Request)\n	*outreq = *req // includes shallow copies of maps, but okay\n	basicReq.OutRequest = outreq\n", New: "	outreq = new(bfe_http.Request)\n	hopByHopHeaderRemove(outreq, req)\n	*outreq = *req // includes shallow copies of maps, but okay\n	basicReq.OutRequest = outreq\n", Expect: "hop-after-copy"},
			{Name: "removal-on-wrong-object", File: "bfe_server/reverseproxy.go", Old: "	hopByHopHeaderRemove(outreq, req)\n", New: "	hopByHopHeaderRemove(new(bfe_http.Request), req)\n", Expect: "hop-dominates"},
			{Name: "roundtrip-sends-client-request", File: "bfe_server/reverseproxy.go", Old: "		res, err = transport.RoundTrip(outreq)\n", New: "		res, err = transport.RoundTrip(request.HttpRequest)\n", Expect: "roundtrip-arg"},
			{Name: "te-exception-widened", File: "bfe_server/reverseproxy.go", Old: "		if h == \"Te\" && hv == \"trailers\" {", New: "		if h == \"Te\" || hv == \"trailers\" {", Expect: "hop-skip"},
			{Name: "te-exception-any-value", File: "bfe_server/reverseproxy.go", Old: "		if h == \"Te\" && hv == \"trailers\" {", New: "		if h == \"Te\" && strings.Contains(hv, \"trailers\") {", Expect: "hop-skip"},
			{Name: "skip-upgrade", File: "bfe_server/reverseproxy.go", Old: "		if hv == \"\" {\n			continue\n		}\n\n		if h == \"Te\"", New: "		if hv == \"\" || h == \"Upgrade\" {\n			continue\n		}\n\n		if h == \"Te\"", Expect: "hop-skip"},
			{Name: "del-on-client-header", File: "bfe_server/reverseproxy.go", Old: "		outreq.Header.Del(h)\n	}\n}", New: "		req.Header.Del(h)\n	}\n}", Expect: "hop-del"},
			{Name: "write-ignores-exclude", File: "bfe_http/request.go", Old: "	err = req.Header.WriteSubset(w, reqWriteExcludeHeader)", New: "	err = req.Header.WriteSubset(w, nil)", Expect: "exclude-used"},
			{Name: "exclude-not-honoured", File: "bfe_http/header.go", Old: "		if !exclude[k] {\n			kvs = append(kvs, keyValues{k, vv})\n		}\n	}\n	hs.kvs = kvs", New: "		if !exclude[k] || len(vv) > 1 {\n			kvs = append(kvs, keyValues{k, vv})\n		}\n	}\n	hs.kvs = kvs", Expect: "exclude-honoured"},
			{Name: "removal-skipped-for-closing-requests", File: "bfe_server/reverseproxy.go", Old: "	copiedHeaders := false\n	for _, h := range bfe_basic.HopHeaders {", New: "	copiedHeaders := false\n	if req.Close {\n		return\n	}\n	for _, h := range bfe_basic.HopHeaders {", Expect: "hop-always|"},
			{Name: "removal-stops-at-first-hit", File: "bfe_server/reverseproxy.go", Old: "		outreq.Header.Del(h)\n	}\n}", New: "		outreq.Header.Del(h)\n		if h == \"Connection\" {\n			break\n		}\n	}\n}", Expect: "hop-always|"},
			{Name: "retry-realiases-client-header", File: "bfe_server/reverseproxy.go", Old: "		setBackendAddr(outreq, backend)\n", New: "		outreq.Header = request.HttpRequest.Header\n		setBackendAddr(outreq, backend)\n", Expect: "request-not-refilled|"},
			{Name: "cross-retry-refills-outreq", File: "bfe_server/reverseproxy.go", Old: "		if err == bfe_basic.ErrBkCrossRetryBalance {\n			request.RetryTime += 1\n", New: "		if err == bfe_basic.ErrBkCrossRetryBalance {\n			request.RetryTime += 1\n			*request.OutRequest = *request.HttpRequest\n", Expect: "request-not-refilled|"},
			{Name: "exclude-map-rewritten-at-runtime", File: "bfe_http/request.go", Old: "	err = req.Header.WriteSubset(w, reqWriteExcludeHeader)", New: "	if len(req.Trailer) > 0 {\n		reqWriteExcludeHeader[\"Trailer\"] = false\n	}\n	err = req.Header.WriteSubset(w, reqWriteExcludeHeader)", Expect: "table-immutable|"},
			{Name: "hop-table-compacted-in-place", File: "bfe_server/reverseproxy.go", Old: "	copiedHeaders := false\n	for _, h := range bfe_basic.HopHeaders {", New: "	copiedHeaders := false\n	if outreq.Header.Get(\"Upgrade\") != \"\" {\n		bfe_basic.HopHeaders = append(bfe_basic.HopHeaders[:1], bfe_basic.HopHeaders[2:]...)\n	}\n	for _, h := range bfe_basic.HopHeaders {", Expect: "table-immutable|"},
			{Name: "auth-request-filters-table-in-place", File: "bfe_modules/mod_auth_request/mod_auth_request.go", Old: "	for _, h := range bfe_basic.HopHeaders {\n		headers.Del(h)\n	}", New: "	keep := bfe_basic.HopHeaders[:0]\n	for _, h := range bfe_basic.HopHeaders {\n		if h != \"Upgrade\" {\n			keep = append(keep, h)\n		}\n	}\n	for _, h := range keep {\n		headers.Del(h)\n	}", Expect: "table-immutable|"},
			{Name: "silent-detach-through-local", Silent: true, File: "bfe_server/reverseproxy.go", Old: "			outreq.Header = make(bfe_http.Header, len(req.Header))\n			bfe_http.CopyHeader(outreq.Header, req.Header)", New: "			detached := make(bfe_http.Header, len(req.Header))\n			bfe_http.CopyHeader(detached, req.Header)\n			outreq.Header = detached"},
			{Name: "silent-table-through-local", Silent: true, File: "bfe_server/reverseproxy.go", Old: "	for _, h := range bfe_basic.HopHeaders {\n		hv := outreq.Header.Get(h)", New: "	hops := bfe_basic.HopHeaders\n	log.Logger.Debug(\"hop table has %d names\", len(hops))\n	for _, h := range hops {\n		hv := outreq.Header.Get(h)"},
			{Name: "silent-empty-header-shortcut", Silent: true, File: "bfe_server/reverseproxy.go", Old: "	copiedHeaders := false\n	for _, h := range bfe_basic.HopHeaders {", New: "	copiedHeaders := false\n	if len(outreq.Header) == 0 {\n		return\n	}\n	for _, h := range bfe_basic.HopHeaders {"},
			{Name: "silent-rename-and-log", Silent: true, File: "bfe_server/reverseproxy.go", Old: "		hv := outreq.Header.Get(h)\n		if hv == \"\" {\n			continue\n		}\n\n		if h == \"Te\" && hv == \"trailers\" {", New: "		val := outreq.Header.Get(h)\n		if len(val) == 0 {\n			continue\n		}\n		log.Logger.Debug(\"hop header %s\", h)\n		hv := val\n		if hv == \"trailers\" && h == \"Te\" {"},
			{Name: "silent-skip-decision-in-helper", Silent: true, File: "bfe_server/reverseproxy.go", Old: "\t\thv := outreq.Header.Get(h)\n\t\tif hv == \"\" {\n\t\t\tcontinue\n\t\t}\n\n\t\tif h == \"Te\" && hv == \"trailers\" {\n\t\t\t// Issue 21096: tell backend applications that\n\t\t\t// care about trailer support that we support\n\t\t\t// trailers. (We do, but we don't go out of\n\t\t\t// our way to advertise that unless the\n\t\t\t// incoming client request thought it was\n\t\t\t// worth mentioning)\n\t\t\tcontinue\n\t\t}\n\n\t\tif !copiedHeaders {\n\t\t\toutreq.Header = make(bfe_http.Header, len(req.Header))\n\t\t\tbfe_http.CopyHeader(outreq.Header, req.Header)\n\t\t\tcopiedHeaders = true\n\t\t}\n\t\toutreq.Header.Del(h)\n\t}\n}\n", New: "\t\tif skipHopHeader(outreq, h) {\n\t\t\tcontinue\n\t\t}\n\n\t\tif !copiedHeaders {\n\t\t\toutreq.Header = make(bfe_http.Header, len(req.Header))\n\t\t\tbfe_http.CopyHeader(outreq.Header, req.Header)\n\t\t\tcopiedHeaders = true\n\t\t}\n\t\toutreq.Header.Del(h)\n\t}\n}\n\n// skipHopHeader reports whether the hop-by-hop field name stays in out.\nfunc skipHopHeader(out *bfe_http.Request, name string) bool {\n\tvalue := out.Header.Get(name)\n\tif value == \"\" {\n\t\treturn true\n\t}\n\treturn name == \"Te\" && value == \"trailers\"\n}\n"},
			{Name: "silent-index-loop-positive-conditions", Silent: true, File: "bfe_server/reverseproxy.go", Old: "\tfor _, h := range bfe_basic.HopHeaders {\n\t\thv := outreq.Header.Get(h)\n\t\tif hv == \"\" {\n\t\t\tcontinue\n\t\t}\n\n\t\tif h == \"Te\" && hv == \"trailers\" {\n\t\t\t// Issue 21096: tell backend applications that\n\t\t\t// care about trailer support that we support\n\t\t\t// trailers. (We do, but we don't go out of\n\t\t\t// our way to advertise that unless the\n\t\t\t// incoming client request thought it was\n\t\t\t// worth mentioning)\n\t\t\tcontinue\n\t\t}\n\n\t\tif !copiedHeaders {\n\t\t\toutreq.Header = make(bfe_http.Header, len(req.Header))\n\t\t\tbfe_http.CopyHeader(outreq.Header, req.Header)\n\t\t\tcopiedHeaders = true\n\t\t}\n\t\toutreq.Header.Del(h)\n\t}\n}\n", New: "\tfor i := range bfe_basic.HopHeaders {\n\t\th := bfe_basic.HopHeaders[i]\n\t\thv := outreq.Header.Get(h)\n\t\tif hv != \"\" && !(h == \"Te\" && hv == \"trailers\") {\n\t\t\tif !copiedHeaders {\n\t\t\t\toutreq.Header = make(bfe_http.Header, len(req.Header))\n\t\t\t\tbfe_http.CopyHeader(outreq.Header, req.Header)\n\t\t\t\tcopiedHeaders = true\n\t\t\t}\n\t\t\toutreq.Header.Del(h)\n\t\t}\n\t}\n}\n"},
			{Name: "silent-defensive-empty-name", Silent: true, File: "bfe_server/reverseproxy.go", Old: "\t\tif hv == \"\" {\n\t\t\tcontinue\n\t\t}\n\n\t\tif h == \"Te\"", New: "\t\tif hv == \"\" || h == \"\" {\n\t\t\t// (the table has no empty name)\n\t\t\tcontinue\n\t\t}\n\n\t\tif h == \"Te\""},
		},
	})
}

var c26Required = []string{"Connection", "Keep-Alive", "Proxy-Authenticate", "Proxy-Authorization", "Te", "Trailer", "Transfer-Encoding", "Upgrade"}

func runC26(c *core.Ctx) {
	const srv = "bfe_server"
	// (a) tables
	hop, hopPos, okH := h1bStringTable(c, "bfe_basic", "HopHeaders")
	excl, _, okE := h1bStringTable(c, "bfe_http", "reqWriteExcludeHeader")
	if !okH {
		c.Missing("bfe_basic.HopHeaders (composite literal of constant strings)")
	}
	if !okE {
		c.Missing("bfe_http.reqWriteExcludeHeader (map literal with constant keys)")
	}
	if okH && okE {
		inHop, inExcl := map[string]bool{}, map[string]bool{}
		for _, h := range hop {
			inHop[h] = true
		}
		for _, h := range excl {
			inExcl[h] = true
		}
		for _, name := range c26Required {
			ok := inHop[name] || inExcl[name]
			near := ""
			for _, h := range append(append([]string{}, hop...), excl...) {
				if !ok && h1bCanonical(h) == name {
					near = " (listed as " + fmt.Sprintf("%q", h) + ", which is not the canonical form Header.Get/Del and the write filter compare with)"
				}
			}
			c.Check("hop-table", name, hopPos, ok,
				"hop-by-hop field "+name+" is neither an element of bfe_basic.HopHeaders nor excluded by bfe_http.reqWriteExcludeHeader"+near+": it is forwarded to the backend")
			if ok && !inHop[name] {
				c.Note("C26: %s is not in bfe_basic.HopHeaders (the table lists %v); it is only kept off the wire by reqWriteExcludeHeader in Request.write (HTTP/1 backends)", name, hop)
			}
		}
		c.Min("hop-table", 8)
	}
	// exclude map is what Request.write applies, and WriteSubset honours it
	excludeGlobal := func(v ssa.Value) bool {
		u, ok := core.StripConv(v).(*ssa.UnOp)
		if !ok || u.Op != token.MUL {
			return false
		}
		g, ok := u.X.(*ssa.Global)
		return ok && g.Name() == "reqWriteExcludeHeader" && g.Pkg != nil && g.Pkg.Pkg.Path() == core.ModPath+"/bfe_http"
	}
	reqHeader := h1bField(c, "bfe_http", "Request.Header")
	if wr := h1bFunc(c, "bfe_http", "Request.write"); wr != nil && reqHeader != nil {
		n := 0
		wrRegion := h1bRegionSet(c.P, wr)
		for _, ci := range c.P.RegionCalls(wr, "bfe_http.Header.WriteSubset", "bfe_http.Header.Write", "bfe_http.Header.writeSubsetWithoutSort") {
			cc := ci.Common()
			if len(cc.Args) == 0 {
				continue
			}
			// (a header / exclude map handed to a private helper of Request.write is
			// the argument at the helper's call site)
			if f, _ := h1bFieldOf(h1bUp(c.P, wrRegion, cc.Args[0])); f != reqHeader {
				continue // extraHeaders etc.
			}
			n++
			ok := !core.CallIs(cc, "bfe_http.Header.Write") && len(cc.Args) == 3 && excludeGlobal(h1bUp(c.P, wrRegion, cc.Args[2]))
			c.Check("exclude-used", fmt.Sprintf("Request.write:header-write#%d", n), ci.Pos(), ok,
				"Request.write emits req.Header by "+core.Render(ci.Value())+"; it must go through WriteSubset/… with reqWriteExcludeHeader so that Transfer-Encoding, Trailer and Content-Length lines of the client are not copied to the backend")
		}
		c.Min("exclude-used", 1)
	}
	if skv := h1bFunc(c, "bfe_http", "Header.sortedKeyValues"); skv != nil {
		n := 0
		for _, ci := range core.AllCalls(skv) {
			b, ok := ci.Common().Value.(*ssa.Builtin)
			if !ok || b.Name() != "append" {
				continue
			}
			n++
			ok2 := h1bGuarded(ci.Block(), func(f h1bFact) bool {
				lk, isLk := core.StripConv(f.V).(*ssa.Lookup)
				if !isLk || f.Pol {
					return false
				}
				p, isP := lk.X.(*ssa.Parameter)
				return isP && len(skv.Params) == 2 && p == skv.Params[1]
			})
			c.Check("exclude-honoured", fmt.Sprintf("Header.sortedKeyValues:append#%d", n), ci.Pos(), ok2,
				"a header entry is collected for writing without the test !exclude[key] on every way into the append; facts here: "+h1bJoinFacts(h1bFactsAt(ci.Block())))
		}
		c.Min("exclude-honoured", 1)
	}

	// the tables keep their literal contents at run time; an existing request is
	// never refilled from another one
	c26TablesImmutable(c)
	c26RequestNotRefilled(c, reqHeader)

	// (b) ServeHTTP: removal dominates clusterInvoke on the same object
	serve := h1bFunc(c, srv, "ReverseProxy.ServeHTTP")
	remove := h1bFunc(c, srv, "hopByHopHeaderRemove")
	invoke := h1bFunc(c, srv, "ReverseProxy.clusterInvoke")
	outFld := h1bField(c, "bfe_basic", "Request.OutRequest")
	all := c.P.SrcFuncs("")
	if serve != nil && remove != nil && invoke != nil && outFld != nil {
		hops := h1bStaticCallers([]*ssa.Function{serve}, remove)
		invs := h1bStaticCallers([]*ssa.Function{serve}, invoke)
		outStores := h1bStoresOf(serve, outFld)
		for i, iv := range invs {
			key := fmt.Sprintf("ServeHTTP:clusterInvoke#%d", i+1)
			var how []string
			ok := false
			for _, h := range hops {
				if !core.Dominates(h.(ssa.Instruction), iv.(ssa.Instruction)) || len(h.Common().Args) < 1 {
					how = append(how, "a removal call does not dominate the invoke")
					continue
				}
				obj := core.StripConv(h.Common().Args[0])
				// the object is what basicReq.OutRequest holds when clusterInvoke runs
				stored := false
				for _, st := range outStores {
					fa := st.Addr.(*ssa.FieldAddr)
					if core.StripConv(st.Val) == obj && core.Dominates(st, iv.(ssa.Instruction)) && len(iv.Common().Args) >= 4 &&
						core.Render(fa.X) == core.Render(iv.Common().Args[3]) {
						// no later store replaces it before the invoke
						later := core.ReachAvoiding(serve, st, nil, func(x ssa.Instruction) bool {
							s2, isSt := x.(*ssa.Store)
							if !isSt || s2 == st {
								return false
							}
							f2, _ := h1bFieldOf(s2.Addr)
							return f2 == outFld && core.Dominates(s2, iv.(ssa.Instruction))
						})
						if later == nil {
							stored = true
						}
					}
				}
				if !stored {
					how = append(how, "the object passed to hopByHopHeaderRemove ("+core.Render(obj)+") is not the one stored in the request's OutRequest field")
					continue
				}
				ok = true
			}
			c.Check("hop-dominates", key, iv.Pos(), ok,
				"clusterInvoke (which sends request.OutRequest to the backend) is reachable without hopByHopHeaderRemove having been applied to that request object: "+strings.Join(how, "; "))
		}
		c.Min("hop-dominates", 1)
		for i, h := range hops {
			if len(h.Common().Args) < 1 {
				continue
			}
			obj := core.StripConv(h.Common().Args[0])
			copies, bad := 0, 0
			core.Instrs(serve, func(in ssa.Instruction) {
				st, ok := in.(*ssa.Store)
				if !ok {
					return
				}
				whole := core.StripConv(st.Addr) == obj
				hf, base := h1bFieldOf(st.Addr)
				hdr := hf == reqHeader && reqHeader != nil && base == obj
				if !whole && !hdr {
					return
				}
				copies++
				if !core.Dominates(st, h.(ssa.Instruction)) {
					bad++
				}
			})
			c.Check("hop-after-copy", fmt.Sprintf("ServeHTTP:removal#%d", i+1), h.Pos(), copies >= 1 && bad == 0,
				fmt.Sprintf("the outgoing request is (re)filled from the client request after or beside hopByHopHeaderRemove (%d struct/header stores to the object, %d not dominating the removal): the copy reinstates the hop-by-hop fields", copies, bad))
		}
		c.Min("hop-after-copy", 1)
		// writers of Request.OutRequest
		n := map[string]int{}
		for _, st := range core.FieldStores(all, outFld) {
			k := core.FuncKey(st.Fn)
			c.Check("outrequest-writers", h1bOrd(k, n), st.Store.Pos(), st.Fn == serve,
				"Request.OutRequest is written in "+k+"; only ReverseProxy.ServeHTTP (where the hop-by-hop removal is applied to the stored object) is reviewed")
		}
		c.Min("outrequest-writers", 1)
		// callers of clusterInvoke
		n = map[string]int{}
		for _, ci := range h1bStaticCallers(all, invoke) {
			k := core.FuncKey(ci.Parent())
			c.Check("invoke-callers", h1bOrd(k, n), ci.Pos(), ci.Parent() == serve, "clusterInvoke is called from "+k+", which does not run the hop-by-hop removal")
		}
		for _, u := range h1bFuncValueUses(all, invoke) {
			c.Check("invoke-callers", h1bOrd(core.FuncKey(u.Parent())+":value", n), u.Pos(), false, "clusterInvoke is used as a function value: its callers cannot be enumerated")
		}
		c.Min("invoke-callers", 1)
	}
	// RoundTrip call sites of bfe_server
	if outFld != nil {
		n := map[string]int{}
		for _, fn := range c.P.SrcFuncs(srv) {
			for _, ci := range core.Calls(fn, "invoke:bfe_http.RoundTripper.RoundTrip") {
				args := ci.Common().Args
				ok := false
				if len(args) == 1 {
					f, _ := h1bFieldOf(args[0])
					ok = f == outFld
				}
				c.Check("roundtrip-arg", h1bOrd(core.FuncKey(fn), n), ci.Pos(), ok && fn == invoke,
					"RoundTrip sends "+core.Render(args[0])+" from "+core.FuncKey(fn)+"; the only reviewed backend send is request.OutRequest in clusterInvoke (the object hopByHopHeaderRemove was applied to)")
			}
		}
		c.Min("roundtrip-arg", 1)
	}

	// (c) inside hopByHopHeaderRemove (and its private helpers)
	if remove != nil && reqHeader != nil && len(remove.Params) == 2 {
		c26RemovalLoop(c, remove, reqHeader, hop, okH)
	}

	// (d) Connection-listed fields
	if remove != nil && serve != nil {
		scope := core.TransitiveCallees(remove, 2)
		inScope := map[*ssa.Function]bool{}
		for _, f := range scope {
			inScope[f] = true
		}
		// helpers called from ServeHTTP before clusterInvoke also count
		if invoke != nil {
			for _, iv := range h1bStaticCallers([]*ssa.Function{serve}, invoke) {
				for _, ci := range core.AllCalls(serve) {
					sc := ci.Common().StaticCallee()
					if sc != nil && sc.Blocks != nil && core.FuncPkgRel(sc) == srv && !inScope[sc] && core.Dominates(ci.(ssa.Instruction), iv.(ssa.Instruction)) && sc != invoke {
						for _, f := range core.TransitiveCallees(sc, 1) {
							if core.FuncPkgRel(f) == srv || core.FuncPkgRel(f) == "bfe_http" {
								inScope[f] = true
							}
						}
					}
				}
			}
		}
		isConnValue := func(v ssa.Value) bool {
			if call, ok := v.(*ssa.Call); ok && core.CallIs(&call.Call, "bfe_http.Header.Get", "bfe_http.Header.GetDirect", "bfe_http.Header.Values") && len(call.Call.Args) == 2 {
				s, ok := core.ConstString(call.Call.Args[1])
				return ok && h1bCanonical(s) == "Connection"
			}
			if lk, ok := v.(*ssa.Lookup); ok {
				s, ok := core.ConstString(lk.Index)
				return ok && h1bCanonical(s) == "Connection"
			}
			return false
		}
		found, where := false, ""
		var fns []*ssa.Function
		for f := range inScope {
			fns = append(fns, f)
		}
		sort.Slice(fns, func(i, j int) bool { return core.FuncKey(fns[i]) < core.FuncKey(fns[j]) })
		for _, f := range fns {
			core.Instrs(f, func(in ssa.Instruction) {
				var key ssa.Value
				if ci, ok := in.(ssa.CallInstruction); ok {
					cc := ci.Common()
					if core.CallIs(cc, "bfe_http.Header.Del") && len(cc.Args) == 2 {
						key = cc.Args[1]
					} else if b, isB := cc.Value.(*ssa.Builtin); isB && b.Name() == "delete" && len(cc.Args) == 2 {
						key = cc.Args[1]
					}
				}
				if key == nil {
					return
				}
				via := map[string]bool{}
				if !h1bDerives(key, isConnValue, via) {
					return
				}
				split := false
				for k := range via {
					switch k {
					case "strings.Split", "strings.SplitN", "strings.SplitAfter", "strings.FieldsFunc", "strings.Cut", "strings.Index", "strings.IndexByte":
						split = true
					}
				}
				if split {
					found, where = true, core.FuncKey(f)
				}
			})
		}
		c.Check("conn-token-removal", "hopByHopHeaderRemove", remove.Pos(), found,
			"no Header.Del on the way to the backend takes a key that flows from the Connection header's value through a comma split: fields the client lists in Connection (e.g. `Connection: close, X-Foo`) are forwarded to the backend")
		if found {
			c.Note("C26: Connection-listed fields are removed in %s", where)
		}
		c.Min("conn-token-removal", 1)
	}
}

// h1bReaches: is `to` reachable from `from` (block graph)?
func h1bReaches(from, to *ssa.BasicBlock) bool {
	seen := map[*ssa.BasicBlock]bool{from: true}
	work := []*ssa.BasicBlock{from}
	for len(work) > 0 {
		b := work[len(work)-1]
		work = work[:len(work)-1]
		if b == to {
			return true
		}
		for _, s := range b.Succs {
			if !seen[s] {
				seen[s] = true
				work = append(work, s)
			}
		}
	}
	return false
}

// c26RemovalLoop decides clause (c): the loop of hopByHopHeaderRemove. The
// rule looks at the region of the function (helpers extracted from it are
// inlined by the path search), identifies values structurally (the table
// element, the outgoing header, the looked-up value) and decides skipped
// iterations by paths: every way from the loop header back to the loop header
// that does not execute the Del must establish `value == ""`, or
// `element == "Te"` together with `value == "trailers"`, or a comparison of
// the element with a name the table does not list (a branch that can never be
// taken).
func c26RemovalLoop(c *core.Ctx, remove *ssa.Function, reqHeader *types.Var, table []string, tableOK bool) {
	p := c.P
	region := h1bRegionSet(p, remove)
	outP := ssa.Value(remove.Params[0])
	inTable := map[string]bool{}
	for _, h := range table {
		inTable[h] = true
	}
	isHopElem := func(v ssa.Value) bool {
		pk, name, ok := sh1GlobalElem(v)
		return ok && pk == "bfe_basic" && name == "HopHeaders"
	}
	// static view (no path): parameters of helpers resolved at their call sites
	onOutUp := func(v ssa.Value) bool {
		f, base := h1bFieldOf(v)
		return f == reqHeader && base != nil && h1bUp(p, region, base) == outP
	}
	type del struct {
		in   ssa.Instruction
		elem ssa.Value // the table element, as the loop sees it
	}
	var hopDels []del
	n := 0
	for _, d := range p.RegionCalls(remove, "bfe_http.Header.Del") {
		args := d.Common().Args
		if len(args) != 2 {
			continue
		}
		elem := h1bUp(p, region, args[1])
		if !isHopElem(elem) {
			continue
		}
		n++
		hopDels = append(hopDels, del{d.(ssa.Instruction), elem})
		c.Check("hop-del", fmt.Sprintf("hopByHopHeaderRemove:del#%d:target", n), d.Pos(), onOutUp(args[0]) || onOutUp(h1bUp(p, region, args[0])),
			"Header.Del of a HopHeaders element is applied to "+core.Render(args[0])+", not to the outgoing request's header (first parameter)")
	}
	c.Check("hop-del", "hopByHopHeaderRemove:loop", remove.Pos(), len(hopDels) >= 1,
		"no Header.Del whose key is an element of bfe_basic.HopHeaders: the removal loop is gone")
	c.Min("hop-del", 2)
	isDel := func(x ssa.Instruction) bool {
		for _, d := range hopDels {
			if d.in == x {
				return true
			}
		}
		return false
	}
	// the loop that governs a Del: in the Del's function, or - the Del being in a
	// helper called from the loop body - in a caller
	loopOf := func(in ssa.Instruction) (*ssa.BasicBlock, map[*ssa.BasicBlock]bool) {
		cur := []ssa.Instruction{in}
		for d := 0; d < 4 && len(cur) > 0; d++ {
			var next []ssa.Instruction
			for _, x := range cur {
				if h, body := c24NaturalLoop(x.Block()); h != nil {
					return h, body
				}
				for _, cs := range h1bCallSitesIn(p, x.Parent(), region) {
					next = append(next, cs)
				}
			}
			cur = next
		}
		return nil, nil
	}
	for i, d := range hopDels {
		header, body := loopOf(d.in)
		if header == nil {
			c.Check("hop-skip", "hopByHopHeaderRemove:loop-shape", d.in.Pos(), false, "the Del of a hop-by-hop element is not inside a loop")
			continue
		}
		q := &h1bSearch{P: p, Anchor: remove, Trail: true}
		onOut := func(v ssa.Value) bool {
			f, base := h1bFieldOf(q.R(v))
			return f == reqHeader && base != nil && q.R(base) == outP
		}
		isElem := func(v ssa.Value) bool { return q.R(v) == d.elem }
		isGet := func(v ssa.Value) bool {
			call := h1bCallOf(q.R(v), "bfe_http.Header.Get", "bfe_http.Header.GetDirect")
			if call == nil || len(call.Call.Args) != 2 {
				return false
			}
			return onOut(call.Call.Args[0]) && isElem(call.Call.Args[1])
		}
		isLenGet := func(v ssa.Value) bool {
			call, ok := q.R(v).(*ssa.Call)
			if !ok {
				return false
			}
			b, ok := call.Call.Value.(*ssa.Builtin)
			return ok && b.Name() == "len" && len(call.Call.Args) == 1 && isGet(call.Call.Args[0])
		}
		notListed := func(v ssa.Value) bool {
			s, ok := core.ConstString(q.R(v))
			return ok && tableOK && !inTable[s]
		}
		q.Avoid = isDel
		q.Track = []func(h1bFact) bool{
			func(f h1bFact) bool { return h1bEq(f, isGet, h1bIsStr("")) || h1bEq(f, isLenGet, h1bIsInt(0)) },
			func(f h1bFact) bool { return h1bEq(f, isElem, h1bIsStr("Te")) },
			func(f h1bFact) bool { return h1bEq(f, isGet, h1bIsStr("trailers")) },
			func(f h1bFact) bool { return h1bEq(f, isElem, notListed) },
		}
		q.Blocked = func(m uint) bool { return m&1 != 0 || m&8 != 0 || m&2 != 0 && m&4 != 0 }
		first := header.Instrs[0]
		q.Target = func(x ssa.Instruction) bool { return x == first }
		bad := q.Reach(first)
		key := "hopByHopHeaderRemove:unjustified"
		if i > 0 {
			key = fmt.Sprintf("hopByHopHeaderRemove:unjustified#%d", i+1)
		}
		c.Check("hop-skip", key, d.in.Pos(), bad == nil,
			"an iteration of the removal loop continues without Header.Del although neither `outreq.Header.Get(h) == \"\"` nor `h == \"Te\" && value == \"trailers\"` is established on that path; established: "+h1bJoinFacts(q.HitFacts))
		// the removal is unconditional: no way through the function that bypasses
		// the loop, and the loop is left only when the table is exhausted
		q2 := &h1bSearch{P: p, Anchor: remove}
		onOut2 := func(v ssa.Value) bool {
			f, base := h1bFieldOf(q2.R(v))
			return f == reqHeader && base != nil && q2.R(base) == outP
		}
		q2.Avoid = func(x ssa.Instruction) bool { return x.Block() == header }
		q2.AvoidFact = func(f h1bFact) bool {
			isLenHdr := func(v ssa.Value) bool {
				call, ok := q2.R(v).(*ssa.Call)
				if !ok || len(call.Call.Args) != 1 {
					return false
				}
				b, ok := call.Call.Value.(*ssa.Builtin)
				return ok && b.Name() == "len" && onOut2(call.Call.Args[0])
			}
			isNilK := func(v ssa.Value) bool { k, ok := v.(*ssa.Const); return ok && k.Value == nil }
			return h1bEq(f, isLenHdr, h1bIsInt(0)) || h1bEq(f, onOut2, isNilK)
		}
		q2.Target = core.IsExit
		key2 := fmt.Sprintf("hopByHopHeaderRemove:del#%d:", i+1)
		c.Check("hop-always", key2+"no-bypass", d.in.Pos(), q2.Reach(nil) == nil,
			"hopByHopHeaderRemove can return without entering the loop over bfe_basic.HopHeaders (an early exit that is not `the outgoing header is empty`): for the requests taking that exit every hop-by-hop field of the client is forwarded to the backend")
		var early []string
		for b := range body {
			if b == header {
				continue
			}
			for _, s := range b.Succs {
				if !body[s] {
					early = append(early, h1bJoinFacts(h1bFactsOnEdge(b, s)))
				}
			}
		}
		sort.Strings(early)
		c.Check("hop-always", key2+"whole-table", d.in.Pos(), len(early) == 0,
			"the loop over bfe_basic.HopHeaders is left from inside its body (break / return under "+strings.Join(early, " | ")+"): the table entries after that element are never removed from the outgoing request")
	}
	c.Min("hop-skip", 1)
	c.Min("hop-always", 2)
}
