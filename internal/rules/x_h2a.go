package rules

import (
	"fmt"
	"go/constant"
	"go/token"
	"go/types"
	"sort"
	"strings"

	"golang.org/x/tools/go/ssa"

	"verif/internal/core"
)

// Shared helpers of the HTTP/2 flow-control rules (C33, C34). Everything is
// prefixed h2a so that it cannot collide with helpers of other rule files.

const h2aPkg = "bfe_http2"

// h2aFn resolves a function of bfe_http2; an unresolved anchor is recorded.
func h2aFn(c *core.Ctx, name string) *ssa.Function {
	fn := c.P.Func(h2aPkg, name)
	if fn == nil || fn.Blocks == nil {
		c.Missing(h2aPkg + "." + name)
		return nil
	}
	c.Analysed(core.FuncKey(fn))
	return fn
}

// h2aField resolves a struct field object ("Type.field") of bfe_http2.
func h2aField(c *core.Ctx, name string) *types.Var {
	v, _ := c.P.Obj(h2aPkg, name).(*types.Var)
	if v == nil {
		c.Missing(h2aPkg + "." + name)
	}
	return v
}

// h2aConst resolves an integer constant of bfe_http2.
func h2aConst(c *core.Ctx, name string) (int64, bool) {
	k, _ := c.P.Obj(h2aPkg, name).(*types.Const)
	if k == nil {
		c.Missing(h2aPkg + "." + name)
		return 0, false
	}
	v, ok := constant.Int64Val(constant.ToInt(k.Val()))
	if !ok {
		c.Missing(h2aPkg + "." + name + " (not an integer constant)")
	}
	return v, ok
}

// h2aInt: v (modulo conversions) is an integer constant.
func h2aInt(v ssa.Value) (int64, bool) {
	k, ok := core.StripConv(v).(*ssa.Const)
	if !ok || k.Value == nil || k.Value.Kind() != constant.Int {
		return 0, false
	}
	return constant.Int64Val(k.Value)
}

func h2aIsNil(v ssa.Value) bool {
	k, ok := core.StripConv(v).(*ssa.Const)
	return ok && k.Value == nil
}

// h2aSame: two values denote the same quantity: the same SSA value modulo
// conversions, or the same rendered access path / pure expression.
func h2aSame(a, b ssa.Value) bool {
	a, b = core.StripConv(a), core.StripConv(b)
	if a == b {
		return true
	}
	ra, rb := core.Render(a), core.Render(b)
	return ra == rb && !strings.Contains(ra, "phi") && !strings.Contains(ra, "…")
}

// h2aFieldLoad: v (modulo conversions) is a load of the given struct field;
// returns the struct base.
func h2aFieldLoad(v ssa.Value, fld *types.Var) (ssa.Value, bool) {
	if fld == nil {
		return nil, false
	}
	switch x := core.StripConv(v).(type) {
	case *ssa.UnOp:
		if x.Op != token.MUL {
			return nil, false
		}
		if fa, ok := x.X.(*ssa.FieldAddr); ok && core.FieldObj(fa.X, fa.Field) == fld {
			return fa.X, true
		}
	case *ssa.Field:
		if core.FieldObj(x.X, x.Field) == fld {
			return x.X, true
		}
	}
	return nil, false
}

// h2aFieldAddrOf: v is the address of the given field; returns the base.
func h2aFieldAddrOf(v ssa.Value, fld *types.Var) (ssa.Value, bool) {
	fa, ok := v.(*ssa.FieldAddr)
	if !ok || fld == nil || core.FieldObj(fa.X, fa.Field) != fld {
		return nil, false
	}
	return fa.X, true
}

// h2aFlows holds the four flow-control windows of the server.
type h2aFlows struct {
	connIn, connOut, stIn, stOut *types.Var
	flowN, flowConn              *types.Var
}

func h2aLoadFlows(c *core.Ctx) *h2aFlows {
	f := &h2aFlows{
		connIn:   h2aField(c, "serverConn.inflow"),
		connOut:  h2aField(c, "serverConn.flow"),
		stIn:     h2aField(c, "stream.inflow"),
		stOut:    h2aField(c, "stream.flow"),
		flowN:    h2aField(c, "flow.n"),
		flowConn: h2aField(c, "flow.conn"),
	}
	if f.connIn == nil || f.connOut == nil || f.stIn == nil || f.stOut == nil || f.flowN == nil || f.flowConn == nil {
		return nil
	}
	return f
}

// kind classifies the address of a flow: "conn-in", "conn-out", "stream-in",
// "stream-out" or "" (not one of the four windows); base is the owner.
func (f *h2aFlows) kind(v ssa.Value) (string, ssa.Value) {
	fa, ok := v.(*ssa.FieldAddr)
	if !ok {
		return "", nil
	}
	switch core.FieldObj(fa.X, fa.Field) {
	case f.connIn:
		return "conn-in", fa.X
	case f.connOut:
		return "conn-out", fa.X
	case f.stIn:
		return "stream-in", fa.X
	case f.stOut:
		return "stream-out", fa.X
	}
	return "", nil
}

// h2aCall is a resolved call of a bfe_http2 function.
func h2aCallOf(in ssa.Instruction, names ...string) *ssa.CallCommon {
	ci, ok := in.(ssa.CallInstruction)
	if !ok {
		return nil
	}
	full := make([]string, len(names))
	for i, n := range names {
		if strings.Contains(n, "/") || strings.HasPrefix(n, "bfe_") {
			full[i] = n
		} else {
			full[i] = h2aPkg + "." + n
		}
	}
	if !core.CallIs(ci.Common(), full...) {
		return nil
	}
	return ci.Common()
}

func h2aIsCall(names ...string) func(ssa.Instruction) bool {
	return func(in ssa.Instruction) bool { return h2aCallOf(in, names...) != nil }
}

// h2aLenOf: v (modulo conversions) is len(x); returns x.
func h2aLenOf(v ssa.Value) (ssa.Value, bool) {
	call, ok := core.StripConv(v).(*ssa.Call)
	if !ok {
		return nil, false
	}
	if b, ok := call.Call.Value.(*ssa.Builtin); ok && b.Name() == "len" && len(call.Call.Args) == 1 {
		return call.Call.Args[0], true
	}
	return nil, false
}

// h2aRel is an order fact lo < hi (strict) or lo <= hi established by a guard.
type h2aRel struct {
	lo, hi ssa.Value
	strict bool
}

// h2aRelOf normalises a guard that is an integer comparison.
func h2aRelOf(g core.Guard) (h2aRel, bool) {
	b, ok := g.Cond.(*ssa.BinOp)
	if !ok {
		return h2aRel{}, false
	}
	switch b.Op {
	case token.LSS: // X < Y
		if g.Pol {
			return h2aRel{b.X, b.Y, true}, true
		}
		return h2aRel{b.Y, b.X, false}, true
	case token.GTR: // X > Y
		if g.Pol {
			return h2aRel{b.Y, b.X, true}, true
		}
		return h2aRel{b.X, b.Y, false}, true
	case token.LEQ: // X <= Y
		if g.Pol {
			return h2aRel{b.X, b.Y, false}, true
		}
		return h2aRel{b.Y, b.X, true}, true
	case token.GEQ: // X >= Y
		if g.Pol {
			return h2aRel{b.Y, b.X, false}, true
		}
		return h2aRel{b.X, b.Y, true}, true
	}
	return h2aRel{}, false
}

// h2aLeq proves v <= bound from (1) identity, (2) phi edges, each under the
// guards of its incoming edge, (3) order facts among the guards gs that hold
// where v is used. isBound recognises the bound expression itself.
func h2aLeq(v ssa.Value, isBound func(ssa.Value) bool, gs []core.Guard, depth int, seen map[ssa.Value]bool) bool {
	v = core.StripConv(v)
	if isBound(v) {
		return true
	}
	if depth > 6 || seen[v] {
		return false
	}
	seen[v] = true
	defer delete(seen, v)
	if phi, ok := v.(*ssa.Phi); ok {
		all := len(phi.Edges) > 0
		for i, e := range phi.Edges {
			egs := core.GuardsOnEdge(phi.Block().Preds[i], phi.Block())
			if !h2aLeq(e, isBound, egs, depth+1, seen) {
				all = false
				break
			}
		}
		if all {
			return true
		}
	}
	for _, g := range gs {
		r, ok := h2aRelOf(g)
		if !ok || !h2aSame(r.lo, v) {
			continue
		}
		if h2aLeq(r.hi, isBound, gs, depth+1, seen) {
			return true
		}
	}
	return false
}

// h2aErrOf describes an error value built from a StreamError /
// ConnectionError composite literal: type name, Code constant, StreamID value.
type h2aErr struct {
	typ      string
	code     int64
	hasCode  bool
	streamID ssa.Value
}

func h2aErrOf(v ssa.Value) (h2aErr, bool) {
	var e h2aErr
	mi, ok := v.(*ssa.MakeInterface)
	if !ok {
		return e, false
	}
	e.typ = core.TypeStr(mi.X.Type())
	ld, ok := mi.X.(*ssa.UnOp)
	if !ok || ld.Op != token.MUL {
		return e, true
	}
	al, ok := ld.X.(*ssa.Alloc)
	if !ok || al.Referrers() == nil {
		return e, true
	}
	for _, r := range *al.Referrers() {
		fa, ok := r.(*ssa.FieldAddr)
		if !ok || fa.Referrers() == nil {
			continue
		}
		fv := core.FieldObj(fa.X, fa.Field)
		if fv == nil {
			continue
		}
		for _, rr := range *fa.Referrers() {
			st, ok := rr.(*ssa.Store)
			if !ok || st.Addr != fa {
				continue
			}
			switch fv.Name() {
			case "Code":
				if k, ok := h2aInt(st.Val); ok {
					e.code, e.hasCode = k, true
				}
			case "StreamID":
				e.streamID = st.Val
			}
		}
	}
	return e, true
}

// h2aErrCodeNames maps the values of the ErrCode constants to their names.
func h2aErrCodeNames(c *core.Ctx) map[int64]string {
	out := map[int64]string{}
	pk := c.P.Pkg(h2aPkg)
	if pk == nil {
		return out
	}
	sc := pk.Types.Scope()
	for _, n := range sc.Names() {
		k, ok := sc.Lookup(n).(*types.Const)
		if !ok || !strings.HasPrefix(n, "ErrCode") || core.TypeStr(k.Type()) != h2aPkg+".ErrCode" {
			continue
		}
		if v, ok := constant.Int64Val(constant.ToInt(k.Val())); ok {
			out[v] = n
		}
	}
	return out
}

// h2aErrSig names a returned non-nil error value without line numbers.
func h2aErrSig(v ssa.Value, names map[int64]string) string {
	if e, ok := h2aErrOf(v); ok {
		if e.hasCode {
			if n, ok := names[e.code]; ok {
				return "return-" + strings.TrimPrefix(e.typ, h2aPkg+".") + ":" + n
			}
			return fmt.Sprintf("return-%s:code=%d", strings.TrimPrefix(e.typ, h2aPkg+"."), e.code)
		}
		return "return-" + strings.TrimPrefix(e.typ, h2aPkg+".")
	}
	return "return-error"
}

// h2aRegion returns the blocks reachable from b (including b).
func h2aRegion(b *ssa.BasicBlock) map[*ssa.BasicBlock]bool {
	seen := map[*ssa.BasicBlock]bool{b: true}
	work := []*ssa.BasicBlock{b}
	for len(work) > 0 {
		x := work[len(work)-1]
		work = work[:len(work)-1]
		for _, s := range x.Succs {
			if !seen[s] {
				seen[s] = true
				work = append(work, s)
			}
		}
	}
	return seen
}

// h2aOrd appends #n to repeated keys so that obligations of one rule stay distinct.
type h2aOrd map[string]int

func (o h2aOrd) key(k string) string {
	o[k]++
	if o[k] == 1 {
		return k
	}
	return fmt.Sprintf("%s#%d", k, o[k])
}

func h2aShort(fn *ssa.Function) string {
	return strings.TrimPrefix(core.FuncKey(fn), h2aPkg+".")
}

// h2aFlowCensus: who may touch which flow-control window. table maps
// "<op>:<kind>" to the functions allowed to perform it. Only the kinds listed
// in kinds are judged (C33: the receive windows, C34: the send windows);
// accesses through a path that is none of the four windows are judged by both.
func h2aFlowCensus(c *core.Ctx, rule string, fl *h2aFlows, kinds map[string]bool, table map[string][]string) int {
	n := 0
	ord := h2aOrd{}
	// a site is attributed to the reviewed function it belongs to (h2aOwnedBy):
	// the function itself, or the reviewed caller(s) of a new private helper
	for _, fn := range c.P.SrcFuncs(h2aPkg) {
		fn := fn
		name := h2aShort(fn)
		allowed := func(op, kind string) (string, bool) {
			return h2aOwnedBy(c, fn, table[op+":"+kind]...)
		}
		inFlow := fn.Signature.Recv() != nil && core.TypeStr(fn.Signature.Recv().Type()) == "*"+h2aPkg+".flow"
		core.Instrs(fn, func(in ssa.Instruction) {
			if cc := h2aCallOf(in, "flow.take", "flow.add", "flow.setConnFlow", "flow.available"); cc != nil && len(cc.Args) > 0 {
				op := strings.TrimPrefix(core.CalleeKey(cc), h2aPkg+".flow.")
				kind, _ := fl.kind(cc.Args[0])
				if kind == "" {
					if inFlow {
						return // flow's own methods calling each other on the receiver
					}
					n++
					c.Check(rule, ord.key(name+":"+op+":unrecognised-window"), in.Pos(), false,
						"flow."+op+" is applied to "+core.Render(cc.Args[0])+", which is not one of serverConn.inflow/flow or stream.inflow/flow; the window accounting rules cannot follow it")
					return
				}
				if !kinds[kind] || op == "available" {
					return
				}
				n++
				owner, okSite := allowed(op, kind)
				c.Check(rule, ord.key(owner+":"+op+":"+kind), in.Pos(), okSite,
					"flow."+op+" on the "+kind+" window in "+name+"; reviewed sites for this operation: "+strings.Join(table[op+":"+kind], ", "))
				return
			}
			// raw accesses of flow.n / flow.conn outside flow's methods
			fa, ok := in.(*ssa.FieldAddr)
			if !ok {
				return
			}
			fo := core.FieldObj(fa.X, fa.Field)
			if fo != fl.flowN && fo != fl.flowConn {
				return
			}
			if inFlow {
				return
			}
			// plain reads (logging, tests of the value) do not change the accounting
			written := false
			if refs := fa.Referrers(); refs != nil {
				for _, r := range *refs {
					if ld, isLd := r.(*ssa.UnOp); isLd && ld.Op == token.MUL {
						continue
					}
					written = true // store, or the address escapes
				}
			}
			if !written {
				return
			}
			kind, _ := fl.kind(fa.X)
			if kind != "" && !kinds[kind] {
				return
			}
			op := "raw-" + fo.Name()
			n++
			owner, okSite := allowed(op, kind)
			c.Check(rule, ord.key(owner+":"+op+":"+kind), in.Pos(), okSite,
				"field flow."+fo.Name()+" of the "+kind+" window is written (or its address taken) in "+name+" (outside the methods of flow); reviewed sites: "+strings.Join(table[op+":"+kind], ", "))
		})
	}
	return n
}

// h2aCheckFlowType decides the arithmetic shape of flow.available/take/add.
func h2aCheckFlowType(c *core.Ctx, rule string, fl *h2aFlows) {
	// available(): returns f.n, or f.conn.n only where f.conn != nil and f.conn.n < f.n.
	if fn := h2aFn(c, "flow.available"); fn != nil && len(fn.Params) == 1 {
		recv := fn.Params[0]
		isN := func(v ssa.Value) bool { b, ok := h2aFieldLoad(v, fl.flowN); return ok && b == ssa.Value(recv) }
		isConnN := func(v ssa.Value) bool {
			b, ok := h2aFieldLoad(v, fl.flowN)
			if !ok {
				return false
			}
			bb, ok := h2aFieldLoad(b, fl.flowConn)
			return ok && bb == ssa.Value(recv)
		}
		ord := h2aOrd{}
		sawOwn, sawConn := false, false
		var visit func(v ssa.Value, gs []core.Guard, pos token.Pos, seen map[ssa.Value]bool)
		visit = func(v ssa.Value, gs []core.Guard, pos token.Pos, seen map[ssa.Value]bool) {
			if seen[v] {
				return
			}
			seen[v] = true
			switch {
			case isN(v):
				sawOwn = true
				// own window returned: allowed when conn is nil or conn.n is not smaller
				ok := true
				for _, g := range gs {
					if r, isRel := h2aRelOf(g); isRel && r.strict && isConnN(r.lo) && isN(r.hi) {
						ok = false // conn.n < n is known, yet n is returned
					}
				}
				c.Check(rule, ord.key("available:returns-own"), pos, ok, "available() returns the window's own n although the guards establish conn.n < n")
			case isConnN(v):
				sawConn = true
				ok := false
				for _, g := range gs {
					if r, isRel := h2aRelOf(g); isRel && isConnN(r.lo) && isN(r.hi) {
						ok = true
					}
				}
				c.Check(rule, ord.key("available:returns-conn"), pos, ok, "available() returns conn.n without having established conn.n < n (or <=): the result must be the minimum of both levels")
			default:
				if phi, ok := v.(*ssa.Phi); ok {
					for i, e := range phi.Edges {
						visit(e, core.GuardsOnEdge(phi.Block().Preds[i], phi.Block()), phi.Pos(), map[ssa.Value]bool{})
					}
					return
				}
				c.Check(rule, ord.key("available:returns-other"), pos, false, "available() returns "+core.Render(v)+", neither f.n nor f.conn.n")
			}
		}
		for _, r := range core.Returns(fn) {
			if len(r.Results) == 1 {
				visit(r.Results[0], core.GuardsAt(r.Block()), r.Pos(), map[ssa.Value]bool{})
			}
		}
		c.Check(rule, "available:min-of-both-levels", fn.Pos(), sawOwn && sawConn, "available() must be able to return both the window's own n and the connection-level n (minimum of the two)")
	}
	// take(n): f.n -= n always; f.conn.n -= n where conn != nil; guarded by n > available() => panic.
	if fn := h2aFn(c, "flow.take"); fn != nil && len(fn.Params) == 2 {
		recv, n := fn.Params[0], fn.Params[1]
		own, conn := 0, 0
		var ownSt, connSt *ssa.Store
		core.Instrs(fn, func(in ssa.Instruction) {
			st, ok := in.(*ssa.Store)
			if !ok {
				return
			}
			base, ok := h2aFieldAddrOf(st.Addr, fl.flowN)
			if !ok {
				return
			}
			b, isBin := st.Val.(*ssa.BinOp)
			good := isBin && b.Op == token.SUB && b.Y == ssa.Value(n)
			if good {
				ob, ok := h2aFieldLoad(b.X, fl.flowN)
				good = ok && h2aSame(ob, base)
			}
			if base == ssa.Value(recv) {
				own++
				ownSt = st
				c.Check(rule, "take:own-window", st.Pos(), good, "flow.take must store f.n - n into f.n; stores "+core.Render(st.Val))
			} else if bb, ok := h2aFieldLoad(base, fl.flowConn); ok && bb == ssa.Value(recv) {
				conn++
				connSt = st
				c.Check(rule, "take:conn-window", st.Pos(), good, "flow.take must store f.conn.n - n into f.conn.n; stores "+core.Render(st.Val))
			} else {
				c.Check(rule, "take:other-store", st.Pos(), false, "flow.take writes the n of "+core.Render(base))
			}
		})
		c.Check(rule, "take:both-levels", fn.Pos(), own == 1 && conn == 1, fmt.Sprintf("flow.take must debit the window itself once and its connection-level window once (found %d and %d stores)", own, conn))
		if ownSt != nil {
			bad := core.MustPass(fn, nil, func(x ssa.Instruction) bool { return x == ssa.Instruction(ownSt) })
			c.Check(rule, "take:own-window-every-path", ownSt.Pos(), bad == nil, "a path through flow.take returns without debiting f.n")
		}
		if connSt != nil {
			// the conn-level debit may be skipped only when conn == nil
			okSkip := true
			gs := core.GuardsAt(connSt.Block())
			extra := 0
			for _, g := range gs {
				b, isBin := g.Cond.(*ssa.BinOp)
				isNilTest := false
				if isBin && (b.Op == token.NEQ || b.Op == token.EQL) && h2aIsNil(b.Y) {
					if base, ok := h2aFieldLoad(b.X, fl.flowConn); ok && base == ssa.Value(recv) {
						isNilTest = (b.Op == token.NEQ) == g.Pol
					}
				}
				if r, isRel := h2aRelOf(g); isRel && h2aSame(r.lo, n) {
					continue // the "took too much" test
				}
				if !isNilTest {
					extra++
				}
			}
			if extra > 0 {
				okSkip = false
			}
			c.Check(rule, "take:conn-window-guard", connSt.Pos(), okSkip, "the connection-level debit in flow.take is conditional on more than f.conn != nil; guards: "+strings.Join(core.GuardStrs(connSt.Block()), " && "))
		}
		// over-draw is refused: the debit is guarded by n <= available()
		if ownSt != nil {
			ok := false
			for _, g := range core.GuardsAt(ownSt.Block()) {
				if r, isRel := h2aRelOf(g); isRel && !r.strict && h2aSame(r.lo, n) {
					if call, isCall := core.StripConv(r.hi).(*ssa.Call); isCall && core.CallIs(&call.Call, h2aPkg+".flow.available") && call.Call.Args[0] == ssa.Value(recv) {
						ok = true
					}
				}
			}
			c.Check(rule, "take:overdraw-refused", ownSt.Pos(), ok, "flow.take must refuse n > available() before debiting (exactly: debit only under n <= available())")
		}
	}
	// add(n): f.n += n only under n <= MaxInt32 - f.n; false otherwise
	if fn := h2aFn(c, "flow.add"); fn != nil && len(fn.Params) == 2 {
		recv, n := fn.Params[0], fn.Params[1]
		stores := 0
		core.Instrs(fn, func(in ssa.Instruction) {
			st, ok := in.(*ssa.Store)
			if !ok {
				return
			}
			base, ok := h2aFieldAddrOf(st.Addr, fl.flowN)
			if !ok {
				return
			}
			stores++
			b, isBin := st.Val.(*ssa.BinOp)
			good := base == ssa.Value(recv) && isBin && b.Op == token.ADD
			if good {
				x, y := b.X, b.Y
				if x == ssa.Value(n) {
					x, y = y, x
				}
				ob, ok := h2aFieldLoad(x, fl.flowN)
				good = ok && ob == ssa.Value(recv) && y == ssa.Value(n)
			}
			c.Check(rule, "add:credit", st.Pos(), good, "flow.add must store f.n + n into f.n; stores "+core.Render(st.Val))
			// overflow guard: n <= (2^31-1) - f.n
			okG := false
			for _, g := range core.GuardsAt(st.Block()) {
				r, isRel := h2aRelOf(g)
				if !isRel || r.strict || !h2aSame(r.lo, n) {
					continue
				}
				if sub, ok := core.StripConv(r.hi).(*ssa.BinOp); ok && sub.Op == token.SUB {
					k, isK := h2aInt(sub.X)
					ob, isN := h2aFieldLoad(sub.Y, fl.flowN)
					if isK && k == 1<<31-1 && isN && ob == ssa.Value(recv) {
						okG = true
					}
				}
			}
			c.Check(rule, "add:overflow-guard", st.Pos(), okG, "flow.add must credit only under n <= (2^31-1) - f.n (RFC 7540 6.9.1 window overflow)")
			// the crediting path reports true, others false
			for _, r := range core.Returns(fn) {
				if len(r.Results) != 1 {
					continue
				}
				k, isK := r.Results[0].(*ssa.Const)
				if !isK || k.Value == nil || k.Value.Kind() != constant.Bool {
					c.Check(rule, "add:result", r.Pos(), false, "flow.add returns a non-constant result "+core.Render(r.Results[0]))
					continue
				}
				after := st.Block() == r.Block() || st.Block().Dominates(r.Block())
				c.Check(rule, fmt.Sprintf("add:result-%v", constant.BoolVal(k.Value)), r.Pos(), constant.BoolVal(k.Value) == after,
					"flow.add must return true exactly on the path that credited the window")
			}
		})
		c.Check(rule, "add:one-credit", fn.Pos(), stores == 1, fmt.Sprintf("flow.add must write f.n exactly once (found %d stores)", stores))
	}
}

// h2aCallerCensus: every caller of name must be in allowed. A call in a new
// private helper is a call of the reviewed function(s) that call the helper.
func h2aCallerCensus(c *core.Ctx, rule, name string, allowed ...string) int {
	type site struct {
		pos token.Pos
		ok  bool
		in  string
	}
	by := map[string]*site{}
	var keys []string
	for _, fn := range c.P.SrcFuncs("") {
		fn := fn
		core.Instrs(fn, func(in ssa.Instruction) {
			if cc := h2aCallOf(in, name); cc == nil {
				return
			}
			owner, ok := core.FuncKey(fn), false
			if core.FuncPkgRel(fn) == h2aPkg {
				owner, ok = h2aOwnedBy(c, fn, allowed...)
				owner = h2aPkg + "." + owner
			}
			s := by[owner]
			if s == nil {
				s = &site{pos: in.Pos(), ok: true, in: core.FuncKey(fn)}
				by[owner] = s
				keys = append(keys, owner)
			}
			if !ok && s.ok {
				s.ok, s.pos, s.in = false, in.Pos(), core.FuncKey(fn)
			}
		})
	}
	sort.Strings(keys)
	for _, k := range keys {
		c.Check(rule, name+"<-"+strings.TrimPrefix(k, h2aPkg+"."), by[k].pos, by[k].ok,
			name+" is called from "+by[k].in+"; reviewed callers: "+strings.Join(allowed, ", "))
	}
	return len(keys)
}
