package rules

import (
	"fmt"
	"go/token"
	"go/types"
	"sort"
	"strings"

	"golang.org/x/tools/go/ssa"

	"verif/internal/core"
)

// C25 — requests forwarded to backends cannot be split or injected.
func init() {
	Register(&Rule{
		ID: "C25", Section: "5 C25",
		Technique: "taint-style instance table (5 sink operand classes of Request.write/Header.WriteSubset x 3 frontend sources): value-flow of each wire string back to its origin, sanitiser recognition at the sinks (strings.Replacer table, net/url parse gate), validator recognition at the sources (path rules in the HPACK emit closure of readMetaFrame, validator-gate search in the SPDY parser) with the validators' verdict for CR/LF/NUL decided by conditional constant propagation; dominance order of the writes in Request.write; use-after-release search over storage-sharing SSA values for the pooled header sorter; path walk from every body-consuming call to the returns with phi resolution and nil-test bookkeeping (error delivered or known nil)",
		Meta: core.Meta{
			Level:       "other",
			Explanation: "Decides, for every string Request.write / Header.WriteSubset / transferWriter.WriteHeader put on the backend connection: (sinks) the request line is \"%s %s HTTP/1.1\\r\\n\" of (Method, target) and is written before everything else, the Host line is \"Host: %s\\r\\n\", header lines are key \": \" value \"\\r\\n\" with the value passed through headerNewlineToSpace (a Replacer that maps both CR and LF to CR/LF-free text), the header block is terminated by one CRLF after the header lines and before the body, framing headers of the client are excluded from the copied header map, the request-target is either an escaped URL.RequestURI(), or the raw RequestURI only under a successful url.ParseRequestURI of that same string, or the host; (sources) which call produces Method, Host, RequestURI, URL and Header in each of the three frontends (HTTP/1 ReadRequest: the request line / header block read by the line reader; HTTP/2 newWriterAndRequest: MetaHeadersFrame pseudo values and the header map built from RegularFields; SPDY newWriterAndRequest: the header block parsed by parseHeaderValueBlock); (validators) in readMetaFrame's emit closure a field reaches mh.Fields only if validHeaderFieldValue(hf.Value) held and, for non-pseudo fields, validHeaderFieldName(hf.Name) held (every failing verdict stores a non-nil error that is tested before the append and makes readMetaFrame fail), validHeaderFieldValue rejects CR, LF and NUL, validHeaderFieldName accepts only RFC 7230 token bytes; for SPDY a validity gate over name / value bytes must dominate Header.Add in parseHeaderValueBlock (or the request construction). Each (sink, source) pair is discharged by a sink sanitiser or a source validator. (pool) after a pooled serialisation object (headerSorter) is handed back to its free list - send on a package-level channel of pointers, sync.Pool.Put, or a helper doing so - no path uses or returns the object or a value sharing its storage, so the header lines being written cannot be overwritten by a concurrent request. (body) the request on the wire is complete or Request.write says so: in transferWriter.WriteBody, in the bfe_http helpers the body is passed to and at the calls of those functions (Request.write), the error result of every call that consumes the request body (transferWriter.Body, a library wrapper of it such as io.LimitReader, or a parameter bound to it among its operands) is, on every path from the call to a return, either tested to be nil or the error returned (or replaced by a certainly non-nil error); a discarded result or one overwritten by the outcome of a later call (drain, Close) is reported, because body read errors are not sticky and persistConn.writeLoop reuses the backend connection when Write returns nil. Not covered: rewrites by modules between frontend and transport, delivery of errors that are stored into variables that escape (noted), write errors of the buffered backend writer (sticky, surfaced by Flush), SP inside an HTTP/2 :method, bare CR in HTTP/1 lines (the line reader only excludes LF), equality of forwarded and accepted fields, the Trailer announcement line (keys come from validated values). Robustness: the header-line literal is looked for in WriteSubset / writeSubsetWithoutSort and the helpers of the package they call (a value passed to such a helper must be sanitised at every call site, a value returned by one on every return; the key is followed to the map key / keyValues.key through parameters), the request-target through helpers that compute it (every returned value with the facts at that return), write order and origins through private helpers of Request.write / newWriterAndRequest. Not followed: the validators of the HPACK emit closure or of parseHeaderValueBlock moved into a helper that wraps several of them; a conditional fast path around headerNewlineToSpace.Replace is reported (it cannot be told from a missed sanitiser without reasoning about the skipped strings).",
			RuleText:    "obligations = sink shape/order/sanitiser instances, h2 validator path instances, origin of each Request field per frontend, 15 (sink operand, source) pairs, each free-list release site of bfe_http / textproto / bfe_bufio, each body-consuming call with an error result on the request write path",
			Assumptions: []string{"net/url.ParseRequestURI rejects control bytes and (*url.URL).RequestURI() emits an escaped target", "bfe_bufio.Reader.ReadLine returns LF-free lines", "hpack delivers every decoded field to the emit function"},
		},
		Run: runC25,
		Mutants: []Mutant{
			{Name: "silent-header-line-writer-helper", Silent: true, File: "bfe_http/header.go", Old: "\t\t\tfor _, s := range []string{kv.key, \": \", v, \"\\r\\n\"} {\n\t\t\t\tif _, err := ws.WriteString(s); err != nil {\n\t\t\t\t\treturn err\n\t\t\t\t}\n\t\t\t}\n\t\t}\n\t}\n\tselect {\n\tcase headerSorterCache <- sorter:\n\tdefault:\n\t}\n\treturn nil\n}\n", New: "\t\t\tif err := writeHeaderLine(ws, kv.key, v); err != nil {\n\t\t\t\treturn err\n\t\t\t}\n\t\t}\n\t}\n\tselect {\n\tcase headerSorterCache <- sorter:\n\tdefault:\n\t}\n\treturn nil\n}\n\n// writeHeaderLine writes \"name: value\\r\\n\"; value must already be free of CR and LF.\nfunc writeHeaderLine(out writeStringer, name, value string) error {\n\tfor _, part := range []string{name, \": \", value, \"\\r\\n\"} {\n\t\tif _, err := out.WriteString(part); err != nil {\n\t\t\treturn err\n\t\t}\n\t}\n\treturn nil\n}\n"},
			{Name: "silent-request-target-in-helper", Silent: true, File: "bfe_http/request.go", Old: "// extraHeaders may be nil\nfunc (req *Request) write(w io.Writer, usingProxy bool, extraHeaders Header) error {\n\thost := req.Host\n\tif host == \"\" {\n\t\tif req.URL == nil {\n\t\t\treturn errors.New(\"http: Request.Write on Request with no Host or URL set\")\n\t\t}\n\t\thost = req.URL.Host\n\t}\n\n\truri := req.URL.RequestURI()\n\tif usingProxy && req.URL.Scheme != \"\" && req.URL.Opaque == \"\" {\n\t\truri = req.URL.Scheme + \"://\" + host + ruri\n\t} else if req.Method == MethodConnect && req.URL.Path == \"\" {\n\t\t// CONNECT requests normally give just the host and port, not a full URL.\n\t\truri = host\n\t} else {\n\t\t// use req.RequestUri instead of req.URL.RequestURI() (decoded/encoded)\n\t\t// to be compatible with non-standard web server ONLY WHEN URL not changed since\n\t\t// ReadRequest()\n\t\trawurl, err := url.ParseRequestURI(req.RequestURI)\n\t\tif err == nil && rawurl.RequestURI() == ruri {\n\t\t\tif rawurl.Scheme == \"\" && rawurl.Host == \"\" && rawurl.Opaque == \"\" {\n\t\t\t\t// if RequestUri contains Scheme Host Opaque, no replace\n\t\t\t\truri = req.RequestURI\n\t\t\t}\n\t\t}\n\t}\n", New: "// requestTarget returns the request-target to put on the request line.\nfunc (r *Request) requestTarget(viaProxy bool, hostport string) string {\n\tescaped := r.URL.RequestURI()\n\tif viaProxy && r.URL.Scheme != \"\" && r.URL.Opaque == \"\" {\n\t\treturn r.URL.Scheme + \"://\" + hostport + escaped\n\t}\n\tif r.Method == MethodConnect && r.URL.Path == \"\" {\n\t\t// CONNECT requests normally give just the host and port, not a full URL.\n\t\treturn hostport\n\t}\n\t// use r.RequestURI instead of r.URL.RequestURI() (decoded/encoded)\n\t// to be compatible with non-standard web server ONLY WHEN URL not changed since\n\t// ReadRequest()\n\traw, err := url.ParseRequestURI(r.RequestURI)\n\tif err != nil || raw.RequestURI() != escaped {\n\t\treturn escaped\n\t}\n\tif raw.Scheme == \"\" && raw.Host == \"\" && raw.Opaque == \"\" {\n\t\t// if RequestUri contains Scheme Host Opaque, no replace\n\t\treturn r.RequestURI\n\t}\n\treturn escaped\n}\n\n// extraHeaders may be nil\nfunc (req *Request) write(w io.Writer, usingProxy bool, extraHeaders Header) error {\n\thost := req.Host\n\tif host == \"\" {\n\t\tif req.URL == nil {\n\t\t\treturn errors.New(\"http: Request.Write on Request with no Host or URL set\")\n\t\t}\n\t\thost = req.URL.Host\n\t}\n\n\truri := req.requestTarget(usingProxy, host)\n"},
			{Name: "silent-header-terminator-named", Silent: true, File: "bfe_http/request.go", Old: "\tio.WriteString(w, \"\\r\\n\")\n\n\t// flush req header immediately", New: "\tendOfHeader := \"\\r\\n\"\n\tio.WriteString(w, endOfHeader)\n\n\t// flush req header immediately"},
			{Name: "value-not-sanitised", File: "bfe_http/header.go", Old: "	kvs, sorter := h.sortedKeyValues(exclude)\n	for _, kv := range kvs {\n		for _, v := range kv.values {\n			v = headerNewlineToSpace.Replace(v)\n", New: "	kvs, sorter := h.sortedKeyValues(exclude)\n	for _, kv := range kvs {\n		for _, v := range kv.values {\n", Expect: "sink|WriteSubset:value-sanitised"},
			{Name: "replacer-misses-cr", File: "bfe_http/header.go", Old: "strings.NewReplacer(\"\\n\", \" \", \"\\r\", \" \")", New: "strings.NewReplacer(\"\\n\", \" \")", Expect: "sink|headerNewlineToSpace"},
			{Name: "raw-uri-unparsed", File: "bfe_http/request.go", Old: "		if err == nil && rawurl.RequestURI() == ruri {", New: "		if err != nil || rawurl.RequestURI() == ruri {", Expect: "sink|write:target"},
			{Name: "terminator-after-body", File: "bfe_http/request.go", Old: "	io.WriteString(w, \"\\r\\n\")\n\n	// flush req header immediately", New: "	// flush req header immediately", Expect: "sink|write:header-terminator"},
			{Name: "exclude-table-loses-cl", File: "bfe_http/request.go", Old: "	\"Content-Length\":    true,\n	\"Transfer-Encoding\": true,\n	\"Trailer\":           true,\n}", New: "	\"Transfer-Encoding\": true,\n	\"Trailer\":           true,\n}", Expect: "sink|write:exclude-table"},
			{Name: "h2-value-check-dropped", File: "bfe_http2/frame.go", Old: "		if !validHeaderFieldValue(hf.Value) {\n			invalid = headerFieldValueError(hf.Value)\n		}\n", New: "", Expect: "h2-validate|readMetaFrame:value-checked"},
			{Name: "h2-name-error-not-recorded", File: "bfe_http2/frame.go", Old: "			if !validHeaderFieldName(hf.Name) {\n				invalid = headerFieldNameError(hf.Name)\n			}", New: "			if !validHeaderFieldName(hf.Name) {\n				sawRegular = true\n			}", Expect: "h2-validate|readMetaFrame:name-checked"},
			{Name: "h2-invalid-not-tested", File: "bfe_http2/frame.go", Old: "		if invalid != nil {\n			hdec.SetEmitEnabled(false)\n			return nil\n		}\n", New: "", Expect: "h2-validate|readMetaFrame:append-guarded"},
			{Name: "h2-value-allows-lf", File: "bfe_http2/http2.go", Old: "		if b := v[i]; b < ' ' && b != '\\t' || b == 0x7f {", New: "		if b := v[i]; b < '\\n' && b != '\\t' || b == 0x7f {", Expect: "h2-validate|validHeaderFieldValue"},
			{Name: "h2-name-table-colon", File: "bfe_http2/http2.go", Old: "var isTokenTable = [127]bool{\n	'!':  true,", New: "var isTokenTable = [127]bool{\n	':':  true,\n	'!':  true,", Expect: "h2-validate|validHeaderFieldName"},
			{Name: "h2-target-unparsed", File: "bfe_http2/server.go", Old: "		url_, err = url.ParseRequestURI(path)\n		if err != nil {", New: "		url_, err = url.ParseRequestURI(path)\n		if err != nil && path == \"\" {", Expect: "source|h2:target-parsed"},
			{Name: "h2-method-from-header", File: "bfe_http2/server.go", Old: "		Method:     method,\n		URL:        url_,", New: "		Method:     header.Get(\"X-Http-Method-Override\"),\n		URL:        url_,", Expect: "source|h2:Method"},
			{Name: "sorter-released-before-write-loop", File: "bfe_http/header.go", Old: "	kvs, sorter := h.sortedKeyValues(exclude)\n	for _, kv := range kvs {\n		for _, v := range kv.values {\n			v = headerNewlineToSpace.Replace(v)\n", New: "	kvs, sorter := h.sortedKeyValues(exclude)\n	select {\n	case headerSorterCache <- sorter:\n	default:\n	}\n	for _, kv := range kvs {\n		for _, v := range kv.values {\n			v = headerNewlineToSpace.Replace(v)\n", Expect: "pool-release|"},
			{Name: "sorter-released-by-producer", File: "bfe_http/header.go", Old: "	hs.kvs = kvs\n	sort.Sort(hs)\n	return kvs, hs", New: "	hs.kvs = kvs\n	sort.Sort(hs)\n	select {\n	case headerSorterCache <- hs:\n	default:\n	}\n	return kvs, nil", Expect: "pool-release|"},
			{Name: "silent-release-through-helper", Silent: true, File: "bfe_http/header.go", Old: "	select {\n	case headerSorterCache <- sorter:\n	default:\n	}\n	return nil\n}\n", New: "	putHeaderSorter(sorter)\n	return nil\n}\n\nfunc putHeaderSorter(hs *headerSorter) {\n	select {\n	case headerSorterCache <- hs:\n	default:\n	}\n}\n"},
			{Name: "silent-write-logging", Silent: true, File: "bfe_http/request.go", Old: "	// Header lines\n	fmt.Fprintf(w, \"Host: %s\\r\\n\", host)", New: "	// Header lines\n	hostLine := host\n	fmt.Fprintf(w, \"Host: %s\\r\\n\", hostLine)"},
			{Name: "body-copy-error-discarded", File: "bfe_http/transfer.go", Old: "			ncopy, err = io.Copy(w, t.Body)\n", New: "			ncopy, _ = io.Copy(w, t.Body)\n", Expect: "body-error|bfe_http.transferWriter.WriteBody:io.Copy#2"},
			{Name: "chunked-copy-error-overwritten", File: "bfe_http/transfer.go", Old: "			if err == nil {\n				err = cw.Close()\n			}\n", New: "			err = cw.Close()\n", Expect: "body-error|bfe_http.transferWriter.WriteBody:io.Copy"},
			{Name: "limited-copy-error-overwritten-by-drain", File: "bfe_http/transfer.go", Old: "			ncopy, err = io.Copy(w, io.LimitReader(t.Body, t.ContentLength))\n			if err != nil {\n				return\n			}\n", New: "			ncopy, err = io.Copy(w, io.LimitReader(t.Body, t.ContentLength))\n", Expect: "body-error|bfe_http.transferWriter.WriteBody:io.Copy#3"},
			{Name: "writebody-error-ignored", File: "bfe_http/request.go", Old: "	n, err := tw.WriteBody(w)\n	if err != nil {\n		return err\n	}\n", New: "	n, _ := tw.WriteBody(w)\n", Expect: "body-error|bfe_http.Request.write:"},
			{Name: "silent-fixed-length-copy-in-helper", Silent: true, File: "bfe_http/transfer.go", Old: "			ncopy, err = io.Copy(w, io.LimitReader(t.Body, t.ContentLength))\n			if err != nil {\n				return\n			}\n			var nextra int64\n			nextra, err = io.Copy(ioutil.Discard, t.Body)\n			ncopy += nextra\n		}\n		if err != nil {\n			return\n		}\n		if err = t.BodyCloser.Close(); err != nil {\n			return\n		}\n	}\n\n	if !t.ResponseToHEAD && t.ContentLength != -1 && t.ContentLength != ncopy {\n		err = fmt.Errorf(\"http: Request.ContentLength=%d with Body length %d\",\n			t.ContentLength, ncopy)\n		return\n	}\n\n	// TODO(petar): Place trailer writer code here.\n	if chunked(t.TransferEncoding) {\n		// Last chunk, empty trailer\n		_, err = io.WriteString(w, \"\\r\\n\")\n	}\n\n	return\n}\n\n", New: "			ncopy, err = copyFixedLengthBody(w, t.Body, t.ContentLength)\n		}\n		if err != nil {\n			return\n		}\n		if err = t.BodyCloser.Close(); err != nil {\n			return\n		}\n	}\n\n	if !t.ResponseToHEAD && t.ContentLength != -1 && t.ContentLength != ncopy {\n		err = fmt.Errorf(\"http: Request.ContentLength=%d with Body length %d\",\n			t.ContentLength, ncopy)\n		return\n	}\n\n	// TODO(petar): Place trailer writer code here.\n	if chunked(t.TransferEncoding) {\n		// Last chunk, empty trailer\n		_, err = io.WriteString(w, \"\\r\\n\")\n	}\n\n	return\n}\n\n// copyFixedLengthBody copies the first length bytes of body to w. Anything\n// body yields beyond that is consumed and counted, but not written.\nfunc copyFixedLengthBody(w io.Writer, body io.Reader, length int64) (n int64, err error) {\n	n, err = io.Copy(w, io.LimitReader(body, length))\n	if err != nil {\n		return n, err\n	}\n	nextra, err := io.Copy(ioutil.Discard, body)\n	return n + nextra, err\n}\n\n"},
		},
	})
}

// ------------------------------------------------------------ origins

// c25Origins walks a string value back to the calls / fields that produce it.
type c25Walker struct {
	c    *core.Ctx
	seen map[ssa.Value]bool
	out  map[string]bool
}

func c25Origins(c *core.Ctx, v ssa.Value) []string {
	w := &c25Walker{c: c, seen: map[ssa.Value]bool{}, out: map[string]bool{}}
	w.walk(v, 0)
	var s []string
	for k := range w.out {
		s = append(s, k)
	}
	sort.Strings(s)
	return s
}

var c25PureString = map[string]bool{
	"strings.Join": true, "strings.TrimSpace": true, "strings.ToLower": true, "strings.ToUpper": true,
	"bfe_http.valueOrDefault": true, "bfe_http2.serverConn.canonicalHeader": true, "bfe_http.CanonicalHeaderKey": true,
	"bfe_net/textproto.CanonicalMIMEHeaderKey": true, "bfe_net/textproto.TrimString": true,
}

func (w *c25Walker) headerOrigin(h ssa.Value) string {
	h = h1aResolve(core.StripConv(h))
	switch x := h.(type) {
	case *ssa.MakeMap:
		return "local-map"
	case *ssa.UnOp:
		if fa, ok := x.X.(*ssa.FieldAddr); ok && x.Op == token.MUL {
			if _, isParam := fa.X.(*ssa.Parameter); isParam {
				return "field:" + core.TypeStr(fa.X.Type()) + "." + c25FieldName(fa.X.Type(), fa.Field)
			}
		}
	case *ssa.Extract:
		if call, ok := x.Tuple.(*ssa.Call); ok {
			return "result:" + core.CalleeKey(&call.Call) + fmt.Sprintf("#%d", x.Index)
		}
	case *ssa.Parameter:
		return "param"
	}
	return "?" + core.Render(h)
}

func (w *c25Walker) walk(v ssa.Value, d int) {
	if v == nil {
		return
	}
	v = h1aResolve(core.StripConv(v))
	if w.seen[v] {
		return
	}
	w.seen[v] = true
	if d > 12 {
		w.out["?deep"] = true
		return
	}
	switch x := v.(type) {
	case *ssa.Const:
		w.out["const"] = true
	case *ssa.Phi:
		for _, e := range x.Edges {
			w.walk(e, d+1)
		}
	case *ssa.BinOp:
		if x.Op == token.ADD {
			w.walk(x.X, d+1)
			w.walk(x.Y, d+1)
			return
		}
		w.out["?"+core.Render(x)] = true
	case *ssa.Slice:
		w.walk(x.X, d+1)
	case *ssa.Extract:
		if call, ok := x.Tuple.(*ssa.Call); ok {
			w.out["result:"+core.CalleeKey(&call.Call)+fmt.Sprintf("#%d", x.Index)] = true
			return
		}
		// the key of a range over a header map
		if nx, ok := x.Tuple.(*ssa.Next); ok && x.Index == 1 {
			if rg, ok := nx.Iter.(*ssa.Range); ok && h1cIsStringListMap(rg.X.Type()) {
				w.out["header-key"] = true
				return
			}
		}
		w.out["?"+core.Render(x)] = true
	case *ssa.Parameter:
		// a parameter of a helper of the package: what its call sites pass
		fn := x.Parent()
		sites := h1rSites(fn)
		idx := -1
		for i, q := range fn.Params {
			if q == x {
				idx = i
			}
		}
		if idx < 0 || len(sites) == 0 || !h1rIsHelperLike(fn) {
			w.out["?"+core.Render(x)] = true
			return
		}
		for _, s := range sites {
			if idx < len(s.Common().Args) {
				w.walk(s.Common().Args[idx], d+1)
			} else {
				w.out["?"+core.Render(x)] = true
			}
		}
	case *ssa.Field:
		w.out["field:"+strings.TrimPrefix(core.TypeStr(x.X.Type()), "*")+"."+c25FieldName(x.X.Type(), x.Field)] = true
	case *ssa.Lookup:
		if core.TypeStr(x.X.Type()) == "bfe_http.Header" {
			w.out["header-value("+w.headerOrigin(x.X)+")"] = true
			return
		}
		w.out["?"+core.Render(x)] = true
	case *ssa.Call:
		k := core.CalleeKey(&x.Call)
		switch {
		case c25PureString[k]:
			for i, a := range x.Call.Args {
				if i == 0 && x.Call.Signature().Recv() != nil {
					continue
				}
				w.walk(a, d+1)
			}
		case k == "bfe_http.Header.Get" || k == "bfe_http.Header.GetDirect":
			w.out["header-value("+w.headerOrigin(x.Call.Args[0])+")"] = true
		case k == "bfe_http2.MetaHeadersFrame.PseudoValue":
			w.out["h2-pseudo-value"] = true
		case k == "net/url.URL.RequestURI" || k == "net/url.URL.String":
			w.out["escaped-url"] = true
		default:
			w.out["call:"+k] = true
		}
	case *ssa.UnOp:
		if x.Op != token.MUL {
			w.out["?"+core.Render(x)] = true
			return
		}
		switch a := x.X.(type) {
		case *ssa.FieldAddr:
			t := core.TypeStr(a.X.Type())
			fname := c25FieldName(a.X.Type(), a.Field)
			switch {
			case strings.HasSuffix(t, "net/url.URL"):
				w.out["url-field:"+fname] = true
			case strings.HasSuffix(t, "hpack.HeaderField"):
				w.out["h2-field:"+fname] = true
			default:
				w.out["field:"+strings.TrimPrefix(t, "*")+"."+fname] = true
			}
		case *ssa.IndexAddr:
			w.walk(a.X, d+1)
		default:
			w.out["?"+core.Render(x)] = true
		}
	default:
		w.out["?"+core.Render(v)] = true
	}
}

func c25Subset(got []string, allowed ...string) bool {
	for _, g := range got {
		ok := false
		for _, a := range allowed {
			if g == a {
				ok = true
			}
		}
		if !ok {
			return false
		}
	}
	return len(got) > 0
}

// c25RequestStores finds `&bfe_http.Request{…}` composite literals in fn and
// returns the field stores of the first one.
func c25RequestStores(fn *ssa.Function) (map[string]*ssa.Store, *ssa.Alloc) {
	var found *ssa.Alloc
	h1rRegionInstrs(fn, func(in ssa.Instruction) {
		if al, ok := in.(*ssa.Alloc); ok && found == nil && core.TypeStr(al.Type()) == "*bfe_http.Request" && al.Heap {
			found = al
		}
	})
	out := map[string]*ssa.Store{}
	if found == nil || found.Referrers() == nil {
		return out, nil
	}
	for _, r := range *found.Referrers() {
		fa, ok := r.(*ssa.FieldAddr)
		if !ok || fa.Referrers() == nil {
			continue
		}
		for _, rr := range *fa.Referrers() {
			if st, ok := rr.(*ssa.Store); ok && st.Addr == fa {
				out[c25FieldName(fa.X.Type(), fa.Field)] = st
			}
		}
	}
	return out, found
}

func c25FieldName(t types.Type, i int) string {
	if p, ok := t.Underlying().(*types.Pointer); ok {
		t = p.Elem()
	}
	if st, ok := t.Underlying().(*types.Struct); ok && i < st.NumFields() {
		return st.Field(i).Name()
	}
	return fmt.Sprintf("f%d", i)
}

func runC25(c *core.Ctx) {
	h1aDebugDump(c)
	if c.P.Pkg("bfe_http") == nil {
		c.Missing("bfe_http")
		return
	}
	defer h1rRegister(c.P)()
	h1rAnchors(c.P, "bfe_http", "Request.write", "transferWriter.WriteBody", "transferWriter.WriteHeader", "Header.WriteSubset", "Header.writeSubsetWithoutSort",
		"Header.sortedKeyValues", "ReadRequest", "parseRequestLine", "valueOrDefault", "chunked", "readTransfer", "newChunkedWriter")
	h1rAnchors(c.P, "bfe_http2", "Framer.readMetaFrame", "validHeaderFieldValue", "validHeaderFieldName", "serverConn.newWriterAndRequest", "serverConn.canonicalHeader",
		"headerFieldValueError", "headerFieldNameError")
	h1rAnchors(c.P, "bfe_spdy", "serverConn.newWriterAndRequest", "parseHeaderValueBlock", "Framer.readSynStreamFrame")
	h1rAnchors(c.P, "bfe_net/textproto", "Reader.ReadLine", "Reader.readContinuedLineSlice", "Reader.readLineSlice", "Reader.ReadMIMEHeaderAndKeys")
	fx := h1aNewFacts()
	st := &c25State{sinkSanitised: map[string]bool{}, validated: map[string]map[string]bool{"h1": {}, "h2": {}, "spdy": {}}, origins: map[string]map[string]bool{"h1": {}, "h2": {}, "spdy": {}}, why: map[string]string{}}
	c25Sinks(c, fx, st)
	c25H2(c, fx, st)
	c25H1(c, fx, st)
	c25Spdy(c, fx, st)
	c25Matrix(c, st)
	c25PoolRelease(c)
	c25BodyErrors(c, fx)
}

// ------------------------------------------------------------ body copy errors are delivered

// c25BodyErrors: Request.write tells its caller (persistConn.writeLoop) whether
// the bytes on the backend connection form one complete request; after an
// error the connection is not reused. A read error of the client body is not
// sticky (a deadline that fires once), so the error result of every call that
// consumes the body - a call with transferWriter.Body, a wrapper of it or a
// parameter bound to it among its operands, in transferWriter.WriteBody and the
// bfe_http helpers it passes the body to, and the calls of those functions -
// must on every path to a return either be known to be nil or be (part of) the
// error returned. An error that is dropped, or overwritten by the outcome of a
// later call, leaves a truncated request on a connection that is reused: the
// next forwarded request is read by the backend as the rest of this body.
func c25BodyErrors(c *core.Ctx, fx *h1aFacts) {
	const pkg = "bfe_http"
	const rule = "body-error"
	c.Min(rule, 4)
	wb := c.P.Func(pkg, "transferWriter.WriteBody")
	rw := c.P.Func(pkg, "Request.write")
	bodyFld, _ := c.P.Obj(pkg, "transferWriter.Body").(*types.Var)
	if wb == nil || rw == nil || bodyFld == nil {
		c.Missing(pkg + ".transferWriter.WriteBody / Request.write / transferWriter.Body")
		return
	}
	carries := map[*ssa.Function]map[int]bool{}
	var carrying func(v ssa.Value, fn *ssa.Function, d int) bool
	carrying = func(v ssa.Value, fn *ssa.Function, d int) bool {
		v = core.StripConv(v)
		if d > 6 {
			return false
		}
		switch x := v.(type) {
		case *ssa.UnOp:
			if fa, ok := x.X.(*ssa.FieldAddr); ok && x.Op == token.MUL && core.FieldObj(fa.X, fa.Field) == bodyFld {
				return true
			}
		case *ssa.Field:
			return core.FieldObj(x.X, x.Field) == bodyFld
		case *ssa.Parameter:
			for i, p := range fn.Params {
				if p == x && carries[fn][i] {
					return true
				}
			}
		case *ssa.Phi:
			for _, e := range x.Edges {
				if carrying(e, fn, d+1) {
					return true
				}
			}
		case *ssa.TypeAssert:
			return carrying(x.X, fn, d+1)
		case *ssa.Extract:
			return carrying(x.Tuple, fn, d+1)
		case *ssa.Call:
			// a wrapper made by code outside the module (io.LimitReader, bufio.NewReader, io.TeeReader ...)
			if sc := x.Call.StaticCallee(); sc != nil && core.FuncPkgRel(sc) == "" && sh1IsRef(x.Type()) {
				for _, a := range x.Call.Args {
					if carrying(a, fn, d+1) {
						return true
					}
				}
			}
		}
		return false
	}
	scope := []*ssa.Function{wb}
	inScope := map[*ssa.Function]bool{wb: true}
	for round := 0; round < 4; round++ {
		for i := 0; i < len(scope) && len(scope) < 24; i++ {
			fn := scope[i]
			for _, ci := range core.AllCalls(fn) {
				sc := ci.Common().StaticCallee()
				if sc == nil || sc.Blocks == nil || core.FuncPkgRel(sc) != pkg {
					continue
				}
				for ai, a := range ci.Common().Args {
					if ai < len(sc.Params) && carrying(a, fn, 0) {
						if carries[sc] == nil {
							carries[sc] = map[int]bool{}
						}
						carries[sc][ai] = true
						if !inScope[sc] {
							inScope[sc] = true
							scope = append(scope, sc)
						}
					}
				}
			}
		}
	}
	n := map[string]int{}
	for _, fn := range append(append([]*ssa.Function{}, scope...), rw) {
		c.Analysed(core.FuncKey(fn))
		core.Instrs(fn, func(in ssa.Instruction) {
			ci, isCI := in.(ssa.CallInstruction)
			if !isCI {
				return
			}
			cc := ci.Common()
			consumes := false
			vals := append([]ssa.Value{}, cc.Args...)
			if cc.IsInvoke() {
				vals = append(vals, cc.Value)
			}
			for _, a := range vals {
				if carrying(a, fn, 0) {
					consumes = true
				}
			}
			if sc := cc.StaticCallee(); sc != nil && inScope[sc] {
				consumes = true
			}
			res := cc.Signature().Results()
			if !consumes || res.Len() == 0 || !h1cIsErrorType(res.At(res.Len()-1).Type()) {
				return
			}
			key := h1bOrd(uuShort(fn)+":"+core.CalleeKey(cc), n)
			what := "the error of " + core.CalleeKey(cc) + " (it consumes the request body) in " + uuShort(fn)
			tail := ": a body read error that does not repeat (a client read deadline that fires once) is then not reported by Request.Write, the backend connection is kept for reuse with an incomplete request on it and the next forwarded request is taken as the rest of this body"
			call, isCall := in.(*ssa.Call)
			if !isCall {
				c.Check(rule, key, in.Pos(), false, what+" is dropped (go / defer)"+tail)
				return
			}
			e, _ := h1cErrResult(call)
			if e == nil {
				c.Check(rule, key, in.Pos(), false, what+" is discarded: the result is never used (assigned to _ or overwritten before any use)"+tail)
				return
			}
			if h1cEscapes(e) {
				c.Check(rule, key, in.Pos(), true, "")
				c.Note("%s: the error is stored / passed on; its delivery is not followed", key)
				return
			}
			lost, why, complete := h1cErrLost(call, e, fx)
			switch {
			case lost != nil:
				c.Check(rule, key, in.Pos(), false, what+" can be non-nil on a path to the return at "+c.P.Pos(lost.Pos())+" where "+why+" instead of that error"+tail)
			case !complete:
				c.Check(rule, key, in.Pos(), false, what+": too many paths to the returns to establish that it is delivered")
			default:
				c.Check(rule, key, in.Pos(), true, "")
			}
		})
	}
}

// ------------------------------------------------------------ pooled serialisation buffers

// c25PoolRelease: the header lines written to a backend are iterated out of
// pooled scratch storage (headerSorter). Once an object is handed back to its
// free list another goroutine may take and overwrite it, so after a release
// (send on a package-level channel of pointers, sync.Pool.Put, or a helper
// doing that with its parameter) no instruction on any path may use - or
// return - the released object or a value sharing its storage (loaded from /
// stored into its fields, re-slices and appends of those, other results of the
// producing call when the callee returns storage-sharing results).
func c25PoolRelease(c *core.Ctx) {
	const rule = "pool-release"
	c.Min(rule, 2)
	scope := c.P.SrcFuncs("bfe_http", "bfe_net/textproto", "bfe_bufio")
	pool := sh1NewPool(scope)
	n := map[string]int{}
	for _, fn := range scope {
		for _, r := range pool.Sites(fn) {
			c.Analysed(core.FuncKey(fn))
			hit, val := pool.UseAfter(fn, r)
			detail := ""
			if hit != nil {
				detail = core.Render(r.Val) + " is handed back to the free list (" + r.Where + ") and afterwards " + core.Render(val) + ", which shares its storage, is still used at " + c.P.Pos(hit.Pos()) +
					" (" + strings.TrimSpace(hit.String()) + "): another goroutine can take the pooled object and overwrite that storage while it is still being read, so the header fields written to a backend can be those of a different request"
			}
			c.Check(rule, h1bOrd(core.FuncKey(fn)+":release", n), r.At.Pos(), hit == nil, detail)
		}
	}
}

type c25State struct {
	sinkSanitised map[string]bool            // sink operand class -> sanitised at the sink
	validated     map[string]map[string]bool // source -> "name"/"value" -> validator present
	origins       map[string]map[string]bool // source -> field -> origin established
	why           map[string]string
}

// ------------------------------------------------------------ sinks

func c25IsWriteString(ci ssa.CallInstruction, w ssa.Value, s string) bool {
	cc := ci.Common()
	if !core.CallIs(cc, "io.WriteString") || len(cc.Args) != 2 {
		return false
	}
	k, ok := core.ConstString(cc.Args[1])
	return ok && k == s && (w == nil || cc.Args[0] == w || h1aRes(cc.Args[0]) == h1aRes(w))
}

// c25GlobalMapKeys returns the constant string keys (with value true) of a
// package-level map literal, read from the package initialiser.
func c25GlobalMapKeys(p *ssa.Package, name string) map[string]bool {
	out := map[string]bool{}
	g, ok := p.Members[name].(*ssa.Global)
	init := p.Func("init")
	if !ok || init == nil {
		return nil
	}
	var mm ssa.Value
	core.Instrs(init, func(in ssa.Instruction) {
		if st, ok := in.(*ssa.Store); ok && st.Addr == ssa.Value(g) {
			mm = st.Val
		}
	})
	if mm == nil || mm.Referrers() == nil {
		return nil
	}
	for _, r := range *mm.Referrers() {
		if mu, ok := r.(*ssa.MapUpdate); ok {
			k, isK := core.ConstString(mu.Key)
			b, isB := h1aConstBool(mu.Value)
			if isK && isB && b {
				out[k] = true
			}
		}
	}
	return out
}

// c25Sanitised: v went through headerNewlineToSpace.Replace (possibly trimmed
// afterwards). A call of a function of the module is followed into its returned
// values (every one must be sanitised), a parameter of a helper to the
// arguments at all of its call sites.
func c25Sanitised(v ssa.Value, d int) bool {
	if d > 5 {
		return false
	}
	switch x := h1aResolve(v).(type) {
	case *ssa.Call:
		if core.CallIs(&x.Call, "strings.Replacer.Replace") && len(x.Call.Args) == 2 {
			if ld, ok := x.Call.Args[0].(*ssa.UnOp); ok {
				if g, ok := ld.X.(*ssa.Global); ok && g.Name() == "headerNewlineToSpace" {
					return true
				}
			}
			return false
		}
		if core.CallIs(&x.Call, "bfe_net/textproto.TrimString", "strings.TrimSpace") && len(x.Call.Args) == 1 {
			return c25Sanitised(x.Call.Args[0], d+1)
		}
		sc := x.Call.StaticCallee()
		if sc == nil || sc.Blocks == nil || core.FuncPkgRel(sc) == "" || x.Call.Signature().Results().Len() != 1 {
			return false
		}
		rets := core.Returns(sc)
		for _, r := range rets {
			rv := core.RetVals(r)
			if len(rv) != 1 || !c25Sanitised(rv[0], d+1) {
				return false
			}
		}
		return len(rets) > 0
	case *ssa.Phi:
		for _, e := range x.Edges {
			if !c25Sanitised(e, d+1) {
				return false
			}
		}
		return len(x.Edges) > 0
	case *ssa.Parameter:
		fn := x.Parent()
		sites := h1rSites(fn)
		if len(sites) == 0 || !h1rIsHelperLike(fn) {
			return false
		}
		for i, q := range fn.Params {
			if q != x {
				continue
			}
			for _, s := range sites {
				if i >= len(s.Common().Args) || !c25Sanitised(s.Common().Args[i], d+1) {
					return false
				}
			}
			return true
		}
	}
	return false
}

func c25Sinks(c *core.Ctx, fx *h1aFacts, st *c25State) {
	const pkg = "bfe_http"
	c.Min("sink", 14)
	fn := c.P.Func(pkg, "Request.write")
	if fn == nil {
		c.Missing(pkg + ".Request.write")
		return
	}
	c.Analysed(core.FuncKey(fn))
	var reqLine, hostLine ssa.CallInstruction
	for _, ci := range h1rRegionCalls(fn, "fmt.Fprintf") {
		f, _ := core.ConstString(ci.Common().Args[1])
		switch {
		case strings.HasPrefix(f, "%s %s HTTP/1."):
			reqLine = ci
		case strings.HasPrefix(f, "Host:"):
			hostLine = ci
		default:
			c.Check("sink", "write:other-format", ci.Pos(), false, fmt.Sprintf("unreviewed formatted write %q in Request.write", f))
		}
	}
	if reqLine == nil || hostLine == nil {
		c.Check("sink", "write:request-line-format", fn.Pos(), false, "the request line / Host line writes were not found in Request.write")
		return
	}
	w := reqLine.Common().Args[0]
	f, _ := core.ConstString(reqLine.Common().Args[1])
	ops := h1aVarargs(reqLine.Common().Args[2])
	c.Check("sink", "write:request-line-format", reqLine.Pos(), f == "%s %s HTTP/1.1\r\n" && len(ops) == 2, fmt.Sprintf("the request line must be written as \"%%s %%s HTTP/1.1\\r\\n\" of (method, target); format %q with %d operands", f, len(ops)))
	hf, _ := core.ConstString(hostLine.Common().Args[1])
	hops := h1aVarargs(hostLine.Common().Args[2])
	c.Check("sink", "write:host-line-format", hostLine.Pos(), hf == "Host: %s\r\n" && len(hops) == 1 && h1aRes(hostLine.Common().Args[0]) == h1aRes(w), fmt.Sprintf("the Host line must be \"Host: %%s\\r\\n\" on the same writer; format %q", hf))
	if len(ops) == 2 {
		mo := c25Origins(c, ops[0])
		c.Check("sink", "write:method-operand", reqLine.Pos(), c25Subset(mo, "field:bfe_http.Request.Method", "const"), "the method written is "+strings.Join(mo, ", ")+", expected Request.Method (default GET)")
		// request-target: every leaf (phi edges, and the values returned by a
		// helper of the package that computes the target) with the facts that
		// hold where that leaf is chosen
		type leaf struct {
			v  ssa.Value
			fs []h1aFact
		}
		var leaves []leaf
		var collect func(v ssa.Value, fs []h1aFact, d int)
		collect = func(v ssa.Value, fs []h1aFact, d int) {
			v = core.StripConv(v)
			if d < 4 {
				if phi, ok := v.(*ssa.Phi); ok {
					for i, e := range phi.Edges {
						collect(e, append(append([]h1aFact{}, fs...), fx.Edge(phi.Block().Preds[i], phi.Block())...), d+1)
					}
					return
				}
				if call, ok := v.(*ssa.Call); ok {
					if h := call.Call.StaticCallee(); h != nil && h1rIsHelperLike(h) && core.FuncPkgRel(h) == pkg && call.Call.Signature().Results().Len() == 1 {
						for _, r := range core.Returns(h) {
							collect(core.RetVals(r)[0], append(append([]h1aFact{}, fs...), fx.At(r.Block())...), d+1)
						}
						return
					}
				}
			}
			leaves = append(leaves, leaf{v, fs})
		}
		collect(ops[1], fx.At(reqLine.Block()), 0)
		var parses []*ssa.Call
		for _, g := range h1rClosure(fn) {
			for _, pc := range core.Calls(g, "net/url.ParseRequestURI") {
				if call, isCall := pc.(*ssa.Call); isCall {
					parses = append(parses, call)
				}
			}
		}
		allOK := true
		kinds := map[string]bool{}
		for _, lf := range leaves {
			l := lf.v
			og := c25Origins(c, l)
			kind := strings.Join(og, "+")
			ok := true
			for _, o := range og {
				switch o {
				case "escaped-url", "const", "url-field:Scheme", "url-field:Host", "field:bfe_http.Request.Host":
				case "field:bfe_http.Request.RequestURI":
					// only under a successful parse of that very string
					gated := false
					for _, call := range parses {
						if !h1aErrIs(lf.fs, call, 1, true) {
							continue
						}
						if ao := c25Origins(c, call.Call.Args[0]); c25Subset(ao, "field:bfe_http.Request.RequestURI") {
							gated = true
						}
					}
					if !gated {
						ok = false
						kind += "(unparsed)"
					}
				default:
					ok = false
				}
			}
			kinds[kind] = true
			if !ok {
				allOK = false
				c.Check("sink", "write:target:"+kind, reqLine.Pos(), false, "the request-target written can be "+core.Render(l)+": neither an escaped URL.RequestURI(), nor Request.RequestURI under a successful url.ParseRequestURI of it, nor the host")
			}
		}
		var ks []string
		for k := range kinds {
			ks = append(ks, k)
		}
		sort.Strings(ks)
		c.Check("sink", "write:target", reqLine.Pos(), allOK && len(leaves) > 0, "request-target forms: "+strings.Join(ks, " | "))
		st.sinkSanitised["target"] = allOK && len(leaves) > 0
	}
	if len(hops) == 1 {
		ho := c25Origins(c, hops[0])
		c.Check("sink", "write:host-operand", hostLine.Pos(), c25Subset(ho, "field:bfe_http.Request.Host", "url-field:Host"), "the Host value written is "+strings.Join(ho, ", ")+", expected Request.Host or URL.Host")
	}
	// order
	var tw, ws, term, body ssa.CallInstruction
	for _, ci := range h1rRegionAllCalls(fn) {
		switch {
		case core.CallIs(ci.Common(), pkg+".transferWriter.WriteHeader"):
			tw = ci
		case core.CallIs(ci.Common(), pkg+".Header.WriteSubset"):
			ws = ci
		case core.CallIs(ci.Common(), pkg+".transferWriter.WriteBody"):
			body = ci
		case c25IsWriteString(ci, w, "\r\n"):
			term = ci
		}
	}
	if tw == nil || ws == nil || body == nil {
		c.Check("sink", "write:order", fn.Pos(), false, "transferWriter.WriteHeader / Header.WriteSubset / transferWriter.WriteBody not all found in Request.write")
	} else {
		dom := func(a, b ssa.CallInstruction) bool { return h1rDominates(a.(ssa.Instruction), b.(ssa.Instruction), fn) }
		c.Check("sink", "write:order", fn.Pos(), dom(reqLine, hostLine) && dom(reqLine, tw) && dom(reqLine, ws) && dom(hostLine, body) && dom(tw, body) && dom(ws, body),
			"the request line must be written first and all header lines before the body")
		okTerm := term != nil && dom(ws, term) && dom(tw, term) && dom(hostLine, term) && dom(term, body)
		if okTerm {
			// exactly one bare CRLF on w
			n := 0
			for _, ci := range h1rRegionAllCalls(fn) {
				if c25IsWriteString(ci, w, "\r\n") {
					n++
				}
			}
			okTerm = n == 1
		}
		c.Check("sink", "write:header-terminator", fn.Pos(), okTerm, "exactly one empty line (CRLF) must be written after all header lines and before the body")
		// exclusion table
		excl := false
		if ld, ok := h1aRes(ws.Common().Args[2]).(*ssa.UnOp); ok {
			if g, ok := ld.X.(*ssa.Global); ok && g.Name() == "reqWriteExcludeHeader" {
				excl = true
			}
		}
		keys := c25GlobalMapKeys(c.P.SPkg[pkg], "reqWriteExcludeHeader")
		var missing []string
		for _, k := range []string{"Host", "Content-Length", "Transfer-Encoding", "Trailer"} {
			if !keys[k] {
				missing = append(missing, k)
			}
		}
		c.Check("sink", "write:exclude-table", ws.Pos(), excl && len(missing) == 0, fmt.Sprintf("the client's header map must be copied without the fields Request.write emits itself (Host, Content-Length, Transfer-Encoding, Trailer): a second, client-controlled framing line would otherwise follow the computed one; missing %v, table used=%v", missing, excl))
		c.Check("sink", "write:header-map", ws.Pos(), len(fn.Params) > 0 && h1rLoadOfField(h1aRes(ws.Common().Args[0]), fn.Params[0], "Header") && h1aRes(ws.Common().Args[1]) == h1aRes(w), "WriteSubset must write req.Header to the same writer")
	}
	// Header.WriteSubset (+ unsorted variant when present)
	valueOK, n := true, 0
	for _, name := range []string{"Header.WriteSubset", "Header.writeSubsetWithoutSort"} {
		hfn := c.P.Func(pkg, name)
		if hfn == nil {
			if name == "Header.WriteSubset" {
				c.Missing(pkg + "." + name)
				valueOK = false
			}
			continue
		}
		c.Analysed(core.FuncKey(hfn))
		short := strings.TrimPrefix(name, "Header.")
		// the {key, ": ", value, CRLF} literal(s) written by the function or by the
		// helpers of the package it calls
		var lits []*ssa.Alloc
		for _, g := range h1rClosure(hfn) {
			core.Instrs(g, func(in ssa.Instruction) {
				if al, ok := in.(*ssa.Alloc); ok && al.Comment == "slicelit" && strings.HasSuffix(core.TypeStr(al.Type()), "]string") {
					lits = append(lits, al)
				}
			})
		}
		if len(lits) == 0 {
			c.Check("sink", short+":line-shape", hfn.Pos(), false, "no {key, \": \", value, CRLF} literal found in "+name+" or the helpers it calls")
			valueOK = false
			continue
		}
		n++
		for _, lit := range lits {
			el := h1aArrayLitStores(lit)
			sep, _ := core.ConstString(el[1])
			end, _ := core.ConstString(el[3])
			c.Check("sink", short+":line-shape", lit.Pos(), len(el) == 4 && sep == ": " && end == "\r\n", fmt.Sprintf("a header line must be key \": \" value CRLF; separator %q terminator %q (%d parts)", sep, end, len(el)))
			san := len(el) == 4 && c25Sanitised(el[2], 0)
			c.Check("sink", short+":value-sanitised", lit.Pos(), san, "the field value is written as "+core.Render(el[2])+" without passing headerNewlineToSpace.Replace: a CR or LF inside a value would start a new header line or request")
			if !san {
				valueOK = false
			}
			if len(el) == 4 {
				ko := c25Origins(c, el[0])
				c.Check("sink", short+":key-operand", lit.Pos(), c25Subset(ko, "header-key", "field:bfe_http.keyValues.key"), "the field name written is "+strings.Join(ko, ", ")+" (expected the map key, unsanitised: names rely on the frontends' validators)")
			}
		}
	}
	// the replacer table
	okRep := false
	why := "headerNewlineToSpace initialiser not found"
	if sp := c.P.SPkg[pkg]; sp != nil {
		if g, ok := sp.Members["headerNewlineToSpace"].(*ssa.Global); ok && sp.Func("init") != nil {
			core.Instrs(sp.Func("init"), func(in ssa.Instruction) {
				st, ok := in.(*ssa.Store)
				if !ok || st.Addr != ssa.Value(g) {
					return
				}
				call, ok := st.Val.(*ssa.Call)
				if !ok || !core.CallIs(&call.Call, "strings.NewReplacer") {
					why = "headerNewlineToSpace is not a strings.NewReplacer(...)"
					return
				}
				args := h1aVarargs(call.Call.Args[0])
				olds := map[string]string{}
				for i := 0; i+1 < len(args); i += 2 {
					o, ok1 := core.ConstString(args[i])
					nw, ok2 := core.ConstString(args[i+1])
					if ok1 && ok2 {
						olds[o] = nw
					}
				}
				cr, hasCR := olds["\r"]
				lf, hasLF := olds["\n"]
				okRep = hasCR && hasLF && !strings.ContainsAny(cr, "\r\n") && !strings.ContainsAny(lf, "\r\n") && len(args)%2 == 0
				why = fmt.Sprintf("replacement pairs %q", olds)
			})
		}
	}
	c.Check("sink", "headerNewlineToSpace:table", fn.Pos(), okRep, "headerNewlineToSpace must replace both \"\\r\" and \"\\n\" by text without CR/LF; "+why)
	st.sinkSanitised["field-value"] = valueOK && okRep && n >= 1
	// transferWriter.WriteHeader: only constants, numbers and trailer keys
	if wh := c.P.Func(pkg, "transferWriter.WriteHeader"); wh == nil {
		c.Missing(pkg + ".transferWriter.WriteHeader")
	} else {
		c.Analysed(core.FuncKey(wh))
		for i, ci := range h1rRegionCalls(wh, "io.WriteString") {
			og := c25Origins(c, ci.Common().Args[1])
			ok := true
			for _, o := range og {
				switch {
				case o == "const", o == "call:strconv.FormatInt", o == "call:strconv.Itoa":
				case o == "header-key":
					// trailer key (range over t.Trailer), canonicalised: see Explanation
				default:
					ok = false
				}
			}
			c.Check("sink", fmt.Sprintf("WriteHeader:string#%d", i), ci.Pos(), ok, "transferWriter.WriteHeader writes "+strings.Join(og, ", ")+": only constants, formatted integers and announced trailer names are reviewed")
		}
	}
}

// ------------------------------------------------------------ HTTP/2

func c25H2(c *core.Ctx, fx *h1aFacts, st *c25State) {
	const pkg = "bfe_http2"
	c.Min("h2-validate", 7)
	rm := c.P.Func(pkg, "Framer.readMetaFrame")
	if rm == nil {
		c.Missing(pkg + ".Framer.readMetaFrame")
		return
	}
	c.Analysed(core.FuncKey(rm))
	// the emit closure: the anonymous function that stores to MetaHeadersFrame.Fields
	var emit *ssa.Function
	var app *ssa.Store
	for _, an := range rm.AnonFuncs {
		core.Instrs(an, func(in ssa.Instruction) {
			if s, ok := in.(*ssa.Store); ok {
				if fa, ok := s.Addr.(*ssa.FieldAddr); ok && c25FieldName(fa.X.Type(), fa.Field) == "Fields" && strings.HasSuffix(core.TypeStr(fa.X.Type()), "MetaHeadersFrame") {
					emit, app = an, s
				}
			}
		})
	}
	valOK, nameOK := false, false
	if emit == nil {
		c.Check("h2-validate", "readMetaFrame:append-guarded", rm.Pos(), false, "the HPACK emit function that appends to MetaHeadersFrame.Fields was not found")
	} else {
		c.Analysed(core.FuncKey(emit))
		// the error cell
		var cell *ssa.FreeVar
		var test *ssa.UnOp
		for _, f := range fx.At(app.Block()) {
			x, op, y, ok := f.Cmp()
			if !ok || op != token.EQL || !h1aIsNil(y) {
				continue
			}
			if ld, ok := x.(*ssa.UnOp); ok && ld.Op == token.MUL {
				if fv, ok := ld.X.(*ssa.FreeVar); ok {
					cell, test = fv, ld
				}
			}
		}
		c.Check("h2-validate", "readMetaFrame:append-guarded", app.Pos(), cell != nil, "the field is appended to mh.Fields without the recorded validation error being tested to be nil; facts: "+strings.Join(h1aFactStrs(fx.At(app.Block())), " && "))
		if cell != nil {
			isErrStore := func(in ssa.Instruction) bool {
				s, ok := in.(*ssa.Store)
				return ok && s.Addr == ssa.Value(cell) && h1aNonNilErr(s.Val, fx.At(s.Block()), nil)
			}
			isTest := func(in ssa.Instruction) bool { return in == ssa.Instruction(test) }
			noReset := true
			core.Instrs(emit, func(in ssa.Instruction) {
				if s, ok := in.(*ssa.Store); ok && s.Addr == ssa.Value(cell) && !isErrStore(in) {
					noReset = false
				}
			})
			c.Check("h2-validate", "readMetaFrame:no-reset", emit.Pos(), noReset, "the recorded validation error is overwritten with a value that may be nil")
			check := func(key, callee, field string, pseudoExempt bool) bool {
				calls := core.Calls(emit, pkg+"."+callee)
				if len(calls) != 1 {
					c.Check("h2-validate", "readMetaFrame:"+key, emit.Pos(), false, fmt.Sprintf("expected one %s call in the emit function, found %d", callee, len(calls)))
					return false
				}
				call, _ := calls[0].(*ssa.Call)
				ao := c25Origins(c, call.Call.Args[0])
				argOK := c25Subset(ao, "h2-field:"+field)
				// failing verdict -> error recorded before the test
				recorded := false
				blk := call.Block()
				if ifi, ok := blk.Instrs[len(blk.Instrs)-1].(*ssa.If); ok {
					var cs []*ssa.Call
					h1aCondCalls(ifi.Cond, map[ssa.Value]bool{}, &cs)
					uses := false
					for _, x := range cs {
						if x == call {
							uses = true
						}
					}
					if uses {
						// which successor is the failing one: the one where the call is known false
						for _, s := range blk.Succs {
							if h1aBoolCallFact(fx.Edge(blk, s), false, pkg+"."+callee) == call {
								recorded = h1aReachFromBlock(s, isErrStore, isTest) == nil
							}
						}
					}
				}
				// executed on every way to the append (pseudo fields exempt for the name check)
				avoid := func(in ssa.Instruction) bool {
					if in == ssa.Instruction(call) {
						return true
					}
					if pseudoExempt && in == in.Block().Instrs[0] {
						if hp := h1aBoolCallFact(fx.At(in.Block()), true, "strings.HasPrefix"); hp != nil {
							if s, ok := core.ConstString(hp.Call.Args[1]); ok && s == ":" && c25Subset(c25Origins(c, hp.Call.Args[0]), "h2-field:Name") {
								return true
							}
						}
					}
					return false
				}
				always := core.ReachAvoiding(emit, nil, avoid, func(in ssa.Instruction) bool { return in == ssa.Instruction(app) }) == nil
				ok := argOK && recorded && always
				c.Check("h2-validate", "readMetaFrame:"+key, call.Pos(), ok,
					fmt.Sprintf("%s must be applied to hf.%s (arg %v), a failing verdict must record a non-nil error before the nil test on every path (%v), and no path may reach the append without the call (%v)", callee, field, ao, recorded, always))
				return ok
			}
			valOK = check("value-checked", "validHeaderFieldValue", "Value", false)
			nameOK = check("name-checked", "validHeaderFieldName", "Name", true)
			// readMetaFrame itself fails when an error was recorded
			var outer ssa.Value
			core.Instrs(rm, func(in ssa.Instruction) {
				if mc, ok := in.(*ssa.MakeClosure); ok && mc.Fn == ssa.Value(emit) {
					for i, fv := range emit.FreeVars {
						if fv == cell && i < len(mc.Bindings) {
							outer = mc.Bindings[i]
						}
					}
				}
			})
			rej := false
			for _, r := range core.Returns(rm) {
				rv := core.RetVals(r)
				if len(rv) != 2 || !h1aIsNil(h1aResolve(rv[1])) {
					continue
				}
				rej = h1aHasCmp(fx.At(r.Block()), func(v ssa.Value) bool {
					ld, ok := v.(*ssa.UnOp)
					return ok && ld.Op == token.MUL && outer != nil && ld.X == outer
				}, h1aOpIs(token.EQL), h1aIsNil)
			}
			c.Check("h2-validate", "readMetaFrame:invalid-rejected", rm.Pos(), rej, "readMetaFrame returns the frame without error although the recorded validation error was not tested to be nil")
			if !rej || !noReset {
				valOK, nameOK = false, false
			}
		}
	}
	// the validators
	ev := &h1aEvaluator{Global: h1aTableResolver(c)}
	if vf := c.P.Func(pkg, "validHeaderFieldValue"); vf == nil {
		c.Missing(pkg + ".validHeaderFieldValue")
		valOK = false
	} else {
		c.Analysed(core.FuncKey(vf))
		elems := h1aElems(vf, vf.Params[0])
		bad := ""
		if len(elems) != 1 {
			bad = fmt.Sprintf("%d byte loops", len(elems))
		} else {
			for _, b := range []byte{'\r', '\n', 0} {
				out := h1aFoldElem(ev, elems[0], uint64(b))
				if out.Kind != "return" || len(out.Vals) != 1 || out.Vals[0].k != 'b' || out.Vals[0].b {
					bad += fmt.Sprintf(" byte 0x%02x: %s;", b, c23Describe(out))
				}
			}
			for _, b := range []byte{'a', ' ', '\t', '~', 0x80} {
				out := h1aFoldElem(ev, elems[0], uint64(b))
				if out.Kind != "stop" {
					bad += fmt.Sprintf(" byte 0x%02x wrongly decided: %s;", b, c23Describe(out))
				}
			}
		}
		c.Check("h2-validate", "validHeaderFieldValue:rejects-CR-LF-NUL", vf.Pos(), bad == "", "validHeaderFieldValue must return false for CR, LF and NUL (and keep accepting visible bytes, SP, HT):"+bad)
		if bad != "" {
			valOK = false
		}
	}
	if nf := c.P.Func(pkg, "validHeaderFieldName"); nf == nil {
		c.Missing(pkg + ".validHeaderFieldName")
		nameOK = false
	} else {
		c.Analysed(core.FuncKey(nf))
		elems := h1aElems(nf, nf.Params[0])
		bad := ""
		tc := h1aTchar()
		if len(elems) != 1 {
			bad = fmt.Sprintf("%d rune loops", len(elems))
		} else {
			for b := 0; b < 256 && bad == ""; b++ {
				out := h1aFoldElem(ev, elems[0], uint64(b))
				switch {
				case out.Kind == "stop":
					if !tc[int64(b)] {
						bad = fmt.Sprintf("byte 0x%02x (%q) is accepted in a field name but is not an RFC 7230 token byte", b, rune(b))
					}
				case out.Kind == "return" && len(out.Vals) == 1 && out.Vals[0].k == 'b' && !out.Vals[0].b:
					if tc[int64(b)] && !('A' <= b && b <= 'Z') {
						bad = fmt.Sprintf("token byte %q is rejected", rune(b))
					}
				default:
					bad = fmt.Sprintf("byte 0x%02x: %s", b, c23Describe(out))
				}
			}
		}
		c.Check("h2-validate", "validHeaderFieldName:token-only", nf.Pos(), bad == "", "validHeaderFieldName must accept exactly lower-case RFC 7230 token bytes: "+bad)
		if bad != "" {
			nameOK = false
		}
	}
	st.validated["h2"]["value"], st.validated["h2"]["name"] = valOK, nameOK
	// origins in newWriterAndRequest
	c.Min("source", 12)
	nw := c.P.Func(pkg, "serverConn.newWriterAndRequest")
	if nw == nil {
		c.Missing(pkg + ".serverConn.newWriterAndRequest")
		return
	}
	c.Analysed(core.FuncKey(nw))
	stores, _ := c25RequestStores(nw)
	if len(stores) == 0 {
		c.Check("source", "h2:Method", nw.Pos(), false, "the &http.Request{…} literal was not found")
		return
	}
	chk := func(field string, allowed ...string) {
		s := stores[field]
		if s == nil {
			c.Check("source", "h2:"+field, nw.Pos(), false, "Request."+field+" is not set")
			return
		}
		og := c25Origins(c, s.Val)
		ok := c25Subset(og, allowed...)
		c.Check("source", "h2:"+field, s.Pos(), ok, "Request."+field+" comes from "+strings.Join(og, ", ")+"; reviewed origins: "+strings.Join(allowed, ", "))
		st.origins["h2"][field] = ok
	}
	chk("Method", "h2-pseudo-value")
	chk("Host", "h2-pseudo-value", "header-value(local-map)")
	chk("RequestURI", "h2-pseudo-value", "header-value(local-map)")
	// Header: the local map, filled from RegularFields only
	if s := stores["Header"]; s != nil {
		mm, isMap := h1aResConv(s.Val).(*ssa.MakeMap)
		ok := isMap
		why := "Request.Header is " + core.Render(s.Val)
		if isMap {
			for _, ci := range h1rRegionCalls(nw, "bfe_http.Header.Add", "bfe_http.Header.Set") {
				if h1aResConv(ci.Common().Args[0]) != ssa.Value(mm) {
					continue
				}
				ko, vo := c25Origins(c, ci.Common().Args[1]), c25Origins(c, ci.Common().Args[2])
				if !c25Subset(ko, "h2-field:Name", "const") || !c25Subset(vo, "h2-field:Value", "const", "header-value(local-map)") {
					ok = false
					why = fmt.Sprintf("the header map receives name %v value %v", ko, vo)
				}
			}
			h1rRegionInstrs(nw, func(in ssa.Instruction) {
				if mu, ok2 := in.(*ssa.MapUpdate); ok2 && h1aResConv(mu.Map) == ssa.Value(mm) {
					ok = false
					why = "raw store into the request header map"
				}
			})
			// the element ranged over comes from f.RegularFields()
			rf := h1rRegionCalls(nw, pkg+".MetaHeadersFrame.RegularFields")
			if len(rf) != 1 || len(nw.Params) < 3 || h1aRes(rf[0].Common().Args[0]) != ssa.Value(nw.Params[2]) {
				ok = false
				why = "the header fields are not taken from f.RegularFields()"
			}
		}
		c.Check("source", "h2:Header", s.Pos(), ok, why+"; expected a fresh map filled by Header.Add(canonicalHeader(hf.Name), hf.Value) over f.RegularFields()")
		st.origins["h2"]["Header"] = ok
	}
	// target parsed
	okParse := false
	if s := stores["URL"]; s != nil {
		for _, pc := range h1rRegionCalls(nw, "net/url.ParseRequestURI") {
			call, isCall := pc.(*ssa.Call)
			if !isCall || !c25Subset(c25Origins(c, call.Call.Args[0]), "h2-pseudo-value") {
				continue
			}
			// every edge of the URL value that is the parse result is taken under err == nil
			okParse = c25ParsedUnderGate(fx, s.Val, call)
		}
	}
	c.Check("source", "h2:target-parsed", nw.Pos(), okParse, "Request.URL must be the result of url.ParseRequestURI(:path) used only when its error is nil (or the CONNECT authority form)")
}

// c25ParsedUnderGate: v is (a phi whose parse-result edges are) result #0 of
// call, and on that edge call's error is known to be nil.
func c25ParsedUnderGate(fx *h1aFacts, v ssa.Value, call *ssa.Call) bool {
	v = core.StripConv(v)
	if phi, ok := v.(*ssa.Phi); ok {
		found := false
		for i, e := range phi.Edges {
			if h1aIsResultOf(e, call, 0) {
				found = true
				if !h1aErrIs(fx.Edge(phi.Block().Preds[i], phi.Block()), call, 1, true) {
					return false
				}
			}
		}
		return found
	}
	in, ok := v.(ssa.Instruction)
	if !ok || !h1aIsResultOf(v, call, 0) {
		return false
	}
	_ = in
	return true
}

// ------------------------------------------------------------ HTTP/1

func c25H1(c *core.Ctx, fx *h1aFacts, st *c25State) {
	const pkg = "bfe_http"
	fn := c.P.Func(pkg, "ReadRequest")
	if fn == nil {
		c.Missing(pkg + ".ReadRequest")
		return
	}
	c.Analysed(core.FuncKey(fn))
	// field stores on the request under construction
	got := map[string][]string{}
	core.Instrs(fn, func(in ssa.Instruction) {
		s, ok := in.(*ssa.Store)
		if !ok {
			return
		}
		fa, ok := s.Addr.(*ssa.FieldAddr)
		if !ok || core.TypeStr(fa.X.Type()) != "*bfe_http.Request" {
			return
		}
		name := c25FieldName(fa.X.Type(), fa.Field)
		got[name] = append(got[name], c25Origins(c, s.Val)...)
	})
	chk := func(field string, allowed ...string) {
		og := got[field]
		sort.Strings(og)
		ok := c25Subset(og, allowed...)
		c.Check("source", "h1:"+field, fn.Pos(), ok, "Request."+field+" comes from "+strings.Join(og, ", ")+"; reviewed origins: "+strings.Join(allowed, ", "))
		st.origins["h1"][field] = ok
	}
	chk("Method", "result:bfe_http.parseRequestLine#0")
	chk("RequestURI", "result:bfe_http.parseRequestLine#1")
	chk("Host", "url-field:Host", "header-value(result:bfe_net/textproto.Reader.ReadMIMEHeaderAndKeys#0)")
	chk("Header", "result:bfe_net/textproto.Reader.ReadMIMEHeaderAndKeys#0")
	// the line reader: ReadLine and readContinuedLineSlice are built on readLineSlice -> bufio ReadLine
	const tp = "bfe_net/textproto"
	lineOK := true
	why := ""
	for _, name := range []string{"Reader.ReadLine", "Reader.readContinuedLineSlice"} {
		f := c.P.Func(tp, name)
		if f == nil {
			c.Missing(tp + "." + name)
			lineOK = false
			continue
		}
		if len(core.Calls(f, tp+".Reader.readLineSlice")) == 0 {
			lineOK, why = false, name+" does not read through readLineSlice"
		}
	}
	if f := c.P.Func(tp, "Reader.readLineSlice"); f == nil {
		c.Missing(tp + ".Reader.readLineSlice")
		lineOK = false
	} else if len(core.Calls(f, "bfe_bufio.Reader.ReadLine")) == 0 {
		lineOK, why = false, "readLineSlice does not read through (*bfe_bufio.Reader).ReadLine"
	}
	// parseRequestLine's argument is the ReadLine result (also checked under C24)
	for _, ci := range core.Calls(fn, pkg+".parseRequestLine") {
		if !c25Subset(c25Origins(c, ci.Common().Args[0]), "result:bfe_net/textproto.Reader.ReadLine#0") {
			lineOK, why = false, "parseRequestLine is not applied to tp.ReadLine()"
		}
	}
	c.Check("source", "h1:line-reader", fn.Pos(), lineOK, "HTTP/1 request line and header lines must come from the LF-delimited line reader: "+why)
	st.validated["h1"]["value"], st.validated["h1"]["name"] = lineOK, lineOK
	okParse := false
	for _, pc := range h1rRegionCalls(fn, "net/url.ParseRequestURI") {
		if call, ok := pc.(*ssa.Call); ok {
			for _, r := range h1rReturns(fn) {
				rv := core.RetVals(r)
				if len(rv) == 2 && h1aIsNil(h1aResolve(rv[1])) && h1aErrIs(fx.At(r.Block()), call, 1, true) {
					okParse = true
				}
			}
		}
	}
	c.Check("source", "h1:target-parsed", fn.Pos(), okParse, "ReadRequest must return a request only when url.ParseRequestURI accepted the target")
}

// ------------------------------------------------------------ SPDY

func c25Spdy(c *core.Ctx, fx *h1aFacts, st *c25State) {
	const pkg = "bfe_spdy"
	nw := c.P.Func(pkg, "serverConn.newWriterAndRequest")
	ph := c.P.Func(pkg, "parseHeaderValueBlock")
	if nw == nil {
		c.Missing(pkg + ".serverConn.newWriterAndRequest")
		return
	}
	if ph == nil {
		c.Missing(pkg + ".parseHeaderValueBlock")
		return
	}
	c.Analysed(core.FuncKey(nw), core.FuncKey(ph))
	stores, lit := c25RequestStores(nw)
	if len(stores) == 0 {
		c.Check("source", "spdy:Method", nw.Pos(), false, "the &http.Request{…} literal was not found")
		return
	}
	const blk = "header-value(field:*bfe_spdy.SynStreamFrame.Headers)"
	chk := func(field string, allowed ...string) {
		s := stores[field]
		if s == nil {
			c.Check("source", "spdy:"+field, nw.Pos(), false, "Request."+field+" is not set")
			return
		}
		og := c25Origins(c, s.Val)
		ok := c25Subset(og, allowed...)
		c.Check("source", "spdy:"+field, s.Pos(), ok, "Request."+field+" comes from "+strings.Join(og, ", ")+"; reviewed origins: "+strings.Join(allowed, ", "))
		st.origins["spdy"][field] = ok
	}
	chk("Method", blk)
	chk("Host", blk)
	chk("RequestURI", blk)
	if s := stores["Header"]; s != nil {
		ho := (&c25Walker{c: c}).headerOrigin(s.Val)
		ok := ho == "field:*bfe_spdy.SynStreamFrame.Headers"
		c.Check("source", "spdy:Header", s.Pos(), ok, "Request.Header is "+ho+", expected the header block of the SYN_STREAM frame")
		st.origins["spdy"]["Header"] = ok
	}
	okParse := false
	if s := stores["URL"]; s != nil {
		for _, pc := range h1rRegionCalls(nw, "net/url.ParseRequestURI") {
			call, isCall := pc.(*ssa.Call)
			if isCall && c25Subset(c25Origins(c, call.Call.Args[0]), blk) && h1aIsResultOf(s.Val, call, 0) && h1aErrIs(fx.At(s.Block()), call, 1, true) {
				okParse = true
			}
		}
	}
	c.Check("source", "spdy:target-parsed", nw.Pos(), okParse, "Request.URL must be url.ParseRequestURI(:path) used only when its error is nil")
	// the frame's Headers come from parseHeaderValueBlock
	okBlock := false
	if rs := c.P.Func(pkg, "Framer.readSynStreamFrame"); rs != nil {
		core.Instrs(rs, func(in ssa.Instruction) {
			if s, ok := in.(*ssa.Store); ok && strings.HasSuffix(core.Render(s.Addr), ".Headers") {
				if h1aExtractOf(s.Val, 0, pkg+".parseHeaderValueBlock") != nil {
					okBlock = true
				}
			}
		})
	} else {
		c.Missing(pkg + ".Framer.readSynStreamFrame")
	}
	c.Check("source", "spdy:block-parser", nw.Pos(), okBlock, "SynStreamFrame.Headers must be the result of parseHeaderValueBlock")
	// validators: a gate over name / value bytes before Header.Add in the parser
	adds := core.Calls(ph, "bfe_http.Header.Add", "bfe_http.Header.Set")
	nameOK, valueOK := len(adds) > 0, len(adds) > 0
	nameWhy, valueWhy := "", ""
	for _, ci := range adds {
		in := ci.(ssa.Instruction)
		nameArg, valArg := ci.Common().Args[1], ci.Common().Args[2]
		derives := func(root ssa.Value) func(ssa.Value) bool {
			leaves := map[ssa.Value]bool{}
			var walk func(v ssa.Value, d int)
			walk = func(v ssa.Value, d int) {
				v = h1aResolve(v)
				if leaves[v] || d > 6 {
					return
				}
				leaves[v] = true
				switch x := v.(type) {
				case *ssa.Phi:
					for _, e := range x.Edges {
						walk(e, d+1)
					}
				case *ssa.Convert:
					walk(x.X, d+1)
				case *ssa.Call:
					if sc := x.Call.StaticCallee(); sc != nil && (c25PureString[core.FuncKey(sc)] || core.FuncKey(sc) == "strings.Split") {
						for _, a := range x.Call.Args {
							walk(a, d+1)
						}
					}
				case *ssa.UnOp:
					if ia, ok := x.X.(*ssa.IndexAddr); ok {
						walk(ia.X, d+1)
					}
				}
			}
			walk(root, 0)
			return func(v ssa.Value) bool {
				v = h1aResolve(v)
				if cv, ok := v.(*ssa.Convert); ok && leaves[h1aResolve(cv.X)] {
					return true
				}
				return leaves[v]
			}
		}
		if g, why := h1aFindGate(c, ph, in, derives(nameArg), []byte{'\r', '\n', ':'}, fx); g == nil {
			nameOK, nameWhy = false, why
		}
		if g, why := h1aFindGate(c, ph, in, derives(valArg), []byte{'\r', '\n'}, fx); g == nil {
			valueOK, valueWhy = false, why
		}
	}
	// values used for the request line may also be validated where the request is built
	mhOK := map[string]bool{}
	for _, field := range []string{"Method", "Host"} {
		s := stores[field]
		if s == nil || lit == nil {
			continue
		}
		v := h1aResolve(s.Val)
		if g, _ := h1aFindGate(c, nw, s, func(x ssa.Value) bool { return h1aResolve(x) == v }, []byte{'\r', '\n'}, fx); g != nil {
			mhOK[field] = true
		}
	}
	st.validated["spdy"]["name"], st.validated["spdy"]["value"] = nameOK, valueOK
	st.validated["spdy"]["Method"], st.validated["spdy"]["Host"] = valueOK || mhOK["Method"], valueOK || mhOK["Host"]
	st.why["spdy:name"], st.why["spdy:value"] = nameWhy, valueWhy
}

// ------------------------------------------------------------ the table

func c25Matrix(c *core.Ctx, st *c25State) {
	c.Min("inject", 15)
	type sink struct {
		key, field, class string
		what              string
	}
	sinks := []sink{
		{"method", "Method", "value", "the request line's method (written with %s, no sanitiser at the sink)"},
		{"target", "RequestURI", "value", "the request-target"},
		{"host", "Host", "value", "the Host line (written with %s, no sanitiser at the sink)"},
		{"field-name", "Header", "name", "header field names (written verbatim by Header.WriteSubset)"},
		{"field-value", "Header", "value", "header field values"},
	}
	for _, src := range []string{"h1", "h2", "spdy"} {
		for _, s := range sinks {
			ok := false
			how := ""
			switch {
			case st.sinkSanitised[s.key]:
				ok, how = true, "sanitised at the sink"
			default:
				v := st.validated[src][s.class]
				if src == "spdy" && (s.field == "Method" || s.field == "Host") {
					v = st.validated[src][s.field]
				}
				ok = st.origins[src][s.field] && v
				how = fmt.Sprintf("origin established=%v, %s validator at the source=%v", st.origins[src][s.field], s.class, v)
				if w := st.why[src+":"+s.class]; w != "" && !v {
					how += " (" + w + ")"
				}
			}
			detail := fmt.Sprintf("%s from the %s frontend: %s", s.what, src, how)
			if !ok {
				detail += ". Bytes chosen by the client, including CR LF, reach the backend connection unchanged: one client request can be turned into additional header fields or requests"
			}
			c.Check("inject", s.key+":"+src, 0, ok, detail)
		}
	}
}
