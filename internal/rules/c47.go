package rules

import (
	"fmt"
	"go/token"
	"strings"

	"golang.org/x/tools/go/ssa"

	"verif/internal/core"
)

// C47 — WebSocket and TLS stream tunnels are byte-transparent (modest).
func init() {
	Register(&Rule{
		ID: "C47", Section: "5 C47",
		Technique: "feasible-path enumeration and must-pass queries on go/ssa over the tunnel set-up functions, closure/free-variable resolution for the copy goroutines, select-case reachability in the serve loops, interprocedural forward may-analysis (access-path keyed, parameter/result/field translation at calls) of deadlines armed on the tunnel connections up to the copy goroutines; derivation, from bfe_server, of the response methods that start a goroutine reading the connection and a type-based census of the ResponseWriter uses in the tunnel package",
		Meta: core.Meta{
			Level: "other",
			Explanation: "Decides the structural part of tunnel set-up and tear-down in bfe_websocket and bfe_stream: (flush) on every path of serverConn.websocketDataTransfer that starts a copy goroutine, the bytes buffered in the hijacked client reader were peeked and, unless their length was tested to be 0, written to the backend connection with the write error tested, and likewise the bytes buffered in sc.bbr (the reader the handshake response was parsed from) were written to the client, both before the first `go`; (directions) every normal exit of websocketDataTransfer / TLSProxyHandler has either started two goroutines or reported an error on the error channel; the goroutines are io.Copy(backend, client) and io.Copy(client, backend) over the raw connections and each sends its result on the error channel on every path; (capacity) the error channel is created with a constant capacity >= the number of sends the set-up function itself can perform before the serve loop receives (no send can block the serve goroutine); (tear-down) in both serve loops the receive from the error channel and from closeNotifyCh lead to shutDownIn before the loop continues, the timer case leaves the loop, shutDownIn arms shutdownTimerCh from time.NewTimer(d) unless already armed, and deferred Close calls for both the client and the backend connection are registered before the copy goroutines are started; the stream handler is invoked with (sc.conn, backend conn, sc.copyErrCh); " +
				"(armed state, rule tunnel-armed) nothing armed on the two connections during set-up outlives the set-up: a forward may-analysis of read/write deadlines (X.Set{,Read,Write}Deadline with a time that is not provably the zero time arms, with the zero time disarms; connections are identified by access path through fields, locals, closures' free variables, type assertions, parameters and results) runs from serverConn.serve through every function and closure of the package it calls (findBackend, websocketHandshake, websocketDataTransfer, processProxyProtocol, the handler returned by proxyHandler(), deferred calls at function exit) into the bodies of the copy goroutines, and at each io.Copy(dst, src) of a copy goroutine no write deadline may be armed on dst and no read deadline on src; no deadline may be armed between the start of the goroutines and the serve loop's select. The client connection's entry state is derived, not assumed: the connection returned by Hijack() carries the request phase's deadlines unless bfe_server's response.Hijack clears them on every path to its non-nil return, and the stream connection carries whatever the same analysis of bfe_server's conn.serve finds armed at the call of the TLSNextProto handler (today: the TLS-handshake read deadline, cleared before the hand-off), so that a clear may live on either side of the hand-off. " +
				"(sole reader, rule tunnel-sole-reader) the client connection of a WebSocket tunnel is the connection of the ResponseWriter that gets hijacked, so nothing else may be reading it: the methods of bfe_server.response that (through static calls inside bfe_server) start a goroutine which reads (io.Copy/Read… in the goroutine body) are derived — today CloseNotify, whose lazily started goroutine copies the connection into a pipe and survives Hijack(); in every function and closure of bfe_websocket reachable from serverConn.serve no such method is invoked on, and no interface containing one is asserted from, a value whose interface type bfe_server.response implements (CloseNotifier, via CloseWatcher or directly), and bfe_server.conn.serve calls nothing that starts such a reader on a path that continues to the HTTPNextProto hand-off. " +
				"Robustness: the flush of a side may be done inline or by a helper that is handed the buffered reader and the target connection and whose error result the set-up path tests (the helper is analysed path by path with its parameters in the roles of reader and connection); the tested write error may reach the test through a phi (one merged `if err != nil`); paths that take contradictory nil-tests of the same value are discarded as infeasible. " +
				"Not covered: byte transparency itself (that io.Copy and the connections deliver every byte in order), half-close semantics, timing of the 250 ms grace period, what the hijacked reader contains; for the armed state: the analysis joins paths (a deadline armed and cleared under two separate but correlated conditions is reported), deadlines armed by callees outside the package that receive the connection (req.Write, Header.WriteTo, tls handshake) or through method values, and other long-lived state such as timers (time.AfterFunc closing a connection) are not followed.",
			RuleText:    "obligations = per set-up function {each flush side, start-or-report, each direction, each goroutine's report}, the channel capacity, per serve loop {each select case, shutDownIn, each deferred close}, the handshake reader identity, the stream handler's arguments, per copy goroutine {no deadline armed on its connections when its io.Copy starts}, per package {no deadline armed while the tunnel runs}, per set-up function {no use of a ResponseWriter method that starts a background reader}, the hand-off in conn.serve",
			Assumptions: []string{"http.Hijacker.Hijack returns the connection's buffered reader (bfe_server.response.Hijack)", "the response writer hijacked by bfe_websocket is bfe_server's response; bfe_stream's serverConn.conn is the connection bfe_server's conn.serve passes to the TLSNextProto handler", "functions outside the tunnel package that are handed a connection during set-up leave its deadlines as they found them", "io.Copy returns only after EOF or error of one side"},
		},
		Run: runC47,
		Mutants: []Mutant{
			{Name: "ws-backend-flush-dropped", File: "bfe_websocket/server_conn.go", Old: "	if len(bbuf) > 0 {\n		if _, err := sc.cconn.Write(bbuf); err != nil {\n			errCh <- err\n			return\n		}\n	}\n", New: "	_ = bbuf\n", Expect: "tunnel-flush|websocketDataTransfer:backend"},
			{Name: "ws-client-flush-wrong-conn", File: "bfe_websocket/server_conn.go", Old: "		if _, err := sc.bconn.Write(cbuf); err != nil {", New: "		if _, err := sc.cconn.Write(cbuf); err != nil {", Expect: "tunnel-flush|websocketDataTransfer:client"},
			{Name: "ws-flush-error-ignored", File: "bfe_websocket/server_conn.go", Old: "		if _, err := sc.bconn.Write(cbuf); err != nil {\n			errCh <- err\n			return\n		}\n", New: "		sc.bconn.Write(cbuf)\n", Expect: "tunnel-flush|websocketDataTransfer:client"},
			{Name: "ws-copy-same-direction", File: "bfe_websocket/server_conn.go", Old: "		n, err := io.Copy(sc.cconn, sc.bconn)\n		state.WebSocketBytesSent.Inc(uint(n))", New: "		n, err := io.Copy(sc.bconn, sc.cconn)\n		state.WebSocketBytesSent.Inc(uint(n))", Expect: "tunnel-copy"},
			{Name: "ws-errch-unbuffered", File: "bfe_websocket/server.go", Old: "	sc.errCh = make(chan error, 2)", New: "	sc.errCh = make(chan error)", Expect: "tunnel-errch"},
			{Name: "ws-silent-failure", File: "bfe_websocket/server_conn.go", Old: "	bbuf, err := peekBufferedData(sc.bbr)\n	if err != nil {\n		errCh <- err\n		return\n	}", New: "	bbuf, err := peekBufferedData(sc.bbr)\n	if err != nil {\n		return\n	}", Expect: "tunnel-start|websocketDataTransfer"},
			{Name: "ws-no-shutdown-on-copy-end", File: "bfe_websocket/server_conn.go", Old: "				state.WebSocketErrTransfer.Inc(1)\n			}\n			sc.shutDownIn(250 * time.Millisecond)", New: "				state.WebSocketErrTransfer.Inc(1)\n			}", Expect: "tunnel-loop|bfe_websocket"},
			{Name: "ws-backend-not-closed", File: "bfe_websocket/server_conn.go", Old: "		if sc.bconn != nil {\n			sc.bconn.Close()\n		}\n", New: "", Expect: "tunnel-close|bfe_websocket"},
			{Name: "stream-backend-not-closed", File: "bfe_stream/server_conn.go", Old: "	defer bc.Close()\n", New: "", Expect: "tunnel-close|bfe_stream"},
			{Name: "stream-goroutine-silent", File: "bfe_stream/server_conn.go", Old: "		state.StreamBytesSent.Inc(uint(n))\n		errCh <- err\n", New: "		state.StreamBytesSent.Inc(uint(n))\n		_ = err\n", Expect: "tunnel-copy|TLSProxyHandler"},
			{Name: "stream-timer-not-armed", File: "bfe_stream/server_conn.go", Old: "	sc.shutdownTimerCh = sc.shutdownTimer.C\n", New: "", Expect: "tunnel-loop|bfe_stream"},
			{Name: "stream-wrong-channel", File: "bfe_stream/server_conn.go", Old: "	fn(sc.srv, sc.conn, bc, sc.copyErrCh)", New: "	fn(sc.srv, sc.conn, bc, make(chan error, 2))", Expect: "tunnel-handler"},
			{Name: "ws-handshake-deadline-left-armed", File: "bfe_websocket/server_conn.go", Old: "	if err := req.Write(sc.bconn); err != nil {", New: "	sc.bconn.SetDeadline(time.Now().Add(time.Second))\n	if err := req.Write(sc.bconn); err != nil {", Expect: "tunnel-armed|websocketDataTransfer:go#"},
			{Name: "ws-dial-deadline-left-armed", File: "bfe_websocket/server_conn.go", Old: "		return bc, backend, nil\n", New: "		bc.SetDeadline(time.Now().Add(timeout))\n		return bc, backend, nil\n", Expect: "tunnel-armed|websocketDataTransfer:go#"},
			{Name: "ws-backend-flush-deadline-left-armed", File: "bfe_websocket/server_conn.go", Old: "	if len(bbuf) > 0 {\n", New: "	if len(bbuf) > 0 {\n		sc.cconn.SetWriteDeadline(time.Now().Add(time.Second))\n", Expect: "tunnel-armed|websocketDataTransfer:go#1"},
			{Name: "hijack-keeps-request-deadlines", File: "bfe_server/response.go", Old: "	c.rwc.SetDeadline(time.Time{})\n", New: "	_ = time.Time{}\n", Expect: "tunnel-armed|websocketDataTransfer:go#"},
			{Name: "stream-proxyproto-deadline-left-armed", File: "bfe_stream/server_conn.go", Old: "	_, err = proxyHeader.WriteTo(bc)\n", New: "	bc.SetWriteDeadline(time.Now().Add(time.Second))\n	_, err = proxyHeader.WriteTo(bc)\n", Expect: "tunnel-armed|TLSProxyHandler:go#0"},
			{Name: "stream-deadline-armed-in-copy-goroutine", File: "bfe_stream/server_conn.go", Old: "		n, err := io.Copy(c, b)\n", New: "		b.SetReadDeadline(time.Now().Add(time.Minute))\n		n, err := io.Copy(c, b)\n", Expect: "tunnel-armed|TLSProxyHandler:go#1"},
			{Name: "stream-deadline-armed-after-start", File: "bfe_stream/server_conn.go", Old: "		state.StreamBytesSent.Inc(uint(n))\n		errCh <- err\n	}()\n", New: "		state.StreamBytesSent.Inc(uint(n))\n		errCh <- err\n	}()\n	c.SetReadDeadline(time.Now().Add(time.Minute))\n", Expect: "tunnel-armed|bfe_stream:after-start"},
			{Name: "ws-close-notify-polled-in-handshake", File: "bfe_websocket/server_conn.go", Old: "	// check whether backend accept websocket upgrade\n	if !CheckAcceptWebSocket(rsp) {", New: "	if cn, ok := rw.(http.CloseNotifier); ok {\n		select {\n		case <-cn.CloseNotify():\n			return fmt.Errorf(\"client gone\")\n		default:\n		}\n	}\n	// check whether backend accept websocket upgrade\n	if !CheckAcceptWebSocket(rsp) {", Expect: "tunnel-sole-reader|bfe_websocket:serverConn.websocketHandshake"},
			{Name: "ws-close-watcher-around-tunnel", File: "bfe_websocket/server_conn.go", Old: "	// websocket data transfer\n	sc.websocketDataTransfer()\n", New: "	cw := http.NewCloseWatcher(sc.rw.(http.CloseNotifier), nil)\n	go cw.WatchLoop()\n	defer cw.Stop()\n	// websocket data transfer\n	sc.websocketDataTransfer()\n", Expect: "tunnel-sole-reader|bfe_websocket:serverConn.serve"},
			{Name: "close-notifier-started-before-upgrade-hand-off", File: "bfe_server/http_conn.go", Old: "		// check whether client request for http upgrade (over http/https conn)\n		if firstRequest {", New: "		clientGone := w.CloseNotify()\n		_ = clientGone\n		// check whether client request for http upgrade (over http/https conn)\n		if firstRequest {", Expect: "tunnel-sole-reader|bfe_server:conn.serve:hand-off"},
			{Name: "silent-ws-flush-rewritten", File: "bfe_websocket/server_conn.go", Old: "	if f, ok := rw.(http.Flusher); ok {\n		if err := f.Flush(); err != nil {\n			return err\n		}\n	}\n	return nil\n}\n\nfunc peekBufferedData", New: "	f, ok := rw.(http.Flusher)\n	if !ok {\n		return nil\n	}\n	return f.Flush()\n}\n\nfunc peekBufferedData", Silent: true},
			{Name: "silent-ws-flush-deadline-cleared", File: "bfe_websocket/server_conn.go", Old: "		if _, err := sc.bconn.Write(cbuf); err != nil {\n			errCh <- err\n			return\n		}\n", New: "		sc.bconn.SetWriteDeadline(time.Now().Add(time.Second))\n		if _, err := sc.bconn.Write(cbuf); err != nil {\n			errCh <- err\n			return\n		}\n		sc.bconn.SetWriteDeadline(time.Time{})\n", Silent: true},
			{Name: "silent-ws-handshake-deadline-deferred-clear", File: "bfe_websocket/server_conn.go", Old: "	if err := req.Write(sc.bconn); err != nil {", New: "	sc.bconn.SetDeadline(time.Now().Add(time.Second))\n	defer sc.bconn.SetDeadline(time.Time{})\n	if err := req.Write(sc.bconn); err != nil {", Silent: true},
			{Name: "silent-ws-armed-in-handshake-cleared-in-transfer", File: "bfe_websocket/server_conn.go", Old: "	// write 101 response\n	return sendResponse(rw, rsp)\n}\n\nfunc (sc *serverConn) websocketDataTransfer() {\n	var cbr *bufio.ReadWriter\n	var err error\n	errCh := sc.errCh\n", New: "	// write 101 response\n	sc.bconn.SetWriteDeadline(time.Now().Add(time.Second))\n	return sendResponse(rw, rsp)\n}\n\nfunc (sc *serverConn) websocketDataTransfer() {\n	var cbr *bufio.ReadWriter\n	var err error\n	errCh := sc.errCh\n	sc.bconn.SetDeadline(time.Time{})\n", Silent: true},
			{Name: "silent-stream-redundant-clear-removed", File: "bfe_stream/server_conn.go", Old: "	var zero time.Time\n	sc.conn.SetDeadline(zero)\n", New: "", Silent: true},
			{Name: "silent-reorder-goroutines", File: "bfe_stream/server_conn.go", Old: "	go func() {\n		n, err := io.Copy(b, c)\n		state.StreamBytesRecv.Inc(uint(n))\n		errCh <- err\n	}()\n\n	go func() {\n		n, err := io.Copy(c, b)\n		state.StreamBytesSent.Inc(uint(n))\n		errCh <- err\n	}()", New: "	go func() {\n		n, err := io.Copy(c, b)\n		state.StreamBytesSent.Inc(uint(n))\n		errCh <- err\n	}()\n\n	go func() {\n		written, cerr := io.Copy(b, c)\n		state.StreamBytesRecv.Inc(uint(written))\n		errCh <- cerr\n	}()", Silent: true},
			{Name: "silent-ws-backend-flush-flattened", File: "bfe_websocket/server_conn.go", Old: "	bbuf, err := peekBufferedData(sc.bbr)\n	if err != nil {\n		errCh <- err\n		return\n	}\n	if len(bbuf) > 0 {\n		if _, err := sc.cconn.Write(bbuf); err != nil {\n			errCh <- err\n			return\n		}\n	}\n", New: "	bbuf, err := peekBufferedData(sc.bbr)\n	if err == nil && len(bbuf) > 0 {\n		_, err = sc.cconn.Write(bbuf)\n	}\n	if err != nil {\n		errCh <- err\n		return\n	}\n", Silent: true},
		},
	})
}

// c47isSend: in is a send on a channel whose origin has the given suffix.
func c47isSend(in ssa.Instruction, chSuffix string) bool {
	s, ok := in.(*ssa.Send)
	return ok && strings.HasSuffix(nxOrigin(s.Chan), chSuffix)
}

type c47side struct {
	name   string
	reader func(v ssa.Value) bool // v is the buffered reader of this side
	peekFn string                 // the function that peeks the buffered bytes of a reader
	target string                 // origin of the connection the buffered bytes must be written to
}

func (sd c47side) isPeek(call *ssa.Call) bool {
	return core.CallIs(&call.Call, sd.peekFn) && len(call.Call.Args) > 0 && sd.reader(call.Call.Args[0])
}

// c47flushOnPath decides, for the first upTo instructions of path p (all when
// upTo < 0), whether the bytes buffered in a reader were peeked and, unless
// their length was tested to be 0, written to the target connection with the
// write error tested. The same work done by a helper that is handed the reader
// and the connection (and whose error the path tests) counts. Returns the
// complaint, "" when satisfied.
func c47flushOnPath(p *core.Path, upTo int, sd c47side, isTarget func(ssa.Value) bool, depth int) string {
	var peek, write *ssa.Call
	viaHelper := false
	k := 0
	p.Instrs(func(in ssa.Instruction) bool {
		if upTo >= 0 && k >= upTo {
			return false
		}
		k++
		call, ok := in.(*ssa.Call)
		if !ok {
			return true
		}
		if sd.isPeek(call) {
			peek = call
		}
		if peek != nil && call.Call.IsInvoke() && call.Call.Method.Name() == "Write" && len(call.Call.Args) == 1 {
			if pc, i := nxCallResult(call.Call.Args[0]); pc == peek && i == 0 && isTarget(call.Call.Value) {
				write = call
			}
		}
		// a helper handed (reader, target) that flushes on all of its success paths
		if h := call.Call.StaticCallee(); h != nil && h.Blocks != nil && depth > 0 && !call.Call.IsInvoke() && len(call.Call.Args) == len(h.Params) {
			ri, ti := -1, -1
			for i, a := range call.Call.Args {
				if sd.reader(a) {
					ri = i
				}
				if isTarget(a) {
					ti = i
				}
			}
			if ri >= 0 && ti >= 0 && ri != ti && c47helperFlushes(h, ri, ti, sd, depth-1) && c47errTestedNil(p, call) {
				viaHelper = true
			}
		}
		return true
	})
	if viaHelper {
		return ""
	}
	if peek == nil {
		return "buffered data of the " + sd.name + " side is not peeked before the first goroutine starts; path {" + pathSig(p) + "}"
	}
	empty, werrChecked := false, false
	p.Edges(func(cond ssa.Value, taken bool) {
		if ub, ok := nxUpper(cond, taken, func(x ssa.Value) bool {
			arg, isLen := nxIsLen(x)
			if !isLen {
				return false
			}
			pc, i := nxCallResult(arg)
			return pc == peek && i == 0
		}); ok && ub <= 0 {
			empty = true
		}
	})
	if write != nil && c47errTestedNil(p, write) {
		werrChecked = true
	}
	// a helper may hand the write error to its caller, which tests it
	if write != nil && !werrChecked && upTo < 0 {
		if ret, ok := p.Last().(*ssa.Return); ok {
			rv := core.RetVals(ret)
			if len(rv) > 0 {
				if wc, i := nxCallResult(nxPathVal(p, rv[len(rv)-1])); wc == write && i == 1 {
					werrChecked = true
				}
			}
		}
	}
	switch {
	case empty:
	case write == nil:
		return "buffered " + sd.name + " bytes (length not tested to be 0) are not written to " + sd.target + " before the copy goroutines start: they are lost; path {" + pathSig(p) + "}"
	case !werrChecked:
		return "the error of writing the buffered " + sd.name + " bytes to " + sd.target + " is not tested before the copy goroutines start; path {" + pathSig(p) + "}"
	}
	return ""
}

// c47errTestedNil: an edge of path p establishes that the error result of call
// is nil (the tested value may reach the test through phis: `_, err = w.Write(b)`
// merged with an earlier err and tested once).
func c47errTestedNil(p *core.Path, call *ssa.Call) bool {
	isErr := func(v ssa.Value) bool {
		c, i := nxCallResult(nxPathVal(p, v))
		if c != call {
			return false
		}
		n := call.Call.Signature().Results().Len()
		return i == n-1
	}
	found := false
	p.Edges(func(cond ssa.Value, taken bool) {
		bo, ok := cond.(*ssa.BinOp)
		if !ok || (bo.Op != token.EQL && bo.Op != token.NEQ) {
			return
		}
		for _, pr := range [][2]ssa.Value{{bo.X, bo.Y}, {bo.Y, bo.X}} {
			if isErr(pr[0]) && isNilConst(pr[1]) && (bo.Op == token.EQL) == taken {
				found = true
			}
		}
	})
	return found
}

// c47pathInfeasible: the path takes two edges that contradict each other on
// whether the same value (resolved through the phis along the path) is nil.
func c47pathInfeasible(p *core.Path) bool {
	facts := map[ssa.Value]bool{}
	bad := false
	p.Edges(func(cond ssa.Value, taken bool) {
		bo, ok := cond.(*ssa.BinOp)
		if !ok || (bo.Op != token.EQL && bo.Op != token.NEQ) {
			return
		}
		for _, pr := range [][2]ssa.Value{{bo.X, bo.Y}, {bo.Y, bo.X}} {
			if !isNilConst(pr[1]) || isNilConst(pr[0]) {
				continue
			}
			v := nxPathVal(p, pr[0])
			isNil := (bo.Op == token.EQL) == taken
			if old, seen := facts[v]; seen && old != isNil {
				bad = true
			}
			facts[v] = isNil
		}
	})
	return bad
}

// c47helperFlushes: on every path of h that returns a nil error (or hands the
// write error to the caller), the reader parameter ri was flushed to the
// connection parameter ti.
func c47helperFlushes(h *ssa.Function, ri, ti int, sd c47side, depth int) bool {
	if ri >= len(h.Params) || ti >= len(h.Params) {
		return false
	}
	res := h.Signature.Results()
	if res.Len() == 0 || res.At(res.Len()-1).Type().String() != "error" {
		return false
	}
	inner := c47side{name: sd.name, peekFn: sd.peekFn, target: sd.target,
		reader: func(v ssa.Value) bool { return core.StripConv(v) == ssa.Value(h.Params[ri]) }}
	isTarget := func(v ssa.Value) bool { return core.StripConv(v) == ssa.Value(h.Params[ti]) }
	ok, n := true, 0
	complete := nxEnumPaths(h.Blocks[0], nil, 2, 500, nil, func(p *core.Path) {
		ret, isRet := p.Last().(*ssa.Return)
		if !isRet || c47pathInfeasible(p) {
			return
		}
		rv := core.RetVals(ret)
		ev := nxPathVal(p, rv[len(rv)-1])
		if !isNilConst(ev) {
			// an error return: the path established ev != nil, or ev is a fresh error
			if ec, _ := nxCallResult(ev); ec == nil {
				return
			}
			nonNil := false
			p.Edges(func(cond ssa.Value, taken bool) {
				bo, isBin := cond.(*ssa.BinOp)
				if !isBin || (bo.Op != token.EQL && bo.Op != token.NEQ) {
					return
				}
				for _, pr := range [][2]ssa.Value{{bo.X, bo.Y}, {bo.Y, bo.X}} {
					if nxPathVal(p, pr[0]) == ev && isNilConst(pr[1]) && (bo.Op == token.NEQ) == taken {
						nonNil = true
					}
				}
			})
			if nonNil {
				return
			}
		}
		n++
		if c47flushOnPath(p, -1, inner, isTarget, depth) != "" {
			ok = false
		}
	})
	return complete && ok && n > 0
}

// c47transfer checks a tunnel set-up function.
func c47transfer(c *core.Ctx, fn *ssa.Function, client, backend, errCh string, flush []c47side) (maxSyncSends int) {
	name := nxShort(fn)
	if i := strings.LastIndex(name, "."); i >= 0 {
		name = name[i+1:]
	}
	// the goroutines
	dirs := map[string]string{} // direction -> closure key
	var gos []*ssa.Go
	for _, in := range allInstrs(fn) {
		if g, ok := in.(*ssa.Go); ok {
			gos = append(gos, g)
		}
	}
	goDir := map[*ssa.Go]string{}
	for i, g := range gos {
		var body *ssa.Function
		if mc, ok := g.Call.Value.(*ssa.MakeClosure); ok {
			body, _ = mc.Fn.(*ssa.Function)
		} else {
			body = g.Call.StaticCallee()
		}
		key := fmt.Sprintf("%s:go#%d", name, i)
		if body == nil || body.Blocks == nil {
			c.Check("tunnel-copy", key, g.Pos(), false, "goroutine body cannot be resolved")
			continue
		}
		c.Analysed(core.FuncKey(body))
		copies := append(core.Calls(body, "io.Copy"), core.Calls(body, "io.CopyBuffer")...)
		dir := "?"
		if len(copies) == 1 {
			a := copies[0].Common().Args
			dst, src := nxOrigin(core.StripConv(a[0])), nxOrigin(core.StripConv(a[1]))
			switch {
			case dst == backend && src == client:
				dir = "client->backend"
			case dst == client && src == backend:
				dir = "backend->client"
			default:
				dir = src + "->" + dst
			}
		}
		goDir[g] = dir
		c.Check("tunnel-copy", key+":direction", g.Pos(), len(copies) == 1 && (dir == "client->backend" || dir == "backend->client"),
			fmt.Sprintf("goroutine %d of %s does not consist of one io.Copy between the raw client (%s) and backend (%s) connections: copies %s (%d copy calls)", i, name, client, backend, dir, len(copies)))
		if _, dup := dirs[dir]; !dup {
			dirs[dir] = key
		}
		// every path of the goroutine reports on the error channel, with the copy's error
		bad := core.MustPass(body, nil, func(in ssa.Instruction) bool { return c47isSend(in, errCh) })
		c.Check("tunnel-copy", key+":reports", g.Pos(), bad == nil && len(core.Returns(body)) > 0,
			"a path of the copy goroutine ends without sending on "+errCh+": the serve loop never learns that this direction finished and does not close the other side")
		if len(copies) == 1 {
			okVal := false
			for _, in := range allInstrs(body) {
				if s, ok := in.(*ssa.Send); ok && c47isSend(in, errCh) {
					if call, i := nxCallResult(s.X); call != nil && i == 1 && ssa.Instruction(call) == copies[0].(ssa.Instruction) {
						okVal = true
					}
				}
			}
			c.Check("tunnel-copy", key+":reports-copy-error", g.Pos(), okVal, "the value sent on "+errCh+" is not the error result of the goroutine's io.Copy")
		}
	}
	for _, d := range []string{"client->backend", "backend->client"} {
		_, ok := dirs[d]
		c.Check("tunnel-copy", name+":"+d, fn.Pos(), ok, "no copy goroutine for direction "+d+" is started by "+name)
	}
	// paths
	badStart, badFlush := "", map[string]string{}
	paths := 0
	complete := nxEnumPaths(fn.Blocks[0], nil, 2, 4000, nil, func(p *core.Path) {
		if _, ok := p.Last().(*ssa.Return); !ok {
			return
		}
		if c47pathInfeasible(p) {
			return
		}
		paths++
		seen := map[string]bool{}
		sends := 0
		firstGo := -1
		n := 0
		p.Instrs(func(in ssa.Instruction) bool {
			if g, ok := in.(*ssa.Go); ok {
				seen[goDir[g]] = true
				if firstGo < 0 {
					firstGo = n
				}
			}
			if c47isSend(in, errCh) {
				sends++
			}
			n++
			return true
		})
		if sends > maxSyncSends {
			maxSyncSends = sends
		}
		started := seen["client->backend"] && seen["backend->client"]
		if !started && sends == 0 && badStart == "" {
			badStart = pathSig(p)
		}
		if firstGo < 0 {
			return
		}
		for _, sd := range flush {
			if badFlush[sd.name] != "" {
				continue
			}
			sd := sd
			badFlush[sd.name] = c47flushOnPath(p, firstGo, sd, func(v ssa.Value) bool { return nxOrigin(v) == sd.target }, 2)
		}
	})
	c.Check("tunnel-start", name, fn.Pos(), complete && paths > 0 && badStart == "",
		fmt.Sprintf("%d paths (complete=%v): a normal exit of %s has neither started both copy directions nor reported an error on %s (the serve loop would wait for nothing); branches: %s", paths, complete, name, errCh, badStart))
	for _, sd := range flush {
		c.Check("tunnel-flush", name+":"+sd.name, fn.Pos(), complete && paths > 0 && badFlush[sd.name] == "", badFlush[sd.name])
	}
	return maxSyncSends
}

// c47serve checks a serve loop.
func c47serve(c *core.Ctx, pkg, errField string) *ssa.Function {
	fn := nxFuncOrMissing(c, pkg, "serverConn.serve")
	if fn == nil {
		return nil
	}
	var sel *ssa.Select
	for _, in := range allInstrs(fn) {
		if s, ok := in.(*ssa.Select); ok && s.Blocking {
			for _, st := range s.States {
				if st.Dir == 2 /* types.RecvOnly */ && strings.HasSuffix(nxOrigin(st.Chan), "."+errField) {
					sel = s
				}
			}
		}
	}
	if sel == nil {
		c.Check("tunnel-loop", pkg+":select", fn.Pos(), false, "serve has no blocking select receiving from sc."+errField)
		return fn
	}
	caseBlock := func(i int) *ssa.BasicBlock {
		for _, in := range allInstrs(fn) {
			ifi, ok := in.(*ssa.If)
			if !ok {
				continue
			}
			bo, ok := ifi.Cond.(*ssa.BinOp)
			if !ok || bo.Op != token.EQL {
				continue
			}
			ex, ok := bo.X.(*ssa.Extract)
			if !ok || ex.Tuple != sel || ex.Index != 0 {
				continue
			}
			if k, ok := nxConstInt(bo.Y); ok && int(k) == i {
				return ifi.Block().Succs[0]
			}
		}
		return nil
	}
	isShutdown := func(in ssa.Instruction) bool { return nxIsCall(in, pkg+".serverConn.shutDownIn") }
	again := func(in ssa.Instruction) bool { return in == sel || core.IsReturn(in) }
	seenKinds := map[string]bool{}
	for i, st := range sel.States {
		org := nxOrigin(st.Chan)
		b := caseBlock(i)
		kind := org[strings.LastIndex(org, ".")+1:]
		seenKinds[kind] = true
		key := pkg + ":case@" + kind
		if b == nil {
			c.Check("tunnel-loop", key, sel.Pos(), false, "select case body not found")
			continue
		}
		switch kind {
		case errField, "closeNotifyCh":
			bad := nxBlockReach(b, isShutdown, again)
			c.Check("tunnel-loop", key, b.Instrs[0].Pos(), bad == nil,
				"after receiving from "+org+" the serve loop can wait again (or return) without calling shutDownIn: when one side of the tunnel ends the other side is not scheduled to be closed")
		case "shutdownTimerCh":
			back := nxBlockReach(b, nil, func(in ssa.Instruction) bool { return in == sel })
			ret := nxBlockReach(b, nil, core.IsReturn)
			c.Check("tunnel-loop", key, b.Instrs[0].Pos(), back == nil && ret != nil,
				"the shutdown-timer case does not leave the serve loop: the deferred Close calls never run")
		default:
			c.Check("tunnel-loop", key, b.Instrs[0].Pos(), true, "")
		}
	}
	for _, k := range []string{errField, "closeNotifyCh", "shutdownTimerCh"} {
		if !seenKinds[k] {
			c.Check("tunnel-loop", pkg+":case@"+k, sel.Pos(), false, "the serve loop's select has no case for sc."+k)
		}
	}
	// shutDownIn arms the timer channel
	if sd := nxFuncOrMissing(c, pkg, "serverConn.shutDownIn"); sd != nil && len(sd.Params) == 2 {
		isArm := func(in ssa.Instruction) bool {
			st, ok := in.(*ssa.Store)
			if !ok {
				return false
			}
			fa, ok := st.Addr.(*ssa.FieldAddr)
			if !ok {
				return false
			}
			f := core.FieldObj(fa.X, fa.Field)
			if f == nil || f.Name() != "shutdownTimerCh" {
				return false
			}
			// value: .C of a timer created by time.NewTimer(d) / time.After(d)
			return nxFlows(st.Val, func(v ssa.Value) bool {
				call, ok := v.(*ssa.Call)
				return ok && core.CallIs(&call.Call, "time.NewTimer", "time.After") && core.StripConv(call.Call.Args[0]) == sd.Params[1]
			}, nil) || c47timerViaField(sd, st.Val)
		}
		ok := true
		detail := ""
		nret := 0
		for _, r := range core.Returns(sd) {
			nret++
			if nxAllPathsPass(sd, r, isArm) {
				continue
			}
			armed := nxHolds(r.Block(), func(g core.Guard) bool {
				bo, isBin := g.Cond.(*ssa.BinOp)
				if !isBin {
					return false
				}
				s := core.Render(bo.X)
				return strings.HasSuffix(s, ".shutdownTimer") && isNilConst(bo.Y) && ((bo.Op == token.NEQ && g.Pol) || (bo.Op == token.EQL && !g.Pol))
			})
			if !armed {
				ok = false
				detail = "a return of shutDownIn is reachable without storing the new timer's channel into sc.shutdownTimerCh and without the timer being armed already; guards: " + nxGuardList(r.Block())
			}
		}
		c.Check("tunnel-loop", pkg+":shutDownIn", sd.Pos(), ok && nret > 0, detail)
	}
	return fn
}

// c47timerViaField: the stored channel is sc.shutdownTimer.C where
// sc.shutdownTimer was stored from time.NewTimer(d) in the same function.
func c47timerViaField(sd *ssa.Function, v ssa.Value) bool {
	u, ok := v.(*ssa.UnOp)
	if !ok || u.Op != token.MUL {
		return false
	}
	fa, ok := u.X.(*ssa.FieldAddr) // &timer.C
	if !ok {
		return false
	}
	tl, ok := fa.X.(*ssa.UnOp) // load of sc.shutdownTimer
	if !ok || tl.Op != token.MUL {
		return false
	}
	tfa, ok := tl.X.(*ssa.FieldAddr)
	if !ok {
		return false
	}
	tf := core.FieldObj(tfa.X, tfa.Field)
	if tf == nil {
		return false
	}
	for _, in := range allInstrs(sd) {
		st, ok := in.(*ssa.Store)
		if !ok {
			continue
		}
		sfa, ok := st.Addr.(*ssa.FieldAddr)
		if !ok || core.FieldObj(sfa.X, sfa.Field) != tf {
			continue
		}
		if call, _ := nxCallResult(st.Val); call != nil && core.CallIs(&call.Call, "time.NewTimer") && core.StripConv(call.Call.Args[0]) == sd.Params[1] && core.Dominates(st, u) {
			return true
		}
	}
	return false
}

// c47deferredCloses returns, for each Defer of fn (in order), the origins of
// the connections it closes.
func c47deferredCloses(fn *ssa.Function) map[*ssa.Defer][]string {
	out := map[*ssa.Defer][]string{}
	for _, in := range allInstrs(fn) {
		d, ok := in.(*ssa.Defer)
		if !ok {
			continue
		}
		if d.Call.IsInvoke() && d.Call.Method.Name() == "Close" {
			out[d] = append(out[d], nxOrigin(d.Call.Value))
			continue
		}
		var body *ssa.Function
		if mc, ok := d.Call.Value.(*ssa.MakeClosure); ok {
			body, _ = mc.Fn.(*ssa.Function)
		}
		if body == nil {
			continue
		}
		for _, x := range allInstrs(body) {
			if call, ok := x.(ssa.CallInstruction); ok && call.Common().IsInvoke() && call.Common().Method.Name() == "Close" {
				out[d] = append(out[d], nxOrigin(call.Common().Value))
			}
		}
	}
	return out
}

func runC47(c *core.Ctx) {
	defer nxEnter(c)()
	// ---- websocket
	const ws = "bfe_websocket"
	if c.P.Pkg(ws) == nil {
		c.Missing(ws)
	} else {
		serve := c47serve(c, ws, "errCh")
		tr := nxFuncOrMissing(c, ws, "serverConn.websocketDataTransfer")
		if tr != nil {
			flush := []c47side{
				{"client", func(v ssa.Value) bool {
					return nxFlows(v, func(v ssa.Value) bool {
						hc, ok := v.(*ssa.Call)
						return ok && hc.Call.IsInvoke() && hc.Call.Method.Name() == "Hijack"
					}, nil)
				}, ws + ".peekBufferedData", "sc.bconn"},
				{"backend", func(v ssa.Value) bool { return nxOrigin(v) == "sc.bbr" }, ws + ".peekBufferedData", "sc.cconn"},
			}
			maxSync := c47transfer(c, tr, "sc.cconn", "sc.bconn", "sc.errCh", flush)
			// the client connection used by the copies is the hijacked one
			okHj := false
			for _, in := range allInstrs(tr) {
				if st, ok := in.(*ssa.Store); ok && nxOriginAddr(st.Addr) == "sc.cconn" {
					if call, i := nxCallResult(st.Val); call != nil && i == 0 && call.Call.IsInvoke() && call.Call.Method.Name() == "Hijack" {
						okHj = true
					}
				}
			}
			c.Check("tunnel-flush", "websocketDataTransfer:hijacked-conn", tr.Pos(), okHj, "sc.cconn is not set from Hijack()'s connection in websocketDataTransfer")
			// capacity of the error channel
			if fld := nxFieldVar(c, ws, "serverConn.errCh"); fld != nil {
				stores := core.FieldStores(c.P.SrcFuncs(ws), fld)
				for i, st := range stores {
					mk, ok := st.Store.Val.(*ssa.MakeChan)
					capv := int64(-1)
					if ok {
						capv, _ = nxConstInt(mk.Size)
						if _, isK := nxConstInt(mk.Size); !isK {
							capv = -1
						}
					}
					c.Check("tunnel-errch", fmt.Sprintf("%s:errCh#%d", nxShort(st.Fn), i), st.Store.Pos(), ok && capv >= int64(maxSync) && capv >= 1,
						fmt.Sprintf("serverConn.errCh is created with capacity %d; websocketDataTransfer can send %d time(s) on it from the serve goroutine before the serve loop receives: the send would block forever and the connections would never be closed", capv, maxSync))
				}
				c.Min("tunnel-errch", 1)
			}
		}
		// the handshake parses the backend response from sc.bbr, built over sc.bconn
		if hs := nxFuncOrMissing(c, ws, "serverConn.websocketHandshake"); hs != nil {
			okRead := false
			for _, call := range core.Calls(hs, "bfe_http.ReadResponse") {
				okRead = nxOrigin(call.Common().Args[0]) == "sc.bbr"
			}
			okStore := false
			nst := 0
			if fld := nxFieldVar(c, ws, "serverConn.bbr"); fld != nil {
				for _, st := range core.FieldStores(c.P.SrcFuncs(ws), fld) {
					nst++
					call, _ := nxCallResult(st.Store.Val)
					okStore = st.Fn == hs && call != nil && core.CallIs(&call.Call, "bfe_bufio.NewReader", "bfe_bufio.NewReaderSize") && nxOrigin(core.StripConv(call.Call.Args[0])) == "sc.bconn"
				}
			}
			c.Check("tunnel-flush", "websocketHandshake:bbr", hs.Pos(), okRead && okStore && nst == 1,
				"the handshake response must be parsed from sc.bbr = bufio.NewReader(sc.bconn), the reader whose buffered remainder websocketDataTransfer flushes to the client; otherwise bytes the backend sent together with its 101 response are lost")
		}
		// nothing armed on the connections during set-up outlives the set-up
		if serve != nil {
			c47checkArmed(c, ws, serve, c47state{}, c47hijackArmed(c))
		}
		// nobody else reads the client connection that is hijacked
		if serve != nil {
			c47soleReader(c, ws, serve)
		}
		// deferred closes registered before the tunnel starts
		if serve != nil {
			trCalls := core.Calls(serve, ws+".serverConn.websocketDataTransfer")
			closes := c47deferredCloses(serve)
			for _, want := range []string{"sc.cconn", "sc.bconn"} {
				ok := len(trCalls) > 0
				for _, tc := range trCalls {
					found := false
					for d, orgs := range closes {
						for _, o := range orgs {
							if o == want && core.Dominates(d, tc.(ssa.Instruction)) {
								found = true
							}
						}
					}
					ok = ok && found
				}
				c.Check("tunnel-close", ws+":"+want, serve.Pos(), ok, "no deferred Close of "+want+" is registered in serve before websocketDataTransfer starts the tunnel: when one side ends the other is not closed")
			}
		}
	}
	// ---- stream
	const st = "bfe_stream"
	if c.P.Pkg(st) == nil {
		c.Missing(st)
		return
	}
	serve := c47serve(c, st, "copyErrCh")
	if h := nxFuncOrMissing(c, st, "TLSProxyHandler"); h != nil && len(h.Params) == 4 {
		c47transfer(c, h, h.Params[1].Name(), h.Params[2].Name(), h.Params[3].Name(), nil)
	}
	if serve != nil {
		// nothing armed on the connections during set-up outlives the set-up;
		// the client connection arrives from bfe_server's conn.serve
		entry := c47state{}
		armed, why := c47nextProtoArmed(c)
		c.Note("tunnel-armed: deadlines possibly armed on the connection bfe_server.conn.serve hands to a TLSNextProto handler: %q %s", armed, why)
		if nxFieldVar(c, st, "serverConn.conn") == nil || len(serve.Params) == 0 {
			c.Missing(st + ".serverConn.conn")
		}
		for i := 0; i < len(armed) && len(serve.Params) > 0; i++ {
			entry[c47fact{serve.Params[0].Name() + ".conn", armed[i]}] = "bfe_server's conn.serve before it hands the connection to the stream handler (" + why + ")"
		}
		c47checkArmed(c, st, serve, entry, "RW")
	}
	if serve != nil {
		// the handler call
		var hcall ssa.CallInstruction
		for _, call := range core.AllCalls(serve) {
			cc := call.Common()
			if cc.IsInvoke() || cc.StaticCallee() != nil {
				continue
			}
			if pc, _ := nxCallResult(cc.Value); pc != nil && core.CallIs(&pc.Call, st+".Server.proxyHandler") {
				hcall = call
			}
		}
		if hcall == nil {
			c.Check("tunnel-handler", st+":call", serve.Pos(), false, "serve does not invoke the handler returned by srv.proxyHandler()")
		} else {
			a := hcall.Common().Args
			okArgs := len(a) == 4 && nxOrigin(a[1]) == "sc.conn" && nxOrigin(a[3]) == "sc.copyErrCh"
			okBack := false
			if len(a) == 4 {
				if fc, i := nxCallResult(a[2]); fc != nil && i == 0 && core.CallIs(&fc.Call, st+".serverConn.findBackend") {
					okBack = true
				}
			}
			got := ""
			if len(a) == 4 {
				got = nxOrigin(a[1]) + ", " + core.Render(a[2]) + ", " + nxOrigin(a[3])
			}
			c.Check("tunnel-handler", st+":args", hcall.Pos(), okArgs && okBack,
				"the proxy handler must be started with (sc.conn, findBackend()'s connection, sc.copyErrCh) — the channel the serve loop receives from; got ("+got+")")
			closes := c47deferredCloses(serve)
			for _, want := range []string{"client", "backend"} {
				found := false
				for d, orgs := range closes {
					if !core.Dominates(d, hcall.(ssa.Instruction)) {
						continue
					}
					for _, o := range orgs {
						if want == "client" && o == "sc.conn" {
							found = true
						}
					}
					if want == "backend" && d.Call.IsInvoke() {
						if fc, i := nxCallResult(d.Call.Value); fc != nil && i == 0 && core.CallIs(&fc.Call, st+".serverConn.findBackend") {
							found = true
						}
					}
				}
				c.Check("tunnel-close", st+":"+want, serve.Pos(), found, "no deferred Close of the "+want+" connection is registered in serve before the proxy handler starts the tunnel")
			}
		}
		// default handler
		if ph := nxFuncOrMissing(c, st, "Server.proxyHandler"); ph != nil {
			def := false
			for _, r := range core.Returns(ph) {
				for _, l := range nxPhiLeaves(r.Results[0]) {
					if f, ok := core.StripConv(l.V).(*ssa.Function); ok && core.FuncKey(f) == st+".TLSProxyHandler" {
						def = true
					}
				}
			}
			c.Check("tunnel-handler", st+":default", ph.Pos(), def, "Server.proxyHandler does not default to TLSProxyHandler (the analysed copy loops)")
		}
	}
	c.Min("tunnel-copy", 14)
	c.Min("tunnel-start", 2)
	c.Min("tunnel-flush", 4)
	c.Min("tunnel-loop", 8)
	c.Min("tunnel-close", 4)
	c.Min("tunnel-handler", 2)
	c.Min("tunnel-armed", 6)
	c.Min("tunnel-sole-reader", 2)
}
