package rules

import (
	"fmt"
	"go/token"
	"go/types"
	"strings"

	"golang.org/x/tools/go/ssa"

	"verif/internal/core"
)

// C51 — access-control handlers are fail-closed gates: after a rule matched
// the request is forwarded (BfeHandlerGoOn) only when the credential check
// succeeded; the value that is compared comes from the rule's configuration.
func init() {
	Register(&Rule{
		ID: "C51", Section: "5 C51",
		Technique: "control-dependence of every GoOn return on the credential check, reachability from each failing edge to a forwarding return, value-flow from rule configuration to the compared secret, key-function inspection for the JWT algorithm pin, command-table agreement for mod_block, error-gate analysis of the table load chains (publication dominated by the loader's err == nil, success returns gated by every inspected step, failing edges closed)",
		Meta: core.Meta{
			Level:       "other",
			Explanation: "Decides for mod_auth_basic, mod_auth_jwt, mod_secure_link and mod_block: (1) in each handler every `return BfeHandlerGoOn` that is control-dependent on a rule having matched is also control-dependent on the credential check having succeeded, every other verdict returned there is the documented rejection (Response with a non-nil response, or Close), and from the failing edge of the credential check no forwarding return is reachable (no continue/fall-through to a later rule); (2) Basic: checkAuthCredentials returns true only under BasicAuth() ok, a hit in rule.UserPasswd keyed by the request's user name, and auth.CheckSecret(request password, stored hash); (3) JWT: checkAuthCredentials returns either getToken's error or validateToken(token from the Authorization Bearer header, rule); validateToken returns nil only under jwt.Parse(token, key function of a configured key) err == nil, token.Valid and Claims.Valid() == nil; the key function returns the configured key and must read token.Method / the alg header and reject on it; (4) secure link: Checker.Check returns nil only under encode(expression.Value(request)) == query[ChecksumKey], encode hashes its argument with md5, and with an ExpiresKey configured every path to an accepting return passes a comparison against time.Now() whose failing side returns an error - decided over Check and its private helpers (the branch on ExpiresKey and/or the comparison may live in an unexported helper that returns an error; its verdict counts only where `err == nil` of the call is the only way on to an accepting return, at every call site up to Check; an error handed on under `err != nil` is a rejection); (5) mod_block: globalBlockHandler returns GoOn only when ipTable.Search(session.RemoteAddr.IP) is false and Close when it is true; productRulesProcess forwards a matched request only under Cmd == ALLOW, closes under CLOSE, and knows every command its ActionFileCheck accepts; productBlockHandler returns the verdict of productRulesProcess whenever a rule matched. (6) table loading is fail-closed, for mod_block's ipTable and ruleTable and the rule tables of the three auth modules: the value given to <table>.Update is result #0 of a loader call and the Update is reached only through that call's err == nil (load-gate; followed through one or two levels of helper parameters); in the publisher, its static callers (Init), the loader and the module-internal functions it calls as steps (two levels: *ConfLoad/*Check/*Convert, GlobalIPTableLoad, txt_load.CheckAndLoad, getFileInfo, checkLine, ipdict.NewIPItems/Insert*) every return that may carry a nil error is reached only through err == nil of every dominating error-returning call whose error the function inspects or whose value flows into the result, or hands that call's error on unchanged (load-result), and from the err != nil side of such a test no possibly-successful return is reachable (load-fail-closed); a deliberate fallback (a second step that runs only after the first failed, gates the return with its own error, and nothing of the failed step is returned) is accepted. Not covered: an expiry helper that reports through a bool or through a result other than error (reported as a missing gate), the crypto libraries (go-http-auth, jwt-go, md5/base64), the content of a successfully loaded table (line counting and meta-line arithmetic of txt_load, JSON semantics), errors that are discarded without ever being bound (`x, _ := f()` of a step inside a loop), reload handlers reached through the web-monitor function table, expiry arithmetic and clock, constant-time comparison, what the framework does with Close/Response verdicts (C48), rule matching itself (C16-C18).",
			RuleText:    "obligations = each verdict return in a matched region, each failing edge of a credential check, each success return of the check functions with its required guards, the compared values' origins, each key function, each accepted mod_block command, each table publication, each possibly-successful return and each error-test failing edge of the load-chain functions",
			Assumptions: []string{"jwt-go rejects alg=none for ordinary keys and HMAC verification of non-[]byte keys (library behaviour, v3.2.0)", "handlers are the only filters the modules register (AddFilter call sites are not re-checked here)"},
		},
		Run: runC51,
		Mutants: []Mutant{
			{Name: "basic-failure-continues", File: "bfe_modules/mod_auth_basic/mod_auth_basic.go", Old: "			if !m.checkAuthCredentials(req, &rule) {\n				return bfe_module.BfeHandlerResponse, m.createUnauthorizedResp(req, &rule)\n			}", New: "			if !m.checkAuthCredentials(req, &rule) {\n				continue\n			}", Expect: "fail-closed|mod_auth_basic"},
			{Name: "basic-failure-forwards", File: "bfe_modules/mod_auth_basic/mod_auth_basic.go", Old: "			if !m.checkAuthCredentials(req, &rule) {\n				return bfe_module.BfeHandlerResponse, m.createUnauthorizedResp(req, &rule)\n			}", New: "			if !m.checkAuthCredentials(req, &rule) {\n				m.state.ReqAuthFailure.Inc(1)\n			}", Expect: "goon-guard|mod_auth_basic"},
			{Name: "basic-unknown-user-accepted", File: "bfe_modules/mod_auth_basic/mod_auth_basic.go", Old: "		m.state.ReqAuthFailure.Inc(1)\n		return false\n	}\n\n	if !auth.CheckSecret", New: "		m.state.ReqAuthFailure.Inc(1)\n		return len(passwd) > 0\n	}\n\n	if !auth.CheckSecret", Expect: "cred-success|mod_auth_basic"},
			{Name: "basic-compares-username", File: "bfe_modules/mod_auth_basic/mod_auth_basic.go", Old: "	if !auth.CheckSecret(passwd, hashedPasswd) {", New: "	if !auth.CheckSecret(username, hashedPasswd) {", Expect: "cred-success|mod_auth_basic"},
			{Name: "jwt-error-forwards", File: "bfe_modules/mod_auth_jwt/mod_auth_jwt.go", Old: "				m.state.ReqAuthFailure.Inc(1)\n				return bfe_module.BfeHandlerResponse, m.createUnauthorizedResp(req, &rule)\n			}", New: "				m.state.ReqAuthFailure.Inc(1)\n			}", Expect: "goon-guard|mod_auth_jwt"},
			{Name: "jwt-claims-not-validated", File: "bfe_modules/mod_auth_jwt/mod_auth_jwt.go", Old: "		if parsedToken.Valid && parsedToken.Claims.Valid() == nil {", New: "		if parsedToken.Valid || parsedToken.Claims.Valid() == nil {", Expect: "cred-success|mod_auth_jwt"},
			{Name: "jwt-parse-error-ignored", File: "bfe_modules/mod_auth_jwt/mod_auth_jwt.go", Old: "		if parsedToken.Valid && parsedToken.Claims.Valid() == nil {\n			return nil\n		}", New: "		if parsedToken.Valid && parsedToken.Claims.Valid() == nil {\n			return nil\n		}\n		if len(rule.Keys) == 0 {\n			return nil\n		}", Expect: "cred-success|mod_auth_jwt"},
			{Name: "jwt-missing-header-accepted", File: "bfe_modules/mod_auth_jwt/mod_auth_jwt.go", Old: "	token, err := m.getToken(req)\n	if err != nil {\n		return err\n	}", New: "	token, err := m.getToken(req)\n	if err != nil {\n		return nil\n	}", Expect: "cred-success|mod_auth_jwt"},
			{Name: "securelink-mismatch-accepted", File: "bfe_modules/mod_secure_link/checker.go", Old: "	if want == origin {\n		return nil\n	}\n\n	return ErrReqInvalidChecksum", New: "	if want == origin {\n		return nil\n	}\n\n	return nil", Expect: "cred-success|mod_secure_link"},
			{Name: "securelink-compares-raw", File: "bfe_modules/mod_secure_link/checker.go", Old: "	want := cs.encode(raw)\n", New: "	want := origin\n	_ = raw\n", Expect: "checksum-flow"},
			{Name: "securelink-expiry-not-checked", File: "bfe_modules/mod_secure_link/checker.go", Old: "		if time.Now().Unix() > int64(expiredUnix) {\n			return ErrReqExpired\n		}\n", New: "		_ = expiredUnix\n		_ = time.Now\n", Expect: "expiry-gate"},
			{Name: "securelink-failure-falls-through", File: "bfe_modules/mod_secure_link/mod_secure_link.go", Old: "		return bfe_module.BfeHandlerResponse, &bfe_http.Response{\n			StatusCode: 403,\n		}\n	}", New: "		if err == ErrReqExpired {\n			return bfe_module.BfeHandlerResponse, &bfe_http.Response{\n				StatusCode: 403,\n			}\n		}\n	}", Expect: "fail-closed|mod_secure_link"},
			{Name: "block-ip-hit-forwards", File: "bfe_modules/mod_block/mod_block.go", Old: "		m.state.ConnRefuse.Inc(1)\n		return bfe_module.BfeHandlerClose\n", New: "		m.state.ConnRefuse.Inc(1)\n", Expect: "goon-guard|mod_block"},
			{Name: "block-close-rule-forwards", File: "bfe_modules/mod_block/mod_block.go", Old: "				m.state.ReqRefuse.Inc(1)\n				return bfe_module.BfeHandlerClose, true, nil", New: "				m.state.ReqRefuse.Inc(1)\n				return bfe_module.BfeHandlerGoOn, true, nil", Expect: "mod_block.productRulesProcess"},
			{Name: "block-global-verdict-ignored", File: "bfe_modules/mod_block/mod_block.go", Old: "		if isMatch {\n			return retVal, resp\n		}", New: "		if isMatch && retVal == bfe_module.BfeHandlerGoOn {\n			return retVal, resp\n		}", Expect: "verdict-propagated"},
			{Name: "block-unknown-command-accepted", File: "bfe_modules/mod_block/action.go", Old: "	case \"ALLOW\":\n		paramsLenCheck = 0\n", New: "	case \"ALLOW\", \"PASS\":\n		paramsLenCheck = 0\n", Expect: "command-known"},
			{Name: "block-iptable-partial-load-published", File: "bfe_modules/mod_block/mod_block.go", Old: "	items, err := GlobalIPTableLoad(path)\n	if err != nil {", New: "	items, err := GlobalIPTableLoad(path)\n	if err != nil && items == nil {", Expect: "load-gate|bfe_modules/mod_block.ModuleBlock.ipTable"},
			{Name: "basic-rule-load-error-tolerated", File: "bfe_modules/mod_auth_basic/mod_auth_basic.go", Old: "	conf, err := AuthBasicConfLoad(path)\n	if err != nil {", New: "	conf, err := AuthBasicConfLoad(path)\n	if err != nil && path != m.configPath {", Expect: "load-gate|bfe_modules/mod_auth_basic"},
			{Name: "block-rule-check-failure-tolerated", File: "bfe_modules/mod_block/product_rule_load.go", Old: "	err = productRuleConfCheck(config)\n	if err != nil {", New: "	err = productRuleConfCheck(config)\n	if err != nil && config.Version == nil {", Expect: "load-result|bfe_modules/mod_block.ProductRuleConfLoad"},
			{Name: "block-bad-rule-skipped", File: "bfe_modules/mod_block/product_rule_load.go", Old: "		rule, err := ruleConvert(ruleFile)\n		if err != nil {\n			return nil, err\n		}", New: "		rule, err := ruleConvert(ruleFile)\n		if err != nil {\n			continue\n		}", Expect: "load-fail-closed|bfe_modules/mod_block.ruleListConvert"},
			{Name: "iptable-scan-error-keeps-partial", File: "bfe_util/ipdict/txt_load/txt_load.go", Old: "	err = scanner.Err()\n	// Scan meets error\n	if err != nil {", New: "	err = scanner.Err()\n	// Scan meets error\n	if err != nil && ipItems.Length() == 0 {", Expect: "load-result|bfe_util/ipdict/txt_load.TxtFileLoader.CheckAndLoad"},
			{Name: "block-iptable-sentinel-error-accepted", File: "bfe_modules/mod_block/global_ip_table_load.go", Old: "	if err != nil {\n		return nil, fmt.Errorf(\"load dict: %s\", err.Error())\n	}", New: "	if err != nil && err != txt_load.ErrMaxLineExceed {\n		return nil, fmt.Errorf(\"load dict: %s\", err.Error())\n	}", Expect: "load-result|bfe_modules/mod_block.GlobalIPTableLoad"},
			{Name: "silent-block-publish-positive-form-logged", File: "bfe_modules/mod_block/mod_block.go", Old: "	if err != nil {\n		return fmt.Errorf(\"err in GlobalIPTableLoad(%s):%s\", path, err)\n	}\n\n	m.ipTable.Update(items)\n	return nil", New: "	if err == nil {\n		log.Logger.Info(\"%s: global ip table loaded from %s\", m.name, path)\n		m.ipTable.Update(items)\n		return nil\n	}\n	return fmt.Errorf(\"err in GlobalIPTableLoad(%s):%s\", path, err)", Silent: true},
			{Name: "silent-securelink-publish-helper", File: "bfe_modules/mod_secure_link/mod_secure_link.go", Old: "	// update to rule table\n	m.ruleTable.Update(conf)\n\n	return nil\n}", New: "	m.publish(conf)\n\n	return nil\n}\n\nfunc (m *ModuleSecureLink) publish(conf *Data) {\n	m.ruleTable.Update(conf)\n}", Silent: true},
			{Name: "silent-jwt-alg-pinned", File: "bfe_modules/mod_auth_jwt/auth_jwt_rule_load.go", Old: "	return p.key.Key, nil\n", New: "	if p.key.Algorithm != \"\" && token.Method.Alg() != p.key.Algorithm {\n		return nil, fmt.Errorf(\"unexpected signing method: %s\", token.Method.Alg())\n	}\n	return p.key.Key, nil\n", Silent: true},
			{Name: "jwt-key-from-token-header", File: "bfe_modules/mod_auth_jwt/auth_jwt_rule_load.go", Old: "	return p.key.Key, nil\n", New: "	if k, ok := token.Header[\"jwk\"]; ok {\n		return k, nil\n	}\n	return p.key.Key, nil\n", Expect: "jwt-key|"},
			{Name: "silent-jwt-success-first", File: "bfe_modules/mod_auth_jwt/mod_auth_jwt.go", Old: "			if err != nil {\n				if openDebug {\n					log.Logger.Debug(\"%s: check auth jwt error: %v\", m.name, err)\n				}\n\n				m.state.ReqAuthFailure.Inc(1)\n				return bfe_module.BfeHandlerResponse, m.createUnauthorizedResp(req, &rule)\n			}\n\n			m.state.ReqAuthSuccess.Inc(1)\n			return bfe_module.BfeHandlerGoOn, nil\n", New: "			if err == nil {\n				m.state.ReqAuthSuccess.Inc(1)\n				return bfe_module.BfeHandlerGoOn, nil\n			}\n			if openDebug {\n				log.Logger.Debug(\"%s: check auth jwt error: %v\", m.name, err)\n			}\n			m.state.ReqAuthFailure.Inc(1)\n			return bfe_module.BfeHandlerResponse, m.createUnauthorizedResp(req, &rule)\n", Silent: true},
			{Name: "silent-securelink-expiry-in-helper", File: "bfe_modules/mod_secure_link/checker.go", Old: "// Check validate request\nfunc (cs *Checker) Check(request *bfe_basic.Request) error {\n\tif ek := cs.Config.ExpiresKey; ek != \"\" {\n\t\texpired := request.CachedQuery().Get(ek)\n\t\tif expired == \"\" {\n\t\t\treturn ErrReqWithoutExpiresKey\n\t\t}\n\n\t\texpiredUnix, err := strconv.Atoi(expired)\n\t\tif err != nil {\n\t\t\treturn ErrReqInvalidExpiresValue\n\t\t}\n\n\t\tif time.Now().Unix() > int64(expiredUnix) {\n\t\t\treturn ErrReqExpired\n\t\t}\n\t}\n", New: "func (cs *Checker) notExpired(request *bfe_basic.Request, ek string) error {\n\texpired := request.CachedQuery().Get(ek)\n\tif expired == \"\" {\n\t\treturn ErrReqWithoutExpiresKey\n\t}\n\texpiredUnix, err := strconv.Atoi(expired)\n\tif err != nil {\n\t\treturn ErrReqInvalidExpiresValue\n\t}\n\tif time.Now().Unix() > int64(expiredUnix) {\n\t\treturn ErrReqExpired\n\t}\n\treturn nil\n}\n\n// Check validate request\nfunc (cs *Checker) Check(request *bfe_basic.Request) error {\n\tif ek := cs.Config.ExpiresKey; ek != \"\" {\n\t\tif err := cs.notExpired(request, ek); err != nil {\n\t\t\treturn err\n\t\t}\n\t}\n", Silent: true},
			{Name: "securelink-expiry-helper-verdict-ignored", File: "bfe_modules/mod_secure_link/checker.go", Old: "// Check validate request\nfunc (cs *Checker) Check(request *bfe_basic.Request) error {\n\tif ek := cs.Config.ExpiresKey; ek != \"\" {\n\t\texpired := request.CachedQuery().Get(ek)\n\t\tif expired == \"\" {\n\t\t\treturn ErrReqWithoutExpiresKey\n\t\t}\n\n\t\texpiredUnix, err := strconv.Atoi(expired)\n\t\tif err != nil {\n\t\t\treturn ErrReqInvalidExpiresValue\n\t\t}\n\n\t\tif time.Now().Unix() > int64(expiredUnix) {\n\t\t\treturn ErrReqExpired\n\t\t}\n\t}\n", New: "func (cs *Checker) notExpired(request *bfe_basic.Request, ek string) error {\n\texpired := request.CachedQuery().Get(ek)\n\tif expired == \"\" {\n\t\treturn ErrReqWithoutExpiresKey\n\t}\n\texpiredUnix, err := strconv.Atoi(expired)\n\tif err != nil {\n\t\treturn ErrReqInvalidExpiresValue\n\t}\n\tif time.Now().Unix() > int64(expiredUnix) {\n\t\treturn ErrReqExpired\n\t}\n\treturn nil\n}\n\n// Check validate request\nfunc (cs *Checker) Check(request *bfe_basic.Request) error {\n\tif ek := cs.Config.ExpiresKey; ek != \"\" {\n\t\tif err := cs.notExpired(request, ek); err != nil && err != ErrReqExpired {\n\t\t\treturn err\n\t\t}\n\t}\n", Expect: "expiry-gate"},
			{Name: "silent-securelink-expiry-branch-in-helper", File: "bfe_modules/mod_secure_link/checker.go", Old: "// Check validate request\nfunc (cs *Checker) Check(request *bfe_basic.Request) error {\n\tif ek := cs.Config.ExpiresKey; ek != \"\" {\n\t\texpired := request.CachedQuery().Get(ek)\n\t\tif expired == \"\" {\n\t\t\treturn ErrReqWithoutExpiresKey\n\t\t}\n\n\t\texpiredUnix, err := strconv.Atoi(expired)\n\t\tif err != nil {\n\t\t\treturn ErrReqInvalidExpiresValue\n\t\t}\n\n\t\tif time.Now().Unix() > int64(expiredUnix) {\n\t\t\treturn ErrReqExpired\n\t\t}\n\t}\n", New: "func (cs *Checker) expiryOK(request *bfe_basic.Request) error {\n\tek := cs.Config.ExpiresKey\n\tif ek == \"\" {\n\t\treturn nil\n\t}\n\texpired := request.CachedQuery().Get(ek)\n\tif expired == \"\" {\n\t\treturn ErrReqWithoutExpiresKey\n\t}\n\texpiredUnix, err := strconv.Atoi(expired)\n\tif err != nil {\n\t\treturn ErrReqInvalidExpiresValue\n\t}\n\tif time.Now().Unix() > int64(expiredUnix) {\n\t\treturn ErrReqExpired\n\t}\n\treturn nil\n}\n\n// Check validate request\nfunc (cs *Checker) Check(request *bfe_basic.Request) error {\n\tif err := cs.expiryOK(request); err != nil {\n\t\treturn err\n\t}\n", Silent: true},
			{Name: "securelink-expiry-branch-helper-not-enforced", File: "bfe_modules/mod_secure_link/checker.go", Old: "// Check validate request\nfunc (cs *Checker) Check(request *bfe_basic.Request) error {\n\tif ek := cs.Config.ExpiresKey; ek != \"\" {\n\t\texpired := request.CachedQuery().Get(ek)\n\t\tif expired == \"\" {\n\t\t\treturn ErrReqWithoutExpiresKey\n\t\t}\n\n\t\texpiredUnix, err := strconv.Atoi(expired)\n\t\tif err != nil {\n\t\t\treturn ErrReqInvalidExpiresValue\n\t\t}\n\n\t\tif time.Now().Unix() > int64(expiredUnix) {\n\t\t\treturn ErrReqExpired\n\t\t}\n\t}\n", New: "func (cs *Checker) expiryOK(request *bfe_basic.Request) error {\n\tek := cs.Config.ExpiresKey\n\tif ek == \"\" {\n\t\treturn nil\n\t}\n\texpired := request.CachedQuery().Get(ek)\n\tif expired == \"\" {\n\t\treturn ErrReqWithoutExpiresKey\n\t}\n\texpiredUnix, err := strconv.Atoi(expired)\n\tif err != nil {\n\t\treturn ErrReqInvalidExpiresValue\n\t}\n\tif time.Now().Unix() > int64(expiredUnix) {\n\t\treturn ErrReqExpired\n\t}\n\treturn nil\n}\n\n// Check validate request\nfunc (cs *Checker) Check(request *bfe_basic.Request) error {\n\tif err := cs.expiryOK(request); err != nil {\n\t\t_ = err\n\t}\n", Expect: "expiry-gate"},
			{Name: "silent-basic-positive-form", File: "bfe_modules/mod_auth_basic/mod_auth_basic.go", Old: "			if !m.checkAuthCredentials(req, &rule) {\n				return bfe_module.BfeHandlerResponse, m.createUnauthorizedResp(req, &rule)\n			}\n			return bfe_module.BfeHandlerGoOn, nil", New: "			if m.checkAuthCredentials(req, &rule) {\n				return bfe_module.BfeHandlerGoOn, nil\n			}\n			return bfe_module.BfeHandlerResponse, m.createUnauthorizedResp(req, &rule)", Silent: true},
		},
	})
}

// mdGateSpec describes one fail-closed handler.
type mdGateSpec struct {
	name     string
	fn       *ssa.Function
	matched  func(f mdFact) bool // nil: the whole function is the protected region
	credOK   func(f mdFact) bool
	credFail func(f mdFact) bool
	goOn     int64
	reject   map[int64]bool // admissible non-forwarding verdicts
	needResp map[int64]bool // verdicts that must carry a response
}

func mdIsMatchCall(v ssa.Value) bool {
	c, _ := mdCallOf(v)
	return c != nil && c.IsInvoke() && c.Method.Name() == "Match" && strings.HasSuffix(core.TypeStr(c.Value.Type()), "condition.Condition")
}

func mdCheckGate(c *core.Ctx, g mdGateSpec) {
	c.Analysed(core.FuncKey(g.fn))
	nGo, nRej := 0, 0
	for _, r := range core.Returns(g.fn) {
		rv := core.RetVals(r)
		if len(rv) == 0 {
			continue
		}
		if g.matched != nil && !mdEstablished(r.Block(), g.matched) {
			continue
		}
		vals, isConst := mdPossibleInts(rv[0])
		if !isConst {
			nGo++
			c.Check("goon-guard", fmt.Sprintf("%s:return-nonconst#%d", g.name, nGo), r.Pos(), false, "verdict "+core.Render(rv[0])+" returned after a rule matched is not a constant; cannot establish that it is not GoOn")
			continue
		}
		for _, v := range vals {
			if v == g.goOn {
				nGo++
				c.Check("goon-guard", fmt.Sprintf("%s:return-goon#%d", g.name, nGo), r.Pos(), mdEstablished(r.Block(), g.credOK),
					"the request is forwarded (BfeHandlerGoOn) after a rule matched although the credential check did not succeed on this path; facts: "+mdFactStrs(r.Block()))
			} else {
				nRej++
				ok := g.reject[v]
				if ok && g.needResp[v] && (len(rv) < 2 || mdIsNil(rv[len(rv)-1])) {
					ok = false
				}
				c.Check("reject-verdict", fmt.Sprintf("%s:return-reject#%d", g.name, nRej), r.Pos(), ok,
					fmt.Sprintf("verdict %d returned for a matched request is not the documented rejection (Response with a response, or Close)", v))
			}
		}
	}
	if nGo == 0 {
		c.Check("goon-guard", g.name+":return-goon", g.fn.Pos(), false, "no forwarding return found in the protected region: the handler shape is not the one the rule was reviewed with")
	}
	if nRej == 0 {
		c.Check("reject-verdict", g.name+":return-reject", g.fn.Pos(), false, "no rejecting return found in the protected region")
	}
	// failing edges
	n := 0
	for _, b := range g.fn.Blocks {
		for _, s := range b.Succs {
			f, ok := mdEdgeFact(b, s)
			if !ok || !g.credFail(f) {
				continue
			}
			n++
			bad := ""
			for rb := range mdReachableFrom(s) {
				r := mdBlockReturn(rb)
				if r == nil || rb == g.fn.Recover {
					continue
				}
				rv := core.RetVals(r)
				vals, isConst := mdPossibleInts(rv[0])
				if !isConst {
					bad = "a non-constant verdict " + core.Render(rv[0])
				}
				for _, v := range vals {
					if v == g.goOn {
						bad = "a forwarding return at " + c.P.Pos(r.Pos())
					}
				}
			}
			c.Check("fail-closed", fmt.Sprintf("%s:failing-edge#%d", g.name, n), mdBlockPos(s), bad == "",
				"after the credential check failed "+bad+" is still reachable (continue / fall-through to a later rule or to the default GoOn)")
		}
	}
	if n == 0 {
		c.Check("fail-closed", g.name+":failing-edge", g.fn.Pos(), false, "no branch on the credential check's failure found")
	}
}

func runC51(c *core.Ctx) {
	vc, ok := mdVerdictConsts(c)
	if !ok {
		return
	}
	goOn := vc["BfeHandlerGoOn"]
	reject := map[int64]bool{vc["BfeHandlerResponse"]: true, vc["BfeHandlerClose"]: true}
	needResp := map[int64]bool{vc["BfeHandlerResponse"]: true}
	matched := func(f mdFact) bool { return f.Pol && mdIsMatchCall(f.Cond) }

	mdC51Basic(c, goOn, reject, needResp, matched)
	mdC51JWT(c, goOn, reject, needResp, matched)
	mdC51SecureLink(c, goOn, reject, needResp, matched)
	mdC51Block(c, vc, matched)
	mdC51Loads(c)

	c.Min("goon-guard", 5)
	c.Min("reject-verdict", 5)
	c.Min("fail-closed", 5)
	c.Min("cred-success", 6)
}

// ---- mod_auth_basic ----------------------------------------------------------

func mdC51Basic(c *core.Ctx, goOn int64, reject, needResp map[int64]bool, matched func(mdFact) bool) {
	const pkg = "bfe_modules/mod_auth_basic"
	h := c.P.Func(pkg, "ModuleAuthBasic.authBasicHandler")
	chk := c.P.Func(pkg, "ModuleAuthBasic.checkAuthCredentials")
	if h == nil || chk == nil {
		c.Missing(pkg + ".ModuleAuthBasic.authBasicHandler/checkAuthCredentials")
		return
	}
	if !mdNeedParams(c, 3, chk) {
		return
	}
	isChk := func(v ssa.Value) bool { return mdIsCallTo(v, pkg+".ModuleAuthBasic.checkAuthCredentials") }
	mdCheckGate(c, mdGateSpec{name: "mod_auth_basic", fn: h, matched: matched, goOn: goOn, reject: reject, needResp: needResp,
		credOK:   func(f mdFact) bool { return f.Pol && isChk(f.Cond) },
		credFail: func(f mdFact) bool { return !f.Pol && isChk(f.Cond) }})
	// the rejection is a 401 challenge
	if v, ok := mdConstVal(c.P, "bfe_http", "StatusUnauthorized"); ok {
		if fn := c.P.Func(pkg, "ModuleAuthBasic.createUnauthorizedResp"); fn != nil {
			found := false
			for _, call := range core.Calls(fn, "bfe_basic.CreateInternalResp") {
				if a := call.Common().Args; len(a) == 2 {
					if k, ok := a[1].(*ssa.Const); ok && k.Value != nil && k.Value.ExactString() == v.ExactString() {
						found = true
					}
				}
			}
			c.Check("reject-verdict", "mod_auth_basic:401", fn.Pos(), found, "the rejection response must be created with StatusUnauthorized")
		}
	}
	// checkAuthCredentials
	c.Analysed(core.FuncKey(chk))
	var basic *ssa.Call
	for _, call := range core.Calls(chk, "bfe_http.Request.BasicAuth") {
		basic, _ = call.(*ssa.Call)
	}
	if basic == nil {
		c.Missing(pkg + ".checkAuthCredentials: call of Request.BasicAuth")
		return
	}
	fromBasic := func(v ssa.Value, idx int) bool {
		c2, i := mdCallOf(v)
		return c2 == &basic.Call && i == idx
	}
	var lookup *ssa.Lookup
	core.Instrs(chk, func(in ssa.Instruction) {
		if lk, ok := in.(*ssa.Lookup); ok && lk.CommaOk {
			if x, ok := mdFieldLoadNamed(lk.X, "UserPasswd"); ok && x == ssa.Value(chk.Params[2]) && fromBasic(lk.Index, 0) {
				lookup = lk
			}
		}
	})
	isSecretCall := func(v ssa.Value) bool {
		c2, _ := mdCallOf(v)
		if c2 == nil || !core.CallIs(c2, "github.com/abbot/go-http-auth.CheckSecret") || len(c2.Args) != 2 || lookup == nil {
			return false
		}
		ex, ok := c2.Args[1].(*ssa.Extract)
		return fromBasic(c2.Args[0], 1) && ok && ex.Tuple == lookup && ex.Index == 0
	}
	n := 0
	for _, r := range core.Returns(chk) {
		v := r.Results[0]
		if k, ok := v.(*ssa.Const); ok && k.Value != nil && k.Value.ExactString() == "false" {
			continue
		}
		n++
		b := r.Block()
		okAuth := mdEstablished(b, func(f mdFact) bool { return f.Pol && fromBasic(f.Cond, 2) })
		okUser := lookup != nil && mdEstablished(b, func(f mdFact) bool {
			ex, ok := f.Cond.(*ssa.Extract)
			return f.Pol && ok && ex.Tuple == lookup && ex.Index == 1
		})
		okSecret := isSecretCall(v) || (mdIsTrue(v) && mdEstablished(b, func(f mdFact) bool { return f.Pol && isSecretCall(f.Cond) }))
		c.Check("cred-success", fmt.Sprintf("mod_auth_basic.checkAuthCredentials:return#%d", n), r.Pos(), okAuth && okUser && okSecret,
			fmt.Sprintf("checkAuthCredentials may report success (%s) without all of: BasicAuth() ok=%v, rule.UserPasswd[username] hit=%v, auth.CheckSecret(request password, stored hash)=%v", core.Render(v), okAuth, okUser, okSecret))
	}
	if n == 0 {
		c.Check("cred-success", "mod_auth_basic.checkAuthCredentials:return", chk.Pos(), false, "no success return found")
	}
}

func mdIsTrue(v ssa.Value) bool {
	k, ok := v.(*ssa.Const)
	return ok && k.Value != nil && k.Value.ExactString() == "true"
}

// ---- mod_auth_jwt ------------------------------------------------------------

func mdC51JWT(c *core.Ctx, goOn int64, reject, needResp map[int64]bool, matched func(mdFact) bool) {
	const pkg = "bfe_modules/mod_auth_jwt"
	const jwt = "github.com/dgrijalva/jwt-go"
	h := c.P.Func(pkg, "ModuleAuthJWT.authJWTHandler")
	chk := c.P.Func(pkg, "ModuleAuthJWT.checkAuthCredentials")
	val := c.P.Func(pkg, "ModuleAuthJWT.validateToken")
	get := c.P.Func(pkg, "ModuleAuthJWT.getToken")
	if h == nil || chk == nil || val == nil || get == nil {
		c.Missing(pkg + ".ModuleAuthJWT.authJWTHandler/checkAuthCredentials/validateToken/getToken")
		return
	}
	if !mdNeedParams(c, 3, chk, val) {
		return
	}
	isChk := func(v ssa.Value) bool { return mdIsCallTo(v, pkg+".ModuleAuthJWT.checkAuthCredentials") }
	errFact := func(nonNilWanted bool) func(f mdFact) bool {
		return func(f mdFact) bool {
			x, nonNil, ok := mdNilTest(f)
			return ok && nonNil == nonNilWanted && isChk(x)
		}
	}
	mdCheckGate(c, mdGateSpec{name: "mod_auth_jwt", fn: h, matched: matched, goOn: goOn, reject: reject, needResp: needResp,
		credOK: errFact(false), credFail: errFact(true)})

	if v, ok := mdConstVal(c.P, "bfe_http", "StatusUnauthorized"); ok {
		if fn := c.P.Func(pkg, "ModuleAuthJWT.createUnauthorizedResp"); fn != nil {
			found := false
			for _, call := range core.Calls(fn, "bfe_basic.CreateInternalResp") {
				if a := call.Common().Args; len(a) == 2 {
					if k, ok := a[1].(*ssa.Const); ok && k.Value != nil && k.Value.ExactString() == v.ExactString() {
						found = true
					}
				}
			}
			c.Check("reject-verdict", "mod_auth_jwt:401", fn.Pos(), found, "the rejection response must be created with StatusUnauthorized")
		}
	}
	// checkAuthCredentials: every returned error is getToken's (non-nil) error
	// or the result of validateToken(getToken's token, rule)
	c.Analysed(core.FuncKey(chk), core.FuncKey(val), core.FuncKey(get))
	for i, r := range core.Returns(chk) {
		v := core.RetVals(r)[0]
		ok := false
		why := "returns " + core.Render(v)
		c2, idx := mdCallOf(v)
		switch {
		case c2 != nil && core.CallIs(c2, pkg+".ModuleAuthJWT.validateToken") && len(c2.Args) == 3:
			t, ti := mdCallOf(c2.Args[1])
			ok = t != nil && core.CallIs(t, pkg+".ModuleAuthJWT.getToken") && ti == 0 && c2.Args[2] == ssa.Value(chk.Params[2])
			why += "; validateToken must receive getToken's token and the matched rule"
		case c2 != nil && core.CallIs(c2, pkg+".ModuleAuthJWT.getToken") && idx == 1:
			ok = mdEstablished(r.Block(), func(f mdFact) bool {
				x, nonNil, isNil := mdNilTest(f)
				return isNil && nonNil && x == v
			})
			why += "; getToken's error may only be returned when it is non-nil"
		}
		c.Check("cred-success", fmt.Sprintf("mod_auth_jwt.checkAuthCredentials:return#%d", i), r.Pos(), ok, "checkAuthCredentials may report success without a validated token: "+why)
	}
	// validateToken: nil only after Parse ok, Valid, Claims.Valid() == nil
	var parses []*ssa.Call
	for _, call := range core.Calls(val, jwt+".Parse", jwt+".ParseWithClaims", jwt+".Parser.Parse", jwt+".Parser.ParseWithClaims") {
		if cv, ok := call.(*ssa.Call); ok {
			parses = append(parses, cv)
		}
	}
	isParse := func(v ssa.Value, idx int) bool {
		c2, i := mdCallOf(v)
		if c2 == nil || i != idx {
			return false
		}
		for _, p := range parses {
			if c2 == &p.Call {
				return true
			}
		}
		return false
	}
	n := 0
	for _, r := range core.Returns(val) {
		v := core.RetVals(r)[0]
		if !mdIsNil(v) {
			// a non-constant error value must be known non-nil (fmt.Errorf / errors.New results are)
			c2, _ := mdCallOf(v)
			if c2 != nil && core.CallIs(c2, "fmt.Errorf", "errors.New") {
				continue
			}
			if mdKnownNonNilErr(v, r.Block(), nil) {
				continue
			}
			n++
			c.Check("cred-success", fmt.Sprintf("mod_auth_jwt.validateToken:return#%d", n), r.Pos(), false, "validateToken returns "+core.Render(v)+", which is not known to be a non-nil error")
			continue
		}
		n++
		b := r.Block()
		okParse := mdEstablished(b, func(f mdFact) bool {
			x, nonNil, ok := mdNilTest(f)
			return ok && !nonNil && isParse(x, 1)
		})
		okValid := mdEstablished(b, func(f mdFact) bool {
			x, ok := mdFieldLoadNamed(f.Cond, "Valid")
			return ok && f.Pol && isParse(x, 0)
		})
		okClaims := mdEstablished(b, func(f mdFact) bool {
			x, nonNil, ok := mdNilTest(f)
			if !ok || nonNil {
				return false
			}
			c2, _ := mdCallOf(x)
			if c2 == nil || !c2.IsInvoke() || c2.Method.Name() != "Valid" {
				return false
			}
			cl, ok := mdFieldLoadNamed(c2.Value, "Claims")
			return ok && isParse(cl, 0)
		})
		c.Check("cred-success", fmt.Sprintf("mod_auth_jwt.validateToken:return#%d", n), r.Pos(), okParse && okValid && okClaims,
			fmt.Sprintf("validateToken accepts without all of: jwt.Parse error == nil=%v, token.Valid=%v, token.Claims.Valid() == nil=%v", okParse, okValid, okClaims))
	}
	if len(parses) == 0 {
		c.Missing(pkg + ".validateToken: call of jwt.Parse")
		return
	}
	// Parse arguments: the token parameter and a key function bound to a rule key
	for i, p := range parses {
		args := p.Call.Args
		tokOK := len(args) >= 2 && args[len(args)-2] == ssa.Value(val.Params[1])
		c.Check("jwt-key", fmt.Sprintf("validateToken:parse#%d:token", i), p.Pos(), tokOK, "jwt.Parse must verify the token string handed to validateToken")
		var kfs []*ssa.Function
		if len(args) >= 1 {
			if mc, ok := core.StripConv(args[len(args)-1]).(*ssa.MakeClosure); ok {
				fromRule := false
				for _, b := range mc.Bindings {
					if mdSliceHas(b, func(v ssa.Value) bool {
						x, ok := mdFieldLoadNamed(v, "Keys")
						return ok && x == ssa.Value(val.Params[2])
					}) {
						fromRule = true
					}
				}
				c.Check("jwt-key", fmt.Sprintf("validateToken:parse#%d:key-of-rule", i), p.Pos(), fromRule, "the key function given to jwt.Parse must be bound to one of the matched rule's configured Keys")
				if fn, ok := mc.Fn.(*ssa.Function); ok {
					for _, f := range core.TransitiveCallees(fn, 3) {
						if core.FuncPkgRel(f) == pkg && f.Synthetic == "" && mdIsKeyfunc(f) {
							kfs = append(kfs, f)
						}
					}
				}
			} else if fn, ok := core.StripConv(args[len(args)-1]).(*ssa.Function); ok && mdIsKeyfunc(fn) {
				kfs = append(kfs, fn)
			}
		}
		if len(kfs) == 0 {
			c.Check("jwt-key", fmt.Sprintf("validateToken:parse#%d:keyfunc", i), p.Pos(), false, "cannot resolve the key function given to jwt.Parse")
		}
		for _, kf := range kfs {
			c.Analysed(core.FuncKey(kf))
			if len(kf.Params) == 0 {
				continue
			}
			tok := kf.Params[len(kf.Params)-1]
			readsAlg := func(v ssa.Value) bool {
				switch x := v.(type) {
				case *ssa.FieldAddr:
					f := core.FieldObj(x.X, x.Field)
					return x.X == ssa.Value(tok) && f != nil && (f.Name() == "Method" || f.Name() == "Header")
				case *ssa.Field:
					f := core.FieldObj(x.X, x.Field)
					return f != nil && (f.Name() == "Method" || f.Name() == "Header")
				}
				return false
			}
			pinned := false
			for _, r := range core.Returns(kf) {
				if !mdErrNonNil(r) {
					continue
				}
				if mdEstablished(r.Block(), func(f mdFact) bool { return mdSliceHas(f.Cond, readsAlg) }) {
					pinned = true
				}
			}
			c.Check("jwt-alg-pinned", core.FuncKey(kf), kf.Pos(), pinned,
				"the key function hands out the configured key without looking at token.Method / the alg header: a token signed with this key under a different algorithm than the key's `alg` (RS384/PS256 for an RS256 key, HS384/HS512 for an HS256 secret) is accepted, contrary to `signed ... using that key's algorithm`")
			// the key comes from the provider's configuration, not from the token
			for j, r := range core.Returns(kf) {
				rv := core.RetVals(r)
				if len(rv) != 2 || !mdIsNil(rv[1]) {
					continue
				}
				fromCfg := mdSliceHas(rv[0], func(v ssa.Value) bool { return len(kf.Params) == 2 && v == ssa.Value(kf.Params[0]) }) &&
					!mdSliceHas(rv[0], func(v ssa.Value) bool { return v == ssa.Value(tok) })
				c.Check("jwt-key", fmt.Sprintf("%s:return#%d", core.FuncKey(kf), j), r.Pos(), fromCfg, "the verification key must come from the configured provider only, not from the token; returns "+core.Render(rv[0]))
			}
		}
	}
	c.Min("jwt-key", 3)
	c.Min("jwt-alg-pinned", 1)
	// getToken: the token is the Bearer credential of the Authorization header
	for i, r := range core.Returns(get) {
		rv := core.RetVals(r)
		if len(rv) != 2 || !mdIsNil(rv[1]) {
			continue
		}
		fromHdr := mdSliceHas(rv[0], func(v ssa.Value) bool {
			c2, _ := mdCallOf(v)
			if c2 == nil || !core.CallIs(c2, "bfe_http.Header.Get", "bfe_http.Header.GetDirect") || len(c2.Args) != 2 {
				return false
			}
			s, ok := core.ConstString(c2.Args[1])
			return ok && s == "Authorization"
		})
		bearer := mdEstablished(r.Block(), func(f mdFact) bool {
			_, s, equal, ok := mdStrTest(f)
			return ok && equal && s == "Bearer"
		})
		c.Check("cred-success", fmt.Sprintf("mod_auth_jwt.getToken:return#%d", i), r.Pos(), fromHdr && bearer,
			fmt.Sprintf("getToken succeeds with a token that is not the Bearer credential of the Authorization header (from header=%v, scheme tested=%v)", fromHdr, bearer))
	}
}

// mdIsKeyfunc: func(*jwt.Token) (interface{}, error), possibly a method.
func mdIsKeyfunc(fn *ssa.Function) bool {
	sig := fn.Signature
	if sig.Params().Len() != 1 || sig.Results().Len() != 2 {
		return false
	}
	return strings.HasSuffix(types.TypeString(sig.Params().At(0).Type(), nil), "jwt-go.Token")
}

// ---- mod_secure_link -----------------------------------------------------------

func mdC51SecureLink(c *core.Ctx, goOn int64, reject, needResp map[int64]bool, matched func(mdFact) bool) {
	const pkg = "bfe_modules/mod_secure_link"
	h := c.P.Func(pkg, "ModuleSecureLink.validateHandler")
	chk := c.P.Func(pkg, "Checker.Check")
	enc := c.P.Func(pkg, "Checker.encode")
	if h == nil || chk == nil || enc == nil {
		c.Missing(pkg + ".ModuleSecureLink.validateHandler / Checker.Check / Checker.encode")
		return
	}
	if !mdNeedParams(c, 2, chk, enc) {
		return
	}
	isChk := func(v ssa.Value) bool { return mdIsCallTo(v, pkg+".Checker.Check") }
	errFact := func(nonNilWanted bool) func(f mdFact) bool {
		return func(f mdFact) bool {
			x, nonNil, ok := mdNilTest(f)
			return ok && nonNil == nonNilWanted && isChk(x)
		}
	}
	mdCheckGate(c, mdGateSpec{name: "mod_secure_link", fn: h, matched: matched, goOn: goOn, reject: reject, needResp: needResp,
		credOK: errFact(false), credFail: errFact(true)})
	c.Analysed(core.FuncKey(chk), core.FuncKey(enc))

	recv := ssa.Value(chk.Params[0])
	isEncoded := func(v ssa.Value) bool {
		c2, _ := mdCallOf(v)
		if c2 == nil || !core.CallIs(c2, pkg+".Checker.encode") || len(c2.Args) != 2 {
			return false
		}
		return mdSliceHas(c2.Args[1], func(x ssa.Value) bool {
			c3, _ := mdCallOf(x)
			if c3 == nil || !core.CallIs(c3, pkg+".Expression.Value") || len(c3.Args) != 2 {
				return false
			}
			e, ok := mdFieldLoadNamed(c3.Args[0], "expression")
			return ok && e == recv && c3.Args[1] == ssa.Value(chk.Params[1])
		})
	}
	isGiven := func(v ssa.Value) bool {
		c2, _ := mdCallOf(v)
		if c2 == nil || !core.CallIs(c2, "net/url.Values.Get") || len(c2.Args) != 2 {
			return false
		}
		k, ok := mdFieldLoadNamed(c2.Args[1], "ChecksumKey")
		if !ok {
			return false
		}
		cfg, ok := mdFieldLoadNamed(k, "Config")
		return ok && cfg == recv
	}
	cmpOK := func(f mdFact) bool {
		b, ok := f.Cond.(*ssa.BinOp)
		if !ok || (b.Op != token.EQL && b.Op != token.NEQ) || (b.Op == token.EQL) != f.Pol {
			return false
		}
		return (isEncoded(b.X) && isGiven(b.Y)) || (isEncoded(b.Y) && isGiven(b.X))
	}
	n := 0
	var nilRets []*ssa.Return
	for _, r := range core.Returns(chk) {
		v := core.RetVals(r)[0]
		if !mdIsNil(v) {
			// error variables of the package and fmt.Errorf results are non-nil by construction
			if u, ok := v.(*ssa.UnOp); ok {
				if g, ok := u.X.(*ssa.Global); ok && strings.HasPrefix(g.Name(), "Err") {
					continue
				}
			}
			if c2, _ := mdCallOf(v); c2 != nil && core.CallIs(c2, "fmt.Errorf", "errors.New") {
				continue
			}
			// the error of a step (a private helper) handed on under `err != nil`
			if mdKnownNonNilErr(v, r.Block(), nil) {
				continue
			}
			n++
			c.Check("cred-success", fmt.Sprintf("mod_secure_link.Checker.Check:return#%d", n), r.Pos(), false, "Check returns "+core.Render(v)+", which is not known to be a non-nil error")
			continue
		}
		n++
		nilRets = append(nilRets, r)
		c.Check("cred-success", fmt.Sprintf("mod_secure_link.Checker.Check:return#%d", n), r.Pos(), mdEstablished(r.Block(), cmpOK),
			"Check accepts although encode(expression.Value(request)) == query[Config.ChecksumKey] was not established; facts: "+mdFactStrs(r.Block()))
	}
	// the comparison itself: one side from configuration+request through encode, the other the request's checksum
	found := false
	core.Instrs(chk, func(in ssa.Instruction) {
		if ifi, ok := in.(*ssa.If); ok {
			cnd, _ := mdUnNot(ifi.Cond, true)
			if cmpOK(mdFact{cnd, true}) || cmpOK(mdFact{cnd, false}) {
				found = true
			}
		}
	})
	c.Check("checksum-flow", "Checker.Check:comparison", chk.Pos(), found, "no comparison of encode(cs.expression.Value(request)) with request.CachedQuery().Get(cs.Config.ChecksumKey) found: the checksum must be computed from the configured expression nodes, not taken from the request")
	// encode hashes its argument
	hashOK := false
	for _, r := range core.Returns(enc) {
		if mdSliceHas(r.Results[0], func(v ssa.Value) bool {
			c2, _ := mdCallOf(v)
			return c2 != nil && core.CallIs(c2, "crypto/md5.Sum") && mdSliceHas(c2.Args[0], func(x ssa.Value) bool { return x == ssa.Value(enc.Params[1]) })
		}) {
			hashOK = true
		} else {
			hashOK = false
			break
		}
	}
	c.Check("checksum-flow", "Checker.encode:md5-of-argument", enc.Pos(), hashOK, "encode must return a value derived from md5.Sum of its argument on every return")
	c.Min("checksum-flow", 2)

	// expiry: with ExpiresKey configured every accepting path passes a time comparison
	mdC51ExpiryGate(c, chk)
	c.Min("expiry-gate", 1)
	_ = nilRets
}

// mdC51ExpiryGate: with Config.ExpiresKey configured, every path of
// Checker.Check to an accepting return passes a comparison of the request's
// expiry with time.Now() whose failing side returns an error.
//
// The rule is stated over Check's region (Check and its private helpers): the
// branch on ExpiresKey and the comparison may live in Check or in a helper
// that returns an error; a helper's verdict counts only where its error
// decides the caller's verdict (mdErrEnforcedAt) at every call site up to
// Check.
func mdC51ExpiryGate(c *core.Ctx, chk *ssa.Function) {
	region := c.P.Region(chk)
	inRegion := map[*ssa.Function]bool{}
	for _, f := range region {
		inRegion[f] = true
	}
	sites := mdPkgCallSites(region)
	// v is Check's receiver, possibly handed down through helper parameters
	var isRecv func(v ssa.Value, d int) bool
	isRecv = func(v ssa.Value, d int) bool {
		if v == ssa.Value(chk.Params[0]) {
			return true
		}
		p, ok := v.(*ssa.Parameter)
		if !ok || d > 3 || p.Parent() == chk || !inRegion[p.Parent()] || len(sites[p.Parent()]) == 0 {
			return false
		}
		for i, q := range p.Parent().Params {
			if q != p {
				continue
			}
			for _, cs := range sites[p.Parent()] {
				a := cs.Common().Args
				if cs.Common().IsInvoke() || i >= len(a) || !isRecv(a[i], d+1) {
					return false
				}
			}
			return true
		}
		return false
	}
	accepting := func(r *ssa.Return) bool {
		rv := core.RetVals(r)
		if len(rv) == 0 || !types.Identical(rv[len(rv)-1].Type(), mdErrorType) {
			return false
		}
		return !mdKnownNonNilErr(rv[len(rv)-1], r.Block(), nil)
	}
	acceptingIn := func(in ssa.Instruction) bool {
		r, ok := in.(*ssa.Return)
		return ok && accepting(r)
	}
	flowsFrom := func(v ssa.Value, pred func(ssa.Value) bool) bool {
		sl := mdNewSlicer(2, nil)
		sl.callers = sites
		sl.walk(v, nil)
		return sl.has(pred)
	}
	isTimeCmp := func(in ssa.Instruction) bool {
		ifi, ok := in.(*ssa.If)
		if !ok {
			return false
		}
		cnd, _ := mdUnNot(ifi.Cond, true)
		b, ok := cnd.(*ssa.BinOp)
		if !ok {
			return false
		}
		switch b.Op {
		case token.GTR, token.LSS, token.GEQ, token.LEQ:
		default:
			return false
		}
		now := func(v ssa.Value) bool {
			return flowsFrom(v, func(x ssa.Value) bool { return mdIsCallTo(x, "time.Now") })
		}
		exp := func(v ssa.Value) bool {
			return flowsFrom(v, func(x ssa.Value) bool {
				c2, _ := mdCallOf(x)
				return c2 != nil && core.CallIs(c2, "net/url.Values.Get")
			})
		}
		if !((now(b.X) && exp(b.Y)) || (now(b.Y) && exp(b.X))) {
			return false
		}
		// one side of the comparison must be an immediate error return
		for _, s := range ifi.Block().Succs {
			if r := mdBlockReturn(s); r != nil && !accepting(r) {
				if rv := core.RetVals(r); len(rv) > 0 && !mdIsNil(rv[len(rv)-1]) {
					return true
				}
			}
		}
		return false
	}
	// passes: the comparison itself, or a call of a region helper that makes the
	// comparison on every way to an accepting return and whose error decides
	// the caller's verdict
	var passes func(d int) func(in ssa.Instruction) bool
	passes = func(d int) func(in ssa.Instruction) bool {
		return func(in ssa.Instruction) bool {
			if isTimeCmp(in) {
				return true
			}
			k, ok := in.(*ssa.Call)
			if !ok || d <= 0 {
				return false
			}
			h := k.Call.StaticCallee()
			if h == nil || h.Blocks == nil || !inRegion[h] || h == in.Parent() {
				return false
			}
			res := h.Signature.Results()
			if res.Len() == 0 || !types.Identical(res.At(res.Len()-1).Type(), mdErrorType) {
				return false
			}
			if core.ReachAvoiding(h, nil, passes(d-1), acceptingIn) != nil {
				return false
			}
			return mdErrEnforcedAt(k, accepting)
		}
	}
	// enforcedUp: the verdict of helper g decides Check's verdict: at every call
	// site, up to Check, the error is enforced
	var enforcedUp func(g *ssa.Function, d int) (bool, string)
	enforcedUp = func(g *ssa.Function, d int) (bool, string) {
		if g == chk {
			return true, ""
		}
		if d > 3 || len(sites[g]) == 0 {
			return false, core.FuncKey(g) + " is not called from Check"
		}
		for _, cs := range sites[g] {
			k, ok := cs.(*ssa.Call)
			if !ok {
				return false, "a go/defer call of " + core.FuncKey(g)
			}
			if !mdErrEnforcedAt(k, accepting) {
				return false, "the error of " + core.FuncKey(g) + " does not decide the verdict of " + core.FuncKey(k.Parent())
			}
			if ok2, why := enforcedUp(k.Parent(), d+1); !ok2 {
				return false, why
			}
		}
		return true, ""
	}
	ne := 0
	for _, g := range region {
		if g.Parent() != nil {
			continue
		}
		for _, b := range g.Blocks {
			for _, s := range b.Succs {
				f, ok := mdEdgeFact(b, s)
				if !ok {
					continue
				}
				x, str, equal, isStr := mdStrTest(f)
				if !isStr || str != "" || equal {
					continue
				}
				k, isKey := mdFieldLoadNamed(x, "ExpiresKey")
				if !isKey {
					continue
				}
				if cfg, ok := mdFieldLoadNamed(k, "Config"); !ok || !isRecv(cfg, 0) {
					continue
				}
				ne++
				c.Analysed(core.FuncKey(g))
				bad := core.ReachAvoiding(g, s.Instrs[0], passes(2), acceptingIn)
				if passes(2)(s.Instrs[0]) {
					bad = nil
				}
				why := ""
				good := bad == nil
				if good && g != chk {
					good, why = enforcedUp(g, 0)
				}
				c.Check("expiry-gate", fmt.Sprintf("Checker.Check:expires-configured#%d", ne), s.Instrs[0].Pos(), good, "with an ExpiresKey configured a path reaches `return nil` without comparing the request's expiry against time.Now() (with an error return on one side) "+why)
			}
		}
	}
	if ne == 0 {
		c.Check("expiry-gate", "Checker.Check:expires-configured", chk.Pos(), false, "no branch on Config.ExpiresKey != \"\" found in Check or its private helpers")
	}
}

// ---- mod_block -------------------------------------------------------------------

func mdC51Block(c *core.Ctx, vc map[string]int64, matched func(mdFact) bool) {
	const pkg = "bfe_modules/mod_block"
	goOn, closeV := vc["BfeHandlerGoOn"], vc["BfeHandlerClose"]
	gh := c.P.Func(pkg, "ModuleBlock.globalBlockHandler")
	ph := c.P.Func(pkg, "ModuleBlock.productBlockHandler")
	pr := c.P.Func(pkg, "ModuleBlock.productRulesProcess")
	if gh == nil || ph == nil || pr == nil {
		c.Missing(pkg + ".ModuleBlock.globalBlockHandler/productBlockHandler/productRulesProcess")
		return
	}
	if !mdNeedParams(c, 2, gh) {
		return
	}
	// connection level: IP table hit => Close, GoOn only on a miss
	isSearch := func(v ssa.Value) bool {
		c2, _ := mdCallOf(v)
		if c2 == nil || !core.CallIs(c2, "bfe_util/ipdict.IPTable.Search") || len(c2.Args) != 2 {
			return false
		}
		ip, ok := mdFieldLoadNamed(c2.Args[1], "IP")
		if !ok {
			return false
		}
		ra, ok := mdFieldLoadNamed(ip, "RemoteAddr")
		if !ok || ra != ssa.Value(gh.Params[1]) {
			return false
		}
		tb, ok := mdFieldLoadNamed(c2.Args[0], "ipTable")
		return ok && tb == ssa.Value(gh.Params[0])
	}
	mdCheckGate(c, mdGateSpec{name: "mod_block.globalBlockHandler", fn: gh, goOn: goOn,
		reject:   map[int64]bool{closeV: true},
		credOK:   func(f mdFact) bool { return !f.Pol && isSearch(f.Cond) },
		credFail: func(f mdFact) bool { return f.Pol && isSearch(f.Cond) }})

	// request level
	m := mdNewCmdModel(c.P, pkg)
	cmdIs := func(label string, eq bool) func(f mdFact) bool {
		return func(f mdFact) bool {
			a, ok := m.atomOf(f)
			return ok && a.kind == "cmd" && a.off == 0 && a.label == label && ((a.op == mdAtomEq) == eq) && (a.op == mdAtomEq || a.op == mdAtomNeq)
		}
	}
	mdCheckGate(c, mdGateSpec{name: "mod_block.productRulesProcess", fn: pr, matched: matched, goOn: goOn,
		reject:   map[int64]bool{closeV: true},
		credOK:   cmdIs("ALLOW", true),
		credFail: cmdIs("CLOSE", true)})
	// every matched return reports isMatch = true
	for i, r := range core.Returns(pr) {
		rv := core.RetVals(r)
		if len(rv) != 3 || !mdEstablished(r.Block(), matched) {
			continue
		}
		c.Check("verdict-propagated", fmt.Sprintf("productRulesProcess:return#%d:isMatch", i), r.Pos(), mdIsTrue(rv[1]), "a verdict decided by a matched rule must be reported with isMatch = true, otherwise the caller ignores it")
	}
	// command tables
	if chk := c.P.Func(pkg, "ActionFileCheck"); chk == nil {
		c.Missing(pkg + ".ActionFileCheck")
	} else {
		s := m.summarize(chk, 0)
		arms := m.armLabels(pr)
		c.Check("command-known", pkg+".ActionFileCheck:closed", chk.Pos(), s.complete && !s.defaultAccepts && s.hasCmdTests, "mod_block's ActionFileCheck must reject commands it does not list")
		n := 0
		for k := range s.byCmd {
			if k == "*" {
				continue
			}
			n++
			c.Check("command-known", "mod_block:"+k, chk.Pos(), arms[k], "ActionFileCheck accepts "+k+" but productRulesProcess has no arm for it: a matching rule with this command silently passes the request")
		}
		if n == 0 {
			c.Check("command-known", "mod_block:none", chk.Pos(), false, "no accepted command found")
		}
		c.Min("command-known", 3)
	}
	// productBlockHandler: verdict of productRulesProcess is returned when matched
	c.Analysed(core.FuncKey(ph))
	calls := core.Calls(ph, pkg+".ModuleBlock.productRulesProcess")
	for i, call := range calls {
		cv, ok := call.(*ssa.Call)
		if !ok {
			continue
		}
		from := func(v ssa.Value, idx int) bool {
			c2, j := mdCallOf(v)
			return c2 == &cv.Call && j == idx
		}
		n := 0
		for _, b := range ph.Blocks {
			for _, s := range b.Succs {
				f, ok := mdEdgeFact(b, s)
				if !ok || !f.Pol || !from(f.Cond, 1) {
					continue
				}
				n++
				good := true
				for rb := range mdReachableFrom(s) {
					if r := mdBlockReturn(rb); r != nil {
						rv := core.RetVals(r)
						if !from(rv[0], 0) || !from(rv[1], 2) {
							good = false
						}
					}
				}
				c.Check("verdict-propagated", fmt.Sprintf("productBlockHandler:call#%d:matched", i), s.Instrs[0].Pos(), good, "when productRulesProcess reports a match its verdict and response must be returned unchanged")
			}
		}
		used := false
		for _, r := range core.Returns(ph) {
			if from(core.RetVals(r)[0], 0) {
				used = true
			}
		}
		c.Check("verdict-propagated", fmt.Sprintf("productBlockHandler:call#%d:returned", i), cv.Pos(), used && (n > 0 || i == len(calls)-1), "the verdict of productRulesProcess is not returned by the handler (a CLOSE rule would have no effect)")
	}
	if len(calls) < 2 {
		c.Check("verdict-propagated", "productBlockHandler:calls", ph.Pos(), false, fmt.Sprintf("expected the global and the product rule evaluation, found %d calls of productRulesProcess", len(calls)))
	}
	// other returns of the handler forward only when no product rules exist
	for i, r := range core.Returns(ph) {
		rv := core.RetVals(r)
		if c2, _ := mdCallOf(rv[0]); c2 != nil && core.CallIs(c2, pkg+".ModuleBlock.productRulesProcess") {
			continue
		}
		vals, isConst := mdPossibleInts(rv[0])
		ok := isConst && len(vals) == 1 && vals[0] == goOn && mdEstablished(r.Block(), func(f mdFact) bool {
			c2, idx := mdCallOf(f.Cond)
			return !f.Pol && c2 != nil && core.CallIs(c2, pkg+".ProductRuleTable.Search") && idx == 1
		})
		c.Check("verdict-propagated", fmt.Sprintf("productBlockHandler:return#%d:no-rules", i), r.Pos(), ok, "a return of productBlockHandler that does not pass on productRulesProcess's verdict must be GoOn under `no rules for the product`")
	}
	c.Min("verdict-propagated", 6)
}
