package rules

import (
	"fmt"
	"go/token"
	"go/types"
	"sort"
	"strings"

	"golang.org/x/tools/go/ssa"

	"verif/internal/core"
)

// C39 — SPDY frames round-trip and parsing is robust.
func init() {
	Register(&Rule{
		ID: "C39", Section: "5 C39",
		Technique: "wire-integer hygiene (bound typestate of decoded locals feeding make), unsigned-subtraction guards, length-prefix agreement between serialiser and parser (constants recomputed from the sizes of the encoding/binary transfers), phi-edge analysis of the compressed-payload-size test, natural-loop exit analysis (returns reachable without the exhaustion exit of the block-reading loop, classified by the construction of their error value), dominance/reachability on go/ssa",
		Meta: core.Meta{
			Level: "other",
			Explanation: "Decides structural necessary conditions in bfe_spdy/frame_read.go and frame_write.go: " +
				"(alloc-bound) every make() whose size is a local decoded by encoding/binary.Read is reached only in a state where that local was masked or compared against an upper bound <= 2^24 after its last decode; " +
				"(length-mask) the length stored into ControlFrameHeader by parseControlFrame is the masked 24-bit value; " +
				"(sub-guard) every unsigned subtraction ControlFrameHeader.length - K is guarded by length >= K; " +
				"(fixed-length) every success return of the read method of a fixed-size control frame (RST_STREAM, PING, GOAWAY, WINDOW_UPDATE, SETTINGS) is control-dependent on CFHeader.length == the number of bytes the method consumes; " +
				"(length-agree) for every control frame the length the writer announces, the bytes it then writes (sizes of the binary.Write operands), the bytes the reader consumes and the constant the reader subtracts agree; " +
				"(prefix-agree) in writeHeaderValueBlock/writeDataFrame/write*Frame the value whose len() is written as a prefix is the value written next, the header count is len() of the ranged map, DATA length is bounded by 2^24-1; " +
				"(flush-before-length, reset-after-write) the header block length is taken after the compressor was flushed and the shared header buffer is reset on every success path; " +
				"(validate-before-write) no frame-validation error is returned after part of the frame was already written; " +
				"(shift-agree, mask-agree, control-bit) bit-packing constants of writer and reader agree; " +
				"(payload-size-check, uncork-sets-n) after parsing a compressed header block every success return and every return that hands the parse error on (it may be a stream-level *Error, after which the connection continues) depends on headerReader.N == 0 or header compression being disabled - on every phi edge / helper return through which the parse result flows - and uncorkHeaderDecompressor arms the limit with its argument on every path. " +
				"(block-consumed) the header blocks of all frames of a connection pass through one zlib decompressor, so parseHeaderValueBlock may leave the loop over the announced pairs early (return or break inside the loop, return before it) only with an error that aborts the connection's header context - the block reader's own error, an untyped error, a typed *Error without stream id; success and the stream-level *Error{code, streamId} are returned only through the loop's own exhaustion exit, i.e. after the whole block was consumed (known finding: the two InvalidHeaderPresent returns added by the header-validation fix sit inside the loop). " +
				"Spelling independence: branch conditions are read through negation, named booleans, `a && b` / `a || b` assigned to a variable and the cases of a tagless switch (a boolean phi implies a fact when every feasible edge does); the payload-size test may live in a private predicate or error-mapping helper of the Framer (its returns are examined in its own frame); a read-and-check sequence of parseHeaderValueBlock extracted into a helper that is handed the block reader is classified return by return in the helper's frame; a wire-sized make inside a private helper counts once per static call site; bit-packing constants and the header-buffer Reset are searched in the region (function + private helpers, all paths) rather than in one body. " +
				"Not decided, reported as a violation when met (the rule cannot follow the form): a wire integer decoded in one function and bounded or used as a make size in another (decode helpers returning the raw value; the anti-vacuity floor of alloc-bound fires), the frame-length subtraction, the fixed-length test or the parseHeaderValueBlock call moved into a helper shared by several frame readers, a header-block writer whose length store and payload write are in different functions. " +
				"Not covered: equality of header bytes through the shared zlib context (only that each block is consumed to its end before a recoverable result is reported), mid-frame error returns of the fixed-size control frame readers on the raw connection (GOAWAY/WINDOW_UPDATE flag checks), that the loop bound is the announced pair count, header name/value validation (C25), full panic freedom (index arithmetic), blocking behaviour of the underlying reader.",
			RuleText:    "obligations = each wire-sized make, each length subtraction, each success return of a fixed-size frame reader, each control frame type (length agreement), each length prefix, each header-block writer (flush, reset), each validation error return of a writer, each writer/reader bit-layout pair, each header-block reader (payload size test), each return of parseHeaderValueBlock that does not pass the exhaustion exit of the pair loop (error class)",
			Assumptions: []string{"encoding/binary.Read/Write transfer exactly the size of their fixed-size operand", "io.LimitedReader enforces N"},
		},
		Run: runC39,
		Mutants: []Mutant{
			{Name: "numheaders-bound-dropped", File: "bfe_spdy/frame_read.go", Old: "	if numHeaders > MaxNumHeaders {\n		return nil, 0, fmt.Errorf(\"HeaderValueBlock with invalid numHeaders: %d\", numHeaders)\n	}\n", New: "", Expect: "alloc-bound|parseHeaderValueBlock:make#1"},
			{Name: "data-length-mask-dropped", File: "bfe_spdy/frame_read.go", Old: "	length &= 0xffffff\n	frame.Data = make([]byte, length)", New: "	frame.Data = make([]byte, length)", Expect: "alloc-bound|Framer.parseDataFrame:make#1"},
			{Name: "settings-bound-inverted", File: "bfe_spdy/frame_read.go", Old: "	if numSettings > MaxNumSettings {", New: "	if numSettings < MaxNumSettings {", Expect: "alloc-bound|SettingsFrame.read:make#1"},
			{Name: "numheaders-bound-huge", File: "bfe_spdy/frame_read.go", Old: "	if numHeaders > MaxNumHeaders {", New: "	if numHeaders > MaxNumHeaders<<20 {", Expect: "alloc-bound|parseHeaderValueBlock:make#1"},
			{Name: "control-length-unmasked", File: "bfe_spdy/frame_read.go", Old: "	flags := ControlFlags((length & 0xff000000) >> 24)\n	length &= 0xffffff\n", New: "	flags := ControlFlags((length & 0xff000000) >> 24)\n", Expect: "length-mask|Framer.parseControlFrame"},
			{Name: "goaway-length-check-dropped", File: "bfe_spdy/frame_read.go", Old: "	if frame.CFHeader.length != 8 {\n		return &Error{InvalidControlFrame, frame.LastGoodStreamId}\n	}\n", New: "", Expect: "fixed-length|GoAwayFrame.read"},
			{Name: "windowupdate-length-check-wrong-size", File: "bfe_spdy/frame_read.go", Old: "	if frame.CFHeader.length != 8 {\n		return &Error{InvalidControlFrame, frame.StreamId}\n	}\n", New: "	if frame.CFHeader.length != 4 {\n		return &Error{InvalidControlFrame, frame.StreamId}\n	}\n", Expect: "fixed-length|WindowUpdateFrame.read"},
			{Name: "windowupdate-writer-length", File: "bfe_spdy/frame_write.go", Old: "	frame.CFHeader.frameType = TypeWindowUpdate\n	frame.CFHeader.Flags = 0\n	frame.CFHeader.length = 8", New: "	frame.CFHeader.frameType = TypeWindowUpdate\n	frame.CFHeader.Flags = 0\n	frame.CFHeader.length = 4", Expect: "length-agree|WindowUpdateFrame"},
			{Name: "synreply-writer-length", File: "bfe_spdy/frame_write.go", Old: "	frame.CFHeader.frameType = TypeSynReply\n	frame.CFHeader.length = uint32(len(f.headerBuf.Bytes()) + 4)", New: "	frame.CFHeader.frameType = TypeSynReply\n	frame.CFHeader.length = uint32(len(f.headerBuf.Bytes()) + 8)", Expect: "length-agree|SynReplyFrame"},
			{Name: "value-prefix-of-other-value", File: "bfe_spdy/frame_write.go", Old: "binary.Write(w, binary.BigEndian, uint32(len(v)))", New: "binary.Write(w, binary.BigEndian, uint32(len(values)))", Expect: "prefix-agree|writeHeaderValueBlock:prefix#3"},
			{Name: "data-length-bound-dropped", File: "bfe_spdy/frame_write.go", Old: "	if frame.StreamId&0x80000000 != 0 || len(frame.Data) > MaxDataLength {", New: "	if frame.StreamId&0x80000000 != 0 {", Expect: "prefix-agree|Framer.writeDataFrame:length-bound"},
			{Name: "flush-dropped", File: "bfe_spdy/frame_write.go", Old: "	if headerLen, err = writeHeaderValueBlock(writer, frame.Headers); err != nil {\n		return\n	}\n	if !f.headerCompressionDisabled {\n		f.headerCompressor.Flush()\n	}\n", New: "	if headerLen, err = writeHeaderValueBlock(writer, frame.Headers); err != nil {\n		return\n	}\n", Expect: "flush-before-length|Framer.writeSynReplyFrame"},
			{Name: "reset-dropped", File: "bfe_spdy/frame_write.go", Old: "	f.headerBuf.Reset()\n	return\n}\n\nfunc (f *Framer) writeDataFrame", New: "	return\n}\n\nfunc (f *Framer) writeDataFrame", Expect: "reset-after-write|Framer.writeHeadersFrame"},
			{Name: "ping-validated-after-header", File: "bfe_spdy/frame_write.go", Old: "	if frame.Id == 0 {\n		return &Error{ZeroStreamId, 0}\n	}\n	frame.CFHeader.version = Version\n	frame.CFHeader.frameType = TypePing\n	frame.CFHeader.Flags = 0\n	frame.CFHeader.length = 4\n\n	// Serialize frame to Writer.\n	if err = writeControlFrameHeader(f.w, frame.CFHeader); err != nil {\n		return\n	}\n", New: "	frame.CFHeader.version = Version\n	frame.CFHeader.frameType = TypePing\n	frame.CFHeader.Flags = 0\n	frame.CFHeader.length = 4\n\n	// Serialize frame to Writer.\n	if err = writeControlFrameHeader(f.w, frame.CFHeader); err != nil {\n		return\n	}\n	if frame.Id == 0 {\n		return &Error{ZeroStreamId, 0}\n	}\n", Expect: "validate-before-write|PingFrame.write"},
			{Name: "priority-shift-mismatch", File: "bfe_spdy/frame_read.go", Old: "	frame.Priority >>= 5", New: "	frame.Priority >>= 4", Expect: "shift-agree|syn-priority"},
			{Name: "payload-size-check-weakened", File: "bfe_spdy/frame_read.go", Old: "(err == io.EOF && f.headerReader.N == 0 || f.headerReader.N != 0) {\n		err = &Error{WrongCompressedPayloadSize, 0}\n	}\n	if err != nil {\n		return err\n	}\n	var invalidHeaders", New: "(err == io.EOF && f.headerReader.N == 0) {\n		err = &Error{WrongCompressedPayloadSize, 0}\n	}\n	if err != nil {\n		return err\n	}\n	var invalidHeaders", Expect: "payload-size-check|Framer.readHeadersFrame"},
			{Name: "uncork-reuse-keeps-old-limit", File: "bfe_spdy/frame_read.go", Old: "	if f.headerDecompressor != nil {\n		f.headerReader.N = payloadSize\n		return nil\n	}", New: "	if f.headerDecompressor != nil {\n		return nil\n	}", Expect: "uncork-sets-n"},
			{Name: "unlowercased-name-rejected-at-once", File: "bfe_spdy/frame_read.go", Old: "			e = &Error{UnlowercasedHeaderName, streamId}\n			name = strings.ToLower(name)\n", New: "			return nil, 0, &Error{UnlowercasedHeaderName, streamId}\n", Expect: "block-consumed|parseHeaderValueBlock:early:UnlowercasedHeaderName"},
			{Name: "duplicate-breaks-out-of-pair-loop", File: "bfe_spdy/frame_read.go", Old: "			e = &Error{DuplicateHeaders, streamId}\n", New: "			e = &Error{DuplicateHeaders, streamId}\n			break\n", Expect: "block-consumed|parseHeaderValueBlock:early:success"},
			{Name: "oversize-value-blamed-on-stream", File: "bfe_spdy/frame_read.go", Old: "			return nil, 0, fmt.Errorf(\"HeaderValueBlock with invalid value length: %d\", length)\n", New: "			return nil, 0, &Error{InvalidControlFrame, streamId}\n", Expect: "block-consumed|parseHeaderValueBlock:early:InvalidControlFrame"},
			{Name: "silent-pair-loop-counts-down", File: "bfe_spdy/frame_read.go", Old: "	for i := 0; i < int(numHeaders); i++ {\n		var length uint32\n", New: "	for left := numHeaders; left > 0; left-- {\n		var length uint32\n", Silent: true},
			{Name: "silent-oversize-name-is-connection-error", File: "bfe_spdy/frame_read.go", Old: "			return nil, 0, fmt.Errorf(\"HeaderValueBlock with invalid name length: %d\", length)\n", New: "			return nil, 0, &Error{InvalidControlFrame, 0}\n", Silent: true},
			{Name: "silent-bound-operands-swapped", File: "bfe_spdy/frame_read.go", Old: "	if numSettings > MaxNumSettings {", New: "	if MaxNumSettings < numSettings {", Silent: true},
			{Name: "silent-local-renamed-and-logging", File: "bfe_spdy/frame_read.go", Old: "	var length uint32\n	if err := binary.Read(f.r, binary.BigEndian, &length); err != nil {\n		return nil, err\n	}\n	var frame DataFrame\n	frame.StreamId = streamId\n	frame.Flags = DataFlags(length >> 24)\n	length &= 0xffffff\n	frame.Data = make([]byte, length)", New: "	var word uint32\n	if err := binary.Read(f.r, binary.BigEndian, &word); err != nil {\n		return nil, err\n	}\n	var frame DataFrame\n	frame.Flags = DataFlags(word >> 24)\n	frame.StreamId = streamId\n	word = word & 0xffffff\n	_ = fmt.Sprintf(\"data frame of %d bytes\", word)\n	frame.Data = make([]byte, word)", Silent: true},
			{Name: "silent-receiver-renamed", File: "bfe_spdy/frame_write.go", Old: "func (f *Framer) writeHeadersFrame(frame *HeadersFrame) (err error) {\n	if frame.StreamId == 0 {\n		return &Error{ZeroStreamId, 0}\n	}\n	// Marshal the headers.\n	var writer io.Writer = f.headerBuf\n	if !f.headerCompressionDisabled {\n		writer = f.headerCompressor\n	}\n	if _, err = writeHeaderValueBlock(writer, frame.Headers); err != nil {\n		return\n	}\n	if !f.headerCompressionDisabled {\n		f.headerCompressor.Flush()\n	}\n\n	// Set ControlFrameHeader.\n	frame.CFHeader.version = Version\n	frame.CFHeader.frameType = TypeHeaders\n	frame.CFHeader.length = uint32(len(f.headerBuf.Bytes()) + 4)\n\n	// Serialize frame to Writer.\n	if err = writeControlFrameHeader(f.w, frame.CFHeader); err != nil {\n		return\n	}\n	if err = binary.Write(f.w, binary.BigEndian, frame.StreamId); err != nil {\n		return\n	}\n	if _, err = f.w.Write(f.headerBuf.Bytes()); err != nil {\n		return\n	}\n	f.headerBuf.Reset()\n	return\n}", New: "func (fr *Framer) writeHeadersFrame(hf *HeadersFrame) (err error) {\n	if hf.StreamId == 0 {\n		return &Error{ZeroStreamId, 0}\n	}\n	var writer io.Writer = fr.headerBuf\n	if !fr.headerCompressionDisabled {\n		writer = fr.headerCompressor\n	}\n	if _, err = writeHeaderValueBlock(writer, hf.Headers); err != nil {\n		return\n	}\n	if !fr.headerCompressionDisabled {\n		fr.headerCompressor.Flush()\n	}\n	hf.CFHeader.frameType = TypeHeaders\n	hf.CFHeader.version = Version\n	hf.CFHeader.length = uint32(4 + len(fr.headerBuf.Bytes()))\n	if err = writeControlFrameHeader(fr.w, hf.CFHeader); err != nil {\n		return\n	}\n	if err = binary.Write(fr.w, binary.BigEndian, hf.StreamId); err != nil {\n		return\n	}\n	if _, err = fr.w.Write(fr.headerBuf.Bytes()); err != nil {\n		return\n	}\n	fr.headerBuf.Reset()\n	return\n}", Silent: true},
			{Name: "silent-goaway-check-on-parameter", File: "bfe_spdy/frame_read.go", Old: "	if frame.CFHeader.length != 8 {\n		return &Error{InvalidControlFrame, frame.LastGoodStreamId}\n	}\n", New: "	if h.length != 8 {\n		return &Error{InvalidControlFrame, frame.LastGoodStreamId}\n	}\n", Silent: true},
			{Name: "silent-data-frame-validation-as-switch", File: "bfe_spdy/frame_write.go", Old: "\tif frame.StreamId&0x80000000 != 0 || len(frame.Data) > MaxDataLength {\n\t\treturn &Error{InvalidDataFrame, frame.StreamId}\n\t}\n", New: "\tswitch {\n\tcase frame.StreamId&0x80000000 != 0 || len(frame.Data) > MaxDataLength:\n\t\treturn &Error{InvalidDataFrame, frame.StreamId}\n\t}\n", Silent: true},
			{Name: "silent-field-read-extracted-into-helper", File: "bfe_spdy/frame_read.go", Old: "func parseHeaderValueBlock(r io.Reader, streamId StreamId) (http.Header, uint32, error) {\n\theaderLen := uint32(0) // length of header decompressed\n\n\tvar numHeaders uint32\n\tif err := binary.Read(r, binary.BigEndian, &numHeaders); err != nil {\n\t\treturn nil, 0, err\n\t}\n\tif numHeaders > MaxNumHeaders {\n\t\treturn nil, 0, fmt.Errorf(\"HeaderValueBlock with invalid numHeaders: %d\", numHeaders)\n\t}\n\n\tvar e error\n\th := make(http.Header, int(numHeaders))\n\tfor i := 0; i < int(numHeaders); i++ {\n\t\tvar length uint32\n\t\tif err := binary.Read(r, binary.BigEndian, &length); err != nil {\n\t\t\treturn nil, 0, err\n\t\t}\n\t\tif length > MaxHeaderFieldLength {\n\t\t\treturn nil, 0, fmt.Errorf(\"HeaderValueBlock with invalid name length: %d\", length)\n\t\t}\n\t\theaderLen += length\n\t\tnameBytes := make([]byte, length)\n\t\tif _, err := io.ReadFull(r, nameBytes); err != nil {\n\t\t\treturn nil, 0, err\n\t\t}\n\t\tname := string(nameBytes)\n\t\tif name != strings.ToLower(name) {\n\t\t\te = &Error{UnlowercasedHeaderName, streamId}\n\t\t\tname = strings.ToLower(name)\n\t\t}\n\t\tif h[name] != nil {\n\t\t\te = &Error{DuplicateHeaders, streamId}\n\t\t}\n\t\tif err := binary.Read(r, binary.BigEndian, &length); err != nil {\n\t\t\treturn nil, 0, err\n\t\t}\n\t\tif length > MaxHeaderFieldLength {\n\t\t\treturn nil, 0, fmt.Errorf(\"HeaderValueBlock with invalid value length: %d\", length)\n\t\t}\n\t\theaderLen += length\n\t\tvalue := make([]byte, length)\n\t\tif _, err := io.ReadFull(r, value); err != nil {\n\t\t\treturn nil, 0, err\n\t\t}\n\t\t// an invalid header is recorded and skipped", New: "func readBoundedField(src io.Reader, what string) ([]byte, error) {\n\tvar size uint32\n\tif err := binary.Read(src, binary.BigEndian, &size); err != nil {\n\t\treturn nil, err\n\t}\n\tif size > MaxHeaderFieldLength {\n\t\treturn nil, fmt.Errorf(\"HeaderValueBlock with invalid %s length: %d\", what, size)\n\t}\n\tbuf := make([]byte, size)\n\t_, err := io.ReadFull(src, buf)\n\tif err != nil {\n\t\treturn nil, err\n\t}\n\treturn buf, nil\n}\n\nfunc parseHeaderValueBlock(r io.Reader, streamId StreamId) (http.Header, uint32, error) {\n\theaderLen := uint32(0) // length of header decompressed\n\n\tvar numHeaders uint32\n\tif err := binary.Read(r, binary.BigEndian, &numHeaders); err != nil {\n\t\treturn nil, 0, err\n\t}\n\tif numHeaders > MaxNumHeaders {\n\t\treturn nil, 0, fmt.Errorf(\"HeaderValueBlock with invalid numHeaders: %d\", numHeaders)\n\t}\n\n\tvar e error\n\th := make(http.Header, int(numHeaders))\n\tfor i := 0; i < int(numHeaders); i++ {\n\t\tnameBytes, err := readBoundedField(r, \"name\")\n\t\tif err != nil {\n\t\t\treturn nil, 0, err\n\t\t}\n\t\theaderLen += uint32(len(nameBytes))\n\t\tname := string(nameBytes)\n\t\tif name != strings.ToLower(name) {\n\t\t\te = &Error{UnlowercasedHeaderName, streamId}\n\t\t\tname = strings.ToLower(name)\n\t\t}\n\t\tif h[name] != nil {\n\t\t\te = &Error{DuplicateHeaders, streamId}\n\t\t}\n\t\tvalue, err := readBoundedField(r, \"value\")\n\t\tif err != nil {\n\t\t\treturn nil, 0, err\n\t\t}\n\t\theaderLen += uint32(len(value))\n\t\t// an invalid header is recorded and skipped", Silent: true},
			{Name: "silent-payload-size-test-as-named-booleans", File: "bfe_spdy/frame_read.go", Old: "\tif !f.headerCompressionDisabled && (err == io.EOF && f.headerReader.N == 0 || f.headerReader.N != 0) {\n\t\terr = &Error{WrongCompressedPayloadSize, 0}\n\t}\n\tif err != nil {\n\t\treturn err\n\t}\n\tvar invalidHeaders", New: "\tleftover := f.headerReader.N != 0\n\ttruncated := err == io.EOF && !leftover\n\tbadSize := !f.headerCompressionDisabled && (truncated || leftover)\n\tif badSize {\n\t\terr = &Error{WrongCompressedPayloadSize, 0}\n\t}\n\tif err != nil {\n\t\treturn err\n\t}\n\tvar invalidHeaders", Silent: true},
			{Name: "silent-payload-size-test-in-error-mapping-helper", File: "bfe_spdy/frame_read.go", Old: "func (f *Framer) readHeadersFrame(h ControlFrameHeader, frame *HeadersFrame) error {\n\tframe.CFHeader = h\n\tvar err error\n\tif err = binary.Read(f.r, binary.BigEndian, &frame.StreamId); err != nil {\n\t\treturn err\n\t}\n\tframe.StreamId = frame.StreamId & 0x7fffffff\n\tif h.length < 4 {\n\t\treturn &Error{InvalidControlFrame, frame.StreamId}\n\t}\n\treader := f.r\n\tif !f.headerCompressionDisabled {\n\t\terr := f.uncorkHeaderDecompressor(int64(h.length - 4))\n\t\tif err != nil {\n\t\t\treturn err\n\t\t}\n\t\treader = f.headerDecompressor\n\t}\n\tframe.Headers, _, err = parseHeaderValueBlock(reader, frame.StreamId)\n\tif !f.headerCompressionDisabled && (err == io.EOF && f.headerReader.N == 0 || f.headerReader.N != 0) {\n\t\terr = &Error{WrongCompressedPayloadSize, 0}\n\t}\n\tif err != nil {\n\t\treturn err\n\t}\n\tvar invalidHeaders map[string]bool", New: "// blockSizeError replaces the parse result by WrongCompressedPayloadSize when\n// the compressed block did not end exactly at the announced payload size.\nfunc (f *Framer) blockSizeError(parseErr error) error {\n\tif f.headerCompressionDisabled {\n\t\treturn parseErr\n\t}\n\tif f.headerReader.N != 0 || parseErr == io.EOF {\n\t\treturn &Error{WrongCompressedPayloadSize, 0}\n\t}\n\treturn parseErr\n}\n\nfunc (f *Framer) readHeadersFrame(h ControlFrameHeader, frame *HeadersFrame) error {\n\tframe.CFHeader = h\n\tvar err error\n\tif err = binary.Read(f.r, binary.BigEndian, &frame.StreamId); err != nil {\n\t\treturn err\n\t}\n\tframe.StreamId = frame.StreamId & 0x7fffffff\n\tif h.length < 4 {\n\t\treturn &Error{InvalidControlFrame, frame.StreamId}\n\t}\n\treader := f.r\n\tif !f.headerCompressionDisabled {\n\t\terr := f.uncorkHeaderDecompressor(int64(h.length - 4))\n\t\tif err != nil {\n\t\t\treturn err\n\t\t}\n\t\treader = f.headerDecompressor\n\t}\n\tframe.Headers, _, err = parseHeaderValueBlock(reader, frame.StreamId)\n\tif err = f.blockSizeError(err); err != nil {\n\t\treturn err\n\t}\n\tvar invalidHeaders map[string]bool", Silent: true},
			{Name: "stream-error-returned-with-leftover-payload", File: "bfe_spdy/frame_read.go", Old: "func (f *Framer) readHeadersFrame(h ControlFrameHeader, frame *HeadersFrame) error {\n\tframe.CFHeader = h\n\tvar err error\n\tif err = binary.Read(f.r, binary.BigEndian, &frame.StreamId); err != nil {\n\t\treturn err\n\t}\n\tframe.StreamId = frame.StreamId & 0x7fffffff\n\tif h.length < 4 {\n\t\treturn &Error{InvalidControlFrame, frame.StreamId}\n\t}\n\treader := f.r\n\tif !f.headerCompressionDisabled {\n\t\terr := f.uncorkHeaderDecompressor(int64(h.length - 4))\n\t\tif err != nil {\n\t\t\treturn err\n\t\t}\n\t\treader = f.headerDecompressor\n\t}\n\tframe.Headers, _, err = parseHeaderValueBlock(reader, frame.StreamId)\n\tif !f.headerCompressionDisabled && (err == io.EOF && f.headerReader.N == 0 || f.headerReader.N != 0) {\n\t\terr = &Error{WrongCompressedPayloadSize, 0}\n\t}\n\tif err != nil {\n\t\treturn err\n\t}\n\tvar invalidHeaders map[string]bool", New: "// blockSizeError replaces the parse result by WrongCompressedPayloadSize when\n// the compressed block did not end exactly at the announced payload size.\nfunc (f *Framer) blockSizeError(parseErr error) error {\n\tif f.headerCompressionDisabled {\n\t\treturn parseErr\n\t}\n\tif parseErr == nil && f.headerReader.N != 0 || parseErr == io.EOF && f.headerReader.N == 0 {\n\t\treturn &Error{WrongCompressedPayloadSize, 0}\n\t}\n\treturn parseErr\n}\n\nfunc (f *Framer) readHeadersFrame(h ControlFrameHeader, frame *HeadersFrame) error {\n\tframe.CFHeader = h\n\tvar err error\n\tif err = binary.Read(f.r, binary.BigEndian, &frame.StreamId); err != nil {\n\t\treturn err\n\t}\n\tframe.StreamId = frame.StreamId & 0x7fffffff\n\tif h.length < 4 {\n\t\treturn &Error{InvalidControlFrame, frame.StreamId}\n\t}\n\treader := f.r\n\tif !f.headerCompressionDisabled {\n\t\terr := f.uncorkHeaderDecompressor(int64(h.length - 4))\n\t\tif err != nil {\n\t\t\treturn err\n\t\t}\n\t\treader = f.headerDecompressor\n\t}\n\tframe.Headers, _, err = parseHeaderValueBlock(reader, frame.StreamId)\n\tif err = f.blockSizeError(err); err != nil {\n\t\treturn err\n\t}\n\tvar invalidHeaders map[string]bool", Expect: "payload-size-check|Framer.readHeadersFrame:error-return"},
		},
	})
}

// spdyFrameTable lists the control frames with their reader and writer.
var spdyFrameTable = []struct {
	typ, rd, wr string
	block       bool // carries a header block after the fixed part
}{
	{"SynStreamFrame", "Framer.readSynStreamFrame", "Framer.writeSynStreamFrame", true},
	{"SynReplyFrame", "Framer.readSynReplyFrame", "Framer.writeSynReplyFrame", true},
	{"HeadersFrame", "Framer.readHeadersFrame", "Framer.writeHeadersFrame", true},
	{"RstStreamFrame", "RstStreamFrame.read", "RstStreamFrame.write", false},
	{"PingFrame", "PingFrame.read", "PingFrame.write", false},
	{"GoAwayFrame", "GoAwayFrame.read", "GoAwayFrame.write", false},
	{"WindowUpdateFrame", "WindowUpdateFrame.read", "WindowUpdateFrame.write", false},
}

const spdyMaxLen = 1<<24 - 1

// spdyXferSum sums the sizes of the encoding/binary transfers of fn on the
// stream whose access path ends in `stream` (".r" / ".w": the Framer fields); split by loop membership.
func spdyXferSum(fn *ssa.Function, callee, stream string) (fixed, perIter int64, ok bool) {
	ok = true
	for _, call := range core.Calls(fn, callee) {
		args := call.Common().Args
		if len(args) < 3 || !strings.HasSuffix(core.Render(args[0]), stream) {
			continue
		}
		n, known := spdyWireSize(args[2])
		if !known {
			ok = false
			continue
		}
		if spdyInLoop(call.(ssa.Instruction).Block()) {
			perIter += n
		} else {
			fixed += n
		}
	}
	return
}

func runC39(c *core.Ctx) {
	if c.P.Pkg(spdyPkg) == nil {
		c.Missing(spdyPkg)
		return
	}
	lengthFld, _ := c.P.Obj(spdyPkg, "ControlFrameHeader.length").(*types.Var)
	if lengthFld == nil {
		c.Missing(spdyPkg + ".ControlFrameHeader.length")
		return
	}
	fns := c.P.SrcFuncs(spdyPkg)
	isLength := func(v ssa.Value) bool { return spdyFieldLoad(v, lengthFld) }

	// ---- alloc-bound, length-mask ------------------------------------------
	for _, fn := range fns {
		wire := spdyWireAllocs(fn)
		if len(wire) == 0 {
			continue
		}
		c.Analysed(core.FuncKey(fn))
		states := map[*ssa.Alloc]map[*ssa.UnOp]uint32{}
		stateOf := func(ld *ssa.UnOp, a *ssa.Alloc) uint32 {
			if states[a] == nil {
				states[a] = spdyBoundStates(fn, a, 1<<24)
			}
			return states[a][ld]
		}
		nMake := 0
		for _, in := range allInstrs(fn) {
			var sizes []ssa.Value
			switch x := in.(type) {
			case *ssa.MakeSlice:
				sizes = []ssa.Value{x.Len, x.Cap}
			case *ssa.MakeMap:
				sizes = []ssa.Value{x.Reserve}
			case *ssa.MakeChan:
				sizes = []ssa.Value{x.Size}
			case *ssa.Store:
				// length-mask: the length put into a ControlFrameHeader
				if st, ok := spdyFieldStore(in, lengthFld); ok {
					uses, bad := 0, ""
					spdyOperandLoads(st.Val, func(ld *ssa.UnOp, a *ssa.Alloc) {
						if !wire[a] {
							return
						}
						uses++
						if s := stateOf(ld, a); s != spdyBounded {
							bad = core.Render(ld)
						}
					})
					if uses > 0 {
						c.Check("length-mask", spdyShort(fn), in.Pos(), bad == "",
							"ControlFrameHeader.length is set from the decoded word "+bad+" without masking it to 24 bits first: the flags byte leaks into the length and every length-derived bound is off by up to 2^32")
					}
				}
				continue
			default:
				continue
			}
			uses := 0
			var bad []string
			for _, sz := range sizes {
				spdyOperandLoads(sz, func(ld *ssa.UnOp, a *ssa.Alloc) {
					if !wire[a] {
						return
					}
					uses++
					if s := stateOf(ld, a); s != spdyBounded {
						bad = append(bad, core.Render(ld))
					}
				})
			}
			if uses == 0 {
				continue
			}
			nMake++
			// a private helper called from k sites stands for k copies of its body
			// (two decode+allocate sequences merged into one helper keep their count)
			for site := 1; site <= spdySiteWeight(c.P, fn); site++ {
				key := fmt.Sprintf("%s:make#%d", spdyShort(fn), nMake)
				if site > 1 {
					key += fmt.Sprintf("@site%d", site)
				}
				c.Check("alloc-bound", key, in.Pos(), len(bad) == 0,
					"make() is sized by "+strings.Join(spdyUniq(bad), ", ")+", decoded from the wire by binary.Read, and on some path no mask or comparison against an upper bound <= 2^24 lies between the decode and the allocation: a peer chooses the allocation size (up to 4 GiB per field)")
			}
		}
	}
	c.Min("alloc-bound", 5)
	c.Min("length-mask", 1)

	// ---- sub-guard ---------------------------------------------------------
	subK := map[*ssa.Function][]int64{}
	for _, fn := range fns {
		n := 0
		for _, in := range allInstrs(fn) {
			b, ok := in.(*ssa.BinOp)
			if !ok || b.Op != token.SUB || !isLength(core.StripConv(b.X)) {
				continue
			}
			n++
			c.Analysed(core.FuncKey(fn))
			k, isConst := spdyConstInt(b.Y)
			if isConst {
				subK[fn] = append(subK[fn], k)
			}
			subj := core.Render(b.X)
			ok = spdyEdgeGuarded(b.Block(), func(g core.Guard) bool {
				cmp, ok := spdyNorm(g.Cond, g.Pol, func(v ssa.Value) bool { return isLength(v) && core.Render(v) == subj })
				if !ok {
					return false
				}
				if !isConst {
					return (cmp.Op == token.GEQ || cmp.Op == token.GTR || cmp.Op == token.EQL) && core.Render(cmp.Other) == core.Render(b.Y)
				}
				lo, isK := spdyConstInt(cmp.Other)
				if !isK {
					return false
				}
				switch cmp.Op {
				case token.GEQ, token.EQL:
					return lo >= k
				case token.GTR:
					return lo+1 >= k
				}
				return false
			})
			c.Check("sub-guard", fmt.Sprintf("%s:length-sub#%d", spdyShort(fn), n), b.Pos(), ok,
				fmt.Sprintf("%s - %s is computed on the unsigned wire length without a dominating test %s >= %s: a control frame shorter than its fixed part wraps the payload size to ~2^32, so the header-block reader is allowed to consume bytes far beyond the frame", subj, core.Render(b.Y), subj, core.Render(b.Y)))
		}
	}
	c.Min("sub-guard", 3)

	// ---- fixed-length, length-agree ----------------------------------------
	lengthStore := func(fn *ssa.Function) (vals []ssa.Value) {
		for _, in := range allInstrs(fn) {
			if st, ok := spdyFieldStore(in, lengthFld); ok {
				vals = append(vals, st.Val)
			}
		}
		return
	}
	fixedLenReturns := func(fn *ssa.Function, want int64, constant bool) {
		n := 0
		for _, r := range core.Returns(fn) {
			if !spdySuccessReturn(r) {
				continue
			}
			n++
			got := ""
			ok := spdyHasGuard(r.Block(), func(g core.Guard) bool {
				cmp, ok := spdyNorm(g.Cond, g.Pol, isLength)
				if !ok || cmp.Op != token.EQL {
					return false
				}
				if !constant {
					return true
				}
				k, isK := spdyConstInt(cmp.Other)
				if isK && k != want {
					got = fmt.Sprintf(" (it is compared with %d)", k)
				}
				return isK && k == want
			})
			wantS := fmt.Sprint(want)
			if !constant {
				wantS = "4 + 8*numSettings"
			}
			c.Check("fixed-length", fmt.Sprintf("%s:return#%d", spdyShort(fn), n), r.Pos(), ok,
				"the frame is accepted without CFHeader.length == "+wantS+" having been established"+got+"; the method consumes exactly that many bytes, so with any other announced length the following bytes are parsed as a new frame (frame boundary lost)")
		}
	}
	for _, row := range spdyFrameTable {
		rd, wr := c.P.Func(spdyPkg, row.rd), c.P.Func(spdyPkg, row.wr)
		if rd == nil {
			c.Missing(spdyPkg + "." + row.rd)
		}
		if wr == nil {
			c.Missing(spdyPkg + "." + row.wr)
		}
		if rd == nil || wr == nil {
			continue
		}
		c.Analysed(core.FuncKey(rd), core.FuncKey(wr))
		sumR, loopR, okR := spdyXferSum(rd, "encoding/binary.Read", ".r")
		sumW, loopW, okW := spdyXferSum(wr, "encoding/binary.Write", ".w")
		var problems []string
		if !okR || !okW || loopR != 0 || loopW != 0 {
			problems = append(problems, "a binary.Read/Write operand of unknown size or inside a loop")
		}
		if sumR != sumW {
			problems = append(problems, fmt.Sprintf("reader consumes %d fixed bytes, writer emits %d", sumR, sumW))
		}
		vals := lengthStore(wr)
		if len(vals) != 1 {
			problems = append(problems, fmt.Sprintf("%d stores to CFHeader.length in the writer (expected 1)", len(vals)))
		} else {
			v := core.StripConv(vals[0])
			var kw int64 = -1
			if row.block {
				if b, ok := v.(*ssa.BinOp); ok && b.Op == token.ADD {
					for i, o := range []ssa.Value{b.X, b.Y} {
						if k, ok := spdyConstInt(o); ok {
							other := []ssa.Value{b.Y, b.X}[i]
							if x, ok := spdyLenArg(other); ok && strings.HasSuffix(core.Render(x), ".headerBuf)") && strings.Contains(core.Render(x), "bytes.Buffer.Bytes(") {
								kw = k
							}
						}
					}
				}
			} else if k, ok := spdyConstInt(v); ok {
				kw = k
			}
			if kw != sumW {
				problems = append(problems, fmt.Sprintf("writer announces fixed part %d (%s) but emits %d bytes", kw, core.Render(vals[0]), sumW))
			}
		}
		if row.block {
			ks := subK[rd]
			if len(ks) != 1 || ks[0] != sumR {
				problems = append(problems, fmt.Sprintf("reader subtracts %v from the frame length but consumes %d fixed bytes before the header block", ks, sumR))
			}
		}
		c.Check("length-agree", row.typ, wr.Pos(), len(problems) == 0,
			"announced length, bytes written and bytes read of "+row.typ+" disagree: "+strings.Join(problems, "; ")+"; a frame written by the framer is not read back at the same boundary")
		if !row.block {
			fixedLenReturns(rd, sumR, true)
		}
	}
	// SETTINGS: 4 + 8*n
	if rd, wr := c.P.Func(spdyPkg, "SettingsFrame.read"), c.P.Func(spdyPkg, "SettingsFrame.write"); rd == nil || wr == nil {
		c.Missing(spdyPkg + ".SettingsFrame.read/write")
	} else {
		c.Analysed(core.FuncKey(rd), core.FuncKey(wr))
		fr, lr, okR := spdyXferSum(rd, "encoding/binary.Read", ".r")
		fw, lw, okW := spdyXferSum(wr, "encoding/binary.Write", ".w")
		var problems []string
		if !okR || !okW {
			problems = append(problems, "a binary.Read/Write operand of unknown size")
		}
		if fr != fw || lr != lw {
			problems = append(problems, fmt.Sprintf("reader consumes %d + %d*n bytes, writer emits %d + %d*n", fr, lr, fw, lw))
		}
		vals := lengthStore(wr)
		okLen := false
		if len(vals) == 1 {
			if add, ok := core.StripConv(vals[0]).(*ssa.BinOp); ok && add.Op == token.ADD {
				for i, o := range []ssa.Value{add.X, add.Y} {
					k, isK := spdyConstInt(o)
					mul, isMul := core.StripConv([]ssa.Value{add.Y, add.X}[i]).(*ssa.BinOp)
					if !isK || !isMul || mul.Op != token.MUL || k != fw {
						continue
					}
					for j, m := range []ssa.Value{mul.X, mul.Y} {
						per, isK := spdyConstInt(m)
						x, isLen := spdyLenArg([]ssa.Value{mul.Y, mul.X}[j])
						if isK && isLen && per == lw && strings.HasSuffix(core.Render(x), ".FlagIdValues") {
							okLen = true
						}
					}
				}
			}
		}
		if !okLen {
			problems = append(problems, fmt.Sprintf("writer's CFHeader.length is not len(FlagIdValues)*%d + %d", lw, fw))
		}
		// count prefix is len of the ranged slice
		c.Check("length-agree", "SettingsFrame", wr.Pos(), len(problems) == 0,
			"announced length, bytes written and bytes read of SettingsFrame disagree: "+strings.Join(problems, "; "))
		fixedLenReturns(rd, 0, false)
	}
	c.Min("length-agree", 8)
	c.Min("fixed-length", 5)

	// ---- prefix-agree -------------------------------------------------------
	isPayloadWrite := func(in ssa.Instruction) (ssa.Value, bool) {
		ci, ok := in.(ssa.CallInstruction)
		if !ok {
			return nil, false
		}
		cc := ci.Common()
		if core.CallIs(cc, "io.WriteString") && len(cc.Args) == 2 {
			return cc.Args[1], true
		}
		if cc.IsInvoke() && cc.Method.Name() == "Write" && len(cc.Args) == 1 {
			return cc.Args[0], true
		}
		return nil, false
	}
	lenWrite := func(in ssa.Instruction) (ssa.Value, bool) {
		ci, ok := in.(ssa.CallInstruction)
		if !ok || !core.CallIs(ci.Common(), "encoding/binary.Write") || len(ci.Common().Args) < 3 {
			return nil, false
		}
		d := ci.Common().Args[2]
		if mi, ok := d.(*ssa.MakeInterface); ok {
			d = mi.X
		}
		return spdyFindLen(d)
	}
	if fn := c.P.Func(spdyPkg, "writeHeaderValueBlock"); fn == nil {
		c.Missing(spdyPkg + ".writeHeaderValueBlock")
	} else {
		c.Analysed(core.FuncKey(fn))
		n := 0
		for _, in := range allInstrs(fn) {
			x, ok := lenWrite(in)
			if !ok {
				continue
			}
			n++
			key := fmt.Sprintf("writeHeaderValueBlock:prefix#%d", n)
			if _, isMap := x.Type().Underlying().(*types.Map); isMap {
				ranged := false
				for _, y := range allInstrs(fn) {
					if r, ok := y.(*ssa.Range); ok && r.X == x {
						ranged = true
					}
				}
				c.Check("prefix-agree", key, in.Pos(), ranged, "the header count written is len("+core.Render(x)+") but the pairs written are not a range over that map")
				continue
			}
			next := core.ReachAvoiding(fn, in, func(y ssa.Instruction) bool { _, l := lenWrite(y); return l },
				func(y ssa.Instruction) bool { _, p := isPayloadWrite(y); return p })
			if next == nil {
				c.Check("prefix-agree", key, in.Pos(), false, "a length prefix len("+core.Render(x)+") is written but no payload write follows it")
				continue
			}
			p, _ := isPayloadWrite(next)
			c.Check("prefix-agree", key, in.Pos(), p == x || core.Render(p) == core.Render(x),
				"the length prefix is len("+core.Render(x)+") but the bytes written next are "+core.Render(p)+": when the transformation between them changes the byte length (strings.ToLower on non-ASCII names, e.g. U+212A KELVIN SIGN -> 'k') the reader takes the wrong number of bytes for this field and every following field")
		}
		c.Min("prefix-agree", 3+1+3+1)
	}
	if fn := c.P.Func(spdyPkg, "Framer.writeDataFrame"); fn == nil {
		c.Missing(spdyPkg + ".Framer.writeDataFrame")
	} else {
		c.Analysed(core.FuncKey(fn))
		found := false
		for _, in := range allInstrs(fn) {
			x, ok := lenWrite(in)
			if !ok {
				continue
			}
			found = true
			next := core.ReachAvoiding(fn, in, nil, func(y ssa.Instruction) bool { _, p := isPayloadWrite(y); return p })
			okP := false
			got := "nothing"
			if next != nil {
				p, _ := isPayloadWrite(next)
				got = core.Render(p)
				okP = core.Render(p) == core.Render(x)
			}
			c.Check("prefix-agree", "Framer.writeDataFrame:length", in.Pos(), okP, "DATA length field is len("+core.Render(x)+") but the payload written is "+got)
			subj := core.Render(x)
			bounded := spdyEdgeGuarded(in.Block(), func(g core.Guard) bool {
				cmp, ok := spdyNorm(g.Cond, g.Pol, func(v ssa.Value) bool {
					a, ok := spdyLenArg(v)
					return ok && core.Render(a) == subj
				})
				if !ok {
					return false
				}
				k, isK := spdyConstInt(cmp.Other)
				return isK && ((cmp.Op == token.LEQ && k <= spdyMaxLen) || (cmp.Op == token.LSS && k <= spdyMaxLen+1))
			})
			c.Check("prefix-agree", "Framer.writeDataFrame:length-bound", in.Pos(), bounded, "len("+subj+") is OR-ed into the 24-bit length field without a dominating test len <= MaxDataLength: a longer payload overwrites the flags byte and the frame is read back with other flags and a truncated length")
		}
		if !found {
			c.Check("prefix-agree", "Framer.writeDataFrame:length", fn.Pos(), false, "no length word derived from len(frame.Data) is written")
		}
	}

	// ---- header block writers: block-length, flush-before-length, reset-after-write
	for _, row := range spdyFrameTable {
		if !row.block {
			continue
		}
		fn := c.P.Func(spdyPkg, row.wr)
		if fn == nil {
			continue // reported above
		}
		short := spdyShort(fn)
		// payload write of the header buffer
		var payload ssa.Instruction
		for _, in := range allInstrs(fn) {
			if p, ok := isPayloadWrite(in); ok && strings.HasSuffix(core.Render(p), ".headerBuf)") && strings.Contains(core.Render(p), "bytes.Buffer.Bytes(") {
				payload = in
			}
		}
		vals := lengthStore(fn)
		okBlock := payload != nil && len(vals) == 1
		if okBlock {
			x, ok := spdyFindLen(vals[0])
			okBlock = ok && strings.HasSuffix(core.Render(x), ".headerBuf)") && strings.Contains(core.Render(x), "bytes.Buffer.Bytes(")
		}
		c.Check("prefix-agree", short+":block-length", fn.Pos(), okBlock, "the announced frame length is not derived from len(f.headerBuf.Bytes()), the bytes that are written as the header block")
		// flush-before-length (typestate)
		const clean, dirty = 1, 2
		step := func(in ssa.Instruction, s uint32, report bool) uint32 {
			if ci, ok := in.(ssa.CallInstruction); ok {
				switch {
				case core.CallIs(ci.Common(), spdyPkg+".writeHeaderValueBlock"):
					return dirty
				case core.CallIs(ci.Common(), "compress/zlib.Writer.Flush") && strings.HasSuffix(core.Render(ci.Common().Args[0]), ".headerCompressor"):
					return clean
				}
			}
			if st, ok := spdyFieldStore(in, lengthFld); ok && report {
				c.Check("flush-before-length", short, st.Pos(), s == clean,
					"the frame length is computed from the header buffer on a path where the header block was handed to the zlib compressor and the compressor was not flushed (or no header block was written yet): the announced length misses the bytes still inside the compressor")
			}
			return s
		}
		refine := func(cond ssa.Value, pol bool, s uint32) uint32 {
			v, truth := spdyBoolCond(cond, pol)
			if truth && strings.HasSuffix(core.Render(v), ".headerCompressionDisabled") && s&dirty != 0 {
				return s&^dirty | clean // nothing is buffered inside a compressor that is not used
			}
			return s
		}
		core.Typestate(fn, dirty, step, refine)
		// reset-after-write
		if payload != nil {
			n := 0
			for _, r := range core.Returns(fn) {
				if !spdySuccessReturn(r) || !spdyReaches(fn, payload, r) {
					continue
				}
				n++
				// every path from the payload write to this return resets the buffer
				// (the Reset itself, or a helper that resets on all of its paths)
				isReset := core.LiftMust(func(in ssa.Instruction) bool {
					ci, isCall := in.(ssa.CallInstruction)
					if !isCall || !core.CallIs(ci.Common(), "bytes.Buffer.Reset") {
						return false
					}
					if _, isDefer := in.(*ssa.Defer); isDefer {
						return false
					}
					return strings.HasSuffix(core.Render(ci.Common().Args[0]), ".headerBuf")
				}, 2)
				ok := core.ReachAvoiding(fn, payload, isReset, func(in ssa.Instruction) bool { return in == ssa.Instruction(r) }) == nil
				c.Check("reset-after-write", fmt.Sprintf("%s:return#%d", short, n), r.Pos(), ok,
					"a success return after the header block was written is not preceded by f.headerBuf.Reset(): the next control frame would carry this frame's header bytes again")
			}
		}
	}
	c.Min("flush-before-length", 3)
	c.Min("reset-after-write", 3)

	// ---- validate-before-write ---------------------------------------------
	isWireWrite0 := func(in ssa.Instruction) bool {
		ci, ok := in.(ssa.CallInstruction)
		if !ok {
			return false
		}
		cc := ci.Common()
		if core.CallIs(cc, "encoding/binary.Write", spdyPkg+".writeControlFrameHeader", spdyPkg+".writeHeaderValueBlock", "io.WriteString") {
			return true
		}
		return cc.IsInvoke() && cc.Method.Name() == "Write"
	}
	// a call of a bfe_spdy function that may write (a block of the writer
	// extracted into a helper) is a write
	isWireWrite := func(in ssa.Instruction) bool {
		if isWireWrite0(in) {
			return true
		}
		ci, ok := in.(ssa.CallInstruction)
		if !ok {
			return false
		}
		h := ci.Common().StaticCallee()
		return h != nil && h.Blocks != nil && core.FuncPkgRel(h) == spdyPkg && core.MayPass(h, isWireWrite0, 1)
	}
	for _, fn := range fns {
		if fn.Parent() != nil || fn.Signature.Recv() == nil {
			continue
		}
		short := spdyShort(fn)
		isWriter := fn.Name() == "write" || (strings.HasPrefix(short, "Framer.write") && strings.HasSuffix(short, "Frame"))
		if !isWriter {
			continue
		}
		var writes []ssa.Instruction
		for _, in := range allInstrs(fn) {
			if isWireWrite(in) {
				writes = append(writes, in)
			}
		}
		n := 0
		for _, r := range core.Returns(fn) {
			rv := core.RetVals(r)
			if len(rv) == 0 {
				continue
			}
			mi, ok := rv[len(rv)-1].(*ssa.MakeInterface)
			if !ok || core.TypeStr(mi.X.Type()) != "*"+spdyPkg+".Error" {
				continue
			}
			n++
			c.Analysed(core.FuncKey(fn))
			after := false
			for _, w := range writes {
				if spdyReaches(fn, w, r) {
					after = true
				}
			}
			c.Check("validate-before-write", fmt.Sprintf("%s:reject#%d", short, n), r.Pos(), !after,
				"the frame is rejected with a *spdy.Error after part of it was already written to the connection: the peer sees a truncated frame and parses the next frame's bytes as its remainder")
		}
	}
	c.Min("validate-before-write", 7)

	// ---- shift-agree, mask-agree, control-bit --------------------------------
	// bit packing may sit in a private helper of the writer / reader: look at the region
	regionInstrs := func(fn *ssa.Function) []ssa.Instruction {
		var out []ssa.Instruction
		c.P.RegionInstrs(fn, func(in ssa.Instruction) { out = append(out, in) })
		return out
	}
	shifts := func(fn *ssa.Function, op token.Token) []int64 {
		var out []int64
		for _, in := range regionInstrs(fn) {
			if b, ok := in.(*ssa.BinOp); ok && b.Op == op {
				if k, ok := spdyConstInt(b.Y); ok {
					out = append(out, k)
				}
			}
		}
		sort.Slice(out, func(i, j int) bool { return out[i] < out[j] })
		var u []int64
		for i, k := range out {
			if i == 0 || k != out[i-1] {
				u = append(u, k)
			}
		}
		return u
	}
	hasConstOp := func(fn *ssa.Function, op token.Token, k int64) bool {
		for _, in := range regionInstrs(fn) {
			if b, ok := in.(*ssa.BinOp); ok && b.Op == op {
				for _, o := range []ssa.Value{b.X, b.Y} {
					if v, ok := spdyConstInt(o); ok && v == k {
						return true
					}
				}
			}
		}
		return false
	}
	for _, pair := range []struct {
		name, wr, rd string
		lowMask      bool
	}{
		{"control-header", "writeControlFrameHeader", "Framer.parseControlFrame", true},
		{"data-header", "Framer.writeDataFrame", "Framer.parseDataFrame", true},
		{"settings-entry", "SettingsFrame.write", "SettingsFrame.read", true},
		{"syn-priority", "Framer.writeSynStreamFrame", "Framer.readSynStreamFrame", false},
	} {
		wr, rd := c.P.Func(spdyPkg, pair.wr), c.P.Func(spdyPkg, pair.rd)
		if wr == nil || rd == nil {
			c.Missing(spdyPkg + "." + pair.wr + "/" + pair.rd)
			continue
		}
		c.Analysed(core.FuncKey(rd), core.FuncKey(wr))
		ws, rs := shifts(wr, token.SHL), shifts(rd, token.SHR)
		c.Check("shift-agree", pair.name, rd.Pos(), len(ws) > 0 && fmt.Sprint(ws) == fmt.Sprint(rs),
			fmt.Sprintf("%s packs with << %v but %s unpacks with >> %v: the field is not read back as written", pair.wr, ws, pair.rd, rs))
		if pair.lowMask && len(ws) == 1 {
			m := int64(1)<<uint(ws[0]) - 1
			c.Check("mask-agree", pair.name, rd.Pos(), hasConstOp(rd, token.AND, m),
				fmt.Sprintf("%s does not mask the low part with %#x (= 1<<%d - 1), the complement of the writer's shift", pair.rd, m, ws[0]))
		}
	}
	if rf, wh := c.P.Func(spdyPkg, "Framer.ReadFrame"), c.P.Func(spdyPkg, "writeControlFrameHeader"); rf == nil || wh == nil {
		c.Missing(spdyPkg + ".Framer.ReadFrame/writeControlFrameHeader")
	} else {
		c.Analysed(core.FuncKey(rf))
		c.Check("control-bit", "ReadFrame", rf.Pos(), hasConstOp(wh, token.OR, 0x8000) && hasConstOp(rf, token.AND, 0x80000000),
			"the control bit set by writeControlFrameHeader (0x8000 in the first 16-bit word) is not the bit ReadFrame tests (0x80000000 of the first 32-bit word)")
	}
	c.Min("shift-agree", 4)
	c.Min("mask-agree", 3)

	// ---- payload-size-check ---------------------------------------------------
	for _, row := range spdyFrameTable {
		if !row.block {
			continue
		}
		fn := c.P.Func(spdyPkg, row.rd)
		if fn == nil {
			continue
		}
		short := spdyShort(fn)
		calls := core.Calls(fn, spdyPkg+".parseHeaderValueBlock")
		if len(calls) != 1 {
			c.Check("payload-size-check", short, fn.Pos(), false, fmt.Sprintf("expected one parseHeaderValueBlock call, found %d", len(calls)))
			continue
		}
		call := calls[0].(*ssa.Call)
		var perr ssa.Value
		for _, ref := range *call.Referrers() {
			if ex, ok := ref.(*ssa.Extract); ok && ex.Index == 2 {
				perr = ex
			}
		}
		sizeAtom := func(g core.Guard) bool {
			if v, truth := spdyBoolCond(g.Cond, g.Pol); truth && strings.HasSuffix(core.Render(v), ".headerCompressionDisabled") {
				return true
			}
			cmp, ok := spdyNorm(g.Cond, g.Pol, func(v ssa.Value) bool { return strings.HasSuffix(core.Render(v), ".headerReader.N") })
			if !ok || cmp.Op != token.EQL {
				return false
			}
			k, isK := spdyConstInt(cmp.Other)
			return isK && k == 0
		}
		// the size test may be spelled with named booleans (`wrong := compressed &&
		// (short || left)`) or sit in a private predicate / error-mapping helper of
		// the Framer: both subjects are field paths of the Framer
		sizeOK := spdyLiftCalls(sizeAtom)
		// mayBeParam: ev can be the parameter p of its function (directly or through phis)
		var mayBeParam func(ev ssa.Value, p *ssa.Parameter, d int) bool
		mayBeParam = func(ev ssa.Value, p *ssa.Parameter, d int) bool {
			if ev == ssa.Value(p) {
				return true
			}
			if u, ok := ev.(*ssa.UnOp); ok && u.Op == token.MUL {
				if a, ok := u.X.(*ssa.Alloc); ok && core.SpilledParam(a) == p {
					return true
				}
			}
			if phi, ok := ev.(*ssa.Phi); ok && d < 4 {
				for _, e := range phi.Edges {
					if mayBeParam(e, p, d+1) {
						return true
					}
				}
			}
			return false
		}
		// derives: v is the parse error, a phi over it, or the result of a private
		// helper that may hand back an argument deriving from it; checked: on every
		// phi edge / helper return that carries the parse error the size test was passed.
		var checked func(v ssa.Value, seen map[ssa.Value]bool) (derives, ok bool)
		checked = func(v ssa.Value, seen map[ssa.Value]bool) (bool, bool) {
			if v == perr {
				return true, false
			}
			if seen[v] {
				return false, true
			}
			if h, idx := spdyHelperResult(v); h != nil {
				seen[v] = true
				hc, _ := v.(*ssa.Call)
				if ex, isEx := v.(*ssa.Extract); isEx {
					hc, _ = ex.Tuple.(*ssa.Call)
				}
				derives, ok := false, true
				for _, r := range core.Returns(h) {
					rv := core.RetVals(r)
					if idx >= len(rv) {
						continue
					}
					for j, p := range h.Params {
						if j >= len(hc.Call.Args) || !mayBeParam(rv[idx], p, 0) {
							continue
						}
						d, sub := checked(hc.Call.Args[j], seen)
						if !d {
							continue
						}
						derives = true
						if !sub && !core.AllEdgesGuarded(r.Block(), sizeOK) {
							ok = false
						}
					}
				}
				return derives, ok
			}
			phi, isPhi := v.(*ssa.Phi)
			if !isPhi {
				return false, true
			}
			seen[v] = true
			derives, ok := false, true
			for i, e := range phi.Edges {
				if spdyNonNilErr(e) {
					continue
				}
				edgeOK := false
				for _, g := range core.GuardsOnEdge(phi.Block().Preds[i], phi.Block()) {
					if sizeOK(g) {
						edgeOK = true
					}
				}
				d, sub := checked(e, seen)
				if d {
					derives = true
					if !edgeOK && !sub {
						ok = false
					}
				}
			}
			return derives, ok
		}
		n, nErr := 0, 0
		for _, r := range core.Returns(fn) {
			if !spdyReaches(fn, call, r) {
				continue
			}
			if !spdySuccessReturn(r) {
				// a return that hands the parse error on (it may be the stream-level
				// *Error{code, streamId}: the connection goes on with the next frame)
				rv := core.RetVals(r)
				if len(rv) == 0 {
					continue
				}
				d, sub := checked(rv[len(rv)-1], map[ssa.Value]bool{})
				if !d {
					continue
				}
				nErr++
				c.Check("payload-size-check", fmt.Sprintf("%s:error-return#%d", short, nErr), r.Pos(), sub || core.AllEdgesGuarded(r.Block(), sizeOK),
					"the error of parseHeaderValueBlock (possibly a stream-level *Error, after which the connection goes on) is returned on a path where f.headerReader.N == 0 (the compressed header block consumed exactly the announced payload) was not established: with left-over payload bytes the error must be the connection-level WrongCompressedPayloadSize, otherwise those bytes are parsed as the next frame")
				continue
			}
			n++
			tested, ok := false, false
			for _, g := range core.GuardsAt(r.Block()) {
				if sizeOK(g) {
					ok = true
				}
				cmp, isCmp := spdyNorm(g.Cond, g.Pol, func(v ssa.Value) bool { d, _ := checked(v, map[ssa.Value]bool{}); return d })
				if !isCmp || cmp.Op != token.EQL || !spdyIsNil(cmp.Other) {
					continue
				}
				tested = true
				if _, sub := checked(cmp.Subj, map[ssa.Value]bool{}); sub {
					ok = true
				}
			}
			c.Check("payload-size-check", fmt.Sprintf("%s:return#%d", short, n), r.Pos(), tested && ok,
				fmt.Sprintf("the frame is accepted on a path where the parse error was tested=%v but f.headerReader.N == 0 (the compressed header block consumed exactly the announced payload) was not established: left-over payload bytes would be parsed as the next frame", tested))
		}
		if n == 0 {
			c.Check("payload-size-check", short, fn.Pos(), false, "no success return after parseHeaderValueBlock")
		}
		// the payload size handed to uncork derives from the frame length
		for _, uc := range core.Calls(fn, spdyPkg+".Framer.uncorkHeaderDecompressor") {
			derived := false
			var walk func(v ssa.Value, d int)
			walk = func(v ssa.Value, d int) {
				if d > 6 {
					return
				}
				v = core.StripConv(v)
				if isLength(v) {
					derived = true
				}
				if b, ok := v.(*ssa.BinOp); ok {
					walk(b.X, d+1)
					walk(b.Y, d+1)
				}
			}
			walk(uc.Common().Args[1], 0)
			c.Check("uncork-sets-n", short+":arg", uc.Pos(), derived, "the limit handed to uncorkHeaderDecompressor ("+core.Render(uc.Common().Args[1])+") does not derive from the frame's announced length")
		}
	}
	c.Min("payload-size-check", 3)
	if fn := c.P.Func(spdyPkg, "Framer.uncorkHeaderDecompressor"); fn == nil {
		c.Missing(spdyPkg + ".Framer.uncorkHeaderDecompressor")
	} else if len(fn.Params) < 2 {
		c.Check("uncork-sets-n", "uncorkHeaderDecompressor", fn.Pos(), false, "signature changed: no payload size parameter")
	} else {
		c.Analysed(core.FuncKey(fn))
		nFld, _ := c.P.Obj(spdyPkg, "Framer.headerReader").(*types.Var)
		param := fn.Params[1]
		isArm := func(in ssa.Instruction) bool {
			st, ok := in.(*ssa.Store)
			if !ok {
				return false
			}
			fa, ok := st.Addr.(*ssa.FieldAddr)
			if !ok {
				return false
			}
			f := core.FieldObj(fa.X, fa.Field)
			if f == nil || f.Name() != "N" || core.TypeStr(fa.X.Type()) != "*io.LimitedReader" {
				return false
			}
			v := core.StripConv(st.Val)
			if u, ok := v.(*ssa.UnOp); ok && u.Op == token.MUL {
				if a, ok := u.X.(*ssa.Alloc); ok && core.SpilledParam(a) == param {
					return true
				}
			}
			return v == ssa.Value(param)
		}
		bad := core.MustPass(fn, nil, isArm)
		c.Check("uncork-sets-n", "uncorkHeaderDecompressor", fn.Pos(), bad == nil && nFld != nil,
			"a path through uncorkHeaderDecompressor returns without storing its payloadSize argument into headerReader.N: the header block of this frame is read under the previous frame's (exhausted or stale) limit")
		// the literal built for first use must end up in f.headerReader
		stored := false
		for _, in := range allInstrs(fn) {
			if st, ok := in.(*ssa.Store); ok && nFld != nil {
				if fa, ok := st.Addr.(*ssa.FieldAddr); ok && core.FieldObj(fa.X, fa.Field) == nFld {
					stored = true
				}
				if fa, ok := st.Addr.(*ssa.FieldAddr); ok {
					if inner, ok := fa.X.(*ssa.FieldAddr); ok && core.FieldObj(inner.X, inner.Field) == nFld {
						stored = true
					}
				}
			}
		}
		c.Check("uncork-sets-n", "uncorkHeaderDecompressor:field", fn.Pos(), stored, "uncorkHeaderDecompressor never stores into f.headerReader")
	}
	c.Min("uncork-sets-n", 5)

	// ---- block-consumed (x_s_spdy2.go) -----------------------------------------
	c39BlockConsumed(c)
	c.Min("block-consumed", 10)
}
