package rules

import (
	"fmt"
	"go/ast"
	"go/constant"
	"go/token"
	"go/types"
	"path/filepath"
	"sort"
	"strings"

	"golang.org/x/tools/go/ssa"

	"verif/internal/core"
)

// C35 — the HTTP/2 stream state machine is enforced without internal failures.
func init() {
	Register(&Rule{
		ID: "C35", Section: "5 C35",
		Technique: "goroutine-affinity reachability on a package-local call graph (static calls, interface calls resolved by method sets, bound-method and argument closures; go statements and timer callbacks as roots), explicit-panic census with guard classification, invariant-establishing store/call census, guard presence obligations for RFC 7540 stream rules on go/ssa",
		Meta: core.Meta{
			Level:       "other",
			Explanation: "Decides, for package bfe_http2: (A) goroutine affinity: no function that asserts serveG.Check() is reachable from a non-serve goroutine root (go statements, timer callbacks, the handler-facing API of responseWriter/RequestBody/chunkWriter and the exported timeout/close functions) and no function that asserts serveG.CheckNotOn() is reachable from serverConn.serve without crossing a go statement; every serve-owned field of serverConn and stream is accessed only by functions outside the non-serve-reachable set. (B) explicit-panic census of server.go, flow.go, writesched.go, write.go: every panic site must match a reviewed entry (function + guarding condition); for the state-invariant panics the establishing code is checked: closeStream is called only with a stream taken from sc.streams (lookup, range, serverConn.state) or under a state test, sc.streams is inserted only in processHeaders and deleted only in closeStream together with state=closed, stream.state has only the reviewed writers, every stream registered open gets its body pipe before processHeaders returns success (pipe assigned only under !END_STREAM, and conversely every path of newWriterAndRequest that established !END_STREAM reaches a successful return only through a non-nil pipe assignment, whatever the request's attributes such as content-length), sc.curOpenStreams moves in lockstep with sc.streams on every path of every function (an inserted stream is counted before any return, including error returns that the caller answers with resetStream -> closeStream; delete and decrement always come together), stream.endStream (which dereferences the body pipe) is called only for streams known to be open, startFrameWrite is called only from scheduleFrameWrite under !writingFrame and at most once per pass, done channels are buffered, END_STREAM-carrying writers always name their stream, reset flags are set before closeStream, maxFrameSize is never stored as zero, every flow.take is guarded by available(), window-update amounts are positive; a send window may be negative (RFC 7540 6.9.2), so every signed value that flows from flow.available() through conversions and clamp phis into a slice bound or make size is known non-negative where it is used: by a sign test controlling the site, or, when the window is that of the head frame of a *writeQueue parameter (writeScheduler.takeFrom), at every call site of that function, where the queue passed must have passed `F(q) > 0` for a function F whose every result is provably <= available() of the same head frame (min-clamps, checked) - directly or as an element of a slice field that is filled only under such a test - or must be under a no-payload predicate (true only if the head frame is not DATA or has len(p) == 0, checked, head() == s[0] checked) while the site is reached only for DATA with payload. (C) presence and placement of RFC 7540 rules: odd stream id, strictly increasing id (both dominating stream creation), the advertised concurrency limit (advMaxStreams is what SETTINGS announces and what curOpenStreams is compared with before the handler starts; curOpenStreams changes only in processHeaders/closeStream), trailers must carry END_STREAM, no duplicate trailers, no pseudo-headers in trailers, DATA is accepted only for a registered stream in state open without trailers, request pseudo-header validation in newWriterAndRequest, connection-specific request headers (connHeaders ⊇ RFC 7540 8.1.2.2, TE) routed to the 400 handler, pseudo-header validation before a MetaHeadersFrame is delivered. Robustness: every anchor function is analysed together with its private helpers (unexported functions of bfe_http2 that are never used as values and whose every call site lies in the anchor or another such helper, depth <= 4): stores, calls and loops found there count as the anchor's; values are followed across the call boundary (a helper's parameter is the argument at its single call site, the result of a helper call is the one value the helper returns); guards hold inside a single-call-site helper when they hold at its call site; branch facts are read through negations, mirrored comparisons, named booleans, short-circuit phis (the fact must follow on every edge that can yield the value, edges contradicting other known guards excluded) and boolean helper functions (the fact must follow at every return that can yield the value); dominance, must-pass and reachability are decided on the call-stack-sensitive supergraph of the region (calls of helpers entered, constant boolean results matched with the branch on them in the caller). Not followed: helpers that are used as function values or invoked through an interface, helpers called through defer or go, values passed through struct fields or closures' free variables into a helper, helpers with more than one call site for parameter identity (their code is still attributed to the anchor when all call sites lie in the region). Not covered: arbitrary frame sequences and schedules (only the per-function necessary conditions above), implicit run-time panics (nil dereference, index, type assertion) other than the body-pipe dereference of endStream and the window-derived slice bounds, a window that changes between the scheduler's filter pass and the take within one scheduling decision (both run on the serve goroutine without an intervening frame), panics inside handlers, frame parsing (C32), flow-control arithmetic (C33).",
			RuleText:    "obligations = each function asserting goroutine affinity, each serve-owned field, each explicit panic site, each call/store that establishes a panic's invariant, each branch on END_STREAM in newWriterAndRequest, each insertion/removal/count step of the open-stream bookkeeping, each RFC rule (guard + placement), each slice/make bound derived from flow.available() and each call site of a function that delegates its sign",
			Assumptions: []string{"the handler-facing API is the method sets of responseWriter, RequestBody and chunkWriter plus the exported functions taking a *RequestBody / io.ReadCloser", "callbacks passed to time.AfterFunc run on their own goroutine; the function passed to Pipe.CloseWithErrorAndCode runs in the body reader's goroutine"},
		},
		Run:     runC35,
		Mutants: c35Mutants,
	})
}

var c35Mutants = []Mutant{
	{Name: "handler-side-calls-serve-only-writeFrame", File: "bfe_http2/server.go", Old: "	sc.writeFrameFromHandler(frameWriteMsg{\n		write:  write100ContinueHeadersFrame{st.id},\n		stream: st,\n	})", New: "	sc.writeFrame(frameWriteMsg{\n		write:  write100ContinueHeadersFrame{st.id},\n		stream: st,\n	})", Expect: "affinity-serve|serverConn.writeFrame"},
	{Name: "serve-side-calls-handler-only-send", File: "bfe_http2/server.go", Old: "	errRst := StreamError{ch.streamID, ErrCodeProtocol, errMsg}\n	sc.resetStream(errRst)\n", New: "	errRst := StreamError{ch.streamID, ErrCodeProtocol, errMsg}\n	sc.writeFrameFromHandler(frameWriteMsg{write: errRst})\n", Expect: "affinity-handler|serverConn.writeFrameFromHandler"},
	{Name: "handler-reads-serve-owned-state", File: "bfe_http2/server.go", Old: "	if b.pipe == nil {\n		return 0, io.EOF\n	}\n	n, err = b.pipe.Read(p)", New: "	if b.pipe == nil || b.stream.state == stateClosed {\n		return 0, io.EOF\n	}\n	n, err = b.pipe.Read(p)", Expect: "owned-field|stream.state"},
	{Name: "new-panic-on-frame-path", File: "bfe_http2/server.go", Old: "	if f.IsAck() {\n		// 6.7 PING", New: "	if f.Data[0] == 0xff {\n		panic(\"bad ping\")\n	}\n	if f.IsAck() {\n		// 6.7 PING", Expect: "panic-census|serverConn.processPing:unreviewed"},
	{Name: "even-stream-id-accepted", File: "bfe_http2/server.go", Old: "	if id%2 != 1 {\n", New: "	if id%2 != 1 && id == 0 {\n", Expect: "rfc|serverConn.processHeaders:odd-stream-id"},
	{Name: "stream-id-reuse-accepted", File: "bfe_http2/server.go", Old: "	if id <= sc.maxStreamID {\n		return ConnectionError", New: "	if id < sc.maxStreamID {\n		return ConnectionError", Expect: "rfc|serverConn.processHeaders:increasing-stream-id"},
	{Name: "concurrency-limit-relaxed", File: "bfe_http2/server.go", Old: "	if sc.curOpenStreams > sc.advMaxStreams {\n", New: "	if sc.curOpenStreams > sc.advMaxStreams+defaultMaxStreams {\n", Expect: "rfc|serverConn.processHeaders:concurrency-limit"},
	{Name: "trailers-without-end-stream", File: "bfe_http2/server.go", Old: "	if !f.StreamEnded() {\n		return StreamError{st.id, ErrCodeProtocol, \"MetaHeadersFrame for trailer without END_STREAM flag\"}\n	}\n", New: "", Expect: "rfc|stream.processTrailerHeaders"},
	{Name: "data-on-half-closed-accepted", File: "bfe_http2/server.go", Old: "	if !ok || st.state != stateOpen || st.gotTrailerHeader {", New: "	if !ok || st.state == stateClosed || st.gotTrailerHeader {", Expect: "rfc|serverConn.processData:body-write:state-open"},
	{Name: "closed-stream-keeps-queue", File: "bfe_http2/server.go", Old: "	sc.writeSched.forgetStream(st.id)\n", New: "", Expect: "inv-reset-flag|serverConn.closeStream:forgets-queue"},
	{Name: "state-written-elsewhere", File: "bfe_http2/server.go", Old: "		st.gotReset = true\n", New: "		st.gotReset = true\n		st.state = stateHalfClosedLocal\n", Expect: "inv-state-writers"},
	{Name: "unbuffered-done-channel", File: "bfe_http2/server.go", Old: "	ch := make(chan error, 1)\n	writeArg := writeDataPool", New: "	ch := make(chan error)\n	writeArg := writeDataPool", Expect: "inv-done-chan"},
	{Name: "open-stream-without-body", File: "bfe_http2/server.go", Old: "	st.body = req.Body.(*RequestBody).pipe // may be nil\n", New: "	if req.ContentLength != 0 {\n		st.body = req.Body.(*RequestBody).pipe\n	}\n", Expect: "inv-open-has-body"},
	{Name: "reset-flag-dropped", File: "bfe_http2/server.go", Old: "		st.sentReset = true\n		sc.closeStream(st, se)", New: "		sc.closeStream(st, se)", Expect: "inv-reset-flag|serverConn.resetStream"},
	{Name: "conn-header-table-loses-upgrade", File: "bfe_http2/server.go", Old: "	\"Transfer-Encoding\",\n	\"Upgrade\",\n}", New: "	\"Transfer-Encoding\",\n}", Expect: "rfc|connHeaders:Upgrade"},
	{Name: "head-with-body-accepted", File: "bfe_http2/server.go", Old: "	if method == \"HEAD\" && bodyOpen {\n		// HEAD requests can't have bodies\n		errMsg := \"HEAD request with unexpected body\"\n		return nil, nil, StreamError{f.StreamID, ErrCodeProtocol, errMsg}\n	}\n", New: "", Expect: "rfc|serverConn.newWriterAndRequest:head-without-body"},
	{Name: "close-stream-on-unchecked-stream", File: "bfe_http2/server.go", Old: "		case stateHalfClosedRemote:\n			sc.closeStream(st, errHandlerComplete)\n", New: "		default:\n			sc.closeStream(st, errHandlerComplete)\n", Expect: "inv-close-stream|serverConn.wroteFrame:closeStream(errHandlerComplete)"},
	{Name: "max-frame-size-unvalidated", File: "bfe_http2/server.go", Old: "	if err := s.Valid(); err != nil {\n		return err\n	}\n	log.Logger.Debug(\"http2: server processing setting %v\", s)", New: "	log.Logger.Debug(\"http2: server processing setting %v\", s)", Expect: "inv-max-frame-size"},
	{Name: "open-stream-pipe-skipped-for-connect", File: "bfe_http2/server.go", Old: "	if bodyOpen {\n		if st.defaultStreamWindow() {\n			body.pipe = pipe.NewPipeFromBufferPool(&fixBufferPool)\n		} else {\n			body.pipe = pipe.NewPipeWithSize(st.isw)\n		}\n", New: "	if bodyOpen {\n		if isConnect {\n			// tunnels read the body lazily\n		} else if st.defaultStreamWindow() {\n			body.pipe = pipe.NewPipeFromBufferPool(&fixBufferPool)\n		} else {\n			body.pipe = pipe.NewPipeWithSize(st.isw)\n		}\n", Expect: "inv-open-pipe-total|serverConn.newWriterAndRequest:open-branch"},
	{Name: "open-stream-pipe-only-with-declared-length", File: "bfe_http2/server.go", Old: "	if bodyOpen {\n		if st.defaultStreamWindow() {\n", New: "	if bodyOpen && len(header[\"Content-Length\"]) > 0 {\n		if st.defaultStreamWindow() {\n", Expect: "inv-open-pipe-total|serverConn.newWriterAndRequest:open-branch"},
	{Name: "registered-stream-returns-uncounted", File: "bfe_http2/server.go", Old: "	sc.streams[id] = st\n	if f.HasPriority() {\n", New: "	sc.streams[id] = st\n	if sc.inGoAway {\n		return StreamError{id, ErrCodeRefusedStream, \"going away\"}\n	}\n	if f.HasPriority() {\n", Expect: "inv-open-count|serverConn.processHeaders:register-counted"},
	{Name: "validation-before-counting", File: "bfe_http2/server.go", Old: "	sc.curOpenStreams++\n	if sc.curOpenStreams == 1 {\n		sc.setConnState(http.StateActive)\n	}\n", New: "	if f.PseudoValue(\"method\") == \"\" {\n		return StreamError{id, ErrCodeProtocol, \"no method\"}\n	}\n	sc.curOpenStreams++\n	if sc.curOpenStreams == 1 {\n		sc.setConnState(http.StateActive)\n	}\n", Expect: "inv-open-count|serverConn.processHeaders:register-counted"},
	{Name: "close-uncounts-conditionally", File: "bfe_http2/server.go", Old: "	st.state = stateClosed\n	sc.curOpenStreams--\n", New: "	st.state = stateClosed\n	if !st.sentReset {\n		sc.curOpenStreams--\n	}\n", Expect: "inv-open-count|serverConn.closeStream:unregister-uncounted"},
	{Name: "sched-filter-accepts-negative-window", File: "bfe_http2/writesched.go", Old: "		if n := ws.streamWritableBytes(q); n > 0 {", New: "		if n := ws.streamWritableBytes(q); n != 0 {", Expect: "inv-sched-quota|writeScheduler.take:takeFrom#2"},
	{Name: "no-cost-shortcut-widened", File: "bfe_http2/writesched.go", Old: "		if q.firstIsNoCost() {\n			return ws.takeFrom(id, q)", New: "		if q.firstIsNoCost() || len(ws.sq) == 1 {\n			return ws.takeFrom(id, q)", Expect: "inv-sched-quota|writeScheduler.take:takeFrom"},
	{Name: "quota-function-takes-the-larger", File: "bfe_http2/writesched.go", Old: "	if len(wd.p) < int(ret) {\n		ret = int32(len(wd.p))\n	}\n	return ret", New: "	if len(wd.p) > int(ret) {\n		ret = int32(len(wd.p))\n	}\n	return ret", Expect: "inv-sched-quota|writeScheduler.take:takeFrom#2"},
	{Name: "silent-take-from-tests-sign-itself", File: "bfe_http2/writesched.go", Old: "		if allowed == 0 {", New: "		if allowed <= 0 {", Silent: true},
	{Name: "silent-filter-without-local", File: "bfe_http2/writesched.go", Old: "		if n := ws.streamWritableBytes(q); n > 0 {", New: "		if ws.streamWritableBytes(q) >= 1 {", Silent: true},
	{Name: "silent-count-before-priority", File: "bfe_http2/server.go", Old: "	if f.HasPriority() {\n		adjustStreamPriority(sc.streams, st.id, f.Priority)\n	}\n	sc.curOpenStreams++\n", New: "	sc.curOpenStreams++\n	if f.HasPriority() {\n		adjustStreamPriority(sc.streams, st.id, f.Priority)\n	}\n", Silent: true},
	{Name: "silent-content-length-before-pipe", File: "bfe_http2/server.go", Old: "	if bodyOpen {\n		if st.defaultStreamWindow() {\n			body.pipe = pipe.NewPipeFromBufferPool(&fixBufferPool)\n		} else {\n			body.pipe = pipe.NewPipeWithSize(st.isw)\n		}\n		if vv, ok := header[\"Content-Length\"]; ok {\n			req.ContentLength, _ = strconv.ParseInt(vv[0], 10, 64)\n		} else {\n			req.ContentLength = -1\n		}\n	}\n", New: "	if bodyOpen {\n		if vv, ok := header[\"Content-Length\"]; ok {\n			req.ContentLength, _ = strconv.ParseInt(vv[0], 10, 64)\n		} else {\n			req.ContentLength = -1\n		}\n		if st.defaultStreamWindow() {\n			body.pipe = pipe.NewPipeFromBufferPool(&fixBufferPool)\n		} else {\n			body.pipe = pipe.NewPipeWithSize(st.isw)\n		}\n	}\n", Silent: true},
	{Name: "silent-odd-test-rewritten", File: "bfe_http2/server.go", Old: "	if id%2 != 1 {\n", New: "	if id%2 == 0 {\n", Silent: true},
	{Name: "silent-limit-in-local", File: "bfe_http2/server.go", Old: "	if sc.curOpenStreams > sc.advMaxStreams {\n", New: "	limit := sc.advMaxStreams\n	if sc.curOpenStreams > limit {\n", Silent: true},
	{Name: "silent-close-order", File: "bfe_http2/server.go", Old: "	st.cw.Close() // signals Handler's CloseNotifier, unblocks writes, etc\n	sc.writeSched.forgetStream(st.id)\n", New: "	sc.writeSched.forgetStream(st.id)\n	st.cw.Close() // signals Handler's CloseNotifier, unblocks writes, etc\n", Silent: true},
	{Name: "silent-close-bookkeeping-in-helper", File: "bfe_http2/server.go", Old: "\tst.state = stateClosed\n\tsc.curOpenStreams--\n\tif sc.curOpenStreams == 0 {\n\t\t// no request processing on the conn, set read client again timeout\n\t\tsc.setReadClientAgainTimeout()\n\t\tsc.setConnState(http.StateIdle)\n\t}\n\tdelete(sc.streams, st.id)\n\tif p := st.body; p != nil {\n\t\tp.CloseWithError(err)\n\t\tif st.defaultStreamWindow() {\n\t\t\tp.Release(&fixBufferPool)\n\t\t}\n\t}\n\tst.cw.Close() // signals Handler's CloseNotifier, unblocks writes, etc\n\tsc.writeSched.forgetStream(st.id)\n\tif st.reqBuf != nil {\n\t\t// Stash this request body buffer (64k) away for reuse\n\t\t// by a future POST/PUT/etc.\n\t\t//\n\t\t// TODO(bradfitz): share on the server? sync.Pool?\n\t\t// Server requires locks and might hurt contention.\n\t\t// sync.Pool might work, or might be worse, depending\n\t\t// on goroutine CPU migrations. (get and put on\n\t\t// separate CPUs).  Maybe a mix of strategies. But\n\t\t// this is an easy win for now.\n\t\tsc.freeRequestBodyBuf = st.reqBuf\n\t}\n}\n", New: "\tsc.unregisterOpenStream(st)\n\tif p := st.body; p != nil {\n\t\tp.CloseWithError(err)\n\t\tif st.defaultStreamWindow() {\n\t\t\tp.Release(&fixBufferPool)\n\t\t}\n\t}\n\tst.cw.Close() // signals Handler's CloseNotifier, unblocks writes, etc\n\tsc.writeSched.forgetStream(st.id)\n\tif st.reqBuf != nil {\n\t\t// Stash this request body buffer (64k) away for reuse\n\t\t// by a future POST/PUT/etc.\n\t\t//\n\t\t// TODO(bradfitz): share on the server? sync.Pool?\n\t\t// Server requires locks and might hurt contention.\n\t\t// sync.Pool might work, or might be worse, depending\n\t\t// on goroutine CPU migrations. (get and put on\n\t\t// separate CPUs).  Maybe a mix of strategies. But\n\t\t// this is an easy win for now.\n\t\tsc.freeRequestBodyBuf = st.reqBuf\n\t}\n}\n\nfunc (sc *serverConn) unregisterOpenStream(st *stream) {\n\tst.state = stateClosed\n\tsc.curOpenStreams--\n\tif sc.curOpenStreams == 0 {\n\t\t// no request processing on the conn, set read client again timeout\n\t\tsc.setReadClientAgainTimeout()\n\t\tsc.setConnState(http.StateIdle)\n\t}\n\tdelete(sc.streams, st.id)\n}\n", Silent: true},
	{Name: "silent-reset-early-return", File: "bfe_http2/server.go", Old: "\tif st != nil {\n\t\tst.gotReset = true\n\t\tsc.closeStream(st, StreamError{f.StreamID, f.ErrCode, \"stream reset by peer\"})\n\t}\n\treturn nil\n", New: "\tif st == nil {\n\t\treturn nil\n\t}\n\tst.gotReset = true\n\tsc.closeStream(st, StreamError{f.StreamID, f.ErrCode, \"stream reset by peer\"})\n\treturn nil\n", Silent: true},
	{Name: "silent-data-reject-named-booleans", File: "bfe_http2/server.go", Old: "\tif !ok || st.state != stateOpen || st.gotTrailerHeader {\n", New: "\tstreamOpen := ok && st.state == stateOpen\n\tsawTrailers := ok && st.gotTrailerHeader\n\tif !streamOpen || sawTrailers {\n\t\tlog.Logger.Debug(\"http2: rejecting DATA on stream %d (known=%v open=%v trailers=%v)\", id, ok, streamOpen, sawTrailers)\n", Silent: true},
	{Name: "silent-close-state-read-once", File: "bfe_http2/server.go", Old: "\tif st.state == stateIdle || st.state == stateClosed {\n\t\tpanic(fmt.Sprintf(\"invariant; can't close stream in state %v\", st.state))\n\t}\n", New: "\tprevState := st.state\n\tif prevState == stateIdle || prevState == stateClosed {\n\t\tpanic(fmt.Sprintf(\"invariant; can't close stream in state %v\", prevState))\n\t}\n", Silent: true},
	{Name: "silent-trailers-defensive-state-check", File: "bfe_http2/server.go", Old: "\tif st.gotTrailerHeader {\n\t\treturn ConnectionError{ErrCodeProtocol, \"duplicated Trailer\"}\n\t}\n", New: "\tif st.state != stateOpen {\n\t\treturn StreamError{st.id, ErrCodeStreamClosed, \"recv HEADERS frame on stream not in 'open' state\"}\n\t}\n\tif st.gotTrailerHeader {\n\t\treturn ConnectionError{ErrCodeProtocol, \"duplicated Trailer\"}\n\t}\n", Silent: true},
}

// ---- package-local call graph --------------------------------------------------

type h2bCG struct {
	e      *h2bEnv
	edges  map[*ssa.Function][]*ssa.Function
	roots  map[*ssa.Function]string // non-serve goroutine roots with the reason
	byName map[string][]*ssa.Function
}

func (e *h2bEnv) real(fn *ssa.Function) *ssa.Function {
	if fn == nil {
		return nil
	}
	if fn.Blocks != nil && core.FuncPkgRel(fn) == h2bPkg && fn.Synthetic == "" {
		return fn
	}
	// bound-method wrappers and thunks: go to the declared method
	if o, ok := fn.Object().(*types.Func); ok && o.Pkg() != nil && strings.TrimPrefix(o.Pkg().Path(), core.ModPath+"/") == h2bPkg {
		if r := e.c.P.SSA.FuncValue(o); r != nil && r.Blocks != nil {
			return r
		}
	}
	if fn.Blocks != nil && core.FuncPkgRel(fn) == h2bPkg {
		return fn
	}
	return nil
}

func h2bBuildCG(e *h2bEnv) *h2bCG {
	g := &h2bCG{e: e, edges: map[*ssa.Function][]*ssa.Function{}, roots: map[*ssa.Function]string{}, byName: map[string][]*ssa.Function{}}
	for _, fn := range e.fns {
		if fn.Signature.Recv() != nil {
			g.byName[fn.Name()] = append(g.byName[fn.Name()], fn)
		}
	}
	add := func(from, to *ssa.Function) {
		if to = e.real(to); to != nil {
			g.edges[from] = append(g.edges[from], to)
		}
	}
	fnOf := func(v ssa.Value) *ssa.Function {
		switch x := v.(type) {
		case *ssa.Function:
			return x
		case *ssa.MakeClosure:
			f, _ := x.Fn.(*ssa.Function)
			return f
		}
		return nil
	}
	for _, fn := range e.fns {
		for _, in := range h2bAll(fn) {
			ci, ok := in.(ssa.CallInstruction)
			if !ok {
				continue
			}
			cc := ci.Common()
			_, isGo := in.(*ssa.Go)
			var targets []*ssa.Function
			switch {
			case cc.IsInvoke():
				iface, _ := cc.Value.Type().Underlying().(*types.Interface)
				for _, m := range g.byName[cc.Method.Name()] {
					if iface != nil && (types.Implements(m.Signature.Recv().Type(), iface)) {
						targets = append(targets, m)
					}
				}
			case cc.StaticCallee() != nil:
				targets = append(targets, cc.StaticCallee())
			default:
				if f := fnOf(cc.Value); f != nil {
					targets = append(targets, f)
				}
			}
			for _, t := range targets {
				if isGo {
					if r := e.real(t); r != nil {
						g.roots[r] = "go statement in " + h2bShort(fn)
					}
				} else {
					add(fn, t)
				}
			}
			// function values handed over as arguments
			key := core.CalleeKey(cc)
			for _, a := range cc.Args {
				f := fnOf(a)
				if f == nil {
					continue
				}
				r := e.real(f)
				if r == nil {
					continue
				}
				switch {
				case isGo:
					// the callee goroutine may call it: it runs off the serve goroutine
					g.roots[r] = "function value passed to a go statement in " + h2bShort(fn)
				case key == "time.AfterFunc":
					g.roots[r] = "timer callback registered in " + h2bShort(fn)
				case strings.HasSuffix(key, "pipe.Pipe.CloseWithErrorAndCode"):
					g.roots[r] = "body-reader callback registered in " + h2bShort(fn)
				default:
					add(fn, f)
				}
			}
		}
	}
	return g
}

// reach returns, for every function reachable from the roots, its predecessor on a shortest path.
func (g *h2bCG) reach(roots []*ssa.Function) map[*ssa.Function]*ssa.Function {
	prev := map[*ssa.Function]*ssa.Function{}
	var q []*ssa.Function
	for _, r := range roots {
		if _, ok := prev[r]; !ok {
			prev[r] = nil
			q = append(q, r)
		}
	}
	for len(q) > 0 {
		f := q[0]
		q = q[1:]
		for _, t := range g.edges[f] {
			if _, ok := prev[t]; !ok {
				prev[t] = f
				q = append(q, t)
			}
		}
	}
	return prev
}

func h2bPathTo(prev map[*ssa.Function]*ssa.Function, fn *ssa.Function) string {
	var parts []string
	for f := fn; f != nil; f = prev[f] {
		parts = append(parts, h2bShort(f))
		if len(parts) > 12 {
			break
		}
	}
	for i, j := 0, len(parts)-1; i < j; i, j = i+1, j-1 {
		parts[i], parts[j] = parts[j], parts[i]
	}
	return strings.Join(parts, " -> ")
}

// h2bServeOwned lists the fields documented as owned by the serve loop.
var h2bServeOwned = map[string][]string{
	"serverConn": {"pushEnabled", "sawFirstSettings", "needToSendSettingsAck", "unackedSettings", "queuedControlFrames", "clientMaxStreams", "advMaxStreams", "curOpenStreams", "maxStreamID", "streams", "initialWindowSize", "headerTableSize", "peerMaxHeaderListSize", "canonHeader", "writingFrame", "needsFrameFlush", "writeSched", "inGoAway", "needToSendGoAway", "goAwayCode", "shutdownTimerCh", "shutdownTimer", "freeRequestBodyBuf", "readClientAgainTimeout"},
	"stream":     {"bodyBytes", "declBodyBytes", "flow", "inflow", "parent", "weight", "state", "sentReset", "gotReset", "gotTrailerHeader", "reqBuf", "readTimeoutTimer", "writeTimeoutTimer"},
}

func runC35(c *core.Ctx) {
	e := h2bNew(c)
	if e == nil {
		return
	}
	e.declare("Framer.readMetaFrame", "Setting.Valid", "checkValidHTTP2Request", "serverConn.closeStream", "serverConn.newWriterAndRequest",
		"serverConn.noteBodyRead", "serverConn.noteBodyReadFromHandler", "serverConn.processData", "serverConn.processHeaders", "serverConn.scheduleFrameWrite",
		"serverConn.serve", "serverConn.startFrameWrite", "serverConn.state", "serverConn.wroteFrame", "stream.endStream", "stream.processTrailerHeaders",
		"serverConn.resetStream", "serverConn.processResetStream", "SetConnTimeout", "setStreamTimeout", "writeQueue.head", "writeScheduler.take", "writeScheduler.takeFrom")
	c35Affinity(c, e)
	c35Panics(c, e)
	c35Invariants(c, e)
	c35SchedQuota(c, e)
	c35OpenPipeTotal(c, e)
	c35OpenCount(c, e)
	c35RFC(c, e)
}

// ---- (A) goroutine affinity -------------------------------------------------------

func c35Affinity(c *core.Ctx, e *h2bEnv) {
	serve := e.fn("serverConn.serve")
	if serve == nil {
		return
	}
	g := h2bBuildCG(e)
	// handler-facing API
	for _, fn := range e.fns {
		if fn.Parent() != nil {
			continue
		}
		if recv := fn.Signature.Recv(); recv != nil {
			switch typeShortName(recv.Type()) {
			case "responseWriter", "RequestBody", "chunkWriter":
				if _, ok := g.roots[fn]; !ok {
					g.roots[fn] = "handler-facing API"
				}
			}
			continue
		}
		if !ast.IsExported(fn.Name()) {
			continue
		}
		for _, p := range fn.Params {
			ts := core.TypeStr(p.Type())
			if ts == "*bfe_http2.RequestBody" || ts == "io.ReadCloser" {
				if _, ok := g.roots[fn]; !ok {
					g.roots[fn] = "handler-facing API"
				}
			}
		}
	}
	var roots []*ssa.Function
	for r := range g.roots {
		roots = append(roots, r)
	}
	sort.Slice(roots, func(i, j int) bool { return core.FuncKey(roots[i]) < core.FuncKey(roots[j]) })
	c.Check("affinity-roots", "non-serve-roots", serve.Pos(), len(roots) >= 12, fmt.Sprintf("only %d non-serve goroutine roots found in bfe_http2 (go statements, timer callbacks, handler-facing API); the reviewed tree has more than 12", len(roots)))
	for _, want := range []string{"serverConn.readFrames", "serverConn.writeFrames", "serverConn.runHandler"} {
		fn := c.P.Func(h2bPkg, want)
		_, ok := g.roots[fn]
		c.Check("affinity-roots", want, serve.Pos(), fn != nil && ok, want+" is no longer started by a go statement (the rule's root set is stale)")
	}
	off := g.reach(roots)
	on := g.reach([]*ssa.Function{serve})

	nCheck, nNot := 0, 0
	for _, fn := range e.fns {
		var asserts, assertsNot ssa.Instruction
		for _, call := range core.AllCalls(fn) {
			switch core.CalleeKey(call.Common()) {
			case "github.com/baidu/go-lib/gotrack.GoroutineLock.Check":
				asserts = call.(ssa.Instruction)
			case "github.com/baidu/go-lib/gotrack.GoroutineLock.CheckNotOn":
				assertsNot = call.(ssa.Instruction)
			}
		}
		if asserts != nil {
			nCheck++
			_, bad := off[fn]
			c.Check("affinity-serve", h2bShort(fn), asserts.Pos(), !bad,
				h2bShort(fn)+" asserts serveG.Check() but is reachable off the serve goroutine: "+h2bPathTo(off, fn)+" (root: "+g.rootReason(off, fn)+"); the assertion panics / serve-owned state is raced")
		}
		if assertsNot != nil {
			nNot++
			_, bad := on[fn]
			c.Check("affinity-handler", h2bShort(fn), assertsNot.Pos(), !bad,
				h2bShort(fn)+" asserts serveG.CheckNotOn() but is reachable on the serve goroutine: "+h2bPathTo(on, fn)+"; it would block on a channel only serve itself drains")
		}
	}
	c.Min("affinity-serve", 25)
	c.Min("affinity-handler", 5)

	// serve-owned fields
	type acc struct {
		fn  *ssa.Function
		pos token.Pos
	}
	for _, tn := range []string{"serverConn", "stream"} {
		for _, fname := range h2bServeOwned[tn] {
			fld, _ := c.P.Obj(h2bPkg, tn+"."+fname).(*types.Var)
			if fld == nil {
				c.Missing(h2bPkg + "." + tn + "." + fname)
				continue
			}
			var bad []string
			var pos token.Pos
			n := 0
			for _, fn := range e.fns {
				touched := false
				core.Instrs(fn, func(in ssa.Instruction) {
					switch x := in.(type) {
					case *ssa.FieldAddr:
						if core.FieldObj(x.X, x.Field) == fld {
							touched = true
							if !pos.IsValid() {
								pos = x.Pos()
							}
						}
					case *ssa.Field:
						if core.FieldObj(x.X, x.Field) == fld {
							touched = true
						}
					}
				})
				if !touched {
					continue
				}
				n++
				if _, isOff := off[fn]; isOff {
					bad = append(bad, h2bShort(fn)+" (via "+h2bPathTo(off, fn)+")")
				}
			}
			c.Check("owned-field", tn+"."+fname, pos, len(bad) == 0,
				tn+"."+fname+" is owned by the serve loop but accessed by code that runs on another goroutine without synchronisation: "+strings.Join(bad, "; "))
		}
	}
	c.Min("owned-field", 30)
}

func (g *h2bCG) rootReason(prev map[*ssa.Function]*ssa.Function, fn *ssa.Function) string {
	f := fn
	for i := 0; prev[f] != nil && i < 1000; i++ {
		f = prev[f]
	}
	return g.roots[f]
}

func typeShortName(t types.Type) string {
	if p, ok := t.(*types.Pointer); ok {
		t = p.Elem()
	}
	if n, ok := t.(*types.Named); ok {
		return n.Obj().Name()
	}
	return t.String()
}

// ---- (B) explicit panics ----------------------------------------------------------

// h2bPanicEntry is one reviewed panic site: function, name, class, and the
// guard that must control it.
type h2bPanicEntry struct {
	fn, name, class string
	guard           func(b *ssa.BasicBlock, fn *ssa.Function) bool
}

func c35Panics(c *core.Ctx, e *h2bEnv) {
	fieldLoad := func(owner, name string) func(ssa.Value) bool {
		return func(v ssa.Value) bool {
			f, _ := h2bAnyFieldLoad(v)
			if f == nil || f.Name() != name {
				return false
			}
			return true
		}
	}
	lenOf := func(inner func(ssa.Value) bool) func(ssa.Value) bool {
		return func(v ssa.Value) bool {
			call, ok := v.(*ssa.Call)
			if !ok {
				return false
			}
			b, ok := call.Call.Value.(*ssa.Builtin)
			return ok && b.Name() == "len" && inner(call.Call.Args[0])
		}
	}
	anyV := func(ssa.Value) bool { return true }
	cmp := func(op token.Token, x, y func(ssa.Value) bool) func(*ssa.BasicBlock, *ssa.Function) bool {
		return func(b *ssa.BasicBlock, _ *ssa.Function) bool {
			return e.guarded(b, func(r h2bRel) bool { return r.Cmp(op, x, y) })
		}
	}
	flag := func(pol bool, m func(ssa.Value) bool) func(*ssa.BasicBlock, *ssa.Function) bool {
		return func(b *ssa.BasicBlock, _ *ssa.Function) bool {
			return e.guarded(b, func(r h2bRel) bool { return r.Flag(pol, m) })
		}
	}
	and := func(fs ...func(*ssa.BasicBlock, *ssa.Function) bool) func(*ssa.BasicBlock, *ssa.Function) bool {
		return func(b *ssa.BasicBlock, fn *ssa.Function) bool {
			for _, f := range fs {
				if !f(b, fn) {
					return false
				}
			}
			return true
		}
	}
	rwsNil := cmp(token.EQL, fieldLoad("responseWriter", "rws"), h2bNilV)
	stateIs := func(n int64) func(*ssa.BasicBlock, *ssa.Function) bool {
		return cmp(token.EQL, fieldLoad("stream", "state"), h2bIsInt(n))
	}
	isFlowAdd := func(v ssa.Value) bool {
		ok := false
		switch x := v.(type) {
		case *ssa.Phi:
			ok = len(x.Edges) > 0
			for _, ed := range x.Edges {
				if _, is := h2bIsCall(ed, "flow.add"); !is {
					ok = false
				}
			}
		default:
			_, ok = h2bIsCall(v, "flow.add")
		}
		return ok
	}
	table := []h2bPanicEntry{
		{"serverConn.setTimeout", "foreign-request-body", "invariant: timeout messages are sent on body.conn's own channel", cmp(token.NEQ, anyV, fieldLoad("RequestBody", "conn"))},
		{"serverConn.startFrameWrite", "already-writing", "invariant: callers test writingFrame (inv-writing-frame)", flag(true, fieldLoad("serverConn", "writingFrame"))},
		{"serverConn.startFrameWrite", "half-closed-local", "invariant: stateHalfClosedLocal is stored only transiently in wroteFrame (inv-state-writers)", stateIs(2)},
		{"serverConn.startFrameWrite", "closed-without-reset", "invariant: closeStream forgets the stream's queue; later frames belong to reset streams (inv-reset-flag)", and(stateIs(6), flag(false, fieldLoad("stream", "sentReset")), flag(false, fieldLoad("stream", "gotReset")))},
		{"serverConn.wroteFrame", "not-writing", "invariant: wroteFrameCh is fed only after startFrameWrite set writingFrame (inv-writing-frame)", flag(false, fieldLoad("serverConn", "writingFrame"))},
		{"serverConn.wroteFrame", "unbuffered-done", "invariant: every done channel is created with capacity 1 (inv-done-chan)", func(b *ssa.BasicBlock, _ *ssa.Function) bool {
			return e.guarded(b, func(r h2bRel) bool {
				for _, v := range []ssa.Value{r.X, r.Y} {
					if ex, ok := v.(*ssa.Extract); ok {
						if s, ok := ex.Tuple.(*ssa.Select); ok && !s.Blocking {
							return true
						}
					}
				}
				return false
			})
		}},
		{"serverConn.wroteFrame", "end-stream-without-stream", "invariant: END_STREAM-carrying writers name their stream (inv-ends-stream)", cmp(token.EQL, fieldLoad("frameWriteMsg", "stream"), h2bNilV)},
		{"serverConn.closeStream", "idle-or-closed", "invariant: callers pass registered or state-tested streams (inv-close-stream)", func(b *ssa.BasicBlock, _ *ssa.Function) bool {
			return e.guarded(b, func(r h2bRel) bool {
				return r.Cmp(token.EQL, fieldLoad("stream", "state"), h2bIsInt(0)) || r.Cmp(token.EQL, fieldLoad("stream", "state"), h2bIsInt(6))
			})
		}},
		{"serverConn.processData", "open-without-body", "invariant: open streams have a body pipe (inv-open-has-body)", and(cmp(token.EQL, fieldLoad("stream", "body"), h2bNilV), stateIs(1))},
		{"serverConn.processData", "short-pipe-write", "callee contract: Pipe.Write returns len(data) on success", func(b *ssa.BasicBlock, _ *ssa.Function) bool {
			return e.guarded(b, func(r h2bRel) bool {
				return r.Cmp(token.NEQ, func(v ssa.Value) bool { ex, ok := v.(*ssa.Extract); return ok && ex.Index == 0 }, lenOf(anyV))
			})
		}},
		{"serverConn.sendWindowUpdate32", "negative-update", "caller-side: amounts are positive (inv-window-update)", func(b *ssa.BasicBlock, fn *ssa.Function) bool {
			return len(fn.Params) == 3 && e.guarded(b, func(r h2bRel) bool { return r.Cmp(token.LSS, e.is(fn.Params[2]), h2bIsInt(0)) })
		}},
		{"serverConn.sendWindowUpdate32", "window-overflow", "invariant: every refund follows a take of the same amount (C33)", flag(false, isFlowAdd)},
		{"serverConn.notePanic", "test-hook-repanic", "test hook only (testHookOnPanic is nil in production)", func(b *ssa.BasicBlock, _ *ssa.Function) bool {
			return e.guarded(b, func(r h2bRel) bool {
				return r.Cmp(token.NEQ, func(v ssa.Value) bool {
					u, ok := v.(*ssa.UnOp)
					if !ok {
						return false
					}
					g, ok := u.X.(*ssa.Global)
					return ok && g.Name() == "testHookOnPanic"
				}, h2bNilV)
			})
		}},
		{"responseWriter.Flush", "after-finish", "API misuse by the handler", rwsNil},
		{"responseWriter.CloseNotify", "after-finish", "API misuse by the handler", rwsNil},
		{"responseWriter.Header", "after-finish", "API misuse by the handler", rwsNil},
		{"responseWriter.WriteHeader", "after-finish", "API misuse by the handler", rwsNil},
		{"responseWriter.write", "after-finish", "API misuse by the handler", rwsNil},
		{"flow.take", "took-too-much", "caller-side: every take is guarded by available() (inv-flow-take)", func(b *ssa.BasicBlock, fn *ssa.Function) bool {
			return len(fn.Params) == 2 && e.guarded(b, func(r h2bRel) bool {
				return r.Cmp(token.GTR, e.is(fn.Params[1]), func(v ssa.Value) bool { _, ok := h2bIsCall(v, "flow.available"); return ok })
			})
		}},
		{"writeScheduler.putEmptyQueue", "queue-not-empty", "invariant: callers hand over drained queues (inv-sched-queues)", cmp(token.NEQ, lenOf(fieldLoad("writeQueue", "s")), h2bIsInt(0))},
		{"writeScheduler.take", "max-frame-size-zero", "invariant: maxFrameSize is never stored as zero (inv-max-frame-size)", cmp(token.EQL, fieldLoad("writeScheduler", "maxFrameSize"), h2bIsInt(0))},
		{"writeScheduler.take", "cansend-not-empty", "invariant: canSend is truncated by the deferred zeroCanSend", cmp(token.NEQ, lenOf(fieldLoad("writeScheduler", "canSend")), h2bIsInt(0))},
		{"writeScheduler.streamWritableBytes", "max-frame-size-zero", "invariant: maxFrameSize is never stored as zero (inv-max-frame-size)", cmp(token.EQL, anyV, h2bIsInt(0))},
		{"writeQueue.head", "empty-queue", "invariant: stream queues are deleted when they drain (inv-sched-queues)", cmp(token.EQL, lenOf(fieldLoad("writeQueue", "s")), h2bIsInt(0))},
		{"writeQueue.shift", "empty-queue", "invariant: stream queues are deleted when they drain; zero is tested with empty() (inv-sched-queues)", cmp(token.EQL, lenOf(fieldLoad("writeQueue", "s")), h2bIsInt(0))},
		{"endsStream", "nil-writer", "invariant: wroteFrame asks before it clears wm.write (inv-ends-stream)", func(b *ssa.BasicBlock, fn *ssa.Function) bool {
			return len(fn.Params) == 1 && e.guarded(b, func(r h2bRel) bool { return r.Cmp(token.EQL, e.is(fn.Params[0]), h2bNilV) })
		}},
		{"writeResHeaders.writeFrame", "empty-header-block", "invariant: a response always has :status; only trailers may encode to nothing", and(cmp(token.EQL, lenOf(anyV), h2bIsInt(0)), cmp(token.EQL, fieldLoad("writeResHeaders", "trailers"), h2bNilV))},
	}
	files := map[string]bool{"server.go": true, "flow.go": true, "writesched.go": true, "write.go": true}
	used := map[int]bool{}
	unrev := map[string]int{}
	// a panic inside a private helper of a reviewed function is that function's panic
	var anchors []*ssa.Function
	for _, en := range table {
		e.declare(en.fn)
		if f := c.P.Func(h2bPkg, en.fn); f != nil {
			anchors = append(anchors, f)
		}
	}
	for _, fn := range e.fns {
		file := filepath.Base(c.P.Fset.Position(fn.Pos()).Filename)
		if !files[file] {
			continue
		}
		home := e.home(fn, anchors...)
		for _, in := range h2bAll(fn) {
			p, ok := in.(*ssa.Panic)
			if !ok {
				continue
			}
			if mi, ok := p.X.(*ssa.MakeInterface); ok {
				if s, ok := core.ConstString(mi.X); ok && strings.HasPrefix(s, "blocking select matched no case") {
					continue // synthesised by go/ssa for select without default
				}
			}
			name := h2bShort(home)
			matched := -1
			for i, en := range table {
				if en.fn == name && !used[i] && en.guard(in.Block(), home) {
					matched = i
					break
				}
			}
			if matched >= 0 {
				used[matched] = true
				c.Check("panic-census", name+":"+table[matched].name, h2bPos(in), true, table[matched].class)
				continue
			}
			// a known function but the guard changed, or a new site
			unrev[name]++
			c.Check("panic-census", fmt.Sprintf("%s:unreviewed#%d", name, unrev[name]), h2bPos(in), false,
				"explicit panic in "+name+" that matches no reviewed entry (new panic site on the frame path, or the condition guarding a reviewed one changed); guards: "+e.guardList(in.Block()))
		}
	}
	c.Min("panic-census", 24)
}

// c35 helpers -------------------------------------------------------------------

type c35env struct {
	c *core.Ctx
	e *h2bEnv
}

func (x *c35env) fld(name string) *types.Var { return x.e.field(name) }

func c35Load(f *types.Var) func(ssa.Value) bool {
	return func(v ssa.Value) bool {
		if f == nil {
			return false
		}
		_, ok := h2bFieldLoad(v, f)
		return ok
	}
}

// c35LoadOn: v is a load of field f of base.
func c35LoadOn(f *types.Var, base ssa.Value) func(ssa.Value) bool {
	return func(v ssa.Value) bool {
		if f == nil {
			return false
		}
		b, ok := h2bFieldLoad(v, f)
		return ok && h2bEq(b, base)
	}
}

// c35ReturnsFrom collects the returns reachable from block b.
func c35ReturnsFrom(b *ssa.BasicBlock) []*ssa.Return {
	var out []*ssa.Return
	seen := map[*ssa.BasicBlock]bool{b: true}
	work := []*ssa.BasicBlock{b}
	for len(work) > 0 {
		cur := work[len(work)-1]
		work = work[:len(work)-1]
		if r, ok := cur.Instrs[len(cur.Instrs)-1].(*ssa.Return); ok {
			out = append(out, r)
		}
		for _, s := range cur.Succs {
			if !seen[s] {
				seen[s] = true
				work = append(work, s)
			}
		}
	}
	return out
}

// c35ErrResult: the last result of r, looking through defer spills.
func c35ErrResult(r *ssa.Return) ssa.Value {
	vs := core.RetVals(r)
	if len(vs) == 0 {
		return nil
	}
	return vs[len(vs)-1]
}

// c35NonNilErr: v is certainly a non-nil error (a concrete value boxed into the interface, or errors.New / fmt.Errorf).
func c35NonNilErr(v ssa.Value) bool {
	switch x := v.(type) {
	case *ssa.MakeInterface:
		return true
	case *ssa.Call:
		k := core.CalleeKey(&x.Call)
		return k == "errors.New" || k == "fmt.Errorf"
	}
	return false
}

// c35Reject finds a branch whose taken edge establishes a relation accepted by
// m and returns the If and the successor on which it holds.
func c35Reject(fn *ssa.Function, m func(h2bRel) bool) (*ssa.If, *ssa.BasicBlock) {
	for _, ifi := range h2bIfs(fn) {
		for j, pol := range []bool{true, false} {
			for _, r := range h2bExpand(ifi.Cond, pol, 0)[:1] {
				if m(r) {
					return ifi, ifi.Block().Succs[j]
				}
			}
		}
	}
	return nil, nil
}

// c35RejectsWithError: every return reachable from b (without leaving through
// other code) carries a certainly non-nil error.
func c35RejectsWithError(b *ssa.BasicBlock) bool {
	rs := c35ReturnsFrom(b)
	if len(rs) == 0 {
		return false
	}
	for _, r := range rs {
		if !c35NonNilErr(c35ErrResult(r)) {
			return false
		}
	}
	return true
}

func c35ErrName(v ssa.Value) string {
	v = core.StripConv(v)
	if u, ok := v.(*ssa.UnOp); ok && u.Op == token.MUL {
		if g, ok := u.X.(*ssa.Global); ok {
			return g.Name()
		}
	}
	if mi, ok := v.(*ssa.MakeInterface); ok {
		return strings.TrimPrefix(core.TypeStr(mi.X.Type()), "bfe_http2.")
	}
	if p, ok := v.(*ssa.Parameter); ok {
		return p.Name()
	}
	return "value"
}

func c35IsLen(inner func(ssa.Value) bool) func(ssa.Value) bool {
	return func(v ssa.Value) bool {
		call, ok := v.(*ssa.Call)
		if !ok {
			return false
		}
		b, ok := call.Call.Value.(*ssa.Builtin)
		return ok && b.Name() == "len" && len(call.Call.Args) == 1 && inner(call.Call.Args[0])
	}
}

func c35IsStr(s string) func(ssa.Value) bool {
	return func(v ssa.Value) bool { k, ok := core.ConstString(v); return ok && k == s }
}

// ---- (B2) invariants behind the panics ---------------------------------------------

func c35Invariants(c *core.Ctx, e *h2bEnv) {
	x := &c35env{c, e}
	streamsF, stateF, bodyF := x.fld("serverConn.streams"), x.fld("stream.state"), x.fld("stream.body")
	writingF, writeFrameChF := x.fld("serverConn.writingFrame"), x.fld("serverConn.writeFrameCh")
	doneF, msgStreamF, msgWriteF := x.fld("frameWriteMsg.done"), x.fld("frameWriteMsg.stream"), x.fld("frameWriteMsg.write")
	sentResetF, gotResetF := x.fld("stream.sentReset"), x.fld("stream.gotReset")
	maxFrameF, pipeF := x.fld("writeScheduler.maxFrameSize"), x.fld("RequestBody.pipe")
	closeStream, processHeaders := e.fn("serverConn.closeStream"), e.fn("serverConn.processHeaders")
	wroteFrame, sched, startFW := e.fn("serverConn.wroteFrame"), e.fn("serverConn.scheduleFrameWrite"), e.fn("serverConn.startFrameWrite")
	stateFn, newWR := e.fn("serverConn.state"), e.fn("serverConn.newWriterAndRequest")
	endStreamFn := e.fn("stream.endStream")
	if streamsF == nil || stateF == nil || bodyF == nil || writingF == nil || writeFrameChF == nil || doneF == nil || msgStreamF == nil || msgWriteF == nil || sentResetF == nil || gotResetF == nil || maxFrameF == nil || pipeF == nil ||
		closeStream == nil || processHeaders == nil || wroteFrame == nil || sched == nil || startFW == nil || stateFn == nil || newWR == nil || endStreamFn == nil {
		return
	}
	// each anchor is looked at together with its private helpers
	phReg, csReg, wfReg, scReg, sfReg := e.region(processHeaders), e.region(closeStream), e.region(wroteFrame), e.region(sched), e.region(startFW)
	isStreams := func(v ssa.Value) bool { return c35Load(streamsF)(e.rep(v)) }
	fromMap := func(v ssa.Value, blk *ssa.BasicBlock) bool {
		v = e.rep(v)
		switch y := v.(type) {
		case *ssa.Lookup:
			return !y.CommaOk && isStreams(y.X)
		case *ssa.Extract:
			switch t := y.Tuple.(type) {
			case *ssa.Lookup:
				return y.Index == 0 && t.CommaOk && isStreams(t.X) && e.guarded(blk, func(r h2bRel) bool {
					return r.Flag(true, func(o ssa.Value) bool {
						ex, ok := e.rep(o).(*ssa.Extract)
						return ok && ex.Index == 1 && ex.Tuple == ssa.Value(t)
					})
				})
			case *ssa.Next:
				rg, ok := t.Iter.(*ssa.Range)
				return ok && y.Index == 2 && isStreams(rg.X)
			case *ssa.Call:
				if core.CallIs(&t.Call, h2bName("serverConn.state")) && y.Index == 1 {
					return e.guarded(blk, func(r h2bRel) bool { return r.Cmp(token.NEQ, e.is(v), h2bNilV) })
				}
			}
		}
		return false
	}
	liveState := func(st ssa.Value, blk *ssa.BasicBlock) bool {
		return e.guarded(blk, func(r h2bRel) bool {
			ld := e.fieldLoadOn(stateF, st)
			return r.Cmp(token.EQL, ld, h2bIsInt(1)) || r.Cmp(token.EQL, ld, h2bIsInt(2)) || r.Cmp(token.EQL, ld, h2bIsInt(3)) || r.Cmp(token.NEQ, ld, h2bIsInt(6))
		})
	}

	// closeStream callers
	seenKey := map[string]int{}
	for _, s := range e.callSites("serverConn.closeStream") {
		args := s.Call.Common().Args
		if len(args) != 3 {
			continue
		}
		in := s.Call.(ssa.Instruction)
		k := fmt.Sprintf("%s:closeStream(%s)", h2bShort(s.Fn), c35ErrName(args[2]))
		seenKey[k]++
		if seenKey[k] > 1 {
			k += fmt.Sprintf("#%d", seenKey[k])
		}
		ok := fromMap(args[1], in.Block()) || liveState(args[1], in.Block())
		c.Check("inv-close-stream", k, in.Pos(), ok,
			"closeStream is called on "+core.Render(args[1])+", which is neither taken from sc.streams (registered streams are never idle/closed) nor tested for its state here: if the stream was closed meanwhile (RST_STREAM, stream error or timeout processed while this frame was being written) closeStream panics `invariant; can't close stream in state Closed`; guards: "+e.guardList(in.Block()))
	}
	for i, r := range core.Returns(stateFn) {
		if len(r.Results) != 2 {
			continue
		}
		ok := h2bIsNil(r.Results[1]) || fromMap(r.Results[1], r.Block())
		c.Check("inv-close-stream", fmt.Sprintf("serverConn.state:return#%d", i+1), r.Pos(), ok, "serverConn.state returns a stream that is not a registered entry of sc.streams")
	}
	c.Min("inv-close-stream", 7)

	// the stream map
	isDel := func(in ssa.Instruction) bool {
		y, ok := in.(*ssa.Call)
		if !ok {
			return false
		}
		b, isB := y.Call.Value.(*ssa.Builtin)
		return isB && b.Name() == "delete" && isStreams(y.Call.Args[0])
	}
	for _, fn := range e.fns {
		for _, in := range h2bAll(fn) {
			switch y := in.(type) {
			case *ssa.MapUpdate:
				if !isStreams(y.Map) {
					continue
				}
				ok := phReg.in[fn]
				if ok {
					lit := h2bLitOf(e.rep(y.Value))
					v, has := h2bLitFields(lit)["state"]
					k, isK := h2bInt(v)
					ok = lit != nil && has && isK && (k == 1 || k == 3)
				}
				c.Check("inv-stream-map", h2bShort(e.home(fn, processHeaders))+":register", in.Pos(), ok, "sc.streams is extended in "+h2bShort(fn)+" with "+core.Render(y.Value)+"; only processHeaders may register a freshly created stream in state open/half-closed(remote)")
			case *ssa.Call:
				if !isDel(in) {
					continue
				}
				c.Check("inv-stream-map", h2bShort(e.home(fn, closeStream))+":unregister", in.Pos(), csReg.in[fn], "a stream is removed from sc.streams in "+h2bShort(fn)+", outside closeStream (its state would not become closed)")
			}
		}
	}
	{
		isClosed := func(in ssa.Instruction) bool {
			st, ok := in.(*ssa.Store)
			if !ok {
				return false
			}
			_, is := h2bStoreField(st, stateF)
			k, isK := h2bInt(st.Val)
			return is && isK && k == 6
		}
		isForget := func(in ssa.Instruction) bool {
			ci, ok := in.(ssa.CallInstruction)
			return ok && core.CallIs(ci.Common(), h2bName("writeScheduler.forgetStream"))
		}
		c.Check("inv-stream-map", "serverConn.closeStream:closes-and-unregisters", closeStream.Pos(),
			csReg.mustPass(nil, isDel) == nil && csReg.mustPass(nil, isClosed) == nil,
			"closeStream can return without both setting state = stateClosed and deleting the stream from sc.streams (registered <=> not closed breaks)")
		c.Check("inv-reset-flag", "serverConn.closeStream:forgets-queue", closeStream.Pos(), csReg.mustPass(nil, isForget) == nil,
			"closeStream can return without writeSched.forgetStream: queued frames of a closed stream reach startFrameWrite (panic `attempt to send a write on a closed stream`)")
	}
	c.Min("inv-stream-map", 3)

	// writers of stream.state
	isEnded := func(v ssa.Value) bool { _, is := h2bIsCall(e.rep(v), "HeadersFrame.StreamEnded"); return is }
	for _, s := range core.FieldStores(e.fns, stateF) {
		k, isK := h2bInt(s.Store.Val)
		home := e.home(s.Fn, processHeaders, endStreamFn, closeStream, wroteFrame)
		name := h2bShort(home)
		key := fmt.Sprintf("%s:=%s", name, core.Render(s.Store.Val))
		base, _ := h2bStoreField(s.Store, stateF)
		ok := false
		why := "stream.state is assigned " + core.Render(s.Store.Val) + " in " + h2bShort(s.Fn) + "; reviewed writers: processHeaders (open, half-closed-remote under END_STREAM), stream.endStream (half-closed-remote), wroteFrame (half-closed-local immediately followed by resetStream), closeStream (closed)"
		switch {
		case !isK:
		case home == processHeaders && k == 1:
			ok = true
		case home == processHeaders && k == 3:
			ok = e.guarded(s.Store.Block(), func(r h2bRel) bool { return r.Flag(true, isEnded) })
		case home == endStreamFn && k == 3:
			ok = true
		case home == closeStream && k == 6:
			ok = true
		case home == wroteFrame && k == 2:
			isReset := func(in ssa.Instruction) bool {
				ci, is := in.(ssa.CallInstruction)
				return is && core.CallIs(ci.Common(), h2bName("serverConn.resetStream"))
			}
			ok = e.guarded(s.Store.Block(), func(r h2bRel) bool { return r.Cmp(token.EQL, e.fieldLoadOn(stateF, base), h2bIsInt(1)) }) &&
				wfReg.mustPass(s.Store, isReset) == nil
			why += "; here: not under state == open or not followed by resetStream on every path"
		}
		c.Check("inv-state-writers", key, s.Store.Pos(), ok, why)
	}
	c.Min("inv-state-writers", 5)

	// open => body pipe
	{
		var reg ssa.Instruction
		var newStream ssa.Value
		for _, in := range phReg.all() {
			if mu, ok := in.(*ssa.MapUpdate); ok && isStreams(mu.Map) {
				reg, newStream = in, mu.Value
			}
		}
		var bodyStore *ssa.Store
		for _, s := range core.FieldStores(phReg.fns, bodyF) {
			if b, _ := h2bStoreField(s.Store, bodyF); newStream != nil && e.eq(b, newStream) {
				bodyStore = s.Store
			}
		}
		ok := reg != nil && bodyStore != nil
		if ok {
			isOK := func(in ssa.Instruction) bool {
				r, is := in.(*ssa.Return)
				return is && phReg.isExit(in) && h2bIsNil(c35ErrResult(r))
			}
			ok = phReg.reachAfter(reg, h2bInstrIs(bodyStore), isOK) == nil && c35Load(pipeF)(e.rep(bodyStore.Val))
		}
		c.Check("inv-open-has-body", "serverConn.processHeaders:body-assigned", h2bPos(reg), ok,
			"processHeaders can return success for a newly registered stream without st.body having been set from the request body's pipe")
		for i, s := range core.FieldStores(e.fns, pipeF) {
			okP := e.within(s.Fn, newWR) && !h2bIsNil(s.Store.Val) && e.guarded(s.Store.Block(), func(r h2bRel) bool { return r.Flag(false, isEnded) })
			c.Check("inv-open-has-body", fmt.Sprintf("%s:pipe#%d", h2bShort(e.home(s.Fn, newWR)), i+1), s.Store.Pos(), okP,
				"RequestBody.pipe is assigned in "+h2bShort(s.Fn)+" not under !f.StreamEnded(): `state open <=> body pipe present` no longer follows from construction")
		}
		c.Min("inv-open-has-body", 3)
	}

	// endStream only for open streams
	{
		openGuard := func(st ssa.Value, blk *ssa.BasicBlock) bool {
			ld := e.fieldLoadOn(stateF, st)
			return e.guarded(blk, func(r h2bRel) bool {
				return r.Cmp(token.EQL, ld, h2bIsInt(1)) || r.Cmp(token.NEQ, ld, h2bIsInt(3)) || r.Cmp(token.NEQ, e.fieldLoadOn(bodyF, st), h2bNilV)
			})
		}
		for _, s := range e.callSites("stream.endStream") {
			in := s.Call.(ssa.Instruction)
			recv := s.Call.Common().Args[0]
			if openGuard(recv, in.Block()) {
				c.Check("inv-end-stream", h2bShort(s.Fn)+":endStream", in.Pos(), true, "")
				continue
			}
			if len(s.Fn.Params) > 0 && h2bCanon(recv) == ssa.Value(s.Fn.Params[0]) && s.Fn.Signature.Recv() != nil {
				outer := e.callSites(strings.TrimPrefix(core.FuncKey(s.Fn), h2bPkg+"."))
				for _, o := range outer {
					oin := o.Call.(ssa.Instruction)
					c.Check("inv-end-stream", h2bShort(o.Fn)+":"+s.Fn.Name(), oin.Pos(), openGuard(o.Call.Common().Args[0], oin.Block()),
						h2bShort(o.Fn)+" hands a registered stream to "+s.Fn.Name()+", which ends it with stream.endStream, without having established that it is still open: for a stream in half-closed(remote) created by HEADERS+END_STREAM the body pipe is nil and endStream dereferences it (nil-pointer panic on the serve goroutine); RFC 7540 5.1 requires STREAM_CLOSED for HEADERS on such a stream; guards: "+e.guardList(oin.Block()))
				}
				if len(outer) > 0 {
					continue
				}
			}
			c.Check("inv-end-stream", h2bShort(s.Fn)+":endStream", in.Pos(), false, "stream.endStream is called without the stream being known open (it dereferences the body pipe, which exists only for open streams)")
		}
		c.Min("inv-end-stream", 2)
	}

	// one frame at a time
	{
		isStart := func(in ssa.Instruction) bool {
			ci, ok := in.(ssa.CallInstruction)
			return ok && core.CallIs(ci.Common(), h2bName("serverConn.startFrameWrite"))
		}
		n := map[string]int{}
		for _, s := range e.callSites("serverConn.startFrameWrite") {
			in := s.Call.(ssa.Instruction)
			kind := "taken"
			if len(s.Call.Common().Args) < 2 {
				continue
			}
			if lit := h2bLitOf(s.Call.Common().Args[1]); lit != nil {
				kind = strings.TrimPrefix(strings.TrimPrefix(h2bDynType(h2bLitFields(lit)["write"]), "*"), "bfe_http2.")
			}
			k := h2bShort(e.home(s.Fn, sched)) + ":start(" + kind + ")"
			n[k]++
			if n[k] > 1 {
				k += fmt.Sprintf("#%d", n[k])
			}
			ok := scReg.in[s.Fn] && e.guarded(in.Block(), func(r h2bRel) bool {
				return r.Flag(false, func(v ssa.Value) bool { return c35Load(writingF)(e.rep(v)) })
			}) &&
				scReg.reachAfter(in, nil, isStart) == nil
			c.Check("inv-writing-frame", k, in.Pos(), ok, "startFrameWrite must be called only from scheduleFrameWrite, under !sc.writingFrame, at most once per pass (otherwise `can only be writing one frame at a time` panics); guards: "+e.guardList(in.Block()))
		}
		for _, s := range core.FieldStores(e.fns, writingF) {
			v, isB := h2bBool(s.Store.Val)
			ok := isB && ((v && sfReg.in[s.Fn]) || (!v && wfReg.in[s.Fn]))
			c.Check("inv-writing-frame", fmt.Sprintf("%s:writingFrame=%v", h2bShort(e.home(s.Fn, startFW, wroteFrame)), core.Render(s.Store.Val)), s.Store.Pos(), ok, "sc.writingFrame is set in "+h2bShort(s.Fn)+"; only startFrameWrite sets it and only wroteFrame clears it")
		}
		// sends on writeFrameCh
		for _, fn := range e.fns {
			for _, in := range h2bAll(fn) {
				var chans []ssa.Value
				switch y := in.(type) {
				case *ssa.Send:
					chans = append(chans, y.Chan)
				case *ssa.Select:
					for _, st := range y.States {
						if st.Dir == types.SendOnly {
							chans = append(chans, st.Chan)
						}
					}
				}
				for _, ch := range chans {
					if !c35Load(writeFrameChF)(e.rep(ch)) {
						continue
					}
					ok := sfReg.in[fn]
					if ok {
						ok = false
						for _, s := range core.FieldStores(sfReg.fns, writingF) {
							if v, isB := h2bBool(s.Store.Val); isB && v && sfReg.dominates(s.Store, in) {
								ok = true
							}
						}
					}
					c.Check("inv-writing-frame", h2bShort(e.home(fn, startFW))+":send-writeFrameCh", in.Pos(), ok, "a frame is handed to the writer goroutine in "+h2bShort(fn)+" without sc.writingFrame having been set first (wroteFrame would panic `expected to be already writing a frame`)")
				}
			}
		}
		c.Min("inv-writing-frame", 7)
	}

	// done channels are buffered; END_STREAM writers name their stream
	{
		nDone := map[string]int{}
		var chk func(v ssa.Value, d int) bool
		chk = func(v ssa.Value, d int) bool {
			switch y := v.(type) {
			case *ssa.MakeChan:
				k, ok := h2bInt(y.Size)
				return ok && k >= 1
			case *ssa.Const:
				return y.Value == nil
			case *ssa.Phi:
				if d > 3 {
					return false
				}
				for _, ed := range y.Edges {
					if !chk(ed, d+1) {
						return false
					}
				}
				return true
			}
			return false
		}
		for _, s := range core.FieldStores(e.fns, doneF) {
			k := h2bShort(s.Fn) + ":done"
			nDone[k]++
			if nDone[k] > 1 {
				k += fmt.Sprintf("#%d", nDone[k])
			}
			c.Check("inv-done-chan", k, s.Store.Pos(), chk(e.rep(s.Store.Val), 0), "frameWriteMsg.done is "+core.Render(s.Store.Val)+"; it must be nil or a channel made with capacity >= 1 (wroteFrame replies with a non-blocking send and panics otherwise)")
		}
		c.Min("inv-done-chan", 2)
		nES := 0
		for _, fn := range e.fns {
			for _, in := range h2bAll(fn) {
				a, ok := in.(*ssa.Alloc)
				if !ok || core.TypeStr(a.Type()) != "*bfe_http2.frameWriteMsg" {
					continue
				}
				fl := h2bLitFields(a)
				dt := h2bDynType(fl["write"])
				if dt != "*bfe_http2.writeData" && dt != "*bfe_http2.writeResHeaders" {
					continue
				}
				nES++
				st, has := fl["stream"]
				c.Check("inv-ends-stream", h2bShort(fn)+":"+strings.TrimPrefix(dt, "*bfe_http2."), a.Pos(), has && !h2bIsNil(st),
					"a "+dt+" message (which may carry END_STREAM) is created without its stream: wroteFrame panics `expecting non-nil stream`")
			}
		}
		// endsStream is asked before wm.write is cleared
		var clear ssa.Instruction
		for _, in := range wfReg.all() {
			st, ok := in.(*ssa.Store)
			if !ok || !h2bIsNil(st.Val) {
				continue
			}
			if _, is := h2bStoreField(st, msgWriteF); is {
				clear = in
			}
		}
		if clear != nil {
			isEnds := func(in ssa.Instruction) bool {
				ci, ok := in.(ssa.CallInstruction)
				return ok && core.CallIs(ci.Common(), h2bName("endsStream"))
			}
			c.Check("inv-ends-stream", "serverConn.wroteFrame:asked-before-cleared", clear.Pos(), wfReg.reachAfter(clear, nil, isEnds) == nil,
				"endsStream(wm.write) can run after wm.write was set to nil (panics `endsStream called on nil writeFramer`)")
		}
		c.Min("inv-ends-stream", 2)
	}

	// reset flags precede closeStream
	for _, row := range []struct {
		fn  string
		fld *types.Var
	}{{"serverConn.resetStream", sentResetF}, {"serverConn.processResetStream", gotResetF}} {
		fn := e.fn(row.fn)
		if fn == nil {
			continue
		}
		freg := e.region(fn)
		for _, call := range freg.calls("serverConn.closeStream") {
			in := call.(ssa.Instruction)
			if len(call.Common().Args) < 2 {
				continue
			}
			st := call.Common().Args[1]
			ok := false
			for _, s := range core.FieldStores(freg.fns, row.fld) {
				b, _ := h2bStoreField(s.Store, row.fld)
				if v, isB := h2bBool(s.Store.Val); isB && v && e.eq(b, st) && freg.dominates(s.Store, in) {
					ok = true
				}
			}
			c.Check("inv-reset-flag", row.fn+":"+row.fld.Name(), in.Pos(), ok,
				row.fn+" closes the stream without first marking it "+row.fld.Name()+": frames still arriving from its handler hit `attempt to send a write on a closed stream`")
		}
	}
	c.Min("inv-reset-flag", 3)

	// maxFrameSize never zero
	for i, s := range core.FieldStores(e.fns, maxFrameF) {
		k, isK := h2bInt(s.Store.Val)
		ok := isK && k > 0
		if !isK {
			ok = e.guarded(s.Store.Block(), func(r h2bRel) bool {
				return r.Cmp(token.EQL, func(v ssa.Value) bool { _, is := h2bIsCall(v, "Setting.Valid"); return is }, h2bNilV)
			})
		}
		c.Check("inv-max-frame-size", fmt.Sprintf("%s:store#%d", h2bShort(s.Fn), i+1), s.Store.Pos(), ok,
			"writeScheduler.maxFrameSize is assigned "+core.Render(s.Store.Val)+" without a non-zero constant or a preceding successful Setting.Valid() (take() panics on 0)")
	}
	if valid := e.fn("Setting.Valid"); valid != nil {
		found := false
		for _, r := range core.Returns(valid) {
			if !c35NonNilErr(c35ErrResult(r)) {
				continue
			}
			if e.someEdge(r.Block(), func(rel h2bRel) bool {
				return rel.Cmp(token.LSS, func(v ssa.Value) bool { f, _ := h2bAnyFieldLoad(v); return f != nil && f.Name() == "Val" }, h2bIsInt(16384))
			}) {
				found = true
			}
		}
		c.Check("inv-max-frame-size", "Setting.Valid:min-frame-size", valid.Pos(), found, "Setting.Valid no longer rejects SETTINGS_MAX_FRAME_SIZE below 16384 (0 would reach writeScheduler.maxFrameSize)")
	}
	c.Min("inv-max-frame-size", 3)

	// flow.take guarded by available(): a comparison involving available() of the
	// same flow controls the call
	nTake := map[string]int{}
	for _, s := range e.callSites("flow.take") {
		in := s.Call.(ssa.Instruction)
		recvV := s.Call.Common().Args[0]
		recv := core.Render(recvV)
		isAvail := func(v ssa.Value) bool {
			call, ok := h2bIsCall(core.StripConv(e.rep(v)), "flow.available")
			return ok && len(call.Call.Args) == 1 && e.eq(call.Call.Args[0], recvV)
		}
		ok := e.guarded(in.Block(), func(r h2bRel) bool { return r.Op != token.ILLEGAL && (isAvail(r.X) || isAvail(r.Y)) })
		k := h2bShort(s.Fn) + ":take(" + recv + ")"
		nTake[k]++
		if nTake[k] > 1 {
			k += fmt.Sprintf("#%d", nTake[k])
		}
		c.Check("inv-flow-take", k, in.Pos(), ok, "flow.take on "+recv+" is not control-dependent on a comparison with flow.available("+recv+") (take panics `took too much`); guards: "+e.guardList(in.Block()))
	}
	c.Min("inv-flow-take", 4)

	// window updates are positive
	{
		nb := e.fn("serverConn.noteBodyRead")
		bodyReadChF := x.fld("serverConn.bodyReadCh")
		n := map[string]int{}
		for _, s := range e.callSites("serverConn.sendWindowUpdate") {
			in := s.Call.(ssa.Instruction)
			a := s.Call.Common().Args
			if len(a) != 3 {
				continue
			}
			v := a[2]
			k := h2bShort(s.Fn) + ":sendWindowUpdate"
			n[k]++
			if n[k] > 1 {
				k += fmt.Sprintf("#%d", n[k])
			}
			ok := false
			if kk, isK := h2bInt(v); isK {
				ok = kk > 0
			} else if cv, isC := v.(*ssa.Convert); isC {
				if bt, isB := cv.X.Type().Underlying().(*types.Basic); isB && bt.Info()&types.IsUnsigned != 0 {
					ok = true
				}
			}
			if !ok {
				ok = e.guarded(in.Block(), func(r h2bRel) bool { return r.Cmp(token.GTR, e.is(v), h2bIsInt(0)) })
			}
			if !ok && nb != nil && e.within(s.Fn, nb) && len(nb.Params) == 3 && e.rep(v) == e.rep(nb.Params[2]) {
				ok = true // checked at the producer below
			}
			if !ok {
				// unsigned frame length minus the count an io.Writer-style Write of (part of) that
				// frame's payload reported: never negative (Write returns 0 <= n <= len(p) <= Length)
				if sub, isSub := v.(*ssa.BinOp); isSub && sub.Op == token.SUB {
					if cv, isC := sub.X.(*ssa.Convert); isC {
						if bt, isB := cv.X.Type().Underlying().(*types.Basic); isB && bt.Info()&types.IsUnsigned != 0 {
							if ex, isEx := sub.Y.(*ssa.Extract); isEx && ex.Index == 0 {
								if call, isCall := ex.Tuple.(*ssa.Call); isCall && strings.HasSuffix(core.CalleeKey(&call.Call), "pipe.Pipe.Write") {
									ok = true
								}
							}
						}
					}
				}
			}
			c.Check("inv-window-update", k, in.Pos(), ok, "sendWindowUpdate is called with "+core.Render(v)+", not known to be positive (sendWindowUpdate32 panics `negative update`)")
		}
		for _, s := range e.callSites("serverConn.noteBodyReadFromHandler") {
			in := s.Call.(ssa.Instruction)
			if len(s.Call.Common().Args) < 3 {
				continue
			}
			v := s.Call.Common().Args[2]
			c.Check("inv-window-update", h2bShort(s.Fn)+":noteBodyReadFromHandler", in.Pos(), e.guarded(in.Block(), func(r h2bRel) bool { return r.Cmp(token.GTR, e.is(v), h2bIsInt(0)) }),
				"a body-read notification is sent with a count not known to be positive")
		}
		if bodyReadChF != nil {
			nbh := c.P.Func(h2bPkg, "serverConn.noteBodyReadFromHandler")
			for _, fn := range e.fns {
				for _, in := range h2bAll(fn) {
					sel, ok := in.(*ssa.Select)
					if !ok {
						continue
					}
					for _, st := range sel.States {
						if st.Dir == types.SendOnly && c35Load(bodyReadChF)(e.rep(st.Chan)) {
							c.Check("inv-window-update", h2bShort(e.home(fn, nbh))+":send-bodyReadCh", in.Pos(), e.within(fn, nbh), "bodyReadCh is fed from "+h2bShort(fn)+", outside noteBodyReadFromHandler")
						}
					}
				}
			}
		}
		c.Min("inv-window-update", 6)
	}

	// timeout messages travel on the body's own connection
	{
		tvF, connF := x.fld("serverConn.timeoutValueCh"), x.fld("RequestBody.conn")
		for _, name := range []string{"SetConnTimeout", "setStreamTimeout"} {
			fn := e.fn(name)
			if fn == nil || tvF == nil || connF == nil {
				continue
			}
			var body ssa.Value
			for _, p := range fn.Params {
				if core.TypeStr(p.Type()) == "*bfe_http2.RequestBody" {
					body = p
				}
			}
			ok := false
			for _, in := range e.region(fn).all() {
				sel, isSel := in.(*ssa.Select)
				if !isSel {
					continue
				}
				for _, st := range sel.States {
					if st.Dir != types.SendOnly {
						continue
					}
					b, isTV := h2bFieldLoad(e.rep(st.Chan), tvF)
					if !isTV || body == nil || !e.fieldLoadOn(connF, body)(b) {
						continue
					}
					if rb, has := h2bLitFields(h2bLitOf(st.Send))["rb"]; has && e.eq(rb, body) {
						ok = true
					}
				}
			}
			c.Check("inv-timeout-msg", name, fn.Pos(), ok, name+" does not send {rb: body} on body.conn.timeoutValueCh: setTimeout would panic `bad request body` (or update another connection)")
		}
		c.Min("inv-timeout-msg", 2)
	}
}

// ---- (C) RFC 7540 rules ---------------------------------------------------------------

func c35RFC(c *core.Ctx, e *h2bEnv) {
	x := &c35env{c, e}
	streamsF, stateF := x.fld("serverConn.streams"), x.fld("stream.state")
	maxIDF, curF, advF := x.fld("serverConn.maxStreamID"), x.fld("serverConn.curOpenStreams"), x.fld("serverConn.advMaxStreams")
	gotTrF := x.fld("stream.gotTrailerHeader")
	ph := e.fn("serverConn.processHeaders")
	if streamsF == nil || stateF == nil || maxIDF == nil || curF == nil || advF == nil || gotTrF == nil || ph == nil {
		return
	}
	phReg := e.region(ph)
	closeStream := c.P.Func(h2bPkg, "serverConn.closeStream")
	isStreams := func(v ssa.Value) bool { return c35Load(streamsF)(e.rep(v)) }
	load := func(f *types.Var) func(ssa.Value) bool {
		return func(v ssa.Value) bool { return c35Load(f)(e.rep(v)) }
	}
	var reg *ssa.MapUpdate
	var goHandler ssa.Instruction
	for _, in := range phReg.all() {
		if mu, ok := in.(*ssa.MapUpdate); ok && isStreams(mu.Map) {
			reg = mu
		}
		if g, ok := in.(*ssa.Go); ok && core.CallIs(&g.Call, h2bName("serverConn.runHandler")) {
			goHandler = in
		}
	}
	if reg == nil || goHandler == nil {
		c.Missing("serverConn.processHeaders: stream registration (sc.streams[id] = st) / go sc.runHandler")
		return
	}
	id := e.rep(reg.Key)
	const k = "serverConn.processHeaders:"
	isStreamID := func(v ssa.Value) bool {
		f, ok := e.rep(v).(*ssa.Field)
		return ok && core.FieldObj(f.X, f.Field) != nil && core.FieldObj(f.X, f.Field).Name() == "StreamID"
	}
	c.Check("rfc", k+"id-from-frame", reg.Pos(), isStreamID(id), "the new stream is registered under "+core.Render(id)+", not the frame header's StreamID")

	// enforced: the site is reached only where `good` was established, and the
	// branch that established it rejects with an error on its other side.
	// Returns the deciding branch.
	enforced := func(site ssa.Instruction, good func(h2bRel) bool) (*ssa.If, bool) {
		if !e.guarded(site.Block(), good) {
			return nil, false
		}
		for _, g := range e.guardsCtx(site.Block()) {
			if g.If == nil || !h2bImplies(e, g.Cond, g.Pol, good, 0) {
				continue
			}
			other := g.If.Block().Succs[0]
			if g.Pol {
				other = g.If.Block().Succs[1]
			}
			if c35RejectsWithError(other) {
				return g.If, true
			}
		}
		return nil, false
	}

	// odd ids
	{
		isRem := func(v ssa.Value) bool {
			b, ok := e.rep(v).(*ssa.BinOp)
			if !ok || b.Op != token.REM || !e.eq(b.X, id) {
				return false
			}
			kk, isK := h2bInt(b.Y)
			return isK && kk == 2
		}
		ifi, ok := enforced(reg, func(r h2bRel) bool {
			return r.Cmp(token.EQL, isRem, h2bIsInt(1)) || r.Cmp(token.NEQ, isRem, h2bIsInt(0))
		})
		c.Check("rfc", k+"odd-stream-id", h2bPos(ifi), ok, "no test `id%2 != 1 -> error` dominating stream creation: even (server-initiated) stream ids are accepted from the client (RFC 7540 5.1.1)")
	}
	// increasing ids
	{
		ifi, ok := enforced(reg, func(r h2bRel) bool { return r.Cmp(token.GTR, e.is(id), load(maxIDF)) })
		c.Check("rfc", k+"increasing-stream-id", h2bPos(ifi), ok, "no test `id <= sc.maxStreamID -> error` dominating stream creation: a stream id can be reused or go backwards (RFC 7540 5.1.1)")
		var upd *ssa.Store
		for _, s := range core.FieldStores(phReg.fns, maxIDF) {
			upd = s.Store
		}
		ok2 := upd != nil && e.eq(upd.Val, id) && ifi != nil && phReg.dominates(ifi, upd)
		if ok2 {
			// every path from the id test to the registration records the id
			ok2 = phReg.reachAfter(ifi, h2bInstrIs(upd), h2bInstrIs(reg)) == nil
		}
		c.Check("rfc", k+"max-stream-id-recorded", h2bPos(upd), ok2, "sc.maxStreamID is not set to the new id between the monotonicity test and the registration of the stream")
		for _, s := range core.FieldStores(e.fns, maxIDF) {
			if !phReg.in[s.Fn] {
				c.Check("rfc", h2bShort(s.Fn)+":max-stream-id-writer", s.Store.Pos(), false, "sc.maxStreamID is written in "+h2bShort(s.Fn)+", outside processHeaders")
			}
		}
	}
	// concurrency limit
	{
		ifi, ok := enforced(goHandler, func(r h2bRel) bool { return r.Cmp(token.LEQ, load(curF), load(advF)) })
		c.Check("rfc", k+"concurrency-limit", h2bPos(ifi), ok, "no test `sc.curOpenStreams > sc.advMaxStreams -> error` dominating the start of the handler: the advertised SETTINGS_MAX_CONCURRENT_STREAMS is not enforced (RFC 7540 5.1.2)")
		var inc *ssa.Store
		for _, s := range core.FieldStores(e.fns, curF) {
			b, isB := s.Store.Val.(*ssa.BinOp)
			one := false
			if isB {
				kk, isK := h2bInt(b.Y)
				one = isK && kk == 1 && load(curF)(b.X)
			}
			name := h2bShort(e.home(s.Fn, ph, closeStream))
			switch {
			case one && b.Op == token.ADD && phReg.in[s.Fn]:
				inc = s.Store
				c.Check("rfc", name+":open-count++", s.Store.Pos(), phReg.dominates(reg, s.Store), "curOpenStreams is incremented before the stream is registered")
			case one && b.Op == token.SUB && e.within(s.Fn, closeStream):
				c.Check("rfc", name+":open-count--", s.Store.Pos(), true, "")
			default:
				c.Check("rfc", name+":open-count-writer", s.Store.Pos(), false, "sc.curOpenStreams is written as "+core.Render(s.Store.Val)+" in "+name+"; only ++ in processHeaders and -- in closeStream keep it equal to the number of registered streams")
			}
		}
		c.Check("rfc", k+"counted-before-limit", h2bPos(ifi), inc != nil && ifi != nil && phReg.dominates(inc, ifi), "the new stream is not counted in curOpenStreams before the limit test")
		// what is advertised
		okAdv := false
		if serve := e.fn("serverConn.serve"); serve != nil {
			all := e.region(serve).all()
			for _, in := range all {
				st, isSt := in.(*ssa.Store)
				if !isSt || !load(advF)(st.Val) {
					continue
				}
				fa, isFA := st.Addr.(*ssa.FieldAddr)
				if !isFA || core.FieldObj(fa.X, fa.Field) == nil || core.FieldObj(fa.X, fa.Field).Name() != "Val" {
					continue
				}
				// sibling store of the ID
				for _, in2 := range all {
					st2, is2 := in2.(*ssa.Store)
					if !is2 {
						continue
					}
					fa2, isFA2 := st2.Addr.(*ssa.FieldAddr)
					if isFA2 && fa2.X == fa.X && core.FieldObj(fa2.X, fa2.Field).Name() == "ID" {
						if kk, isK := h2bInt(st2.Val); isK && kk == 3 {
							okAdv = true
						}
					}
				}
			}
		}
		c.Check("rfc", "serverConn.serve:limit-advertised", ph.Pos(), okAdv, "the initial SETTINGS frame does not announce SETTINGS_MAX_CONCURRENT_STREAMS = sc.advMaxStreams, the value processHeaders enforces")
	}

	// rejects: some branch of the region has an edge that establishes `bad` and
	// leads only to error returns
	rejects := func(r *h2bReg, bad func(h2bRel) bool) (*ssa.If, bool) {
		var first *ssa.If
		for _, ifi := range r.ifs() {
			b := ifi.Block()
			if len(b.Succs) != 2 || b.Succs[0] == b.Succs[1] {
				continue
			}
			for j, pol := range []bool{true, false} {
				if !h2bImplies(e, ifi.Cond, pol, bad, 0) {
					continue
				}
				if first == nil {
					first = ifi
				}
				if c35RejectsWithError(b.Succs[j]) {
					return ifi, true
				}
			}
		}
		return first, false
	}

	// trailers
	if fn := e.fn("stream.processTrailerHeaders"); fn != nil {
		const kt = "stream.processTrailerHeaders:"
		treg := e.region(fn)
		isEnded := func(v ssa.Value) bool { _, ok := h2bIsCall(e.rep(v), "HeadersFrame.StreamEnded"); return ok }
		ifi, ok := rejects(treg, func(r h2bRel) bool { return r.Flag(false, isEnded) })
		c.Check("rfc", kt+"end-stream-required", h2bPos(ifi), ok, "trailers without END_STREAM are not rejected (RFC 7540 8.1)")
		ifi, ok = rejects(treg, func(r h2bRel) bool { return r.Flag(true, load(gotTrF)) })
		c.Check("rfc", kt+"no-duplicate-trailers", h2bPos(ifi), ok, "a second trailers block on the same stream is not rejected")
		isPseudoLen := c35IsLen(func(v ssa.Value) bool { _, ok := h2bIsCall(e.rep(v), "MetaHeadersFrame.PseudoFields"); return ok })
		ifi, ok = rejects(treg, func(r h2bRel) bool {
			return r.Cmp(token.GTR, isPseudoLen, h2bIsInt(0)) || r.Cmp(token.NEQ, isPseudoLen, h2bIsInt(0)) || r.Cmp(token.GEQ, isPseudoLen, h2bIsInt(1))
		})
		c.Check("rfc", kt+"no-pseudo-headers", h2bPos(ifi), ok, "pseudo-header fields in trailers are not rejected (RFC 7540 8.1.2.1)")
		for _, call := range treg.calls("stream.endStream") {
			in := call.(ssa.Instruction)
			c.Check("rfc", kt+"ends-only-with-flag", in.Pos(), e.guarded(in.Block(), func(r h2bRel) bool { return r.Flag(true, isEnded) }), "trailers end the request body without END_STREAM having been seen")
		}
	}

	// DATA
	if fn := e.fn("serverConn.processData"); fn != nil {
		const kd = "serverConn.processData:"
		dreg := e.region(fn)
		n := 0
		for _, in := range dreg.all() {
			call, isCall := in.(ssa.CallInstruction)
			if !isCall || !strings.HasSuffix(core.CalleeKey(call.Common()), "pipe.Pipe.Write") {
				continue
			}
			n++
			var st ssa.Value
			okReg := e.guarded(in.Block(), func(r h2bRel) bool {
				return r.Flag(true, func(v ssa.Value) bool {
					ex, ok := e.rep(v).(*ssa.Extract)
					if !ok || ex.Index != 1 {
						return false
					}
					lk, ok := ex.Tuple.(*ssa.Lookup)
					if ok && isStreams(lk.X) {
						for _, rr := range *lk.Referrers() {
							if e0, is := rr.(*ssa.Extract); is && e0.Index == 0 {
								st = e0
							}
						}
						return true
					}
					return false
				})
			})
			isOpen := func(r h2bRel) bool { return r.Cmp(token.EQL, e.fieldLoadOn(stateF, st), h2bIsInt(1)) }
			okOpen := st != nil && e.guarded(in.Block(), isOpen)
			okTr := st != nil && e.guarded(in.Block(), func(r h2bRel) bool { return r.Flag(false, e.fieldLoadOn(gotTrF, st)) })
			c.Check("rfc", kd+"body-write:registered", in.Pos(), okReg, "DATA payload is written to a body although the stream was not found in sc.streams")
			c.Check("rfc", kd+"body-write:state-open", in.Pos(), okOpen, "DATA payload is accepted for a stream not known to be in state open (RFC 7540 5.1: STREAM_CLOSED for half-closed(remote)/closed); guards: "+e.guardList(in.Block()))
			c.Check("rfc", kd+"body-write:before-trailers", in.Pos(), okTr, "DATA payload is accepted after the stream's trailers")
			// the rejecting side returns an error: the branch that established
			// `state == open` for the write leads only to error returns on its other side
			okRej := false
			var dec *ssa.If
			if okOpen {
				dec, okRej = enforced(in, isOpen)
			}
			c.Check("rfc", kd+"not-open-rejected", h2bPos(dec), okRej, "DATA on a stream that is not open does not lead to an error return")
		}
		if n == 0 {
			c.Check("rfc", kd+"body-write:registered", fn.Pos(), false, "processData no longer writes the payload to the stream's body pipe")
		}
	}

	// request pseudo-headers
	if fn := e.fn("serverConn.newWriterAndRequest"); fn != nil {
		const kn = "serverConn.newWriterAndRequest:"
		nreg := e.region(fn)
		pseudo := func(name string) func(ssa.Value) bool {
			return func(v ssa.Value) bool {
				v = e.rep(v)
				call, ok := h2bIsCall(v, "MetaHeadersFrame.PseudoValue")
				if !ok {
					// `authority` may have been re-assigned from the Host header (phi)
					if phi, isPhi := v.(*ssa.Phi); isPhi {
						for _, ed := range phi.Edges {
							if cl, is := h2bIsCall(ed, "MetaHeadersFrame.PseudoValue"); is && c35IsStr(name)(cl.Call.Args[1]) {
								return true
							}
						}
					}
					return false
				}
				return c35IsStr(name)(call.Call.Args[1])
			}
		}
		empty := c35IsStr("")
		type need struct {
			name string
			m    func(r h2bRel) bool
		}
		isEnded := func(v ssa.Value) bool { _, ok := h2bIsCall(e.rep(v), "HeadersFrame.StreamEnded"); return ok }
		needs := []need{
			{"method-required", func(r h2bRel) bool { return r.Cmp(token.EQL, pseudo("method"), empty) }},
			{"path-required", func(r h2bRel) bool { return r.Cmp(token.EQL, pseudo("path"), empty) }},
			{"scheme-http-or-https", func(r h2bRel) bool { return r.Cmp(token.NEQ, pseudo("scheme"), c35IsStr("http")) }},
			{"connect-authority-required", func(r h2bRel) bool { return r.Cmp(token.EQL, pseudo("authority"), empty) }},
			{"connect-no-path", func(r h2bRel) bool { return r.Cmp(token.NEQ, pseudo("path"), empty) }},
			{"connect-no-scheme", func(r h2bRel) bool { return r.Cmp(token.NEQ, pseudo("scheme"), empty) }},
			{"head-without-body", func(r h2bRel) bool { return r.Flag(false, isEnded) }},
		}
		for _, nd := range needs {
			found := false
			for _, f := range nreg.fns {
				for _, r := range core.Returns(f) {
					if !c35NonNilErr(c35ErrResult(r)) {
						continue
					}
					// one of the ways into the rejecting block establishes the fact
					if e.someEdge(r.Block(), nd.m) {
						found = true
					}
				}
			}
			c.Check("rfc", kn+nd.name, fn.Pos(), found, "newWriterAndRequest has no error return established by the test `"+nd.name+"` on the request pseudo-header fields (RFC 7540 8.1.2.3 / 8.3)")
		}
	}

	// connection-specific request headers
	{
		obj, _ := c.P.Obj(h2bPkg, "connHeaders").(*types.Var)
		set := map[string]bool{}
		var pos token.Pos
		if pk := c.P.Pkg(h2bPkg); obj != nil && pk != nil {
			for _, f := range pk.Syntax {
				ast.Inspect(f, func(n ast.Node) bool {
					vs, ok := n.(*ast.ValueSpec)
					if !ok {
						return true
					}
					for i, name := range vs.Names {
						if pk.TypesInfo.Defs[name] != obj || i >= len(vs.Values) {
							continue
						}
						if cl, ok := vs.Values[i].(*ast.CompositeLit); ok {
							pos = cl.Pos()
							for _, el := range cl.Elts {
								if tv := pk.TypesInfo.Types[el]; tv.Value != nil && tv.Value.Kind() == constant.String {
									set[constant.StringVal(tv.Value)] = true
								}
							}
						}
					}
					return true
				})
			}
		}
		if obj == nil {
			c.Missing(h2bPkg + ".connHeaders")
		}
		for _, h := range h2bRFC7540ConnSpecific {
			c.Check("rfc", "connHeaders:"+h, pos, set[h], "connHeaders lacks "+h+": a request carrying this connection-specific field is not answered with 400 (RFC 7540 8.1.2.2)")
		}
		if fn := e.fn("checkValidHTTP2Request"); fn != nil {
			found, te := false, false
			for _, r := range core.Returns(fn) {
				if !c35NonNilErr(c35ErrResult(r)) {
					continue
				}
				if e.guarded(r.Block(), func(rel h2bRel) bool {
					return rel.Flag(true, func(v ssa.Value) bool {
						ex, ok := v.(*ssa.Extract)
						if !ok || ex.Index != 1 {
							return false
						}
						lk, ok := ex.Tuple.(*ssa.Lookup)
						if !ok {
							return false
						}
						f, _ := h2bAnyFieldLoad(lk.X)
						return f != nil && f.Name() == "Header" && strings.Contains(core.Render(lk.Index), "connHeaders")
					})
				}) {
					found = true
				}
				for _, p := range r.Block().Preds {
					for _, g := range core.GuardsOnEdge(p, r.Block()) {
						if strings.Contains(g.Str, "\"trailers\"") {
							te = true
						}
					}
				}
			}
			c.Check("rfc", "checkValidHTTP2Request:conn-headers-rejected", fn.Pos(), found, "checkValidHTTP2Request has no error return for a request header listed in connHeaders")
			c.Check("rfc", "checkValidHTTP2Request:te-trailers-only", fn.Pos(), te, "checkValidHTTP2Request has no error return for a TE header other than `trailers`")
		}
		// wired into processHeaders
		okWired := false
		if g, ok := goHandler.(*ssa.Go); ok && len(g.Call.Args) == 4 {
			if phi, isPhi := g.Call.Args[3].(*ssa.Phi); isPhi {
				for i, ed := range phi.Edges {
					if _, is := h2bIsCall(ed, "new400Handler"); !is {
						if ct, isCT := ed.(*ssa.ChangeType); !isCT {
							continue
						} else if _, is2 := h2bIsCall(ct.X, "new400Handler"); !is2 {
							continue
						}
					}
					for _, gd := range core.GuardsOnEdge(phi.Block().Preds[i], phi.Block()) {
						if h2bRelOf(gd).Cmp(token.NEQ, func(v ssa.Value) bool { _, is := h2bIsCall(v, "checkValidHTTP2Request"); return is }, h2bNilV) {
							okWired = true
						}
					}
				}
			}
		}
		c.Check("rfc", k+"invalid-request-gets-400", goHandler.Pos(), okWired, "the handler started by processHeaders is not replaced by new400Handler when checkValidHTTP2Request fails")
	}

	// pseudo-header validation before delivery
	if fn := e.fn("Framer.readMetaFrame"); fn != nil {
		n := 0
		for _, r := range core.Returns(fn) {
			vs := core.RetVals(r)
			if len(vs) != 2 || h2bIsNil(vs[0]) {
				continue
			}
			n++
			ok := e.guarded(r.Block(), func(rel h2bRel) bool {
				return rel.Cmp(token.EQL, func(v ssa.Value) bool { _, is := h2bIsCall(v, "MetaHeadersFrame.checkPseudos"); return is }, h2bNilV)
			})
			c.Check("rfc", fmt.Sprintf("Framer.readMetaFrame:pseudo-validated#%d", n), r.Pos(), ok, "readMetaFrame delivers a MetaHeadersFrame without checkPseudos() having succeeded (unknown/duplicate/mixed pseudo-header fields reach the server)")
		}
		if n == 0 {
			c.Check("rfc", "Framer.readMetaFrame:pseudo-validated#1", fn.Pos(), false, "readMetaFrame has no successful return")
		}
	}
	c.Min("rfc", 30)
}

// ---- (B3) totality of the invariants: every path, not only the reviewed stores -----

// c35OpenPipeTotal: `state open <=> body pipe present` needs both directions.
// inv-open-has-body checks that RequestBody.pipe is assigned only under
// !f.StreamEnded(); this rule checks the converse in newWriterAndRequest: once
// a branch has established !f.StreamEnded() (the stream stays open for DATA and
// trailers), every path that goes on to a successful return assigns a non-nil
// pipe. The traversal is consistent in the flag (later tests of the same
// StreamEnded() value are followed only along the !END_STREAM edge). A request
// attribute such as content-length: 0 must not decide whether the pipe exists:
// processData and stream.endStream rely on it for every open stream.
func c35OpenPipeTotal(c *core.Ctx, e *h2bEnv) {
	newWR := e.fn("serverConn.newWriterAndRequest")
	pipeF := e.field("RequestBody.pipe")
	if newWR == nil || pipeF == nil {
		return
	}
	flagOf := func(cond ssa.Value) (*ssa.Call, bool, bool) {
		pol := true
		for {
			u, ok := cond.(*ssa.UnOp)
			if !ok || u.Op != token.NOT {
				break
			}
			cond, pol = u.X, !pol
		}
		if call, ok := h2bIsCall(cond, "HeadersFrame.StreamEnded"); ok {
			return call, pol, true
		}
		return nil, false, false
	}
	isPipeStore := func(in ssa.Instruction) bool {
		st, ok := in.(*ssa.Store)
		if !ok {
			return false
		}
		_, is := h2bStoreField(st, pipeF)
		return is && !h2bIsNil(st.Val)
	}
	n, stored := 0, 0
	for _, ifi := range h2bIfs(newWR) {
		b := ifi.Block()
		flag, pol, ok := flagOf(ifi.Cond)
		if !ok || b.Succs[0] == b.Succs[1] {
			continue
		}
		open := b.Succs[0]
		if pol {
			open = b.Succs[1]
		}
		n++
		var bad ssa.Instruction
		seen := map[*ssa.BasicBlock]bool{open: true}
		work := []*ssa.BasicBlock{open}
		for len(work) > 0 {
			cur := work[len(work)-1]
			work = work[:len(work)-1]
			stop := false
			for _, in := range cur.Instrs {
				if isPipeStore(in) {
					stored++
					stop = true
					break
				}
				if r, isR := in.(*ssa.Return); isR && h2bIsNil(c35ErrResult(r)) {
					if bad == nil {
						bad = in
					}
					stop = true
					break
				}
			}
			if stop {
				continue
			}
			succs := cur.Succs
			if i2 := h2bIfOf(cur); i2 != nil && len(succs) == 2 {
				if f2, pol2, ok2 := flagOf(i2.Cond); ok2 && h2bEq(f2, flag) {
					if pol2 {
						succs = succs[1:]
					} else {
						succs = succs[:1]
					}
				}
			}
			for _, sx := range succs {
				if !seen[sx] {
					seen[sx] = true
					work = append(work, sx)
				}
			}
		}
		where := ""
		if bad != nil {
			where = "; the success return at " + c.P.Pos(h2bPos(bad)) + " is reachable from the !StreamEnded() branch avoiding every store to RequestBody.pipe"
		}
		c.Check("inv-open-pipe-total", fmt.Sprintf("serverConn.newWriterAndRequest:open-branch#%d", n), h2bPos(ifi), bad == nil,
			"newWriterAndRequest can return success for a HEADERS frame without END_STREAM (stream stays in state open) without having created the request body pipe: the next DATA frame reaches panic(\"internal error: should have a body in this state\") in processData and a trailers HEADERS frame dereferences the nil pipe in stream.endStream"+where)
	}
	c.Check("inv-open-pipe-total", "serverConn.newWriterAndRequest:some-open-path-creates-pipe", newWR.Pos(), stored > 0,
		"no branch on !f.StreamEnded() in newWriterAndRequest leads to a store of RequestBody.pipe: the rule cannot tie the pipe to the stream staying open")
	c.Min("inv-open-pipe-total", 2)
}

// c35OpenCount: sc.curOpenStreams == len(sc.streams) is what makes the
// concurrency limit and the idle/active transitions meaningful; closeStream
// decrements for every registered stream it removes. Lockstep on every path,
// in every function of the package: a stream inserted into sc.streams is
// counted before the function can return (also on its error returns: the
// caller answers a StreamError with resetStream -> closeStream, which
// decrements), and a removal from sc.streams and the decrement always come
// together.
func c35OpenCount(c *core.Ctx, e *h2bEnv) {
	streamsF, curF := e.field("serverConn.streams"), e.field("serverConn.curOpenStreams")
	if streamsF == nil || curF == nil {
		return
	}
	isStreams := func(v ssa.Value) bool { return c35Load(streamsF)(e.rep(v)) }
	step := func(in ssa.Instruction, op token.Token) bool {
		st, ok := in.(*ssa.Store)
		if !ok {
			return false
		}
		if _, is := h2bStoreField(st, curF); !is {
			return false
		}
		b, isB := st.Val.(*ssa.BinOp)
		if !isB || b.Op != op || !c35Load(curF)(e.rep(b.X)) {
			return false
		}
		k, isK := h2bInt(b.Y)
		return isK && k == 1
	}
	isInc := func(in ssa.Instruction) bool { return step(in, token.ADD) }
	isDec := func(in ssa.Instruction) bool { return step(in, token.SUB) }
	isDel := func(in ssa.Instruction) bool {
		y, ok := in.(*ssa.Call)
		if !ok {
			return false
		}
		b, isB := y.Call.Value.(*ssa.Builtin)
		return isB && b.Name() == "delete" && isStreams(y.Call.Args[0])
	}
	isReg := func(in ssa.Instruction) bool {
		mu, ok := in.(*ssa.MapUpdate)
		return ok && isStreams(mu.Map)
	}
	// paired: every execution of `at` is accompanied by a partner, either
	// before it on every path (dominance) or after it on every path to a return
	// of the function the code belongs to (the anchor when `at` lies in one of
	// its private helpers).
	paired := func(reg *h2bReg, at ssa.Instruction, partner func(ssa.Instruction) bool) (bool, ssa.Instruction) {
		for _, in := range reg.all() {
			if partner(in) && reg.dominates(in, at) {
				return true, nil
			}
		}
		bad := reg.mustPass(at, partner)
		return bad == nil, bad
	}
	anchors := []*ssa.Function{e.c.P.Func(h2bPkg, "serverConn.processHeaders"), e.c.P.Func(h2bPkg, "serverConn.closeStream")}
	cnt := map[string]int{}
	for _, fn := range e.fns {
		for _, in := range h2bAll(fn) {
			var kind, what string
			var partner func(ssa.Instruction) bool
			switch {
			case isReg(in):
				kind, partner, what = "register-counted", isInc, "a stream is inserted into sc.streams but a return is reachable without sc.curOpenStreams++: when the caller resets the rejected stream, closeStream decrements a count that was never incremented (the uint32 counter wraps; from then on SETTINGS_MAX_CONCURRENT_STREAMS is enforced one stream too late and the idle/active transitions at 0/1 misfire)"
			case isDel(in):
				kind, partner, what = "unregister-uncounted", isDec, "a stream is removed from sc.streams without sc.curOpenStreams-- on every path: the connection over-counts open streams and refuses streams below the advertised limit"
			case isDec(in):
				kind, partner, what = "uncount-unregisters", isDel, "sc.curOpenStreams is decremented without the stream being removed from sc.streams on every path: the same stream can be closed (and un-counted) again"
			case isInc(in):
				kind, partner, what = "count-registers", isReg, "sc.curOpenStreams is incremented without a stream being inserted into sc.streams on every path"
			default:
				continue
			}
			home := e.home(fn, anchors...)
			k := h2bShort(home) + ":" + kind
			cnt[k]++
			if cnt[k] > 1 {
				k += fmt.Sprintf("#%d", cnt[k])
			}
			ok, bad := paired(e.region(home), in, partner)
			if bad != nil {
				what += "; unpaired exit at " + c.P.Pos(h2bPos(bad))
			}
			c.Check("inv-open-count", k, h2bPos(in), ok, what)
		}
	}
	c.Min("inv-open-count", 4)
}
