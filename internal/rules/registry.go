// Package rules holds one file per property: the rule tables and the code
// that instantiates the shared engines of package core on them.
package rules

import (
	"sort"

	"verif/internal/core"
)

// Mutant is a checker-fires self test: a textual edit of one repo file that is
// applied as an in-memory overlay; the property's rules must then report a
// violation whose id contains Expect. Old must occur exactly once in the file
// (otherwise the mutant is stale and skipped with a note).
type Mutant struct {
	Name   string
	File   string // repo-relative
	Old    string
	New    string
	Expect string
	// Silent mutants are behaviour-preserving edits: the verdict must NOT change.
	Silent bool
}

// Rule is the check of one property.
type Rule struct {
	ID string
	// Technique names the deciding method (MANIFEST technique field).
	Technique string
	// Section is the DESIGN.md section of the property.
	Section string
	Meta    core.Meta
	Run     func(c *core.Ctx)
	Mutants []Mutant
}

var registry = map[string]*Rule{}

// Register adds a rule (called from init functions).
func Register(r *Rule) { registry[r.ID] = r }

// Get returns the rule of a property.
func Get(id string) *Rule { return registry[id] }

// IDs lists the registered property ids.
func IDs() []string {
	var s []string
	for k := range registry {
		s = append(s, k)
	}
	sort.Strings(s)
	return s
}

// NotApplicable lists the properties that static analysis cannot decide, with
// the reason (DESIGN.md section 6). Properties that are neither registered nor
// listed here are reported as "no check built yet".
var NotApplicable = map[string]string{
	"C30": "HPACK encode/decode round-trip equality and eviction arithmetic over histories of byte strings; no shape-level necessary condition beyond those claimed under C31",
	"C43": "removePadding is branch-free mask arithmetic over byte values; its correctness is purely numerical (concrete or symbolic evaluation, a different technique family)",
	"C53": "quantifies over wall-clock timing of counters (threshold within CheckPeriod, StayPeriod); the code shape does not determine it",
}
