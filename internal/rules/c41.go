package rules

import (
	"fmt"
	"go/constant"
	"go/token"
	"go/types"
	"sort"
	"strings"

	"golang.org/x/tools/go/ssa"

	"verif/internal/core"
)

// C41 — TLS negotiation picks mutually supported parameters and resists downgrade.
func init() {
	Register(&Rule{
		ID: "C41", Section: "5 C41",
		Technique: "accessor discipline (raw-field read census on bfe_tls.Config), value-flow of the negotiated version / cipher suite / ALPN protocol to their stores, guard census (dominance with boolean-phi expansion) on mutualVersion, checkVersionGrade, tryCipherSuite, mutualProtocol and the TLS_FALLBACK_SCSV test",
		Meta: core.Meta{
			Level:       "other",
			Explanation: "Decides, on go/ssa of bfe_tls: (a) Config.MinVersion/MaxVersion/CipherSuites/CurvePreferences/Rand/Time are read only inside their defaulting accessors and Clone; (b) in readClientHello every store to Conn.vers is result #0 of mutualVersion(clientHello.vers) or of checkVersionGrade(c.vers, c.grade), both ok results are tested before any success return, serverHello.vers is c.vers read after the last such store; mutualVersion returns ok only under vers >= minVersion() and returns either maxVersion() or vers under vers <= maxVersion(); checkVersionGrade returns its argument unchanged and refuses grade A below TLS1.0 / grade A+ below TLS1.2; (c) every store to serverHandshakeState.suite is result #0 of tryCipherSuite (directly or through negotiateEquivalentCipherSuites), serverHello.cipherSuite and Conn.cipherSuite are only set to hs.suite.id, each negotiation call pairs an element of one of {clientHello.cipherSuites, config.cipherSuites()} with the other list in every preference order, passes c.vers, and tryCipherSuite returns a suite only under id == supported[i], candidate.id == id and the six capability gates (ECDHE/ECDSA/TLS1.2/ChaCha20/RC4 grade); (d) every store to serverHello.alpnProtocol is mutualProtocol's choice under !fallback from (clientHello.alpnProtocols, config/rule NextProtos), and mutualProtocol returns a non-fallback value only under s == c with both drawn from its two lists; (e) the TLS_FALLBACK_SCSV scan compares clientHello.vers with config.maxVersion() (the accessor), the `below` branch only reaches error returns, and the scan lies on every path to a success return of readClientHello; (f) the list that the scan and the negotiation read is the client's offer: wherever clientHelloMsg.cipherSuites is filled element by element from received bytes (clientHelloMsg.unmarshal, convertSSLv2ClientHello for SSLv2-compatible hellos) every branch inside the filling loop that decides whether an element is written is computed from the received bytes alone (message bytes, lengths, counters, constants, pure in-module helpers over scalars) - not from the connection, its configuration or a global table, which know the negotiable suites but not the signalling values TLS_FALLBACK_SCSV / renegotiation SCSV; and the field is stored only into a message allocated in the same function or by clientHelloMsg.unmarshal into its receiver (no later rewrite of hs.clientHello.cipherSuites). Not covered: in-place edits of the list through copy() or through a helper that receives the slice value, that the handshake then completes with these parameters, key exchange, application data flow, client-side negotiation.",
			RuleText:    "obligations = each raw read of a defaulted Config field; each Conn.vers / serverHello.vers / hs.suite / alpnProtocol store; each tryCipherSuite call (list pairing per phi edge / call site, version argument); each success return of mutualVersion, checkVersionGrade, tryCipherSuite, mutualProtocol with its required guards; the SCSV comparison, its refusal branch and each success return of readClientHello; each element-wise fill of clientHelloMsg.cipherSuites from received bytes (its controlling conditions) and each store into that field",
			Assumptions: []string{"Config fields are not modified through reflection or unsafe", "ServerRule.Get / NextProtoConf.Get implementations return the configuration of the connection's rule"},
		},
		Run: runC41,
		Mutants: []Mutant{
			{Name: "version-not-clamped", File: "bfe_tls/common.go", Old: "	if vers > maxVersion {\n		vers = maxVersion\n	}\n	return vers, true", New: "	if vers > maxVersion+1 {\n		vers = maxVersion\n	}\n	return vers, true", Expect: "mv-max"},
			{Name: "min-version-unchecked", File: "bfe_tls/common.go", Old: "	if vers < minVersion {\n		return 0, false\n	}\n	if vers > maxVersion {", New: "	if vers < minVersion && vers == 0 {\n		return 0, false\n	}\n	if vers > maxVersion {", Expect: "mv-min"},
			{Name: "grade-aplus-weakened", File: "bfe_tls/common.go", Old: "grade == GradeAPlus && vers < VersionTLS12 {", New: "grade == GradeAPlus && vers < VersionTLS11 {", Expect: "grade-gate"},
			{Name: "grade-result-ignored", File: "bfe_tls/handshake_server.go", Old: "	c.vers, ok = config.checkVersionGrade(c.vers, c.grade)\n	if !ok {", New: "	c.vers, ok = config.checkVersionGrade(c.vers, c.grade)\n	if !ok && c.grade == \"\" {", Expect: "vers-ok-tested"},
			{Name: "client-version-echoed", File: "bfe_tls/handshake_server.go", Old: "	hs.hello.vers = c.vers\n", New: "	hs.hello.vers = hs.clientHello.vers\n", Expect: "hello-vers"},
			{Name: "suite-from-server-list-only", File: "bfe_tls/handshake_server.go", Old: "		preferenceList = c.config.cipherSuites()\n		supportedList = hs.clientHello.cipherSuites\n	} else {", New: "		preferenceList = c.config.cipherSuites()\n		supportedList = c.config.cipherSuites()\n	} else {", Expect: "suite-lists"},
			{Name: "chacha-gate-dropped", File: "bfe_tls/handshake_server.go", Old: "			if candidate.flags&suiteChacha20 != 0 && !chachaOk {\n				continue\n			}\n", New: "", Expect: "try-gate|tryCipherSuite:chacha20"},
			{Name: "rc4-disable-gate-inverted", File: "bfe_tls/handshake_server.go", Old: "candidate.flags&suiteRC4 != 0 && useRC4 == disableRC4 {", New: "candidate.flags&suiteRC4 != 0 && useRC4 == enableRC4 {", Expect: "try-gate|tryCipherSuite:rc4-disabled"},
			{Name: "tls12-suite-below-tls12", File: "bfe_tls/handshake_server.go", Old: "			if version < VersionTLS12 && candidate.flags&suiteTLS12 != 0 {", New: "			if version < VersionTLS11 && candidate.flags&suiteTLS12 != 0 {", Expect: "try-gate|tryCipherSuite:tls12"},
			{Name: "suite-not-in-peer-list", File: "bfe_tls/handshake_server.go", Old: "	for i, supported := range supportedCipherSuites {\n		if id == supported {", New: "	for i, supported := range supportedCipherSuites {\n		if id == supported || i == 0 {", Expect: "try-member"},
			{Name: "alpn-fallback-accepted", File: "bfe_tls/handshake_server.go", Old: "nextProtos); !fallback {", New: "nextProtos); !fallback || selectedProto != \"\" {", Expect: "alpn-store"},
			{Name: "ecdhe-retry-wrong-version", File: "bfe_tls/handshake_server.go", Old: "c.tryCipherSuite(id, supportedList, c.vers, true, hs.ecdsaOk", New: "c.tryCipherSuite(id, supportedList, hs.clientHello.vers, true, hs.ecdsaOk", Expect: "suite-version"},
			{Name: "scsv-refusal-logged-only", File: "bfe_tls/handshake_server.go", Old: "				c.sendAlert(alertInappropriateFallback)\n				return false, errors.New(\"tls: client using inppropriate protocol fallback\")\n", New: "				c.sendAlert(alertInappropriateFallback)\n", Expect: "scsv-refuse"},
			{Name: "hello-announces-client-first-suite", File: "bfe_tls/handshake_server.go", Old: "	hs.hello.cipherSuite = hs.suite.id\n	hs.finishedHash.Write(hs.hello.marshal())\n	c.writeRecord(recordTypeHandshake, hs.hello.marshal())\n\n	var certMsg", New: "	hs.hello.cipherSuite = hs.clientHello.cipherSuites[0]\n	hs.finishedHash.Write(hs.hello.marshal())\n	c.writeRecord(recordTypeHandshake, hs.hello.marshal())\n\n	var certMsg", Expect: "suite-use"},
			{Name: "parser-keeps-only-implemented-suites", File: "bfe_tls/handshake_messages.go", Old: "		m.cipherSuites[i] = uint16(data[2+2*i])<<8 | uint16(data[3+2*i])\n", New: "		if id := uint16(data[2+2*i])<<8 | uint16(data[3+2*i]); id == scsvRenegotiation || mutualCipherSuite(varDefaultCipherSuites, id) != nil {\n			m.cipherSuites[i] = id\n		}\n", Expect: "offer-intact|clientHelloMsg.unmarshal"},
			{Name: "offer-filtered-before-scsv-scan", File: "bfe_tls/handshake_server.go", Old: "	// check whether chacha20-poly1305 is enabled for current connection\n	if rule != nil {\n		hs.chachaOk = rule.Chacha20\n	}\n", New: "	// check whether chacha20-poly1305 is enabled for current connection\n	if rule != nil {\n		hs.chachaOk = rule.Chacha20\n	}\n	negotiable := make([]uint16, 0, len(hs.clientHello.cipherSuites))\n	for _, id := range hs.clientHello.cipherSuites {\n		if mutualCipherSuite(c.config.cipherSuites(), id) != nil {\n			negotiable = append(negotiable, id)\n		}\n	}\n	hs.clientHello.cipherSuites = negotiable\n", Expect: "offer-writer|serverHandshakeState.readClientHello"},
			{Name: "silent-sslv2-spec-test-rewritten", Silent: true, File: "bfe_tls/conn.go", Old: "		if cipherSpecs[i] == 0 {\n			cipher := uint16(cipherSpecs[i+1])<<8 | uint16(cipherSpecs[i+2])\n", New: "		if kind := cipherSpecs[i]; !(kind != 0) {\n			state.TlsHandshakeAcceptSslv2ClientHello.Inc(0)\n			cipher := uint16(cipherSpecs[i+2]) | uint16(cipherSpecs[i+1])<<8\n"},
			{Name: "raw-min-version", File: "bfe_tls/common.go", Old: "	minVersion := c.minVersion()\n	maxVersion := c.maxVersion()\n", New: "	minVersion := c.MinVersion\n	maxVersion := c.maxVersion()\n", Expect: "raw-read"},
			{Name: "silent-scsv-scan-extracted", Silent: true, File: "bfe_tls/handshake_server.go", Old: "\tfor _, id := range hs.clientHello.cipherSuites {\n\t\tif id == TLS_FALLBACK_SCSV {\n\t\t\t// The client is doing a fallback connection.\n\t\t\tif hs.clientHello.vers < c.config.maxVersion() {\n\t\t\t\tc.sendAlert(alertInappropriateFallback)\n\t\t\t\treturn false, errors.New(\"tls: client using inppropriate protocol fallback\")\n\t\t\t}\n\t\t\tbreak\n\t\t}\n\t}\n\n\tif hs.checkForResumption() {\n\t\treturn true, nil\n\t}\n\n\tvar preferenceList, supportedList []uint16\n\tif c.config.PreferServerCipherSuites {\n\t\tpreferenceList = c.config.cipherSuites()\n\t\tsupportedList = hs.clientHello.cipherSuites\n\t} else {\n\t\tpreferenceList = hs.clientHello.cipherSuites\n\t\tsupportedList = c.config.cipherSuites()\n\t}\n\n\tif c.config.PreferServerCipherSuites && len(c.config.CipherSuitesPriority) == len(preferenceList) {\n\t\t// Equivalent cipher suite negotiation\n\t\ths.suite = hs.negotiateEquivalentCipherSuites(supportedList, preferenceList)\n\t} else {\n\t\t// Normal cipher suite negotiation\n\t\tfor _, id := range preferenceList {\n\t\t\tif hs.suite, _ = c.tryCipherSuite(id, supportedList, c.vers,\n\t\t\t\ths.ellipticOk, hs.ecdsaOk, hs.chachaOk, hs.useRC4); hs.suite != nil {\n\t\t\t\tbreak\n\t\t\t}\n\t\t}\n\t}\n\n\t// no cipher suite supported by both client and server.\n\tif hs.suite == nil {\n\t\t// If client proposes ECDHE without ECC extensions, just try ECDHE cipher suite\n\t\t// and choose CurveP256 and Uncompressed point format for client.\n\t\t//\n\t\t// Note: A client that proposes ECC cipher suites may choose not to include\n\t\t// elliptic curves extension or elliptic point format extension. In this case,\n\t\t// the server is free to choose any one of the elliptic curves or point formats.\n\t\t//\n\t\t// For more information, see RFC 4492 Section 4\n\t\tellipticMayOk := hs.checkEllipticMayOk(supportedCurve, supportedPointFormat)\n\t\tif ellipticMayOk {\n\t\t\tfor _, id := range preferenceList {\n\t\t\t\tif !CheckSuiteECDHE(id) {\n\t\t\t\t\tcontinue\n\t\t\t\t}\n\t\t\t\tif hs.suite, _ = c.tryCipherSuite(id, supportedList, c.vers, true, hs.ecdsaOk, hs.chachaOk, hs.useRC4); hs.suite != nil {\n\t\t\t\t\tbreak\n\t\t\t\t}\n\t\t\t}\n\n\t\t\tif hs.suite != nil {\n\t\t\t\tstate.TlsHandshakeAcceptEcdheWithoutExt.Inc(1)\n\t\t\t\ths.clientHello.supportedCurves = append(hs.clientHello.supportedCurves, CurveP256)\n\t\t\t\ths.clientHello.supportedPoints = append(hs.clientHello.supportedPoints, pointFormatUncompressed)\n\t\t\t}\n\t\t}\n\t}\n\n\tif hs.suite == nil {\n\t\tc.sendAlert(alertHandshakeFailure)\n\t\tstate.TlsHandshakeNoSharedCipherSuite.Inc(1)\n\t\treturn false, fmt.Errorf(\"tls: no cipher suite supported by both client and server: %v\",\n\t\t\ths.clientHello.cipherSuites)\n\t}\n\n\ths.validateHttp2Accepted()\n\treturn false, nil", New: "\tif err = hs.rejectInappropriateFallback(); err != nil {\n\t\treturn false, err\n\t}\n\n\tif hs.checkForResumption() {\n\t\treturn true, nil\n\t}\n\n\tvar preferenceList, supportedList []uint16\n\tif c.config.PreferServerCipherSuites {\n\t\tpreferenceList = c.config.cipherSuites()\n\t\tsupportedList = hs.clientHello.cipherSuites\n\t} else {\n\t\tpreferenceList = hs.clientHello.cipherSuites\n\t\tsupportedList = c.config.cipherSuites()\n\t}\n\n\tif c.config.PreferServerCipherSuites && len(c.config.CipherSuitesPriority) == len(preferenceList) {\n\t\t// Equivalent cipher suite negotiation\n\t\ths.suite = hs.negotiateEquivalentCipherSuites(supportedList, preferenceList)\n\t} else {\n\t\t// Normal cipher suite negotiation\n\t\tfor _, id := range preferenceList {\n\t\t\tif hs.suite, _ = c.tryCipherSuite(id, supportedList, c.vers,\n\t\t\t\ths.ellipticOk, hs.ecdsaOk, hs.chachaOk, hs.useRC4); hs.suite != nil {\n\t\t\t\tbreak\n\t\t\t}\n\t\t}\n\t}\n\n\t// no cipher suite supported by both client and server.\n\tif hs.suite == nil {\n\t\t// If client proposes ECDHE without ECC extensions, just try ECDHE cipher suite\n\t\t// and choose CurveP256 and Uncompressed point format for client.\n\t\t//\n\t\t// Note: A client that proposes ECC cipher suites may choose not to include\n\t\t// elliptic curves extension or elliptic point format extension. In this case,\n\t\t// the server is free to choose any one of the elliptic curves or point formats.\n\t\t//\n\t\t// For more information, see RFC 4492 Section 4\n\t\tellipticMayOk := hs.checkEllipticMayOk(supportedCurve, supportedPointFormat)\n\t\tif ellipticMayOk {\n\t\t\tfor _, id := range preferenceList {\n\t\t\t\tif !CheckSuiteECDHE(id) {\n\t\t\t\t\tcontinue\n\t\t\t\t}\n\t\t\t\tif hs.suite, _ = c.tryCipherSuite(id, supportedList, c.vers, true, hs.ecdsaOk, hs.chachaOk, hs.useRC4); hs.suite != nil {\n\t\t\t\t\tbreak\n\t\t\t\t}\n\t\t\t}\n\n\t\t\tif hs.suite != nil {\n\t\t\t\tstate.TlsHandshakeAcceptEcdheWithoutExt.Inc(1)\n\t\t\t\ths.clientHello.supportedCurves = append(hs.clientHello.supportedCurves, CurveP256)\n\t\t\t\ths.clientHello.supportedPoints = append(hs.clientHello.supportedPoints, pointFormatUncompressed)\n\t\t\t}\n\t\t}\n\t}\n\n\tif hs.suite == nil {\n\t\tc.sendAlert(alertHandshakeFailure)\n\t\tstate.TlsHandshakeNoSharedCipherSuite.Inc(1)\n\t\treturn false, fmt.Errorf(\"tls: no cipher suite supported by both client and server: %v\",\n\t\t\ths.clientHello.cipherSuites)\n\t}\n\n\ths.validateHttp2Accepted()\n\treturn false, nil\n}\n\n// rejectInappropriateFallback checks whether the client signals\n// TLS_FALLBACK_SCSV while offering a version lower than the highest version\n// enabled by the server. In that case an inappropriate_fallback alert is sent\n// and an error is returned.\nfunc (hs *serverHandshakeState) rejectInappropriateFallback() error {\n\tc := hs.c\n\tfor _, id := range hs.clientHello.cipherSuites {\n\t\tif id == TLS_FALLBACK_SCSV {\n\t\t\t// The client is doing a fallback connection.\n\t\t\tif hs.clientHello.vers < c.config.maxVersion() {\n\t\t\t\tc.sendAlert(alertInappropriateFallback)\n\t\t\t\treturn errors.New(\"tls: client using inppropriate protocol fallback\")\n\t\t\t}\n\t\t\tbreak\n\t\t}\n\t}\n\treturn nil"},
			{Name: "silent-min-version-predicate-helper-and-renamed-parameter", Silent: true, File: "bfe_tls/common.go", Old: "func (c *Config) mutualVersion(vers uint16) (uint16, bool) {\n\tminVersion := c.minVersion()\n\tmaxVersion := c.maxVersion()\n\n\tif vers < minVersion {\n\t\treturn 0, false\n\t}\n\tif vers > maxVersion {\n\t\tvers = maxVersion\n\t}\n\treturn vers, true\n}\n", New: "func (c *Config) versionEnabled(v uint16) bool {\n\treturn v >= c.minVersion()\n}\n\nfunc (c *Config) mutualVersion(peer uint16) (uint16, bool) {\n\thighest := c.maxVersion()\n\n\tif !c.versionEnabled(peer) {\n\t\treturn 0, false\n\t}\n\tchosen := peer\n\tif chosen > highest {\n\t\tchosen = highest\n\t}\n\treturn chosen, true\n}\n"},
			{Name: "silent-grade-chain-to-switch", Silent: true, File: "bfe_tls/common.go", Old: "\tif grade == GradeA && vers < VersionTLS10 {\n\t\treturn 0, false\n\t} else if grade == GradeAPlus && vers < VersionTLS12 { // ssl version older than tls1.2 is not allowed for Grade A+\n\t\treturn 0, false\n\t}\n", New: "\tswitch grade {\n\tcase GradeAPlus:\n\t\tif !(vers >= VersionTLS12) {\n\t\t\treturn 0, false\n\t\t}\n\tcase GradeA:\n\t\tif vers < VersionTLS10 {\n\t\t\treturn 0, false\n\t\t}\n\tdefault:\n\t}\n"},
			{Name: "silent-chacha-gate-named-boolean", Silent: true, File: "bfe_tls/handshake_server.go", Old: "\t\t\tif candidate.flags&suiteChacha20 != 0 && !chachaOk {\n\t\t\t\tcontinue\n\t\t\t}\n", New: "\t\t\tneedsChacha := candidate.flags&suiteChacha20 != 0\n\t\t\tchachaRefused := needsChacha && !chachaOk\n\t\t\tif chachaRefused == true {\n\t\t\t\tcontinue\n\t\t\t}\n"},
			{Name: "silent-rename-and-log", Silent: true, File: "bfe_tls/common.go", Old: "	minVersion := c.minVersion()\n	maxVersion := c.maxVersion()\n\n	if vers < minVersion {\n		return 0, false\n	}\n	if vers > maxVersion {\n		vers = maxVersion\n	}\n	return vers, true", New: "	lo := c.minVersion()\n	hi := c.maxVersion()\n\n	if !(vers >= lo) {\n		return 0, false\n	}\n	if hi < vers {\n		return hi, true\n	}\n	return vers, true"},
		},
	})
}

func runC41(c *core.Ctx) {
	if c.P.Pkg(tlsPkg) == nil {
		c.Missing(tlsPkg)
		return
	}
	fns := c.P.SrcFuncs(tlsPkg)
	c41RawReads(c, fns)
	c41Version(c)
	c41Suite(c, fns)
	c41TryCipherSuite(c)
	c41ALPN(c, fns)
	c41SCSV(c)
	c41Offer(c, fns)
}

// (a) E8: defaulted Config fields are read only by their accessor and Clone.
func c41RawReads(c *core.Ctx, fns []*ssa.Function) {
	table := []struct{ field, accessor string }{
		{"MinVersion", "minVersion"}, {"MaxVersion", "maxVersion"}, {"CipherSuites", "cipherSuites"},
		{"CurvePreferences", "curvePreferences"}, {"Rand", "rand"}, {"Time", "time"},
	}
	n := 0
	for _, row := range table {
		f := tlsField(c, "Config."+row.field)
		acc := c.P.Func(tlsPkg, "Config."+row.accessor)
		if acc == nil {
			c.Missing(tlsPkg + ".Config." + row.accessor)
		}
		if f == nil || acc == nil {
			continue
		}
		// the accessor must itself read the field and return a default when it is zero
		readsInAcc := 0
		count := map[string]int{}
		for _, in := range core.FieldReads(fns, f) {
			fn := in.Parent()
			k := core.FuncKey(fn)
			if fn == acc {
				readsInAcc++
				continue
			}
			count[k]++
			ok := k == tlsPkg+".Config.Clone"
			n++
			c.Check("raw-read", fmt.Sprintf("%s:Config.%s#%d", strings.TrimPrefix(k, tlsPkg+"."), row.field, count[k]), in.Pos(), ok,
				"Config."+row.field+" is read directly in "+k+"; when the field is left at its zero value the raw read yields 0/nil instead of the default that Config."+row.accessor+"() supplies")
		}
		c.Check("accessor", "Config."+row.accessor, acc.Pos(), readsInAcc > 0 && len(acc.Blocks) >= 2,
			"accessor Config."+row.accessor+" does not read Config."+row.field+" or has no defaulting branch")
	}
	c.Min("raw-read", 6) // 6 reads in Clone + 1 in readClientHello today
	c.Min("accessor", 6)
}

// (b) negotiated version.
func c41Version(c *core.Ctx) {
	versF := tlsField(c, "Conn.vers")
	chVers := tlsField(c, "clientHelloMsg.vers")
	shVers := tlsField(c, "serverHelloMsg.vers")
	gradeF := tlsField(c, "Conn.grade")
	rch := tlsFunc(c, "serverHandshakeState.readClientHello")
	mv := tlsFunc(c, "Config.mutualVersion")
	cvg := tlsFunc(c, "Config.checkVersionGrade")
	const mvName, cvgName = tlsPkg + ".Config.mutualVersion", tlsPkg + ".Config.checkVersionGrade"

	if rch != nil && versF != nil && chVers != nil && shVers != nil && gradeF != nil {
		var versStores []*ssa.Store
		var okVals []ssa.Value
		kinds := map[string]int{}
		for _, st := range core.FieldStores([]*ssa.Function{rch}, versF) {
			kind, ok, detail := "other", false, ""
			if call := tlsExtractOf(st.Store.Val, 0); call != nil && core.CallIs(&call.Call, mvName) && len(call.Call.Args) == 2 {
				kind = "mutualVersion"
				ok = tlsIsField(call.Call.Args[1], chVers)
				detail = "mutualVersion is applied to " + core.Render(call.Call.Args[1]) + ", expected the client hello's version"
				okVals = append(okVals, call)
			} else if call != nil && core.CallIs(&call.Call, cvgName) && len(call.Call.Args) == 3 {
				kind = "checkVersionGrade"
				ok = tlsIsField(call.Call.Args[1], versF) && tlsIsField(call.Call.Args[2], gradeF)
				detail = "checkVersionGrade is applied to (" + core.Render(call.Call.Args[1]) + ", " + core.Render(call.Call.Args[2]) + "), expected (c.vers, c.grade)"
				okVals = append(okVals, call)
			} else {
				detail = "Conn.vers is set to " + core.Render(st.Store.Val) + ", which is neither mutualVersion(clientHello.vers)#0 nor checkVersionGrade(c.vers, c.grade)#0"
			}
			kinds[kind]++
			versStores = append(versStores, st.Store)
			c.Check("vers-store", fmt.Sprintf("readClientHello:%s#%d", kind, kinds[kind]), st.Store.Pos(), ok, detail)
		}
		c.Check("vers-store", "readClientHello:both-steps", rch.Pos(), kinds["mutualVersion"] >= 1 && kinds["checkVersionGrade"] >= 1,
			"readClientHello must derive c.vers through mutualVersion and then checkVersionGrade")
		c.Min("vers-store", 3)
		// every success return is guarded by both ok results
		for _, r := range core.Returns(rch) {
			rv := core.RetVals(r)
			if len(rv) != 2 || !tlsIsNil(rv[1]) {
				continue
			}
			for _, call := range okVals {
				call := call.(*ssa.Call)
				name := "mutualVersion"
				if core.CallIs(&call.Call, cvgName) {
					name = "checkVersionGrade"
				}
				ok := tlsDomGuarded(r.Block(), func(f tlsFact) bool { return f.Pol && tlsExtractOf(f.V, 1) == call })
				c.Check("vers-ok-tested", "readClientHello:return-isResume="+core.Render(rv[0])+":"+name, r.Pos(), ok,
					"readClientHello returns success although the ok result of "+name+" was not established on this path; facts: "+tlsFactStrs(r.Block()))
			}
		}
		c.Min("vers-ok-tested", 4)
		// serverHello.vers = c.vers after the last c.vers store
		nh := 0
		for _, st := range core.FieldStores([]*ssa.Function{rch}, shVers) {
			nh++
			ok := tlsIsField(st.Store.Val, versF)
			for _, vs := range versStores {
				if !core.Dominates(vs, st.Store) {
					ok = false
				}
				if ld, isI := core.StripConv(st.Store.Val).(ssa.Instruction); isI && !core.Dominates(vs, ld) {
					ok = false
				}
			}
			c.Check("hello-vers", fmt.Sprintf("readClientHello:store#%d", nh), st.Store.Pos(), ok,
				"serverHello.vers is "+core.Render(st.Store.Val)+"; expected c.vers read after mutualVersion and checkVersionGrade")
		}
		c.Min("hello-vers", 1)
	}

	if mv != nil {
		vp := tlsParamAt(mv, 1) // the peer's version (by position: names are free)
		isVers := func(v ssa.Value) bool { return tlsIsParam(v, vp) }
		isMin := func(v ssa.Value) bool { return tlsCallOf(v, tlsPkg+".Config.minVersion") != nil }
		isMax := func(v ssa.Value) bool { return tlsCallOf(v, tlsPkg+".Config.maxVersion") != nil }
		n := 0
		for _, r := range core.Returns(mv) {
			rv := core.RetVals(r)
			if len(rv) != 2 {
				continue
			}
			if b, isK := tlsIsBoolConst(rv[1]); isK && !b {
				continue
			}
			n++
			key := fmt.Sprintf("mutualVersion:success#%d", n)
			okMin := tlsDomGuarded(r.Block(), func(f tlsFact) bool { return tlsHolds(f, isVers, isMin, token.GEQ, token.GTR, token.EQL) })
			c.Check("mv-min", key, r.Pos(), okMin, "mutualVersion reports ok without vers >= minVersion() being established; facts: "+tlsFactStrs(r.Block()))
			// value: maxVersion() or vers under vers <= maxVersion()
			okMax, detail := true, ""
			var check func(v ssa.Value, at *ssa.BasicBlock, edgeFrom *ssa.BasicBlock, seen map[ssa.Value]bool)
			check = func(v ssa.Value, at, edgeFrom *ssa.BasicBlock, seen map[ssa.Value]bool) {
				if seen[v] {
					return
				}
				seen[v] = true
				if phi, ok := v.(*ssa.Phi); ok {
					for i, e := range phi.Edges {
						check(e, phi.Block(), phi.Block().Preds[i], seen)
					}
					return
				}
				switch {
				case isMax(v):
				case isVers(v):
					want := func(f tlsFact) bool { return tlsHolds(f, isVers, isMax, token.LEQ, token.LSS, token.EQL) }
					ok := false
					if edgeFrom != nil {
						if bf, has := tlsBranch(edgeFrom, at); has && want(bf) {
							ok = true
						}
						if !ok {
							ok = tlsDomGuarded(edgeFrom, want)
						}
					} else {
						ok = tlsDomGuarded(at, want)
					}
					if !ok {
						okMax, detail = false, "vers is returned without vers <= maxVersion() being established"
					}
				default:
					okMax, detail = false, "returns "+core.Render(v)+", which is neither the peer's version nor maxVersion()"
				}
			}
			check(rv[0], r.Block(), nil, map[ssa.Value]bool{})
			c.Check("mv-max", key, r.Pos(), okMax, "mutualVersion: "+detail)
		}
		c.Min("mv-min", 1)
		c.Min("mv-max", 1)
	}

	if cvg != nil {
		vp, gp := tlsParamAt(cvg, 1), tlsParamAt(cvg, 2)
		tls10, ok10 := tlsPkgConst(c, "VersionTLS10")
		tls12, ok12 := tlsPkgConst(c, "VersionTLS12")
		gradeConst := func(name string) (string, bool) {
			k, ok := c.P.Obj(tlsPkg, name).(*types.Const)
			if !ok {
				c.Missing(tlsPkg + "." + name)
				return "", false
			}
			return k.Val().ExactString(), true
		}
		gA, okA := gradeConst("GradeA")
		gAP, okAP := gradeConst("GradeAPlus")
		n := 0
		if ok10 && ok12 && okA && okAP {
			for _, r := range core.Returns(cvg) {
				rv := core.RetVals(r)
				if len(rv) != 2 {
					continue
				}
				if b, isK := tlsIsBoolConst(rv[1]); isK && !b {
					continue
				}
				n++
				key := fmt.Sprintf("checkVersionGrade:success#%d", n)
				c.Check("grade-value", key, r.Pos(), tlsIsParam(rv[0], vp), "checkVersionGrade returns "+core.Render(rv[0])+" as the version; it must return its argument unchanged (it only filters)")
				for _, g := range []struct {
					name, grade string
					min         int64
				}{{"A", gA, tls10}, {"A+", gAP, tls12}} {
					g := g
					want := func(f tlsFact) bool {
						// grade != G   or   vers >= min
						x, y, op, ok := tlsRel(f)
						if !ok {
							return false
						}
						isG := func(v ssa.Value) bool {
							k, ok := core.StripConv(v).(*ssa.Const)
							return ok && k.Value != nil && k.Value.ExactString() == g.grade
						}
						if op == token.NEQ && ((tlsIsParam(x, gp) && isG(y)) || (tlsIsParam(y, gp) && isG(x))) {
							return true
						}
						// grade == "some other constant" (a `switch grade` arm) excludes G as well
						isOtherK := func(v ssa.Value) bool {
							k, ok := core.StripConv(v).(*ssa.Const)
							return ok && k.Value != nil && k.Value.Kind() == constant.String && k.Value.ExactString() != g.grade
						}
						if op == token.EQL && ((tlsIsParam(x, gp) && isOtherK(y)) || (tlsIsParam(y, gp) && isOtherK(x))) {
							return true
						}
						isV := func(v ssa.Value) bool { return tlsIsParam(v, vp) }
						isM := func(v ssa.Value) bool { n, ok := tlsConstInt(v); return ok && n >= g.min }
						return tlsHolds(f, isV, isM, token.GEQ, token.GTR, token.EQL)
					}
					c.Check("grade-gate", key+":"+g.name, r.Pos(), tlsDomGuarded(r.Block(), want),
						fmt.Sprintf("checkVersionGrade accepts a version for grade %s without vers >= %#x being established on the grade-%s path; facts: %s", g.name, g.min, g.name, tlsFactStrs(r.Block())))
				}
			}
		}
		c.Min("grade-value", 1)
		c.Min("grade-gate", 2)
	}
}

// c41ListClass classifies a cipher-suite list value.
func c41ListClass(c *core.Ctx, v ssa.Value, chSuites *types.Var) string {
	v = core.StripConv(v)
	if tlsIsField(v, chSuites) {
		return "client"
	}
	if tlsCallOf(v, tlsPkg+".Config.cipherSuites") != nil {
		return "server"
	}
	return "other:" + core.Render(v)
}

// c41Pairs resolves (list the id is drawn from, supported list) to the set of
// concrete (class, class) pairs over correlated phi edges and call sites.
func c41Pairs(c *core.Ctx, idList, sup ssa.Value, fn *ssa.Function, fns []*ssa.Function, chSuites *types.Var, depth int) [][2]string {
	if depth > 4 {
		return [][2]string{{"unresolved", "unresolved"}}
	}
	idList, sup = core.StripConv(idList), core.StripConv(sup)
	p1, isPhi1 := idList.(*ssa.Phi)
	p2, isPhi2 := sup.(*ssa.Phi)
	if isPhi1 || isPhi2 {
		var blk *ssa.BasicBlock
		if isPhi1 {
			blk = p1.Block()
		} else {
			blk = p2.Block()
		}
		if isPhi1 && isPhi2 && p1.Block() != p2.Block() {
			return [][2]string{{"unresolved:phis in different blocks", "unresolved"}}
		}
		var out [][2]string
		for i := range blk.Preds {
			a, b := idList, sup
			if isPhi1 {
				a = p1.Edges[i]
			}
			if isPhi2 {
				b = p2.Edges[i]
			}
			out = append(out, c41Pairs(c, a, b, fn, fns, chSuites, depth+1)...)
		}
		return out
	}
	pa, isPar1 := idList.(*ssa.Parameter)
	pb, isPar2 := sup.(*ssa.Parameter)
	if isPar1 || isPar2 {
		idx := func(p *ssa.Parameter) int {
			for i, q := range fn.Params {
				if q == p {
					return i
				}
			}
			return -1
		}
		sites := tlsStaticCallers(fns, fn)
		if len(sites) == 0 {
			return [][2]string{{"unresolved:no call site of " + core.FuncKey(fn), "unresolved"}}
		}
		var out [][2]string
		for _, s := range sites {
			a, b := idList, sup
			args := s.Common().Args
			if isPar1 && idx(pa) >= 0 && idx(pa) < len(args) {
				a = args[idx(pa)]
			}
			if isPar2 && idx(pb) >= 0 && idx(pb) < len(args) {
				b = args[idx(pb)]
			}
			out = append(out, c41Pairs(c, a, b, s.Parent(), fns, chSuites, depth+1)...)
		}
		return out
	}
	return [][2]string{{c41ListClass(c, idList, chSuites), c41ListClass(c, sup, chSuites)}}
}

// (c) the selected suite.
func c41Suite(c *core.Ctx, fns []*ssa.Function) {
	suiteF := tlsField(c, "serverHandshakeState.suite")
	chSuites := tlsField(c, "clientHelloMsg.cipherSuites")
	versF := tlsField(c, "Conn.vers")
	ssSuite := tlsField(c, "sessionState.cipherSuite")
	ssVers := tlsField(c, "sessionState.vers")
	try := tlsFunc(c, "Conn.tryCipherSuite")
	if suiteF == nil || chSuites == nil || versF == nil || try == nil || ssSuite == nil || ssVers == nil {
		return
	}
	const tryName = tlsPkg + ".Conn.tryCipherSuite"
	// value is result #0 of tryCipherSuite, possibly through a helper's returns
	var fromTry func(v ssa.Value, depth int) (bool, string)
	fromTry = func(v ssa.Value, depth int) (bool, string) {
		for _, leaf := range tlsPhiLeaves(v) {
			if tlsIsNil(leaf) {
				continue
			}
			if call := tlsExtractOf(leaf, 0); call != nil && core.CallIs(&call.Call, tryName) {
				continue
			}
			if call, ok := core.StripConv(leaf).(*ssa.Call); ok && depth < 2 {
				if cal := call.Call.StaticCallee(); cal != nil && cal.Blocks != nil && core.FuncPkgRel(cal) == tlsPkg {
					c.Analysed(core.FuncKey(cal))
					for _, r := range core.Returns(cal) {
						rv := core.RetVals(r)
						if len(rv) != 1 {
							return false, core.FuncKey(cal) + " does not return a single suite"
						}
						if ok, why := fromTry(rv[0], depth+1); !ok {
							return false, "through " + core.FuncKey(cal) + ": " + why
						}
					}
					continue
				}
			}
			return false, core.Render(leaf) + " is not a result of tryCipherSuite"
		}
		return true, ""
	}
	ord := map[string]int{}
	for _, st := range core.FieldStores(fns, suiteF) {
		k := strings.TrimPrefix(core.FuncKey(st.Fn), tlsPkg+".")
		ord[k]++
		ok, why := fromTry(st.Store.Val, 0)
		c.Check("suite-source", fmt.Sprintf("%s:store#%d", k, ord[k]), st.Store.Pos(), ok,
			"serverHandshakeState.suite is set to a value that did not pass tryCipherSuite: "+why)
	}
	c.Min("suite-source", 4)
	// every tryCipherSuite call site
	ord = map[string]int{}
	for _, site := range tlsStaticCallers(fns, try) {
		fn := site.Parent()
		k := strings.TrimPrefix(core.FuncKey(fn), tlsPkg+".")
		ord[k]++
		key := fmt.Sprintf("%s:try#%d", k, ord[k])
		args := site.Common().Args
		if len(args) != 8 {
			c.Check("suite-lists", key, site.Pos(), false, "unexpected arity of tryCipherSuite")
			continue
		}
		id, sup, vers := args[1], args[2], args[3]
		if tlsIsField(id, ssSuite) {
			// resumption: the stored suite against the server's list (client offer is checked under C44)
			cls := c41ListClass(c, sup, chSuites)
			c.Check("suite-lists", key, site.Pos(), cls == "server", "resumption re-validates the session's suite against "+cls+", expected config.cipherSuites()")
			c.Check("suite-version", key, site.Pos(), tlsIsField(vers, ssVers) || tlsIsField(vers, versF), "version passed to tryCipherSuite is "+core.Render(vers)+", expected the session's / connection's version")
			continue
		}
		list, isElem := tlsElemOf(id)
		if !isElem {
			c.Check("suite-lists", key, site.Pos(), false, "candidate id "+core.Render(id)+" is not an element of a cipher-suite list")
			continue
		}
		pairs := c41Pairs(c, list, sup, fn, fns, chSuites, 0)
		var bad []string
		for _, p := range pairs {
			if !((p[0] == "client" && p[1] == "server") || (p[0] == "server" && p[1] == "client")) {
				bad = append(bad, "("+p[0]+", "+p[1]+")")
			}
		}
		sort.Strings(bad)
		c.Check("suite-lists", key, site.Pos(), len(pairs) > 0 && len(bad) == 0,
			"tryCipherSuite must test an id from one of {client's offer, server's list} against the other; found pairing(s) (id source, supported) = "+strings.Join(bad, " "))
		c.Check("suite-version", key, site.Pos(), tlsIsField(vers, versF), "version passed to tryCipherSuite is "+core.Render(vers)+", expected the negotiated c.vers")
	}
	c.Min("suite-lists", 4)
	c.Min("suite-version", 4)
	// what is announced and recorded is the validated suite
	csID := tlsField(c, "cipherSuite.id")
	shSuite := tlsField(c, "serverHelloMsg.cipherSuite")
	connSuite := tlsField(c, "Conn.cipherSuite")
	if csID == nil || shSuite == nil || connSuite == nil {
		return
	}
	ord = map[string]int{}
	for _, fn := range fns {
		recv := fn.Signature.Recv()
		if recv == nil || !strings.HasSuffix(core.TypeStr(recv.Type()), "serverHandshakeState") {
			continue
		}
		for _, f := range []*types.Var{shSuite, connSuite} {
			for _, st := range core.FieldStores([]*ssa.Function{fn}, f) {
				k := strings.TrimPrefix(core.FuncKey(fn), tlsPkg+".serverHandshakeState.")
				ord[k+f.Name()]++
				g, base := tlsFieldOf(st.Store.Val)
				c.Check("suite-use", fmt.Sprintf("%s:%s#%d", k, f.Name(), ord[k+f.Name()]), st.Store.Pos(), g == csID && tlsIsField(base, suiteF),
					"the server announces / records cipher suite "+core.Render(st.Store.Val)+"; expected hs.suite.id, the suite that passed tryCipherSuite")
			}
		}
	}
	c.Min("suite-use", 3)
}

// tryCipherSuite's own gates.
func c41TryCipherSuite(c *core.Ctx) {
	try := tlsFunc(c, "Conn.tryCipherSuite")
	csID := tlsField(c, "cipherSuite.id")
	csFlags := tlsField(c, "cipherSuite.flags")
	if try == nil || csID == nil || csFlags == nil {
		return
	}
	// (c, id, supported, version, ellipticOk, ecdsaOk, chachaOk, useRC4) by position
	idP, supP := tlsParamAt(try, 1), tlsParamAt(try, 2)
	versP := tlsParamAt(try, 3)
	tryParam := map[string]*ssa.Parameter{"ellipticOk": tlsParamAt(try, 4), "ecdsaOk": tlsParamAt(try, 5), "chachaOk": tlsParamAt(try, 6), "useRC4": tlsParamAt(try, 7)}
	if idP == nil || supP == nil || versP == nil || len(try.Params) != 8 {
		c.Missing(tlsPkg + ".Conn.tryCipherSuite parameters (id, supportedCipherSuites, version)")
		return
	}
	consts := map[string]int64{}
	for _, n := range []string{"suiteECDHE", "suiteECDSA", "suiteTLS12", "suiteChacha20", "suiteRC4", "VersionTLS12", "disableRC4", "onlyRC4"} {
		v, ok := tlsPkgConst(c, n)
		if !ok {
			return
		}
		consts[n] = v
	}
	var table *ssa.Global
	if sp := c.P.SPkg[tlsPkg]; sp != nil {
		table = sp.Var("cipherSuites")
	}
	if table == nil {
		c.Missing(tlsPkg + ".cipherSuites")
		return
	}
	n := 0
	for _, r := range core.Returns(try) {
		rv := core.RetVals(r)
		if len(rv) != 2 || tlsIsNil(rv[0]) {
			continue
		}
		n++
		key := fmt.Sprintf("tryCipherSuite:success#%d", n)
		ret := rv[0]
		isID := func(v ssa.Value) bool { return tlsIsParam(v, idP) }
		// id == supported[i]
		c.Check("try-member", key, r.Pos(), tlsDomGuarded(r.Block(), func(f tlsFact) bool {
			return tlsHolds(f, isID, func(v ssa.Value) bool {
				l, ok := tlsElemOf(v)
				return ok && tlsIsParam(l, supP)
			}, token.EQL)
		}), "tryCipherSuite returns a suite without id == supportedCipherSuites[i] being established; facts: "+tlsFactStrs(r.Block()))
		// candidate comes from the implemented-suites table with candidate.id == id
		okCand, why := true, ""
		nonNil := 0
		var visit func(v ssa.Value, at, from *ssa.BasicBlock, seen map[ssa.Value]bool)
		visit = func(v ssa.Value, at, from *ssa.BasicBlock, seen map[ssa.Value]bool) {
			if seen[v] {
				return
			}
			seen[v] = true
			if phi, ok := v.(*ssa.Phi); ok {
				for i, e := range phi.Edges {
					visit(e, phi.Block(), phi.Block().Preds[i], seen)
				}
				return
			}
			if tlsIsNil(v) {
				return
			}
			nonNil++
			l, isElem := tlsElemOf(v)
			if isElem {
				if a, ok := tlsLoad(core.StripConv(l)); !ok || a != ssa.Value(table) {
					isElem = false
				}
			}
			if !isElem {
				okCand, why = false, "candidate "+core.Render(v)+" is not an element of the cipherSuites table"
				return
			}
			want := func(f tlsFact) bool {
				return tlsHolds(f, isID, func(x ssa.Value) bool {
					fl, base := tlsFieldOf(x)
					return fl == csID && base == v
				}, token.EQL)
			}
			ok := false
			if from != nil {
				if bf, has := tlsBranch(from, at); has && want(bf) {
					ok = true
				}
				ok = ok || tlsDomGuarded(from, want)
			} else {
				ok = tlsDomGuarded(at, want)
			}
			if !ok {
				okCand, why = false, "candidate "+core.Render(v)+" is chosen without candidate.id == id"
			}
		}
		visit(ret, r.Block(), nil, map[ssa.Value]bool{})
		if nonNil == 0 {
			okCand, why = false, "no table element flows to the returned suite"
		}
		if _, isPhi := ret.(*ssa.Phi); isPhi {
			// a phi with a nil edge: non-nil must be established
			if !tlsDomGuarded(r.Block(), func(f tlsFact) bool {
				x, y, op, ok := tlsRel(f)
				return ok && op == token.NEQ && ((x == ret && tlsIsNil(y)) || (y == ret && tlsIsNil(x)))
			}) {
				for _, l := range tlsPhiLeaves(ret) {
					if tlsIsNil(l) {
						okCand, why = false, "the returned candidate may be nil"
					}
				}
			}
		}
		c.Check("try-candidate", key, r.Pos(), okCand, "tryCipherSuite: "+why)
		// capability gates
		flagTest := func(v ssa.Value, mask int64) (nonzero bool, ok bool) {
			b, isB := v.(*ssa.BinOp)
			if !isB || (b.Op != token.NEQ && b.Op != token.EQL) {
				return false, false
			}
			and, z := b.X, b.Y
			if _, isK := tlsConstInt(and); isK {
				and, z = z, and
			}
			if zero, isK := tlsConstInt(z); !isK || zero != 0 {
				return false, false
			}
			ab, isB := and.(*ssa.BinOp)
			if !isB || ab.Op != token.AND {
				return false, false
			}
			fl, m := ab.X, ab.Y
			if _, isK := tlsConstInt(fl); isK {
				fl, m = m, fl
			}
			mv, isK := tlsConstInt(m)
			if !isK || mv != mask {
				return false, false
			}
			fo, base := tlsFieldOf(fl)
			if fo != csFlags || base != ret {
				return false, false
			}
			return b.Op == token.NEQ, true
		}
		// flagSet(f, mask): the fact tells whether the flag is set (true/false), ok
		flagSet := func(f tlsFact, mask int64) (set bool, ok bool) {
			nz, ok := flagTest(f.V, mask)
			if !ok {
				return false, false
			}
			return nz == f.Pol, true
		}
		boolParam := func(f tlsFact, name string, pol bool) bool {
			return tlsIsParam(f.V, tryParam[name]) && f.Pol == pol
		}
		useRC4Not := func(f tlsFact, k int64) bool {
			return tlsHolds(f, func(v ssa.Value) bool { return tlsIsParam(v, tryParam["useRC4"]) },
				func(v ssa.Value) bool { n, ok := tlsConstInt(v); return ok && n == k }, token.NEQ)
		}
		gates := []struct {
			name string
			want func(tlsFact) bool
			msg  string
		}{
			{"ecdhe", func(f tlsFact) bool {
				if s, ok := flagSet(f, consts["suiteECDHE"]); ok && !s {
					return true
				}
				return boolParam(f, "ellipticOk", true)
			}, "an ECDHE suite is returned although ellipticOk is false"},
			{"ecdsa", func(f tlsFact) bool {
				// (flags&ECDSA != 0) == ecdsaOk
				x, y, op, ok := tlsRel(f)
				if !ok || (op != token.EQL) {
					return false
				}
				ep := tryParam["ecdsaOk"]
				for _, pr := range [][2]ssa.Value{{x, y}, {y, x}} {
					if nz, ok := flagTest(pr[0], consts["suiteECDSA"]); ok && nz && tlsIsParam(pr[1], ep) {
						return true
					}
				}
				return false
			}, "the suite's ECDSA flag is not required to match the certificate's key type (ecdsaOk)"},
			{"tls12", func(f tlsFact) bool {
				if s, ok := flagSet(f, consts["suiteTLS12"]); ok && !s {
					return true
				}
				return tlsHolds(f, func(v ssa.Value) bool { return tlsIsParam(v, versP) },
					func(v ssa.Value) bool { n, ok := tlsConstInt(v); return ok && n >= consts["VersionTLS12"] }, token.GEQ, token.GTR, token.EQL)
			}, "a TLS1.2-only suite is returned for a version below TLS1.2"},
			{"chacha20", func(f tlsFact) bool {
				if s, ok := flagSet(f, consts["suiteChacha20"]); ok && !s {
					return true
				}
				return boolParam(f, "chachaOk", true)
			}, "a ChaCha20 suite is returned although the connection's rule does not enable it (chachaOk)"},
			{"rc4-disabled", func(f tlsFact) bool {
				if s, ok := flagSet(f, consts["suiteRC4"]); ok && !s {
					return true
				}
				return useRC4Not(f, consts["disableRC4"])
			}, "an RC4 suite is returned although the grade disables RC4"},
			{"rc4-only", func(f tlsFact) bool {
				if s, ok := flagSet(f, consts["suiteRC4"]); ok && s {
					return true
				}
				return useRC4Not(f, consts["onlyRC4"])
			}, "a non-RC4 suite is returned although the grade allows only RC4 (SSLv3 POODLE proofing)"},
		}
		for _, g := range gates {
			c.Check("try-gate", "tryCipherSuite:"+g.name+fmt.Sprintf("#%d", n), r.Pos(), tlsDomGuarded(r.Block(), g.want), g.msg+"; facts: "+tlsFactStrs(r.Block()))
		}
	}
	c.Min("try-member", 1)
	c.Min("try-candidate", 1)
	c.Min("try-gate", 6)
}

// (d) ALPN.
func c41ALPN(c *core.Ctx, fns []*ssa.Function) {
	alpnF := tlsField(c, "serverHelloMsg.alpnProtocol")
	chALPN := tlsField(c, "clientHelloMsg.alpnProtocols")
	cfgNP := tlsField(c, "Config.NextProtos")
	ruleNP := tlsField(c, "Rule.NextProtos")
	mp := tlsFunc(c, "mutualProtocol")
	if alpnF == nil || chALPN == nil || cfgNP == nil || ruleNP == nil || mp == nil {
		return
	}
	const mpName = tlsPkg + ".mutualProtocol"
	serverSide := map[string]bool{}
	for _, fn := range fns {
		if fn.Signature.Recv() != nil && strings.HasSuffix(core.TypeStr(fn.Signature.Recv().Type()), "serverHandshakeState") {
			serverSide[core.FuncKey(fn)] = true
		}
	}
	ord := map[string]int{}
	for _, st := range core.FieldStores(fns, alpnF) {
		fk := core.FuncKey(st.Fn)
		k := strings.TrimPrefix(fk, tlsPkg+".")
		if !serverSide[fk] {
			if strings.HasSuffix(k, "serverHelloMsg.unmarshal") {
				continue // parsing a peer's ServerHello (client side)
			}
		}
		ord[k]++
		key := fmt.Sprintf("%s:store#%d", k, ord[k])
		okAll, why := true, ""
		for _, leaf := range tlsPhiLeaves(st.Store.Val) {
			if s, isStr := core.ConstString(leaf); isStr && s == "" {
				continue // no protocol selected
			}
			if l, isElem := tlsElemOf(leaf); isElem && tlsIsField(l, chALPN) {
				continue // one of the client's own offers
			}
			call := tlsExtractOf(leaf, 0)
			if call == nil || !core.CallIs(&call.Call, mpName) || len(call.Call.Args) != 2 {
				okAll, why = false, "value "+core.Render(leaf)+" is neither mutualProtocol's choice nor one of the client's offers: the client may not have offered it"
				continue
			}
			okArgs := tlsIsField(call.Call.Args[0], chALPN)
			for _, a := range tlsPhiLeaves(call.Call.Args[1]) {
				if tlsIsField(a, cfgNP) {
					continue
				}
				if cl, ok := core.StripConv(a).(*ssa.Call); ok && cl.Call.IsInvoke() && cl.Call.Method.Name() == "Get" && tlsIsField(cl.Call.Value, ruleNP) {
					continue
				}
				okArgs = false
			}
			guard := tlsDomGuarded(st.Store.Block(), func(f tlsFact) bool { return !f.Pol && tlsExtractOf(f.V, 1) == call })
			if !okArgs || !guard {
				okAll, why = false, fmt.Sprintf("mutualProtocol(%s, %s)#0 must be taken only when fallback (#1) is false and from (clientHello.alpnProtocols, config/rule NextProtos); guarded=%v args-ok=%v", core.Render(call.Call.Args[0]), core.Render(call.Call.Args[1]), guard, okArgs)
			}
		}
		c.Check("alpn-store", key, st.Store.Pos(), okAll, "serverHello.alpnProtocol: "+why)
	}
	c.Min("alpn-store", 2)
	// mutualProtocol's non-fallback returns
	cp, sp := tlsParamAt(mp, 0), tlsParamAt(mp, 1)
	n := 0
	for _, r := range core.Returns(mp) {
		rv := core.RetVals(r)
		if len(rv) != 2 {
			continue
		}
		if b, isK := tlsIsBoolConst(rv[1]); isK && b {
			continue
		}
		n++
		elemOf := func(p *ssa.Parameter) func(ssa.Value) bool {
			return func(v ssa.Value) bool { l, ok := tlsElemOf(v); return ok && tlsIsParam(l, p) }
		}
		isRet := func(v ssa.Value) bool { return v == rv[0] }
		ok := tlsDomGuarded(r.Block(), func(f tlsFact) bool {
			x, y, op, isRel := tlsRel(f)
			if !isRel || op != token.EQL || !(isRet(x) || isRet(y)) {
				return false
			}
			return (elemOf(cp)(x) && elemOf(sp)(y)) || (elemOf(sp)(x) && elemOf(cp)(y))
		})
		c.Check("alpn-mutual", fmt.Sprintf("mutualProtocol:nonfallback#%d", n), r.Pos(), ok,
			"mutualProtocol returns "+core.Render(rv[0])+" as a mutual choice without s == c for an element of each list; facts: "+tlsFactStrs(r.Block()))
	}
	c.Min("alpn-mutual", 1)
}

// (e) TLS_FALLBACK_SCSV. The scan may live in readClientHello or in a private
// helper of it (readClientHello's region): the refusal is then followed through
// the helper's error result to the caller's test of it, and "on every success
// path" is decided at the helper's call site.
func c41SCSV(c *core.Ctx) {
	rch := tlsFunc(c, "serverHandshakeState.readClientHello")
	chSuites := tlsField(c, "clientHelloMsg.cipherSuites")
	chVers := tlsField(c, "clientHelloMsg.vers")
	scsv, ok := tlsPkgConst(c, "TLS_FALLBACK_SCSV")
	if rch == nil || chSuites == nil || chVers == nil || !ok {
		return
	}
	isOKRet := func(in ssa.Instruction) bool {
		r, ok := in.(*ssa.Return)
		if !ok || in.Block() == rch.Recover {
			return false
		}
		rv := core.RetVals(r)
		return len(rv) == 2 && tlsIsNil(rv[1])
	}
	var scans []*ssa.BinOp
	var loads []ssa.Instruction
	c.P.RegionInstrs(rch, func(in ssa.Instruction) {
		b, ok := in.(*ssa.BinOp)
		if !ok || (b.Op != token.EQL && b.Op != token.NEQ) {
			return
		}
		for _, pr := range [][2]ssa.Value{{b.X, b.Y}, {b.Y, b.X}} {
			if k, isK := tlsConstInt(pr[1]); isK && k == scsv {
				if l, isElem := tlsElemOf(pr[0]); isElem && tlsIsField(l, chSuites) {
					scans = append(scans, b)
					if li, ok := core.StripConv(l).(ssa.Instruction); ok {
						loads = append(loads, li)
					}
				}
			}
		}
	})
	c.Check("scsv-scan", "readClientHello", rch.Pos(), len(scans) >= 1, "no comparison of an element of clientHello.cipherSuites with TLS_FALLBACK_SCSV in readClientHello (or a private helper of it)")
	c.Min("scsv-scan", 1)
	if len(scans) == 0 {
		return
	}
	scan := scans[0]
	sf := scan.Parent() // readClientHello or a private helper
	if sf != rch {
		c.Analysed(core.FuncKey(sf))
	}
	// the block entered when the SCSV is present
	var hit *ssa.BasicBlock
	if ifi, ok := scan.Block().Instrs[len(scan.Block().Instrs)-1].(*ssa.If); ok && ifi.Cond == ssa.Value(scan) {
		hit = scan.Block().Succs[0]
		if scan.Op == token.NEQ {
			hit = scan.Block().Succs[1]
		}
	}
	if hit == nil {
		c.Check("scsv-bound", "readClientHello", scan.Pos(), false, "the SCSV comparison does not directly control a branch")
		return
	}
	// comparison clientHello.vers < X reachable from hit
	var cmp *ssa.BinOp
	var bound ssa.Value
	visit := map[*ssa.BasicBlock]bool{}
	var walk func(b *ssa.BasicBlock)
	walk = func(b *ssa.BasicBlock) {
		if visit[b] || cmp != nil {
			return
		}
		visit[b] = true
		for _, in := range b.Instrs {
			if bo, ok := in.(*ssa.BinOp); ok {
				switch bo.Op {
				case token.LSS, token.GTR, token.LEQ, token.GEQ:
					if tlsIsField(bo.X, chVers) {
						cmp, bound = bo, bo.Y
						return
					}
					if tlsIsField(bo.Y, chVers) {
						cmp, bound = bo, bo.X
						return
					}
				}
			}
		}
		for _, s := range b.Succs {
			if s != scan.Block() && !s.Dominates(scan.Block()) {
				walk(s)
			}
		}
	}
	walk(hit)
	if cmp == nil {
		c.Check("scsv-bound", "readClientHello", scan.Pos(), false, "when TLS_FALLBACK_SCSV is present no comparison of clientHello.vers with the server's highest version follows")
		return
	}
	c.Check("scsv-bound", "readClientHello", cmp.Pos(), tlsCallOf(bound, tlsPkg+".Config.maxVersion") != nil,
		"the fallback test compares clientHello.vers with "+core.Render(bound)+"; expected config.maxVersion(): with MaxVersion left at its default (0) the raw field makes `vers < 0` false and every fallback is accepted")
	// the "below" branch only reaches refusals
	var below *ssa.BasicBlock
	if ifi, ok := cmp.Block().Instrs[len(cmp.Block().Instrs)-1].(*ssa.If); ok && ifi.Cond == ssa.Value(cmp) {
		// which successor means vers < bound ?
		less := (cmp.Op == token.LSS && tlsIsField(cmp.X, chVers)) || (cmp.Op == token.GTR && tlsIsField(cmp.Y, chVers))
		geq := (cmp.Op == token.GEQ && tlsIsField(cmp.X, chVers)) || (cmp.Op == token.LEQ && tlsIsField(cmp.Y, chVers))
		switch {
		case less:
			below = cmp.Block().Succs[0]
		case geq:
			below = cmp.Block().Succs[1]
		}
	}
	// refuses(fn, b): entering block b of fn, readClientHello cannot return
	// success any more. In readClientHello: no success return is reachable. In
	// a private helper: every reachable return carries a non-nil error in one
	// result position, and at every call site that result is tested against
	// nil with the error edge refusing in the caller.
	var refuses func(fn *ssa.Function, b *ssa.BasicBlock, depth int) bool
	refuses = func(fn *ssa.Function, b *ssa.BasicBlock, depth int) bool {
		if fn == rch {
			return !tlsBlockReaches(rch, b, isOKRet)
		}
		if depth > 3 {
			return false
		}
		var rets []*ssa.Return
		for _, r := range core.Returns(fn) {
			r := r
			if tlsBlockReaches(fn, b, func(in ssa.Instruction) bool { return in == ssa.Instruction(r) }) {
				rets = append(rets, r)
			}
		}
		res := fn.Signature.Results()
		for i := 0; i < res.Len(); i++ {
			if !types.Identical(res.At(i).Type(), types.Universe.Lookup("error").Type()) {
				continue
			}
			always := true
			for _, r := range rets {
				rv := core.RetVals(r)
				if i >= len(rv) || tlsIsNil(rv[i]) {
					always = false
					continue
				}
				if _, isMk := rv[i].(*ssa.MakeInterface); !isMk {
					if _, isCall := rv[i].(*ssa.Call); !isCall {
						always = false // a variable that may be nil
					}
				}
			}
			if !always {
				continue
			}
			sites := c.P.CallSites(fn)
			okSites := len(sites) > 0
			for _, site := range sites {
				call, isCall := site.(*ssa.Call)
				if !isCall {
					okSites = false
					break
				}
				caller := call.Parent()
				isErr := func(v ssa.Value) bool {
					v = tlsStoredValue(v) // `err = helper()` with err living in memory (named result, captured)
					if res.Len() == 1 {
						return v == ssa.Value(call)
					}
					return tlsExtractOf(v, i) == call
				}
				tested := false
				for _, x := range tlsInstrs(caller) {
					ifi, isIf := x.(*ssa.If)
					if !isIf {
						continue
					}
					a, bb, op, isRel := tlsRel(tlsNorm(ifi.Cond, true))
					if !isRel || (op != token.NEQ && op != token.EQL) || !((isErr(a) && tlsIsNil(bb)) || (isErr(bb) && tlsIsNil(a))) {
						continue
					}
					errSucc := ifi.Block().Succs[0]
					if op == token.EQL {
						errSucc = ifi.Block().Succs[1]
					}
					// the test is the only way on from the call, and its error edge refuses
					isExit := func(y ssa.Instruction) bool { return core.IsReturn(y) }
					bypass := core.ReachAvoiding(caller, call, func(y ssa.Instruction) bool { return y == ssa.Instruction(ifi) }, isExit)
					if bypass == nil && refuses(caller, errSucc, depth+1) {
						tested = true
					}
				}
				if !tested {
					okSites = false
				}
			}
			if okSites {
				return true
			}
		}
		return false
	}
	if below == nil {
		c.Check("scsv-refuse", "readClientHello", cmp.Pos(), false, "the comparison clientHello.vers < highest version does not control a branch in the strict form")
	} else {
		c.Check("scsv-refuse", "readClientHello", cmp.Pos(), refuses(sf, below, 0),
			"with TLS_FALLBACK_SCSV present and clientHello.vers below the server's highest version a success return is still reachable: the fallback is not refused")
	}
	c.Min("scsv-bound", 1)
	c.Min("scsv-refuse", 1)
	// the scan lies on every path to a success return. When the scan lives in
	// a helper, the helper's call (followed outwards to readClientHello) must
	// dominate the return and the scan must lie on every path through the helper.
	var anchor ssa.Instruction // instruction of readClientHello that performs the scan
	inHelperOK := true
	if sf != rch {
		dominatesAll := func(in ssa.Instruction, fn *ssa.Function) bool {
			for _, r := range core.Returns(fn) {
				if !core.Dominates(in, r) {
					return false
				}
			}
			return true
		}
		ok := false
		for _, l := range loads {
			if l.Parent() == sf && dominatesAll(l, sf) {
				ok = true
			}
		}
		if len(scan.Block().Instrs) > 0 && dominatesAll(scan.Block().Instrs[0], sf) {
			ok = true
		}
		inHelperOK = ok
		f := sf
		for depth := 0; depth < 4 && f != rch; depth++ {
			sites := c.P.CallSites(f)
			if len(sites) != 1 {
				inHelperOK = false
				break
			}
			site := sites[0].(ssa.Instruction)
			if site.Parent() != rch && !dominatesAll(site, site.Parent()) {
				inHelperOK = false
			}
			anchor, f = site, site.Parent()
		}
		if f != rch {
			anchor, inHelperOK = nil, false
		}
	}
	for _, in := range tlsInstrs(rch) {
		if !isOKRet(in) {
			continue
		}
		r := in.(*ssa.Return)
		ok := false
		if sf == rch {
			for _, l := range loads {
				if l.Parent() == rch && core.Dominates(l, r) {
					ok = true
				}
			}
			if scan.Block().Dominates(r.Block()) {
				ok = true
			}
		} else {
			ok = inHelperOK && anchor != nil && core.Dominates(anchor, r)
		}
		c.Check("scsv-on-success-path", "readClientHello:return-isResume="+core.Render(core.RetVals(r)[0]), r.Pos(), ok,
			"readClientHello returns success on a path that never scans clientHello.cipherSuites for TLS_FALLBACK_SCSV: a fallback hello is accepted on this path whatever its version")
	}
	c.Min("scsv-on-success-path", 2)
}

// ---- (f) the offer that is scanned and negotiated on is the client's offer ----

// c41WirePure: v is computed from the received bytes alone (message bytes,
// lengths, loop counters, constants, the hello under construction), not from
// the connection or its configuration. Calls are pure only when they are
// builtins or in-module functions over scalars/byte slices whose bodies read
// no global, no struct field and call nothing else.
func c41WirePure(v ssa.Value, seen map[ssa.Value]bool, depth int) (bool, string) {
	if v == nil {
		return true, ""
	}
	if depth > 40 {
		return false, "expression too deep"
	}
	if seen[v] {
		return true, ""
	}
	seen[v] = true
	all := func(vs ...ssa.Value) (bool, string) {
		for _, x := range vs {
			if ok, why := c41WirePure(x, seen, depth+1); !ok {
				return false, why
			}
		}
		return true, ""
	}
	scalarOrBytes := func(t types.Type) bool {
		switch u := t.Underlying().(type) {
		case *types.Basic:
			return true
		case *types.Slice:
			_, ok := u.Elem().Underlying().(*types.Basic)
			return ok
		}
		return false
	}
	switch x := v.(type) {
	case *ssa.Const:
		return true, ""
	case *ssa.Parameter:
		if scalarOrBytes(x.Type()) {
			return true, ""
		}
		return false, "parameter " + x.Name() + " (" + core.TypeStr(x.Type()) + ")"
	case *ssa.Phi:
		return all(x.Edges...)
	case *ssa.BinOp:
		return all(x.X, x.Y)
	case *ssa.Convert:
		return all(x.X)
	case *ssa.ChangeType:
		return all(x.X)
	case *ssa.Slice:
		return all(x.X, x.Low, x.High, x.Max)
	case *ssa.MakeSlice:
		return all(x.Len, x.Cap)
	case *ssa.IndexAddr:
		return all(x.X, x.Index)
	case *ssa.Index:
		return all(x.X, x.Index)
	case *ssa.Extract:
		return all(x.Tuple)
	case *ssa.Alloc:
		// a local: everything stored into it (directly or into its elements / fields) must be pure
		if x.Referrers() != nil {
			for _, r := range *x.Referrers() {
				if st, ok := r.(*ssa.Store); ok && st.Addr == ssa.Value(x) {
					if ok, why := c41WirePure(st.Val, seen, depth+1); !ok {
						return false, why
					}
				}
			}
		}
		return true, ""
	case *ssa.FieldAddr:
		// the input record buffer and the hello being built are wire data
		f := core.FieldObj(x.X, x.Field)
		if f != nil {
			if st := c41TypeShort(x.X.Type()); st == "block" || st == "clientHelloMsg" {
				return true, ""
			}
			return false, "field " + c41TypeShort(x.X.Type()) + "." + f.Name()
		}
		return false, "field access"
	case *ssa.UnOp:
		return all(x.X)
	case *ssa.Call:
		key := core.CalleeKey(&x.Call)
		if key == "builtin:len" || key == "builtin:cap" || key == "builtin:min" || key == "builtin:max" {
			return all(x.Call.Args...)
		}
		if cal := x.Call.StaticCallee(); cal != nil && !x.Call.IsInvoke() && cal.Blocks != nil && core.FuncPkgRel(cal) != "" && c41PureFunc(cal, 0) {
			return all(x.Call.Args...)
		}
		return false, "call of " + key
	case *ssa.Global:
		return false, "global " + x.Name()
	}
	return false, core.Render(v)
}

func c41TypeShort(t types.Type) string {
	if p, ok := t.Underlying().(*types.Pointer); ok {
		t = p.Elem()
	}
	if n, ok := t.(*types.Named); ok {
		return n.Obj().Name()
	}
	return t.String()
}

// c41PureFunc: a function of scalars / byte slices whose body touches no
// global and no struct field and calls only builtins or other such functions.
func c41PureFunc(fn *ssa.Function, depth int) bool {
	if depth > 1 || fn.Signature.Recv() != nil || len(fn.FreeVars) > 0 {
		return false
	}
	for _, p := range fn.Params {
		switch u := p.Type().Underlying().(type) {
		case *types.Basic:
		case *types.Slice:
			if _, ok := u.Elem().Underlying().(*types.Basic); !ok {
				return false
			}
		default:
			return false
		}
	}
	pure := true
	core.Instrs(fn, func(in ssa.Instruction) {
		switch x := in.(type) {
		case *ssa.FieldAddr, *ssa.Field, *ssa.Lookup, *ssa.Go, *ssa.Defer, *ssa.Send, *ssa.MakeClosure:
			pure = false
		case ssa.CallInstruction:
			cc := x.Common()
			if _, isB := cc.Value.(*ssa.Builtin); isB {
				return
			}
			if cal := cc.StaticCallee(); cal == nil || cc.IsInvoke() || cal.Blocks == nil || !c41PureFunc(cal, depth+1) {
				pure = false
			}
		}
		for _, op := range in.Operands(nil) {
			if _, isG := (*op).(*ssa.Global); isG {
				pure = false
			}
		}
	})
	return pure
}

// c41WireDecoded: v is assembled from bytes of a byte slice and constants only.
func c41WireDecoded(v ssa.Value, depth int) bool {
	any := false
	var walk func(v ssa.Value, d int) bool
	walk = func(v ssa.Value, d int) bool {
		if d > 12 {
			return false
		}
		switch x := v.(type) {
		case *ssa.Const:
			return true
		case *ssa.Convert:
			return walk(x.X, d+1)
		case *ssa.ChangeType:
			return walk(x.X, d+1)
		case *ssa.BinOp:
			return walk(x.X, d+1) && walk(x.Y, d+1)
		case *ssa.UnOp:
			if x.Op != token.MUL {
				return walk(x.X, d+1)
			}
			if ia, ok := x.X.(*ssa.IndexAddr); ok && c45IsByteSlice(ia.X.Type()) {
				any = true
				return true
			}
		}
		return false
	}
	return walk(v, depth) && any
}

// c41Offer. The TLS_FALLBACK_SCSV scan and the negotiation loops of
// readClientHello read clientHello.cipherSuites; they decide on the client's
// offer only if that list is the list on the wire. Two necessary conditions:
// (1) wherever the list is filled element by element from received bytes, an
// element may be left out (or the fill abandoned) only by tests on the received
// bytes themselves - never by the connection's configuration, which knows the
// negotiable suites but not the signalling values; (2) the list is written
// only while the message is under construction (fresh allocation) or by its
// parser.
func c41Offer(c *core.Ctx, fns []*ssa.Function) {
	chSuites := tlsField(c, "clientHelloMsg.cipherSuites")
	um := tlsFunc(c, "clientHelloMsg.unmarshal")
	if chSuites == nil || um == nil {
		return
	}
	type write struct {
		at    ssa.Instruction
		elems []ssa.Value
	}
	ord := map[string]int{}
	for _, fn := range fns {
		var writes []write
		short := strings.TrimPrefix(core.FuncKey(fn), tlsPkg+".")
		for _, in := range tlsInstrs(fn) {
			st, ok := in.(*ssa.Store)
			if !ok {
				continue
			}
			// list[i] = v
			if ia, ok := st.Addr.(*ssa.IndexAddr); ok && tlsIsField(ia.X, chSuites) {
				writes = append(writes, write{st, []ssa.Value{st.Val}})
				_, base := tlsFieldOf(ia.X)
				c41OfferWriter(c, fn, um, short, st, base, ord)
				continue
			}
			f, base := tlsFieldAddrOf(st.Addr)
			if f != chSuites {
				continue
			}
			c41OfferWriter(c, fn, um, short, st, base, ord)
			// list = append(list, v...)
			call, ok := st.Val.(*ssa.Call)
			if !ok || core.CalleeKey(&call.Call) != "builtin:append" || len(call.Call.Args) != 2 || !tlsIsField(call.Call.Args[0], chSuites) {
				continue
			}
			w := write{at: call}
			if sl, ok := call.Call.Args[1].(*ssa.Slice); ok {
				if al, ok := sl.X.(*ssa.Alloc); ok && al.Referrers() != nil {
					for _, r := range *al.Referrers() {
						if ia, ok := r.(*ssa.IndexAddr); ok && ia.Referrers() != nil {
							for _, r2 := range *ia.Referrers() {
								if es, ok := r2.(*ssa.Store); ok && es.Addr == ssa.Value(ia) {
									w.elems = append(w.elems, es.Val)
								}
							}
						}
					}
				}
			}
			writes = append(writes, w)
		}
		if len(writes) == 0 {
			continue
		}
		loops := core.Loops(fn)
		for _, w := range writes {
			decoded := len(w.elems) > 0
			for _, e := range w.elems {
				if !c41WireDecoded(e, 0) {
					decoded = false
				}
			}
			if !decoded {
				continue // not filled from received bytes (the client composing its own offer)
			}
			// innermost loop around the write
			var loop *core.Loop
			for _, l := range loops {
				if l.Body[w.at.Block()] && (loop == nil || len(l.Body) < len(loop.Body)) {
					loop = l
				}
			}
			if loop == nil {
				continue
			}
			c.Analysed(core.FuncKey(fn))
			ord[short+"/elem"]++
			key := fmt.Sprintf("%s:element#%d", short, ord[short+"/elem"])
			wb := w.at.Block()
			// within one iteration: edges into the header end the iteration
			reachW := func(from *ssa.BasicBlock) bool {
				seen := map[*ssa.BasicBlock]bool{}
				var walk func(b *ssa.BasicBlock) bool
				walk = func(b *ssa.BasicBlock) bool {
					if b == wb {
						return true
					}
					if seen[b] || !loop.Body[b] || b == loop.Header {
						return false
					}
					seen[b] = true
					for _, s := range b.Succs {
						if walk(s) {
							return true
						}
					}
					return false
				}
				return walk(from)
			}
			skipsW := func(from *ssa.BasicBlock) bool {
				seen := map[*ssa.BasicBlock]bool{}
				var walk func(b *ssa.BasicBlock) bool
				walk = func(b *ssa.BasicBlock) bool {
					if b == wb {
						return false
					}
					if !loop.Body[b] || b == loop.Header {
						return true // left the loop / next iteration without the write
					}
					if seen[b] {
						return false
					}
					seen[b] = true
					for _, s := range b.Succs {
						if walk(s) {
							return true
						}
					}
					return false
				}
				return walk(from)
			}
			ok, why := true, ""
			nCond := 0
			for b := range loop.Body {
				ifi, isIf := b.Instrs[len(b.Instrs)-1].(*ssa.If)
				if !isIf || len(b.Succs) != 2 || b.Succs[0] == b.Succs[1] {
					continue
				}
				r0, r1 := reachW(b.Succs[0]), reachW(b.Succs[1])
				s0, s1 := skipsW(b.Succs[0]), skipsW(b.Succs[1])
				if !((r0 && s1) || (r1 && s0)) {
					continue
				}
				nCond++
				if pure, w2 := c41WirePure(ifi.Cond, map[ssa.Value]bool{}, 0); !pure {
					ok = false
					why += fmt.Sprintf("condition %s at %s depends on %s; ", core.Render(ifi.Cond), c.P.Pos(ifi.Cond.Pos()), w2)
				}
			}
			if len(why) > 400 {
				why = why[:400] + "…"
			}
			c.Check("offer-intact", key, w.at.Pos(), ok && nCond > 0,
				fmt.Sprintf("%s fills clientHello.cipherSuites from the received bytes, but whether an offered value is kept is not decided by the received bytes alone (%d controlling conditions): %sa value the server does not negotiate on - TLS_FALLBACK_SCSV, the renegotiation SCSV - can be dropped before readClientHello scans the list, so a downgraded hello is answered instead of refused", short, nCond, why))
		}
	}
	c.Min("offer-intact", 2)
	c.Min("offer-writer", 5)
}

// c41OfferWriter: one store into a clientHelloMsg's cipherSuites (field or element).
func c41OfferWriter(c *core.Ctx, fn, um *ssa.Function, short string, st *ssa.Store, base ssa.Value, ord map[string]int) {
	ord[short+"/w"]++
	ok := false
	switch b := base.(type) {
	case *ssa.Alloc:
		ok = core.SpilledParam(b) == nil // a message being composed in this function
	case *ssa.Parameter:
		ok = fn == um && len(fn.Params) > 0 && b == fn.Params[0] // the parser filling its receiver
	}
	c.Check("offer-writer", fmt.Sprintf("%s:store#%d", short, ord[short+"/w"]), st.Pos(), ok,
		"clientHelloMsg.cipherSuites of "+core.Render(base)+" is rewritten in "+short+": the list may only be written while the message is composed (a fresh allocation in the same function) or by clientHelloMsg.unmarshal on its receiver; a later rewrite means that the TLS_FALLBACK_SCSV scan and the suite negotiation no longer see the client's offer")
}
