package rules

// Shared helpers of the routing properties (C10, C11, C12).
//
// rtPath: a feasible path through one function with phis resolved along the
// path. core.EnumPaths enumerates block sequences; rtTrace replays one
// sequence, keeps the value every phi has at each block entry, turns every
// branch taken into a fact (op, X, Y, polarity) over phi-resolved operands and
// rejects the path when a fact contradicts an earlier one on the same SSA
// values (so `if err != nil {..}; if err != nil && d != "" {..}` does not
// yield the four syntactic combinations, only the feasible ones).
//
// rtChain: the chain of string normalisers applied to a key (E9), walking from
// the use towards the source through calls with one string operand, helper
// functions of the module being expanded through their return value.

import (
	"fmt"
	"go/constant"
	"go/token"
	"go/types"
	"sort"
	"strings"

	"golang.org/x/tools/go/ssa"

	"verif/internal/core"
)

type rtItem struct {
	In    ssa.Instruction
	Taken int // for *ssa.If: 1 true edge, 0 false edge; -1 otherwise
	env   map[*ssa.Phi]ssa.Value
}

// rtFact is a branch condition observed on the path, in canonical form:
// Op is EQL, LSS or LEQ for comparisons (X op Y holds iff Pol), or ILLEGAL
// for a boolean value V that is true iff Pol.
type rtFact struct {
	I     int // index of the If item
	Pol   bool
	Op    token.Token
	X, Y  ssa.Value
	V     ssa.Value
	stale bool
}

type rtPath struct {
	Fn    *ssa.Function
	Items []rtItem
	Facts []rtFact
	binds []rtBind   // calls continued through a private helper (rtPathsR)
	rets  []rtRetRec // their completions
}

func rtSameVal(a, b ssa.Value) bool {
	if a == b {
		return true
	}
	ca, ok1 := a.(*ssa.Const)
	cb, ok2 := b.(*ssa.Const)
	if !ok1 || !ok2 {
		return false
	}
	if ca.Value == nil || cb.Value == nil {
		return ca.Value == nil && cb.Value == nil
	}
	if ca.Value.Kind() != cb.Value.Kind() {
		return false
	}
	return constant.Compare(ca.Value, token.EQL, cb.Value)
}

// rtCanon brings a comparison into canonical form.
func rtCanon(op token.Token, x, y ssa.Value, pol bool) (token.Token, ssa.Value, ssa.Value, bool, bool) {
	switch op {
	case token.EQL:
		return token.EQL, x, y, pol, true
	case token.NEQ:
		return token.EQL, x, y, !pol, true
	case token.LSS:
		return token.LSS, x, y, pol, true
	case token.LEQ:
		return token.LEQ, x, y, pol, true
	case token.GTR:
		return token.LSS, y, x, pol, true
	case token.GEQ:
		return token.LEQ, y, x, pol, true
	}
	return op, x, y, pol, false
}

// rtTrace replays a block sequence; nil when the path is infeasible.
func rtTrace(fn *ssa.Function, blocks []*ssa.BasicBlock) *rtPath {
	p := &rtPath{Fn: fn}
	env := map[*ssa.Phi]ssa.Value{}
	visited := map[*ssa.BasicBlock]bool{}
	for k, b := range blocks {
		if k > 0 {
			pred := blocks[k-1]
			pi := -1
			for i, q := range b.Preds {
				if q == pred {
					pi = i
				}
			}
			nenv := make(map[*ssa.Phi]ssa.Value, len(env)+2)
			for ph, v := range env {
				nenv[ph] = v
			}
			for _, in := range b.Instrs {
				phi, ok := in.(*ssa.Phi)
				if !ok {
					break
				}
				if pi < 0 {
					continue
				}
				e := phi.Edges[pi]
				if ep, ok := e.(*ssa.Phi); ok {
					if v, ok := env[ep]; ok {
						e = v
					}
				}
				nenv[phi] = e
			}
			env = nenv
		}
		if visited[b] {
			// values defined in b are recomputed: facts about them no longer bind
			def := map[ssa.Value]bool{}
			for _, in := range b.Instrs {
				if v, ok := in.(ssa.Value); ok {
					def[v] = true
				}
			}
			for i := range p.Facts {
				f := &p.Facts[i]
				if def[f.X] || def[f.Y] || def[f.V] {
					f.stale = true
				}
			}
		}
		visited[b] = true
		for _, in := range b.Instrs {
			if _, ok := in.(*ssa.Phi); ok {
				continue
			}
			it := rtItem{In: in, Taken: -1, env: env}
			ifi, isIf := in.(*ssa.If)
			if isIf && k+1 < len(blocks) && b.Succs[0] != b.Succs[1] {
				if b.Succs[0] == blocks[k+1] {
					it.Taken = 1
				} else {
					it.Taken = 0
				}
			}
			p.Items = append(p.Items, it)
			if isIf && it.Taken >= 0 {
				if !p.addFact(len(p.Items)-1, ifi.Cond, it.Taken == 1) {
					return nil
				}
			}
		}
	}
	return p
}

func (p *rtPath) addFact(i int, cond ssa.Value, pol bool) bool {
	cond = p.R(i, cond)
	for {
		u, ok := cond.(*ssa.UnOp)
		if !ok || u.Op != token.NOT {
			break
		}
		cond = p.R(i, u.X)
		pol = !pol
	}
	if k, ok := cond.(*ssa.Const); ok && k.Value != nil && k.Value.Kind() == constant.Bool {
		return constant.BoolVal(k.Value) == pol
	}
	f := rtFact{I: i, Pol: pol, V: cond}
	if b, ok := cond.(*ssa.BinOp); ok {
		if op, x, y, pl, ok := rtCanon(b.Op, p.R(i, b.X), p.R(i, b.Y), pol); ok {
			f = rtFact{I: i, Pol: pl, Op: op, X: x, Y: y}
			cx, okx := core.StripConv(x).(*ssa.Const)
			cy, oky := core.StripConv(y).(*ssa.Const)
			if okx && oky {
				var val bool
				switch {
				case cx.Value == nil || cy.Value == nil:
					if op != token.EQL {
						return true
					}
					val = cx.Value == nil && cy.Value == nil
				case cx.Value.Kind() == cy.Value.Kind():
					val = constant.Compare(cx.Value, op, cy.Value)
				default:
					p.Facts = append(p.Facts, f)
					return true
				}
				return val == pl
			}
		}
	}
	if rtNeverHolds(p, i, f) {
		return false
	}
	for _, g := range p.Facts {
		if g.stale || g.Op != f.Op {
			continue
		}
		if f.Op == token.ILLEGAL {
			if g.V == f.V && g.Pol != f.Pol {
				return false
			}
			continue
		}
		same := rtSameVal(g.X, f.X) && rtSameVal(g.Y, f.Y)
		if f.Op == token.EQL && !same {
			same = rtSameVal(g.X, f.Y) && rtSameVal(g.Y, f.X)
		}
		if same && g.Pol != f.Pol {
			return false
		}
	}
	p.Facts = append(p.Facts, f)
	return true
}

// lastExec: index of the latest execution of instruction in at or before i.
func (p *rtPath) lastExec(i int, in ssa.Instruction) int {
	if i >= len(p.Items) {
		i = len(p.Items) - 1
	}
	for j := i; j >= 0; j-- {
		if p.Items[j].In == in {
			return j
		}
	}
	return -1
}

// R resolves v as seen at item i: phis take the value of the edge the path came
// through; a load of a local variable (Alloc) takes the value of the last store
// to it on the path before the load was executed.
func (p *rtPath) R(i int, v ssa.Value) ssa.Value {
	for d := 0; d < 24; d++ {
		switch x := v.(type) {
		case *ssa.Phi:
			if i >= len(p.Items) {
				i = len(p.Items) - 1
			}
			if i < 0 {
				return v
			}
			nv, ok := p.Items[i].env[x]
			if !ok && x.Parent() != p.frameFn(i) {
				// a phi of another frame: its value when that frame last ran before item i
				for j := i; j >= 0; j-- {
					if p.Items[j].In.Parent() == x.Parent() {
						nv, ok = p.Items[j].env[x]
						break
					}
				}
			}
			if !ok || nv == v {
				return v
			}
			v = nv
			continue
		case *ssa.Parameter:
			if len(p.binds) == 0 || x.Parent() == p.Fn {
				return v
			}
			if i >= len(p.Items) {
				i = len(p.Items) - 1
			}
			b := p.bindOf(i, x.Parent())
			if b == nil {
				return v
			}
			k := -1
			for n, q := range x.Parent().Params {
				if q == x {
					k = n
				}
			}
			if k < 0 || k >= len(b.args) {
				return v
			}
			v, i = b.args[k], b.at
			continue
		case *ssa.FreeVar:
			if len(p.binds) == 0 {
				return v
			}
			if i >= len(p.Items) {
				i = len(p.Items) - 1
			}
			b := p.bindOf(i, x.Parent())
			if b == nil || b.closure == nil {
				return v
			}
			k := -1
			for n, q := range x.Parent().FreeVars {
				if q == x {
					k = n
				}
			}
			if k < 0 || k >= len(b.closure.Bindings) {
				return v
			}
			v, i = b.closure.Bindings[k], b.at
			continue
		case *ssa.Call:
			if len(p.rets) == 0 {
				return v
			}
			if i >= len(p.Items) {
				i = len(p.Items) - 1
			}
			r := p.retOf(i, x)
			if r == nil || len(r.vals) != 1 {
				return v
			}
			v, i = r.vals[0], r.retAt
			continue
		case *ssa.Extract:
			if len(p.rets) == 0 {
				return v
			}
			call, ok := x.Tuple.(*ssa.Call)
			if !ok {
				return v
			}
			if i >= len(p.Items) {
				i = len(p.Items) - 1
			}
			r := p.retOf(i, call)
			if r == nil || x.Index >= len(r.vals) {
				return v
			}
			v, i = r.vals[x.Index], r.retAt
			continue
		case *ssa.UnOp:
			if x.Op != token.MUL {
				return v
			}
			a, ok := x.X.(*ssa.Alloc)
			if !ok && len(p.binds) > 0 {
				// a load through a pointer parameter of a helper bound to a local variable of the caller
				if par, isPar := x.X.(*ssa.Parameter); isPar {
					a, ok = p.R(i, par).(*ssa.Alloc)
				}
			}
			if !ok {
				return v
			}
			j := p.lastExec(i, x)
			if j < 0 {
				return v
			}
			st := p.lastStore(j, func(s *ssa.Store) bool { return s.Addr == a })
			if st < 0 {
				return v
			}
			// a later store into a part of the variable (v.f = x after v = y): the load is
			// neither of the two values; leave it unresolved
			for k := st + 1; k < j; k++ {
				if ps, ok := p.Items[k].In.(*ssa.Store); ok && rtPartOf(ps.Addr, a) {
					return v
				}
			}
			v = p.Items[st].In.(*ssa.Store).Val
			i = st
			continue
		}
		return v
	}
	return v
}

// rtPartOf: addr addresses a field or element (possibly nested) of the variable a.
func rtPartOf(addr ssa.Value, a *ssa.Alloc) bool {
	for n := 0; n < 8; n++ {
		switch x := addr.(type) {
		case *ssa.FieldAddr:
			if x.X == ssa.Value(a) {
				return true
			}
			addr = x.X
		case *ssa.IndexAddr:
			if x.X == ssa.Value(a) {
				return true
			}
			addr = x.X
		default:
			return false
		}
	}
	return false
}

// lastStore returns the index of the last store before item i accepted by m.
func (p *rtPath) lastStore(i int, m func(*ssa.Store) bool) int {
	if i > len(p.Items) {
		i = len(p.Items)
	}
	for j := i - 1; j >= 0; j-- {
		if st, ok := p.Items[j].In.(*ssa.Store); ok && m(st) {
			return j
		}
	}
	return -1
}

// storedAt: the (resolved) value last stored, before item i, to the location
// whose access path (rtAP: parameters named by position) is addr
// ("p1.Route.Error").
func (p *rtPath) storedAt(i int, addr string) (ssa.Value, int) {
	if i > len(p.Items) {
		i = len(p.Items)
	}
	for j := i - 1; j >= 0; j-- {
		if st, ok := p.Items[j].In.(*ssa.Store); ok && p.AP(j, st.Addr) == addr {
			return p.R(j, st.Val), j
		}
	}
	return nil, -1
}

// storedField: the (resolved) value last stored, before item i, into field
// `field` of the struct variable base (an Alloc), and the index of that store.
func (p *rtPath) storedField(i int, base ssa.Value, field string) (ssa.Value, int) {
	j := p.lastStore(i, func(s *ssa.Store) bool {
		fa, ok := s.Addr.(*ssa.FieldAddr)
		if !ok || fa.X != base {
			return false
		}
		fo := core.FieldObj(fa.X, fa.Field)
		return fo != nil && fo.Name() == field
	})
	if j < 0 {
		return nil, -1
	}
	return p.R(j, p.Items[j].In.(*ssa.Store).Val), j
}

// boolFact: the latest non-stale-or-stale fact before item i about boolean value v.
func (p *rtPath) boolFact(i int, v ssa.Value) (pol, known bool) {
	for k := len(p.Facts) - 1; k >= 0; k-- {
		f := p.Facts[k]
		if f.I < i && f.Op == token.ILLEGAL && f.V == v {
			return f.Pol, true
		}
	}
	return false, false
}

// factAfter: the first fact at or after item i about boolean value v.
func (p *rtPath) factAfter(i int, v ssa.Value) (pol, known bool) {
	for _, f := range p.Facts {
		if f.I >= i && f.Op == token.ILLEGAL && f.V == v {
			return f.Pol, true
		}
	}
	return false, false
}

// eqFact: is there a fact before item i stating x == y (or !=), where mx and my
// select the operands? Returns the polarity of equality.
func (p *rtPath) eqFact(i int, mx, my func(ssa.Value) bool) (eq, known bool) {
	for k := len(p.Facts) - 1; k >= 0; k-- {
		f := p.Facts[k]
		if f.I >= i || f.Op != token.EQL {
			continue
		}
		if (mx(f.X) && my(f.Y)) || (mx(f.Y) && my(f.X)) {
			return f.Pol, true
		}
	}
	return false, false
}

// eqFactAfter: like eqFact, but the first such fact at or after item i (for
// values that are recomputed in a loop).
func (p *rtPath) eqFactAfter(i int, mx, my func(ssa.Value) bool) (eq, known bool) {
	for _, f := range p.Facts {
		if f.I < i || f.Op != token.EQL {
			continue
		}
		if (mx(f.X) && my(f.Y)) || (mx(f.Y) && my(f.X)) {
			return f.Pol, true
		}
	}
	return false, false
}

// cmpFact: latest fact before i with canonical op (LSS/LEQ) over operands accepted by mx, my.
func (p *rtPath) cmpFact(i int, op token.Token, mx, my func(ssa.Value) bool) (pol, known bool) {
	for k := len(p.Facts) - 1; k >= 0; k-- {
		f := p.Facts[k]
		if f.I < i && f.Op == op && mx(f.X) && my(f.Y) {
			return f.Pol, true
		}
	}
	return false, false
}

// calls lists the indices of call items (not defers/go) to one of names.
func (p *rtPath) calls(names ...string) []int {
	var out []int
	for i, it := range p.Items {
		if c, ok := it.In.(*ssa.Call); ok && core.CallIs(&c.Call, names...) {
			out = append(out, i)
		}
	}
	return out
}

// ret returns the index of the final return and its resolved results (nil, -1 for panics).
func (p *rtPath) ret() ([]ssa.Value, int) {
	n := len(p.Items) - 1
	if n < 0 {
		return nil, -1
	}
	r, ok := p.Items[n].In.(*ssa.Return)
	if !ok {
		return nil, -1
	}
	vals := core.RetVals(r)
	out := make([]ssa.Value, len(vals))
	for i, v := range vals {
		out[i] = p.R(n, v)
	}
	return out, n
}

// rtPaths enumerates the feasible paths of fn. complete=false when the
// enumeration limit was hit.
func rtPaths(fn *ssa.Function, maxVisit int) (paths []*rtPath, complete bool) {
	complete = core.EnumPaths(fn, maxVisit, 20000, func(cp *core.Path) {
		if p := rtTrace(fn, cp.Blocks); p != nil {
			paths = append(paths, p)
		}
	})
	return
}

// ---- access paths -------------------------------------------------------

// rtPathOf splits v into a root and the field selectors applied to it (loads
// are transparent; a parameter spilled to an Alloc is that parameter).
func rtPathOf(v ssa.Value) (root ssa.Value, fields []string) {
	for n := 0; n < 32; n++ {
		switch x := v.(type) {
		case *ssa.UnOp:
			if x.Op != token.MUL {
				return v, fields
			}
			v = x.X
		case *ssa.FieldAddr:
			name := "?"
			if fo := core.FieldObj(x.X, x.Field); fo != nil {
				name = fo.Name()
			}
			fields = append([]string{name}, fields...)
			v = x.X
		case *ssa.Field:
			name := "?"
			if fo := core.FieldObj(x.X, x.Field); fo != nil {
				name = fo.Name()
			}
			fields = append([]string{name}, fields...)
			v = x.X
		case *ssa.ChangeType:
			v = x.X
		case *ssa.Alloc:
			if p := core.SpilledParam(x); p != nil {
				return p, fields
			}
			return v, fields
		default:
			return v, fields
		}
	}
	return v, fields
}

// rtAP renders an access path with parameters named by position ("p0" is the
// receiver of a method), so that renaming a parameter does not change it.
func rtAP(v ssa.Value) string {
	if v == nil {
		return "<nothing>"
	}
	root, fields := rtPathOf(v)
	s := ""
	if par, ok := root.(*ssa.Parameter); ok && par.Parent() != nil {
		for i, q := range par.Parent().Params {
			if q == par {
				s = fmt.Sprintf("p%d", i)
			}
		}
	}
	if s == "" {
		if root == v {
			return core.Render(v)
		}
		s = core.Render(root)
	}
	if len(fields) > 0 {
		s += "." + strings.Join(fields, ".")
	}
	return s
}

// ---- value matchers ---------------------------------------------------

func rtIsNil(v ssa.Value) bool {
	k, ok := core.StripConv(v).(*ssa.Const)
	return ok && k.Value == nil
}

func rtConstStr(v ssa.Value, s string) bool {
	got, ok := core.ConstString(v)
	return ok && got == s
}

func rtConstInt(v ssa.Value) (int64, bool) {
	k, ok := core.StripConv(v).(*ssa.Const)
	if !ok || k.Value == nil || k.Value.Kind() != constant.Int {
		return 0, false
	}
	return k.Int64(), true
}

func rtConstBool(v ssa.Value) (bool, bool) {
	k, ok := v.(*ssa.Const)
	if !ok || k.Value == nil || k.Value.Kind() != constant.Bool {
		return false, false
	}
	return constant.BoolVal(k.Value), true
}

// rtStrIndex: v is s[i] for a string s (go/ssa uses Index, older versions Lookup).
func rtStrIndex(v ssa.Value) (s, idx ssa.Value, ok bool) {
	switch x := v.(type) {
	case *ssa.Index:
		if rtIsString(x.X.Type()) {
			return x.X, x.Index, true
		}
	case *ssa.Lookup:
		if rtIsString(x.X.Type()) {
			return x.X, x.Index, true
		}
	}
	return nil, nil, false
}

// rtResult: v is result #idx of a call (Extract of a tuple call, or the call
// value itself when idx == 0 and the callee has one result).
func rtResult(v ssa.Value) (*ssa.Call, int) {
	v = core.StripConv(v)
	if ex, ok := v.(*ssa.Extract); ok {
		if c, ok := ex.Tuple.(*ssa.Call); ok {
			return c, ex.Index
		}
		return nil, -1
	}
	if c, ok := v.(*ssa.Call); ok {
		return c, 0
	}
	return nil, -1
}

func rtResultOf(v ssa.Value, idx int, names ...string) *ssa.Call {
	c, i := rtResult(v)
	if c == nil || i != idx || !core.CallIs(&c.Call, names...) {
		return nil
	}
	return c
}

// rtLoadOf: v is a load (*addr); returns addr.
func rtLoadOf(v ssa.Value) ssa.Value {
	if u, ok := v.(*ssa.UnOp); ok && u.Op == token.MUL {
		return u.X
	}
	return nil
}

// rtGlobalLoad: v is a load of the named package-level variable.
func rtGlobalLoad(v ssa.Value, pkgRel, name string) bool {
	a := rtLoadOf(core.StripConv(v))
	g, ok := a.(*ssa.Global)
	if !ok || g.Name() != name || g.Pkg == nil {
		return false
	}
	return strings.TrimPrefix(strings.TrimPrefix(g.Pkg.Pkg.Path(), core.ModPath), "/") == pkgRel
}

// rtFieldLoad: v is a load of field `name` (of a struct of type typ, short
// name); returns the base value the field is taken from.
func rtFieldLoad(v ssa.Value, name string) ssa.Value {
	v = core.StripConv(v)
	if f, ok := v.(*ssa.Field); ok {
		if fo := core.FieldObj(f.X, f.Field); fo != nil && fo.Name() == name {
			return f.X
		}
		return nil
	}
	if fa, ok := rtLoadOf(v).(*ssa.FieldAddr); ok {
		if fo := core.FieldObj(fa.X, fa.Field); fo != nil && fo.Name() == name {
			return fa.X
		}
	}
	return nil
}

// rtGlobalWriters: functions (other than the package initialiser) that store
// to the named global.
func rtGlobalWriters(c *core.Ctx, pkgRel, name string) ([]string, bool) {
	sp := c.P.SPkg[pkgRel]
	if sp == nil {
		return nil, false
	}
	g, ok := sp.Members[name].(*ssa.Global)
	if !ok {
		return nil, false
	}
	var out []string
	for _, fn := range c.P.SrcFuncs("") {
		if fn.Name() == "init" && fn.Parent() == nil {
			continue
		}
		core.Instrs(fn, func(in ssa.Instruction) {
			if st, ok := in.(*ssa.Store); ok && st.Addr == g {
				out = append(out, core.FuncKey(fn))
			}
		})
	}
	return out, true
}

// ---- normaliser chains (E9) -------------------------------------------

// rtPrimitive: module functions treated as one normalisation step.
var rtPrimitive = map[string]string{
	"bfe_util/string_reverse.ReverseFqdnHost": "reverse",
}

// rtChain walks from v towards its source. res (may be nil) resolves phis for
// a given path. Steps are listed outermost first.
func rtChain(v ssa.Value, res func(ssa.Value) ssa.Value) (steps []string, root ssa.Value) {
	return rtChainD(v, res, 0)
}

func rtChainD(v ssa.Value, res func(ssa.Value) ssa.Value, depth int) (steps []string, root ssa.Value) {
	for n := 0; n < 32; n++ {
		if res != nil {
			v = res(v)
		}
		switch x := v.(type) {
		case *ssa.ChangeType:
			v = x.X
			continue
		case *ssa.Call:
			sc := x.Call.StaticCallee()
			if sc == nil || len(x.Call.Args) == 0 {
				return steps, v
			}
			key := core.FuncKey(sc)
			switch key {
			case "strings.Split", "strings.SplitN":
				sep, ok := core.ConstString(x.Call.Args[1])
				if !ok {
					return steps, v
				}
				steps = append(steps, "split("+sep+")")
				v = x.Call.Args[0]
				continue
			}
			if name, ok := rtPrimitive[key]; ok {
				steps = append(steps, name)
				v = x.Call.Args[0]
				continue
			}
			if sc.Blocks == nil {
				// library function: string -> string with constant extra operands
				if !rtIsString(x.Type()) || !rtIsString(x.Call.Args[0].Type()) {
					return steps, v
				}
				name := key
				for _, a := range x.Call.Args[1:] {
					s, ok := core.ConstString(a)
					if !ok {
						return steps, v
					}
					name += "(" + s + ")"
				}
				steps = append(steps, name)
				v = x.Call.Args[0]
				continue
			}
			// helper of the module: expand through its single return value
			if depth >= 3 || sc.Signature.Recv() != nil {
				return steps, v
			}
			// every return that can execute must yield the same chain of the same parameter
			var hs []string
			var par *ssa.Parameter
			live := 0
			for _, r := range core.Returns(sc) {
				if len(r.Results) != 1 {
					return steps, v
				}
				if rtDeadReturn(r) {
					continue
				}
				s1, hr := rtChainD(core.RetVals(r)[0], nil, depth+1)
				p1, ok := hr.(*ssa.Parameter)
				if !ok || (live > 0 && (p1 != par || rtJoin(s1) != rtJoin(hs))) {
					return steps, v
				}
				hs, par = s1, p1
				live++
			}
			if live == 0 {
				return steps, v
			}
			pi := -1
			for i, q := range sc.Params {
				if q == par {
					pi = i
				}
			}
			if pi < 0 || pi >= len(x.Call.Args) {
				return steps, v
			}
			steps = append(steps, hs...)
			v = x.Call.Args[pi]
			continue
		case *ssa.UnOp:
			if x.Op != token.MUL {
				return steps, v
			}
			if ia, ok := x.X.(*ssa.IndexAddr); ok {
				if k, ok := rtConstInt(ia.Index); ok {
					if _, isSlice := ia.X.Type().Underlying().(*types.Slice); isSlice {
						steps = append(steps, fmt.Sprintf("index(%d)", k))
						v = ia.X
						continue
					}
				}
			}
			return steps, v
		case *ssa.Slice:
			if !rtIsString(x.X.Type()) {
				return steps, v
			}
			lo, hi := "", ""
			if x.Low != nil {
				k, ok := rtConstInt(x.Low)
				if !ok {
					return steps, v
				}
				lo = fmt.Sprint(k)
			}
			if x.High != nil {
				hi = core.Render(x.High)
			}
			steps = append(steps, "slice("+lo+":"+hi+")")
			v = x.X
			continue
		case *ssa.BinOp:
			if x.Op == token.ADD && rtIsString(x.Type()) {
				if s, ok := core.ConstString(x.Y); ok {
					steps = append(steps, "append("+s+")")
					v = x.X
					continue
				}
			}
			return steps, v
		}
		return steps, v
	}
	return steps, v
}

func rtIsString(t types.Type) bool {
	b, ok := t.Underlying().(*types.Basic)
	return ok && b.Info()&types.IsString != 0
}

// rtCanonChain folds index(0)+split(:) / splitn into "portstrip".
func rtCanonChain(steps []string) []string {
	var out []string
	for i := 0; i < len(steps); i++ {
		if steps[i] == "index(0)" && i+1 < len(steps) && steps[i+1] == "split(:)" {
			out = append(out, "portstrip")
			i++
			continue
		}
		out = append(out, steps[i])
	}
	return out
}

func rtWithout(steps []string, drop string) []string {
	var out []string
	for _, s := range steps {
		if s != drop {
			out = append(out, s)
		}
	}
	return out
}

func rtIndexOf(steps []string, s string) int {
	for i, x := range steps {
		if x == s {
			return i
		}
	}
	return -1
}

func rtJoin(steps []string) string { return strings.Join(steps, " <- ") }

// ---- obligation aggregation --------------------------------------------

// rtAgg collects per-path verdicts under a class key and emits one obligation
// per (rule, key): ok iff every path of the class is ok.
type rtAgg struct {
	c     *core.Ctx
	order []string
	ok    map[string]bool
	det   map[string]string
	pos   map[string]token.Pos
	n     map[string]int
}

func newRtAgg(c *core.Ctx) *rtAgg {
	return &rtAgg{c: c, ok: map[string]bool{}, det: map[string]string{}, pos: map[string]token.Pos{}, n: map[string]int{}}
}

func (a *rtAgg) add(rule, key string, pos token.Pos, ok bool, detail string) {
	id := rule + "|" + key
	if _, seen := a.ok[id]; !seen {
		a.order = append(a.order, id)
		a.ok[id] = true
		a.pos[id] = pos
	}
	a.n[id]++
	if !ok && a.ok[id] {
		a.ok[id] = false
		a.det[id] = detail
		a.pos[id] = pos
	}
}

func (a *rtAgg) flush() {
	sort.Strings(a.order)
	for _, id := range a.order {
		parts := strings.SplitN(id, "|", 2)
		d := a.det[id]
		if a.ok[id] {
			d = fmt.Sprintf("%d path(s)", a.n[id])
		}
		a.c.Check(parts[0], parts[1], a.pos[id], a.ok[id], d)
	}
}

// rtReturnsCallResult: every return of fn returns, as result #ri, result #ci
// of a call to callee (looking through the defer spill); "" when ok.
func rtReturnsCallResult(fn *ssa.Function, callee string) string {
	rets := core.Returns(fn)
	if len(rets) == 0 {
		return "no return"
	}
	for _, r := range rets {
		vals := core.RetVals(r)
		if len(vals) != 1 {
			return "unexpected result arity"
		}
		if rtResultOf(vals[0], 0, callee) == nil {
			return "returns " + core.Render(vals[0])
		}
	}
	return ""
}

// rtPos: a position for an item, falling back to the function.
func (p *rtPath) pos(i int) token.Pos {
	if i >= 0 && i < len(p.Items) {
		if ps := p.Items[i].In.Pos(); ps.IsValid() {
			return ps
		}
		for j := i; j >= 0; j-- {
			if ps := p.Items[j].In.Pos(); ps.IsValid() {
				return ps
			}
		}
	}
	return p.Fn.Pos()
}

// rtUpdateCalls: HostTable.Update hands parameter #pi to the named update
// function on every path to return.
func rtUpdateCalls(c *core.Ctx, rule, callee string, pi int) {
	fn := c.P.Func("bfe_route", "HostTable.Update")
	if fn == nil {
		c.Missing("bfe_route.HostTable.Update")
		return
	}
	c.Analysed(core.FuncKey(fn))
	full := "bfe_route.HostTable." + callee
	is := func(in ssa.Instruction) bool {
		call, ok := in.(*ssa.Call)
		return ok && core.CallIs(&call.Call, full) && len(call.Call.Args) == 2 && rtAP(call.Call.Args[0]) == "p0" && rtAP(call.Call.Args[1]) == fmt.Sprintf("p%d", pi)
	}
	var bad ssa.Instruction
	if len(fn.Blocks) > 0 && len(fn.Blocks[0].Instrs) > 0 && !is(fn.Blocks[0].Instrs[0]) {
		bad = core.MustPass(fn, nil, is)
	}
	c.Check(rule, "HostTable.Update:"+callee, fn.Pos(), bad == nil, "HostTable.Update can return without calling "+callee+" on its own configuration argument: a reload would leave the old table in place")
}
