package rules

import (
	"fmt"
	"go/token"
	"strings"

	"golang.org/x/tools/go/ssa"

	"verif/internal/core"
)

// C04 — least-connection mode picks a minimal connections/weight backend.
func init() {
	Register(&Rule{
		ID: "C04", Section: "3 C04 (claimed after all: structural clauses only)",
		Technique: "guard census and value-flow on the least-connection scan: the running best is replaced only on a strictly smaller ratio, the candidate list holds only elements tied with the final best, the comparator is the cross-multiplied ratio difference",
		Meta: core.Meta{
			Level: "other",
			Explanation: "DESIGN.md first listed C04 as not applicable (a minimisation over runtime counters). Three structural necessary conditions are decidable and are claimed instead: (1) in leastConnsBalance the running best is assigned only when it is nil or when compLCWeight(best, e) > 0 (e strictly better), for an element that passed the eligibility filter; (2) every element appended to the returned candidate list is the final best itself (single case) or is guarded by compLCWeight(best, e) == 0 in a second scan that starts after the first scan finished, so all candidates tie with the minimum; both WLC entry points select only from that list (single candidate directly, otherwise smooth/random choice among the tied ones); (3) compLCWeight returns 1/0/-1 by the sign of a.ConnNum()*b.weight - b.ConnNum()*a.weight (cross-multiplication of conn/weight ratios; operand roles checked, factor order free) and reads nothing else. Not covered: that the minimum over the eligible set is actually attained for all counter values (overflow of the products, concurrent counter updates during the scan), fairness among tied candidates. A rewrite of the comparator in another arithmetic form would need this rule to be updated.",
			RuleText:    "obligations = each assignment to the running best, each append to the candidate list, each return of the WLC entry points, the comparator's shape",
		},
		Run: runC04,
		Mutants: []Mutant{
			{Name: "best-replaced-on-tie", File: "bfe_balance/bal_slb/bal_rr.go", Old: "		ret := compLCWeight(best, backendRR)\n		if ret > 0 {\n			best = backendRR", New: "		ret := compLCWeight(best, backendRR)\n		if ret >= 0 {\n			best = backendRR", Expect: "best-update"},
			{Name: "comparator-swapped", File: "bfe_balance/bal_slb/bal_rr.go", Old: "	ret := a.backend.ConnNum()*b.weight - b.backend.ConnNum()*a.weight", New: "	ret := a.backend.ConnNum()*a.weight - b.backend.ConnNum()*b.weight", Expect: "comparator"},
			{Name: "comparator-inverted", File: "bfe_balance/bal_slb/bal_rr.go", Old: "	if ret > 0 {\n		return 1\n	}\n\n	// a.backend.ConnNum() / a.weight == b.backend.ConnNum() / b.weight", New: "	if ret < 0 {\n		return 1\n	}\n\n	// a.backend.ConnNum() / a.weight == b.backend.ConnNum() / b.weight", Expect: "comparator"},
			{Name: "candidates-include-worse", File: "bfe_balance/bal_slb/bal_rr.go", Old: "		if ret := compLCWeight(best, backendRR); ret == 0 {", New: "		if ret := compLCWeight(best, backendRR); ret <= 0 {", Expect: "candidate-tied"},
			{Name: "single-flag-stale", File: "bfe_balance/bal_slb/bal_rr.go", Old: "		if ret > 0 {\n			best = backendRR\n			singleBackend = true\n		} else if ret == 0 {", New: "		if ret > 0 {\n			best = backendRR\n		} else if ret == 0 {", Expect: "single-flag"},
		},
	})
}

func runC04(c *core.Ctx) {
	const slb = "bfe_balance/bal_slb"
	lc := c.P.Func(slb, "leastConnsBalance")
	cmp := c.P.Func(slb, "compLCWeight")
	if lc == nil || cmp == nil {
		c.Missing(slb + ".leastConnsBalance / compLCWeight")
		return
	}
	c.Analysed(core.FuncKey(lc), core.FuncKey(cmp))
	// ---- (3) comparator ------------------------------------------------------------------
	var ret *ssa.BinOp
	for _, in := range allInstrs(cmp) {
		if b, ok := in.(*ssa.BinOp); ok && b.Op == token.SUB {
			ret = b
		}
	}
	prod := func(v ssa.Value) (conn, weight string, ok bool) {
		m, isM := v.(*ssa.BinOp)
		if !isM || m.Op != token.MUL {
			return "", "", false
		}
		for _, pair := range [][2]ssa.Value{{m.X, m.Y}, {m.Y, m.X}} {
			call, isCall := pair[0].(*ssa.Call)
			w := fieldLoadOf(pair[1], "weight")
			if isCall && core.CallIs(&call.Call, "bfe_balance/backend.BfeBackend.ConnNum") && w != nil {
				if x := fieldLoadOf(call.Call.Args[0], "backend"); x != nil {
					return core.Render(x), core.Render(w), true
				}
			}
		}
		return "", "", false
	}
	okShape := false
	if ret != nil {
		c1, w1, ok1 := prod(ret.X)
		c2, w2, ok2 := prod(ret.Y)
		okShape = ok1 && ok2 && c1 == "a" && w1 == "b" && c2 == "b" && w2 == "a"
	}
	c.Check("comparator", "compLCWeight:difference", cmp.Pos(), okShape, "compLCWeight must compare a.conn/a.weight with b.conn/b.weight by the cross-multiplied difference a.ConnNum()*b.weight - b.ConnNum()*a.weight")
	for i, r := range core.Returns(cmp) {
		v := core.Render(r.Results[0])
		var want func(g core.Guard) bool
		switch v {
		case "1":
			want = func(g core.Guard) bool {
				b, ok := g.Cond.(*ssa.BinOp)
				return ok && b.X == ssa.Value(ret) && isZero(b.Y) && ((b.Op == token.GTR && g.Pol) || (b.Op == token.LEQ && !g.Pol))
			}
		case "0":
			want = func(g core.Guard) bool {
				b, ok := g.Cond.(*ssa.BinOp)
				return ok && b.X == ssa.Value(ret) && isZero(b.Y) && ((b.Op == token.EQL && g.Pol) || (b.Op == token.NEQ && !g.Pol))
			}
		case "-1":
			// reached when neither > 0 nor == 0
			gt, eq := false, false
			for _, g := range core.GuardsAt(r.Block()) {
				if b, ok := g.Cond.(*ssa.BinOp); ok && b.X == ssa.Value(ret) && isZero(b.Y) && !g.Pol {
					if b.Op == token.GTR {
						gt = true
					}
					if b.Op == token.EQL {
						eq = true
					}
				}
			}
			c.Check("comparator", fmt.Sprintf("compLCWeight:return#%d=-1", i), r.Pos(), gt && eq, "compLCWeight must return -1 exactly when the difference is neither > 0 nor == 0")
			continue
		default:
			c.Check("comparator", fmt.Sprintf("compLCWeight:return#%d", i), r.Pos(), false, "compLCWeight returns "+v+", expected one of 1, 0, -1")
			continue
		}
		c.Check("comparator", fmt.Sprintf("compLCWeight:return#%d=%s", i, v), r.Pos(), core.HasGuard(r.Block(), want), "compLCWeight returns "+v+" under the wrong sign test of the ratio difference; guards: "+strings.Join(core.GuardStrs(r.Block()), " && "))
	}
	c.Min("comparator", 4)
	// ---- (1) running best ------------------------------------------------------------------------
	// find the phi named best in the first loop and inspect its in-loop incoming edges
	var bestPhis []*ssa.Phi
	for _, in := range allInstrs(lc) {
		if phi, ok := in.(*ssa.Phi); ok && phi.Comment == "best" {
			bestPhis = append(bestPhis, phi)
		}
	}
	if len(bestPhis) == 0 {
		c.Check("best-update", "leastConnsBalance:best", lc.Pos(), false, "the running best of the least-connection scan was not found")
	}
	seen := map[string]bool{}
	n := 0
	for _, phi := range bestPhis {
		for i, e := range phi.Edges {
			pred := phi.Block().Preds[i]
			if isNilConst(e) {
				continue
			}
			if _, isPhi := e.(*ssa.Phi); isPhi {
				continue
			}
			gs := core.GuardsOnEdge(pred, phi.Block())
			sig := core.Render(e) + "|" + strings.Join(func() []string {
				var s []string
				for _, g := range gs {
					s = append(s, g.Str)
				}
				return s
			}(), "&")
			if seen[sig] {
				continue
			}
			seen[sig] = true
			n++
			avail, pos := eligibleByGuards(e, gs)
			better := false
			for _, g := range gs {
				// best == nil (first eligible element)
				if v, nonNil, ok := nilTestOf(g); ok && !nonNil {
					if p, isP := v.(*ssa.Phi); isP && p.Comment == "best" {
						better = true
					}
				}
				if b, ok := g.Cond.(*ssa.BinOp); ok && isZero(b.Y) && ((b.Op == token.GTR && g.Pol) || (b.Op == token.LEQ && !g.Pol)) {
					if call, isCall := b.X.(*ssa.Call); isCall && core.CallIs(&call.Call, slb+".compLCWeight") && sameElem(call.Call.Args[1], e) {
						if p, isP := call.Call.Args[0].(*ssa.Phi); isP && p.Comment == "best" {
							better = true
						}
					}
				}
			}
			c.Check("best-update", fmt.Sprintf("leastConnsBalance:assign#%d", n), pred.Instrs[len(pred.Instrs)-1].Pos(), avail && pos && better,
				fmt.Sprintf("the running best is replaced by %s on a path where it is not (eligible: avail=%v weight>0=%v) and strictly better (best == nil or compLCWeight(best, e) > 0: %v); a tie or a worse element must not replace the best", core.Render(e), avail, pos, better))
		}
	}
	c.Min("best-update", 2)
	// ---- single flag: reset to true whenever best changes, false on a tie ----------------------------
	for _, in := range allInstrs(lc) {
		phi, ok := in.(*ssa.Phi)
		if !ok || phi.Comment != "singleBackend" {
			continue
		}
		for i, e := range phi.Edges {
			k, isK := e.(*ssa.Const)
			if !isK || k.Value == nil {
				continue
			}
			pred := phi.Block().Preds[i]
			gs := core.GuardsOnEdge(pred, phi.Block())
			tie, better := false, false
			for _, g := range gs {
				b, ok := g.Cond.(*ssa.BinOp)
				if !ok || !isZero(b.Y) {
					continue
				}
				if call, isCall := b.X.(*ssa.Call); !isCall || !core.CallIs(&call.Call, slb+".compLCWeight") {
					continue
				}
				if (b.Op == token.EQL && g.Pol) || (b.Op == token.NEQ && !g.Pol) {
					tie = true
				}
				if (b.Op == token.GTR && g.Pol) || (b.Op == token.LEQ && !g.Pol) {
					better = true
				}
			}
			if k.Value.ExactString() == "false" {
				c.Check("single-flag", "leastConnsBalance:false", pred.Instrs[len(pred.Instrs)-1].Pos(), tie && !better, "the single-candidate flag is cleared on a path that is not a tie with the running best")
			}
		}
	}
	// every path on which best is replaced by a strictly better element re-arms the flag: the flag value after such an edge is true
	for _, phi := range bestPhis {
		for i, e := range phi.Edges {
			if isNilConst(e) {
				continue
			}
			if _, isPhi := e.(*ssa.Phi); isPhi {
				continue
			}
			// find the singleBackend phi in the same block and its value on the same edge
			for _, in := range phi.Block().Instrs {
				sp, ok := in.(*ssa.Phi)
				if !ok || sp.Comment != "singleBackend" {
					continue
				}
				c.Check("single-flag", fmt.Sprintf("leastConnsBalance:rearm#%d", i), phi.Pos(), core.Render(sp.Edges[i]) == "true", "when the running best is replaced the single-candidate flag must be re-armed (true); otherwise elements tied with an older, worse best are returned as candidates")
			}
		}
	}
	c.Min("single-flag", 2)
	// ---- (2) candidates ----------------------------------------------------------------------------------
	loops := core.Loops(lc)
	nApp := 0
	for _, in := range allInstrs(lc) {
		call, ok := in.(*ssa.Call)
		if !ok {
			continue
		}
		for _, e := range appendedElems(call) {
			nApp++
			if p, isP := e.(*ssa.Phi); isP && p.Comment == "best" {
				// single case: the final best, after the first scan
				inLoop := false
				for _, l := range loops {
					if l.Body[call.Block()] {
						inLoop = true
					}
				}
				single := core.HasGuard(call.Block(), func(g core.Guard) bool {
					sp, ok := g.Cond.(*ssa.Phi)
					return ok && g.Pol && sp.Comment == "singleBackend"
				})
				c.Check("candidate-tied", fmt.Sprintf("leastConnsBalance:append#%d", nApp), call.Pos(), !inLoop && single, "the best element is returned alone only after the scan finished and under the single-candidate flag")
				continue
			}
			tied := core.HasGuard(call.Block(), func(g core.Guard) bool {
				b, ok := g.Cond.(*ssa.BinOp)
				if !ok || !isZero(b.Y) || !((b.Op == token.EQL && g.Pol) || (b.Op == token.NEQ && !g.Pol)) {
					return false
				}
				cc, isCall := b.X.(*ssa.Call)
				if !isCall || !core.CallIs(&cc.Call, slb+".compLCWeight") || !sameElem(cc.Call.Args[1], e) {
					return false
				}
				bp, isP := cc.Call.Args[0].(*ssa.Phi)
				return isP && bp.Comment == "best"
			})
			avail, pos := eligibleByGuards(e, core.GuardsAt(call.Block()))
			// the best compared against is final: the append's loop is not the loop that assigns best
			finalBest := true
			for _, l := range loops {
				if !l.Body[call.Block()] {
					continue
				}
				for _, phi := range bestPhis {
					if phi.Block() == l.Header {
						finalBest = false
					}
				}
			}
			c.Check("candidate-tied", fmt.Sprintf("leastConnsBalance:append#%d", nApp), call.Pos(), tied && avail && pos && finalBest,
				fmt.Sprintf("an element is added to the least-connection candidates without being eligible (avail=%v weight>0=%v) and tied with the final best (compLCWeight(best, e) == 0: %v, best final: %v)", avail, pos, tied, finalBest))
		}
	}
	c.Min("candidate-tied", 2)
	// entry points select from the candidates only
	for _, name := range []string{"BalanceRR.leastConnsSmoothBalance", "BalanceRR.leastConnsSimpleBalance"} {
		fn := c.P.Func(slb, name)
		if fn == nil {
			c.Missing(slb + "." + name)
			continue
		}
		c.Analysed(core.FuncKey(fn))
		lcCalls := core.Calls(fn, slb+".leastConnsBalance")
		if len(lcCalls) != 1 {
			c.Check("wlc-entry", name, fn.Pos(), false, "expected one call of leastConnsBalance")
			continue
		}
		lcCall := lcCalls[0].(*ssa.Call)
		for i, r := range core.Returns(fn) {
			rv := core.RetVals(r)
			if isNilConst(rv[0]) {
				continue
			}
			s := core.Render(rv[0])
			fromCand := false
			if x := fieldLoadOf(rv[0], "backend"); x != nil {
				if u, ok := x.(*ssa.UnOp); ok {
					if ia, ok := u.X.(*ssa.IndexAddr); ok {
						if ex, ok := ia.X.(*ssa.Extract); ok && ex.Tuple == ssa.Value(lcCall) && ex.Index == 0 {
							fromCand = true
						}
					}
				}
			}
			if ex, ok := rv[0].(*ssa.Extract); ok {
				if call, ok := ex.Tuple.(*ssa.Call); ok && (core.CallIs(&call.Call, slb+".smoothBalance") || core.CallIs(&call.Call, slb+".randomBalance")) {
					if a, ok := call.Call.Args[0].(*ssa.Extract); ok && a.Tuple == ssa.Value(lcCall) && a.Index == 0 {
						fromCand = true
					}
				}
			}
			c.Check("wlc-entry", fmt.Sprintf("%s:return#%d", name, i), r.Pos(), fromCand, "the least-connection entry point returns "+s+", which is not drawn from leastConnsBalance's candidate list")
		}
	}
	c.Min("wlc-entry", 4)
}
