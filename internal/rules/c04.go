package rules

import (
	"fmt"
	"go/token"
	"go/types"
	"strings"

	"golang.org/x/tools/go/ssa"

	"verif/internal/core"
)

// C04 — least-connection mode picks a minimal connections/weight backend.
func init() {
	Register(&Rule{
		ID: "C04", Section: "3 C04 (claimed after all: structural clauses only)",
		Technique: "guard census and value-flow on the least-connection scan: the running best is replaced only on a strictly smaller ratio, the candidate list holds only elements tied with the final best, the comparator is the cross-multiplied ratio difference",
		Meta: core.Meta{
			Level:       "other",
			Explanation: "DESIGN.md first listed C04 as not applicable (a minimisation over runtime counters). Three structural necessary conditions are decidable and are claimed instead: (1) in leastConnsBalance the running best is assigned only when it is nil or when compLCWeight(best, e) > 0 (e strictly better), for an element that passed the eligibility filter; (2) every element appended to the returned candidate list is the final best itself (single case) or is guarded by compLCWeight(best, e) == 0 in a second scan that starts after the first scan finished, so all candidates tie with the minimum; both WLC entry points select only from that list (single candidate directly, otherwise smooth/random choice among the tied ones); (3) compLCWeight returns 1/0/-1 by the sign of a.ConnNum()*b.weight - b.ConnNum()*a.weight (cross-multiplication of conn/weight ratios; operand roles checked, factor order free) and reads nothing else. Not covered: that the minimum over the eligible set is actually attained for all counter values (overflow of the products, concurrent counter updates during the scan), fairness among tied candidates. A rewrite of the comparator in another arithmetic form would need this rule to be updated. Robustness: the scan is examined on leastConnsBalance's region (the function, its private helpers, closures) and its variables by role: the running best is a *BackendRR phi (or a helper result/parameter that resolves to one), the single-candidate flag is the boolean phi that guards the append of the best itself, the comparator's operands are its parameters by position; guards are accepted in either spelling/polarity (also compLCWeight(e, best) < 0), through named booleans and predicate helpers; the comparator's returns are checked by the sign of the difference that the branch conditions leave possible, whatever the order of the tests. Not covered after this generalisation: a single-candidate indicator kept in another form than a boolean variable (e.g. a tie counter compared with 0) and a running best kept in a struct field are not followed and are reported.",
			RuleText:    "obligations = each assignment to the running best, each append to the candidate list, each return of the WLC entry points, the comparator's shape",
		},
		Run: runC04,
		Mutants: []Mutant{
			{Name: "best-replaced-on-tie", File: "bfe_balance/bal_slb/bal_rr.go", Old: "		ret := compLCWeight(best, backendRR)\n		if ret > 0 {\n			best = backendRR", New: "		ret := compLCWeight(best, backendRR)\n		if ret >= 0 {\n			best = backendRR", Expect: "best-update"},
			{Name: "comparator-swapped", File: "bfe_balance/bal_slb/bal_rr.go", Old: "	ret := a.backend.ConnNum()*b.weight - b.backend.ConnNum()*a.weight", New: "	ret := a.backend.ConnNum()*a.weight - b.backend.ConnNum()*b.weight", Expect: "comparator"},
			{Name: "comparator-inverted", File: "bfe_balance/bal_slb/bal_rr.go", Old: "	if ret > 0 {\n		return 1\n	}\n\n	// a.backend.ConnNum() / a.weight == b.backend.ConnNum() / b.weight", New: "	if ret < 0 {\n		return 1\n	}\n\n	// a.backend.ConnNum() / a.weight == b.backend.ConnNum() / b.weight", Expect: "comparator"},
			{Name: "candidates-include-worse", File: "bfe_balance/bal_slb/bal_rr.go", Old: "		if ret := compLCWeight(best, backendRR); ret == 0 {", New: "		if ret := compLCWeight(best, backendRR); ret <= 0 {", Expect: "candidate-tied"},
			{Name: "single-flag-stale", File: "bfe_balance/bal_slb/bal_rr.go", Old: "		if ret > 0 {\n			best = backendRR\n			singleBackend = true\n		} else if ret == 0 {", New: "		if ret > 0 {\n			best = backendRR\n		} else if ret == 0 {", Expect: "single-flag"},
			// behaviour-preserving refactorings: the verdict must not change
			{Name: "silent-tie-predicate-helper", File: "bfe_balance/bal_slb/bal_rr.go", Old: "\t\tif ret := compLCWeight(best, backendRR); ret == 0 {\n\t\t\tcandidates = append(candidates, backendRR)\n\t\t}\n\t}\n\n\treturn candidates, nil\n}\n", New: "\t\tif lcTied(best, backendRR) {\n\t\t\tcandidates = append(candidates, backendRR)\n\t\t}\n\t}\n\n\treturn candidates, nil\n}\n\nfunc lcTied(min, other *BackendRR) bool {\n\treturn compLCWeight(min, other) == 0\n}\n", Silent: true},
			{Name: "silent-mirrored-better-test", File: "bfe_balance/bal_slb/bal_rr.go", Old: "\t\tret := compLCWeight(best, backendRR)\n\t\tif ret > 0 {\n\t\t\tbest = backendRR\n\t\t\tsingleBackend = true\n\t\t} else if ret == 0 {\n\t\t\tsingleBackend = false\n\t\t}\n", New: "\t\tret := compLCWeight(backendRR, best)\n\t\tif 0 > ret {\n\t\t\tbest = backendRR\n\t\t\tsingleBackend = true\n\t\t} else if 0 == ret {\n\t\t\tsingleBackend = false\n\t\t}\n", Silent: true},
			{Name: "silent-comparator-switch-ascending", File: "bfe_balance/bal_slb/bal_rr.go", Old: "\tif ret > 0 {\n\t\treturn 1\n\t}\n\n\t// a.backend.ConnNum() / a.weight == b.backend.ConnNum() / b.weight\n\tif ret == 0 {\n\t\treturn 0\n\t}\n\n\treturn -1\n}", New: "\tswitch {\n\tcase ret < 0:\n\t\treturn -1\n\tcase ret == 0:\n\t\t// a.backend.ConnNum() / a.weight == b.backend.ConnNum() / b.weight\n\t\treturn 0\n\t}\n\treturn 1\n}", Silent: true},
			{Name: "silent-comparator-renamed-commuted", File: "bfe_balance/bal_slb/bal_rr.go", Old: "func compLCWeight(a, b *BackendRR) int {\n\t// compare a.backend.ConnNum() / a.weight and b.backend.ConnNum() / b.weight\n\t// to avoid compare floating num, both multipli a.weight * b.weight\n\tret := a.backend.ConnNum()*b.weight - b.backend.ConnNum()*a.weight\n", New: "func compLCWeight(x, y *BackendRR) int {\n\t// compare x.backend.ConnNum() / x.weight and y.backend.ConnNum() / y.weight\n\t// to avoid compare floating num, both multipli x.weight * y.weight\n\txConns := x.backend.ConnNum()\n\tyConns := y.backend.ConnNum()\n\tret := y.weight*xConns - x.weight*yConns\n", Silent: true},
			{Name: "silent-single-inverted-else-logging", File: "bfe_balance/bal_slb/bal_rr.go", Old: "\tif singleBackend {\n\t\tcandidates = append(candidates, best)\n\t\treturn candidates, nil\n\t}\n", New: "\tif !singleBackend {\n\t\t// several backends tie: collect them below\n\t} else {\n\t\tif bfe_debug.DebugBal {\n\t\t\tlog.Logger.Debug(\"lc_bal:single backend[%s]\", best.backend.Name)\n\t\t}\n\t\tcandidates = append(candidates, best)\n\t\treturn candidates, nil\n\t}\n", Silent: true},
		},
	})
}

// lcCmpFact: the fact establishes `compLCWeight(a, b) op 0`; returns the call and op.
func lcCmpFact(f balFact) (call *ssa.Call, op token.Token, ok bool) {
	o, x, y, isCmp := f.G().Cmp()
	if !isCmp {
		return nil, 0, false
	}
	if cl, isCall := x.(*ssa.Call); isCall && isZero(y) && core.CallIs(&cl.Call, "bfe_balance/bal_slb.compLCWeight") {
		return cl, o, true
	}
	if cl, isCall := y.(*ssa.Call); isCall && isZero(x) && core.CallIs(&cl.Call, "bfe_balance/bal_slb.compLCWeight") {
		return cl, balMirror[o], true
	}
	return nil, 0, false
}

func runC04(c *core.Ctx) {
	defer balAcquire(c.P)()
	const slb = "bfe_balance/bal_slb"
	lc := c.P.Func(slb, "leastConnsBalance")
	cmp := c.P.Func(slb, "compLCWeight")
	if lc == nil || cmp == nil {
		c.Missing(slb + ".leastConnsBalance / compLCWeight")
		return
	}
	c.Analysed(core.FuncKey(lc), core.FuncKey(cmp))
	// ---- (3) comparator ------------------------------------------------------------------
	// operands are identified by parameter position (a = #0, b = #1), never by name
	prod := func(v ssa.Value) (conn, weight int, ok bool) {
		m, isM := core.StripConv(v).(*ssa.BinOp)
		if !isM || m.Op != token.MUL {
			return -1, -1, false
		}
		pidx := func(x ssa.Value) int { return balParamOf(c.P, x, cmp) }
		for _, pair := range [][2]ssa.Value{{m.X, m.Y}, {m.Y, m.X}} {
			call, isCall := core.StripConv(pair[0]).(*ssa.Call)
			w := fieldLoadOf(pair[1], "weight")
			if isCall && core.CallIs(&call.Call, "bfe_balance/backend.BfeBackend.ConnNum") && w != nil {
				if x := fieldLoadOf(call.Call.Args[0], "backend"); x != nil {
					return pidx(x), pidx(w), true
				}
			}
		}
		return -1, -1, false
	}
	var ret *ssa.BinOp
	okShape := false
	for _, in := range balRegionInstrs(c.P, cmp) {
		b, ok := in.(*ssa.BinOp)
		if !ok || b.Op != token.SUB {
			continue
		}
		c1, w1, ok1 := prod(b.X)
		c2, w2, ok2 := prod(b.Y)
		if ok1 && ok2 {
			ret = b
			okShape = c1 == 0 && w1 == 1 && c2 == 1 && w2 == 0
			break
		}
		if ret == nil {
			ret = b
		}
	}
	c.Check("comparator", "compLCWeight:difference", cmp.Pos(), okShape, "compLCWeight must compare a.conn/a.weight with b.conn/b.weight by the cross-multiplied difference a.ConnNum()*b.weight - b.ConnNum()*a.weight")
	for i, r := range core.Returns(cmp) {
		v := core.Render(r.Results[0])
		// the sign of the difference that the branch conditions leave possible at this return
		sign := map[int]bool{-1: true, 0: true, 1: true}
		for _, f := range balFactsAt(r.Block()) {
			op, x, y, ok := f.G().Cmp()
			if !ok || ret == nil {
				continue
			}
			if core.StripConv(y) == ssa.Value(ret) && isZero(x) {
				op, x, y = balMirror[op], y, x
			}
			if core.StripConv(x) != ssa.Value(ret) || !isZero(y) {
				continue
			}
			for s := -1; s <= 1; s++ {
				holds := map[token.Token]bool{token.GTR: s > 0, token.GEQ: s >= 0, token.LSS: s < 0, token.LEQ: s <= 0, token.EQL: s == 0, token.NEQ: s != 0}[op]
				if !holds {
					delete(sign, s)
				}
			}
		}
		want := map[string]int{"1": 1, "0": 0, "-1": -1}
		w, known := want[v]
		if !known {
			c.Check("comparator", fmt.Sprintf("compLCWeight:return#%d", i), r.Pos(), false, "compLCWeight returns "+v+", expected one of 1, 0, -1")
			continue
		}
		c.Check("comparator", fmt.Sprintf("compLCWeight:return#%d=%s", i, v), r.Pos(), len(sign) == 1 && sign[w], "compLCWeight returns "+v+" under the wrong sign test of the ratio difference; guards: "+strings.Join(core.GuardStrs(r.Block()), " && "))
	}
	c.Min("comparator", 4)

	// ---- roles in leastConnsBalance's region -----------------------------------------------------------
	// The scan may be split over private helpers and its variables may carry any name: the running
	// best is a phi of type *BackendRR (or a helper result / parameter that resolves to one), the
	// single-candidate flag is the boolean phi that guards the append of the best itself.
	regInstrs := balRegionInstrs(c.P, lc)
	isBackendRRPtr := func(t types.Type) bool { return strings.HasSuffix(core.TypeStr(t), "*"+slb+".BackendRR") }
	var bestPhis []*ssa.Phi
	for _, in := range regInstrs {
		if phi, ok := in.(*ssa.Phi); ok && isBackendRRPtr(phi.Type()) {
			bestPhis = append(bestPhis, phi)
		}
	}
	var isBestVal func(v ssa.Value, d int) bool
	isBestVal = func(v ssa.Value, d int) bool {
		v = balUp(c.P, v)
		if d > 4 {
			return false
		}
		switch x := v.(type) {
		case *ssa.Phi:
			return isBackendRRPtr(x.Type())
		case *ssa.Call, *ssa.Extract:
			_, h, idx := balCallee(x)
			if h == nil || !balInRegion(c.P, lc, h) {
				return false
			}
			rs := balResults(h, idx)
			for _, r := range rs {
				if !isBestVal(r, d+1) {
					return false
				}
			}
			return len(rs) > 0
		}
		return false
	}
	// boolPhis: the boolean phis v is made of (through phi edges, helper results and helper parameters)
	boolPhis := func(v ssa.Value) []*ssa.Phi {
		var out []*ssa.Phi
		seen := map[ssa.Value]bool{}
		var walk func(v ssa.Value, d int)
		walk = func(v ssa.Value, d int) {
			v = balUp(c.P, v)
			if v == nil || seen[v] || d > 8 {
				return
			}
			seen[v] = true
			switch x := v.(type) {
			case *ssa.Phi:
				if balIsBool(x.Type()) {
					out = append(out, x)
					for _, e := range x.Edges {
						walk(e, d+1)
					}
				}
			case *ssa.Call, *ssa.Extract:
				if _, h, idx := balCallee(x); h != nil && balInRegion(c.P, lc, h) && h.Signature.Results().Len() > 1 {
					for _, r := range balResults(h, idx) {
						walk(r, d+1)
					}
				}
			}
		}
		walk(v, 0)
		return out
	}
	if len(bestPhis) == 0 {
		c.Check("best-update", "leastConnsBalance:best", lc.Pos(), false, "the running best of the least-connection scan was not found")
	}
	// ---- (1) running best ------------------------------------------------------------------------
	type repl struct {
		phi *ssa.Phi
		i   int
	}
	var repls []repl
	n := 0
	for _, phi := range bestPhis {
		for i, e := range phi.Edges {
			pred := phi.Block().Preds[i]
			e = core.StripConv(e)
			if isNilConst(e) {
				continue
			}
			if _, isPhi := e.(*ssa.Phi); isPhi {
				continue
			}
			if isBestVal(e, 0) {
				continue // the best handed on by a helper, not a new element
			}
			repls = append(repls, repl{phi, i})
			n++
			elem := e
			avail, pos := balEligible(elem, balFactsOnEdge(pred, phi.Block()))
			if !avail || !pos {
				a2, p2 := balEligibleAt(c.P, elem, pred)
				avail, pos = avail || a2, pos || p2
			}
			better := balEdgeHolds(pred, phi.Block(), func(f balFact) bool {
				// best == nil (first eligible element)
				if v, isNil, ok := balNilTest(f); ok && isNil && isBestVal(v, 0) {
					return true
				}
				// compLCWeight(best, e) > 0, or the mirrored compLCWeight(e, best) < 0
				if call, op, ok := lcCmpFact(f); ok {
					a0, a1 := call.Call.Args[0], call.Call.Args[1]
					if op == token.GTR && isBestVal(f.res(a0), 0) && balSame(f, a1, elem) {
						return true
					}
					if op == token.LSS && isBestVal(f.res(a1), 0) && balSame(f, a0, elem) {
						return true
					}
				}
				return false
			})
			c.Check("best-update", fmt.Sprintf("leastConnsBalance:assign#%d", n), pred.Instrs[len(pred.Instrs)-1].Pos(), avail && pos && better,
				fmt.Sprintf("the running best is replaced by %s on a path where it is not (eligible: avail=%v weight>0=%v) and strictly better (best == nil or compLCWeight(best, e) > 0: %v); a tie or a worse element must not replace the best", core.Render(e), avail, pos, better))
		}
	}
	c.Min("best-update", 2)

	// ---- (2) candidates ----------------------------------------------------------------------------------
	inLoopCtx := func(in ssa.Instruction) bool {
		for depth := 0; depth < 4; depth++ {
			if balInLoop(in.Block()) {
				return true
			}
			s := balSingleSite(c.P, in.Parent())
			if s == nil {
				return false
			}
			in = s.(ssa.Instruction)
		}
		return false
	}
	flagPhis := map[*ssa.Phi]bool{}
	nApp := 0
	for _, in := range regInstrs {
		call, ok := in.(*ssa.Call)
		if !ok {
			continue
		}
		for _, e := range appendedElems(call) {
			nApp++
			if isBestVal(e, 0) {
				// single case: the final best, after the first scan, under the single-candidate flag
				single := false
				for _, f := range balFactsCtx(c.P, call.Block()) {
					if !f.Pol || f.Env != nil {
						continue
					}
					if _, isCmp := f.Cond.(*ssa.BinOp); isCmp {
						continue
					}
					if ps := boolPhis(f.res(f.Cond)); len(ps) > 0 {
						single = true
						for _, p := range ps {
							flagPhis[p] = true
						}
					}
				}
				c.Check("candidate-tied", fmt.Sprintf("leastConnsBalance:append#%d", nApp), call.Pos(), !inLoopCtx(call) && single, "the best element is returned alone only after the scan finished and under the single-candidate flag")
				continue
			}
			elem := e
			finalBest := true
			tied := false
			for _, f := range balFactsCtx(c.P, call.Block()) {
				cc, op, ok := lcCmpFact(f)
				if !ok || op != token.EQL {
					continue
				}
				var bv ssa.Value
				switch {
				case balSame(f, cc.Call.Args[1], elem):
					bv = f.res(cc.Call.Args[0])
				case balSame(f, cc.Call.Args[0], elem):
					bv = f.res(cc.Call.Args[1])
				default:
					continue
				}
				if !isBestVal(bv, 0) {
					continue
				}
				tied = true
				// the best compared against is final: the append's loop is not a loop that assigns best
				for _, l := range balLoopsOf(call.Block()) {
					for _, phi := range bestPhis {
						if l.Body[phi.Block()] {
							finalBest = false
						}
					}
				}
			}
			avail, pos := balEligibleAt(c.P, elem, call.Block())
			c.Check("candidate-tied", fmt.Sprintf("leastConnsBalance:append#%d", nApp), call.Pos(), tied && avail && pos && finalBest,
				fmt.Sprintf("an element is added to the least-connection candidates without being eligible (avail=%v weight>0=%v) and tied with the final best (compLCWeight(best, e) == 0: %v, best final: %v)", avail, pos, tied, finalBest))
		}
	}
	c.Min("candidate-tied", 2)

	// ---- single flag: reset to true whenever best changes, false on a tie ----------------------------
	for _, in := range regInstrs {
		phi, ok := in.(*ssa.Phi)
		if !ok || !flagPhis[phi] {
			continue
		}
		for i, e := range phi.Edges {
			kv, isK := balConstBool(e)
			if !isK || kv {
				continue
			}
			pred := phi.Block().Preds[i]
			tie, better := false, false
			for _, f := range balFactsOnEdge(pred, phi.Block()) {
				if _, op, ok := lcCmpFact(f); ok {
					if op == token.EQL {
						tie = true
					}
					if op == token.GTR {
						better = true
					}
				}
			}
			c.Check("single-flag", "leastConnsBalance:false", pred.Instrs[len(pred.Instrs)-1].Pos(), tie && !better, "the single-candidate flag is cleared on a path that is not a tie with the running best")
		}
	}
	// every path on which best is replaced by a strictly better element re-arms the flag: the flag value after such an edge is true
	for _, rp := range repls {
		// find the flag phi in the same block and its value on the same edge
		for _, in := range rp.phi.Block().Instrs {
			sp, ok := in.(*ssa.Phi)
			if !ok || !flagPhis[sp] {
				continue
			}
			kv, isK := balConstBool(sp.Edges[rp.i])
			c.Check("single-flag", fmt.Sprintf("leastConnsBalance:rearm#%d", rp.i), rp.phi.Pos(), isK && kv, "when the running best is replaced the single-candidate flag must be re-armed (true); otherwise elements tied with an older, worse best are returned as candidates")
		}
	}
	c.Min("single-flag", 2)

	// entry points select from the candidates only
	for _, name := range []string{"BalanceRR.leastConnsSmoothBalance", "BalanceRR.leastConnsSimpleBalance"} {
		fn := c.P.Func(slb, name)
		if fn == nil {
			c.Missing(slb + "." + name)
			continue
		}
		c.Analysed(core.FuncKey(fn))
		lcCalls := balRegionCalls(c.P, fn, slb+".leastConnsBalance")
		if len(lcCalls) != 1 {
			c.Check("wlc-entry", name, fn.Pos(), false, "expected one call of leastConnsBalance")
			continue
		}
		lcCall, _ := lcCalls[0].(*ssa.Call)
		// isCand: v is (on every way it is produced) result #0 of the leastConnsBalance call
		var isCand func(v ssa.Value, d int) bool
		isCand = func(v ssa.Value, d int) bool {
			v = balUp(c.P, v)
			if d > 6 {
				return false
			}
			switch x := v.(type) {
			case *ssa.Extract:
				return lcCall != nil && x.Tuple == ssa.Value(lcCall) && x.Index == 0
			case *ssa.Phi:
				for _, e := range x.Edges {
					if e != ssa.Value(x) && !isCand(e, d+1) {
						return false
					}
				}
				return true
			}
			return false
		}
		for i, r := range core.Returns(fn) {
			rv := core.RetVals(r)
			if isNilConst(rv[0]) {
				continue
			}
			s := core.Render(rv[0])
			fromCand := false
			if x := fieldLoadOf(rv[0], "backend"); x != nil {
				if list, _ := balElemOfList(x); list != nil && isCand(list, 0) {
					fromCand = true
				}
			}
			if ex, ok := core.StripConv(rv[0]).(*ssa.Extract); ok {
				if call, ok := ex.Tuple.(*ssa.Call); ok && (core.CallIs(&call.Call, slb+".smoothBalance") || core.CallIs(&call.Call, slb+".randomBalance")) {
					if isCand(call.Call.Args[0], 0) {
						fromCand = true
					}
				}
			}
			c.Check("wlc-entry", fmt.Sprintf("%s:return#%d", name, i), r.Pos(), fromCand, "the least-connection entry point returns "+s+", which is not drawn from leastConnsBalance's candidate list")
		}
	}
	c.Min("wlc-entry", 4)
}
