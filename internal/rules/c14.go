package rules

import (
	"fmt"
	"go/ast"
	"go/token"
	"go/types"
	"sort"
	"strings"

	"golang.org/x/tools/go/packages"
	"golang.org/x/tools/go/ssa"

	"verif/internal/core"
)

// C14 — configuration interpretation is deterministic (independent of map iteration order).
func init() {
	Register(&Rule{
		ID: "C14", Section: "4 C14",
		Technique: "map-order effect classification (syntax tree + types) of every `range` over a map in the config-loading, routing and balancing packages, with a reviewed exception table whose entries carry machine-checked side conditions",
		Meta: core.Meta{
			Level:       "other",
			Explanation: "Enumerates every `for … range <map>` of bfe_config/**, bfe_route/** and bfe_balance/** and classifies each effect of the loop body on state that outlives the iteration: order-insensitive are stores keyed by the range key itself, keyed stores of a constant, keyed stores dominated by a reject-duplicate test on the same container and key, commutative numeric accumulation, constant flag assignment, early return of an error or of constants, effects confined to the per-key element; order-sensitive (violations) are appends to an outer slice that is not sorted afterwards in the same function, keyed stores / ordered-sink calls (Trie.Set, radix Insert) whose key is not the range key and has no duplicate guard, string concatenation, non-constant assignment to an outer variable, returning a loop element. Anything not classifiable must be in the reviewed table (one entry per function+effect, with a reason; some entries are valid only while a checked side condition holds, e.g. the loader rejects hosts that are equal after lower-casing). Not covered: nondeterminism from other sources (time, rand — see C01/C02), order effects hidden inside callees that receive only per-key arguments.",
			RuleText:    "obligations = one per effect site of each map-range loop (keyed by function, effect kind, target), plus the side conditions of the reviewed entries; loop count asserted >= 50",
		},
		Run: runC14,
		Mutants: []Mutant{
			{Name: "dup-guard-per-tag", File: "bfe_config/bfe_route_conf/host_rule_conf/host_table_load.go", Old: "	for hostTag, hostnameList := range *config.Hosts {\n		for _, hostName := range *hostnameList {\n			// host name is case-insensitive, and the host trie ignores\n			// the trailing dot of a fully qualified name\n			hostName = strings.TrimSuffix(strings.ToLower(hostName), \".\")\n			if host2HostTag[hostName] != \"\" {\n				return conf, fmt.Errorf(\"host duplicate for %s\", hostName)\n			}", New: "	for hostTag, hostnameList := range *config.Hosts {\n		seen := make(map[string]bool)\n		for _, hostName := range *hostnameList {\n			// host name is case-insensitive, and the host trie ignores\n			// the trailing dot of a fully qualified name\n			hostName = strings.TrimSuffix(strings.ToLower(hostName), \".\")\n			if seen[hostName] {\n				return conf, fmt.Errorf(\"host duplicate for %s\", hostName)\n			}\n			seen[hostName] = true", Expect: "keyed-store"},
			{Name: "host-case-fold-dropped", File: "bfe_config/bfe_route_conf/host_rule_conf/host_table_load.go", Old: "			hostName = strings.TrimSuffix(strings.ToLower(hostName), \".\")\n", New: "			hostName = strings.TrimSuffix(strings.TrimSpace(hostName), \".\")\n", Expect: "ordered-sink"},
			{Name: "host-trailing-dot-kept", File: "bfe_config/bfe_route_conf/host_rule_conf/host_table_load.go", Old: "			hostName = strings.TrimSuffix(strings.ToLower(hostName), \".\")\n", New: "			hostName = strings.ToLower(hostName)\n", Expect: "ordered-sink"},
			{Name: "host-key-new-transformer", File: "bfe_route/host_table.go", Old: "		host = strings.ToLower(host)\n		product := conf.HostTagMap[tag]", New: "		host = strings.TrimSpace(strings.ToLower(host))\n		product := conf.HostTagMap[tag]", Expect: "ordered-sink"},
			{Name: "vip-dup-guard-removed", File: "bfe_config/bfe_route_conf/vip_rule_conf/vip_table_load.go", Old: "			if _, ok := vipConf.VipMap[vip]; ok {\n				return vipConf, fmt.Errorf(\"vip duplicate for %s\", vip)\n			}\n", New: "", Expect: "keyed-store"},
			{Name: "host-dup-guard-removed", File: "bfe_config/bfe_route_conf/host_rule_conf/host_table_load.go", Old: "			if host2HostTag[hostName] != \"\" {\n				return conf, fmt.Errorf(\"host duplicate for %s\", hostName)\n			}\n", New: "", Expect: "keyed-store"},
			{Name: "tag-dup-guard-removed", File: "bfe_config/bfe_route_conf/host_rule_conf/host_table_load.go", Old: "			if _, ok := hostTag2Product[hostTag]; ok {\n				return conf, fmt.Errorf(\"hostTag duplicate for %s\", hostTag)\n			}\n", New: "", Expect: "keyed-store"},
			{Name: "gslb-init-unsorted", File: "bfe_balance/bal_gslb/bal_gslb.go", Old: "	// sort list to guarantee same order, since map iteration is not in order\n	sort.Sort(SubClusterListSorter{bal.subClusters})\n", New: "", Expect: "append"},
			{Name: "first-match-return", File: "bfe_config/bfe_route_conf/vip_rule_conf/vip_table_load.go", Old: "func VipRuleConfLoad(filename string) (VipConf, error) {", New: "func firstProduct(m map[string][]string) string {\n	for p := range m {\n		return p\n	}\n	return \"\"\n}\n\nfunc VipRuleConfLoad(filename string) (VipConf, error) {", Expect: "return-element"},
			{Name: "update-unsorted-new", File: "bfe_balance/bal_slb/bal_rr.go", Old: "	sort.Strings(newKeys)\n", New: "", Expect: "append"},
		},
	})
}

type mapLoop struct {
	pk   *packages.Package
	fn   string
	rs   *ast.RangeStmt
	body *ast.BlockStmt
}

type effect struct {
	kind, target, why string
	pos               token.Pos
	sensitive         bool
	undecided         bool
}

func runC14(c *core.Ctx) {
	var loops []mapLoop
	for _, pk := range c.P.Pkgs {
		rel := strings.TrimPrefix(pk.PkgPath, core.ModPath+"/")
		if !(strings.HasPrefix(rel, "bfe_config") || strings.HasPrefix(rel, "bfe_route") || strings.HasPrefix(rel, "bfe_balance")) {
			continue
		}
		for _, f := range pk.Syntax {
			for _, d := range f.Decls {
				fd, ok := d.(*ast.FuncDecl)
				if !ok || fd.Body == nil {
					continue
				}
				name := rel + "." + fd.Name.Name
				if fd.Recv != nil && len(fd.Recv.List) == 1 {
					name = rel + "." + recvName(fd.Recv.List[0].Type) + "." + fd.Name.Name
				}
				ast.Inspect(fd.Body, func(n ast.Node) bool {
					rs, ok := n.(*ast.RangeStmt)
					if !ok {
						return true
					}
					if t := pk.TypesInfo.TypeOf(rs.X); t != nil {
						if _, isMap := t.Underlying().(*types.Map); isMap {
							loops = append(loops, mapLoop{pk, name, rs, fd.Body})
						}
					}
					return true
				})
			}
		}
	}
	// ---- order-sensitive published lists are a function of the configuration only ---------------
	// (not of reload history): the sub-cluster list must be sorted as a whole before it is
	// published (shared with C02), and the backend list of a sub-cluster must be rebuilt in an
	// order derived from the new configuration.
	publishedSorted(c, "published-canonical")
	checkComparators(c, "canonical-key")
	if up := c.P.Func("bfe_balance/bal_slb", "BalanceRR.Update"); up == nil {
		c.Missing("bfe_balance/bal_slb.BalanceRR.Update")
	} else if bf, ok := c.P.Obj("bfe_balance/bal_slb", "BalanceRR.backends").(*types.Var); ok {
		for _, st := range core.FieldStores([]*ssa.Function{up}, bf) {
			// canonical if the stored list was sorted as a whole before the store
			sortedWhole := false
			for _, sc := range core.Calls(up, "sort.Sort") {
				if l := sortedList(sc); l != nil && core.StripConv(l) == core.StripConv(st.Store.Val) && core.Dominates(sc.(ssa.Instruction), st.Store) {
					sortedWhole = true
				}
			}
			// or if no element of the old list is carried over in its old position (list rebuilt from the config in config order)
			carriesOld := false
			core.Instrs(up, func(in ssa.Instruction) {
				if call, isCall := in.(*ssa.Call); isCall {
					for _, e := range appendedElems(call) {
						if strings.Contains(core.Render(e), "brr.backends[") {
							carriesOld = true
						}
					}
				}
			})
			c.Check("published-canonical", "bfe_balance/bal_slb.BalanceRR.Update:backends", st.Store.Pos(), sortedWhole || !carriesOld,
				"BalanceRR.Update publishes surviving backends in the order they had before the reload followed by the new ones: the list order (observable through smooth-WRR tie-breaking and WrrSimple's scan order) depends on the reload history, whereas a fresh Init of the same configuration uses the configuration's order")
		}
	}
	if len(loops) < 50 {
		c.Check("instances", "map-range-loops", token.NoPos, false, fmt.Sprintf("only %d map-range loops found in bfe_config/bfe_route/bfe_balance; 50 were reviewed", len(loops)))
	}
	c.Note("%d map-range loops classified", len(loops))
	ord := map[string]int{}
	for _, l := range loops {
		c.Analysed(l.fn)
		effs := classifyMapLoop(l)
		if len(effs) == 0 {
			ord[l.fn+"|pure"]++
			c.Check("map-range", fmt.Sprintf("%s:pure#%d", l.fn, ord[l.fn+"|pure"]), l.rs.Pos(), true, "no effect outlives an iteration")
		}
		for _, e := range effs {
			id := l.fn + ":" + e.kind + ":" + e.target
			ord[id]++
			key := fmt.Sprintf("%s#%d", id, ord[id])
			ok := !e.sensitive && !e.undecided
			why := e.why
			if !ok {
				if r, reviewed := c14Reviewed[id]; reviewed {
					sideOK, sideWhy := true, ""
					if r.side != nil {
						sideOK, sideWhy = r.side(c)
					}
					if sideOK {
						ok = true
						why = "reviewed: " + r.reason
					} else {
						why = "reviewed exception no longer valid (" + sideWhy + "): " + e.why
					}
				}
			}
			c.Check(e.kind, key, e.pos, ok, "map-range loop in "+l.fn+" over "+types.ExprString(l.rs.X)+": "+why)
		}
	}
}

type c14Exception struct {
	reason string
	side   func(c *core.Ctx) (bool, string)
}

// c14Reviewed: effects the classifier cannot decide by shape, each with the
// reason it is order-insensitive (key = function:kind:target).
var c14Reviewed = map[string]c14Exception{
	"bfe_balance.BalTable.gslbInit:append:fails":                                 {reason: "names are only joined into an error message; accept/reject does not depend on their order"},
	"bfe_balance.BalTable.backendInit:append:fails":                              {reason: "names are only joined into an error message"},
	"bfe_balance.BalTable.BalTableReload:append:fails":                           {reason: "names are only joined into an error message"},
	"bfe_route.buildHostRoute:ordered-sink:hostTrie.Set":                         {reason: "the trie key is lower(host); HostRuleConfLoad rejects two hosts that are equal after lower-casing, so keys are distinct", side: hostLoaderFoldsCase},
	"bfe_route.buildHostRoute:assign:host":                                       {reason: "loop variable re-assigned (per-iteration local)"},
	"bfe_config/bfe_tls_conf/tls_rule_conf.ClientCALoad:keyed-store:clientCAMap": {reason: "stored only when the key is absent and the value is loaded from the CA named by the key itself, so every writer of a key stores an equal value"},
}

// hostLoaderFoldsCase: the host trie is keyed by t(host) where t is the chain of string
// transformers buildHostRoute applies to a configured host name. Every transformer of that
// chain that is not injective (table below) must be mirrored by a normalisation HostRuleConfLoad
// applies to the name before its duplicate test - otherwise two configured names collapse onto
// one trie key and the map iteration order decides which one wins.
var hostKeyTransformers = map[string]string{
	"strings.ToLower":                "strings.ToLower",       // folds case
	"string_reverse.ReverseFqdnHost": "strings.TrimSuffix(.)", // reverses and drops one trailing dot (FQDN form)
	"strings.Split":                  "",                      // injective
}

func hostLoaderFoldsCase(c *core.Ctx) (bool, string) {
	// transformer chain of the builder
	bd, bpk := c.P.FuncDecl("bfe_route", "buildHostRoute")
	if bd == nil {
		return false, "buildHostRoute not found"
	}
	need := map[string]bool{}
	bad := ""
	// values derived from the range key of the loop over the configured hosts (followed through
	// assignments in source order, so renamed locals and named intermediates are recognised)
	derived := map[types.Object]bool{}
	mentions := func(e ast.Expr) bool {
		found := false
		ast.Inspect(e, func(m ast.Node) bool {
			if id, isI := m.(*ast.Ident); isI && derived[bpk.TypesInfo.ObjectOf(id)] {
				found = true
			}
			return true
		})
		return found
	}
	ast.Inspect(bd.Body, func(n ast.Node) bool {
		switch x := n.(type) {
		case *ast.RangeStmt:
			if tv, okT := bpk.TypesInfo.Types[x.X]; okT {
				if _, isMap := tv.Type.Underlying().(*types.Map); isMap {
					if id, isI := x.Key.(*ast.Ident); isI && id.Name != "_" {
						derived[bpk.TypesInfo.ObjectOf(id)] = true
					}
				}
			}
		case *ast.AssignStmt:
			for i, r := range x.Rhs {
				if mentions(r) && i < len(x.Lhs) {
					if id, isI := x.Lhs[i].(*ast.Ident); isI {
						derived[bpk.TypesInfo.ObjectOf(id)] = true
					}
				}
			}
		case *ast.CallExpr:
			if tv, isConv := bpk.TypesInfo.Types[x.Fun]; isConv && tv.IsType() {
				return true
			}
			fn := types.ExprString(x.Fun)
			uses := false
			for _, a := range x.Args {
				if mentions(a) {
					uses = true
				}
			}
			if !uses || strings.HasSuffix(fn, ".Set") {
				return true
			}
			norm, known := hostKeyTransformers[fn]
			if !known {
				bad = fn
				return true
			}
			if norm != "" {
				need[norm] = true
			}
		}
		return true
	})
	if bad != "" {
		return false, "buildHostRoute derives the trie key through " + bad + ", which is not in the reviewed transformer table (is it injective?)"
	}
	if len(need) == 0 {
		return false, "buildHostRoute no longer normalises the host name in a form the rule can follow"
	}
	const lpkg = "bfe_config/bfe_route_conf/host_rule_conf"
	fd0, pk := c.P.FuncDecl(lpkg, "HostRuleConfLoad")
	if fd0 == nil {
		return false, "HostRuleConfLoad not found"
	}
	// the loader and the same-package helpers it calls (the conversion loops may live in a helper)
	var bodies []*ast.BlockStmt
	if lf := c.P.Func(lpkg, "HostRuleConfLoad"); lf != nil {
		for _, f := range core.TransitiveCallees(lf, 3) {
			if core.FuncPkgRel(f) != lpkg || f.Parent() != nil {
				continue
			}
			if d, _ := c.P.FuncDecl(lpkg, strings.TrimPrefix(core.FuncKey(f), lpkg+".")); d != nil && d.Body != nil {
				bodies = append(bodies, d.Body)
			}
		}
	}
	if len(bodies) == 0 {
		bodies = append(bodies, fd0.Body)
	}
	ok := false
	missing := ""
	for _, body := range bodies {
		ast.Inspect(body, func(n ast.Node) bool {
			rs, isR := n.(*ast.RangeStmt)
			if !isR {
				return true
			}
			v, _ := rs.Value.(*ast.Ident)
			if v == nil {
				return true
			}
			vobj := pk.TypesInfo.ObjectOf(v)
			// leading statement(s) v = f(v): collect the normalisers applied before any index by v
			have := map[string]bool{}
			for _, st := range rs.Body.List {
				if as, isA := st.(*ast.AssignStmt); isA && len(as.Lhs) == 1 && len(as.Rhs) == 1 {
					if id, isI := as.Lhs[0].(*ast.Ident); isI && pk.TypesInfo.ObjectOf(id) == vobj {
						ast.Inspect(as.Rhs[0], func(m ast.Node) bool {
							call, isC := m.(*ast.CallExpr)
							if !isC {
								return true
							}
							switch types.ExprString(call.Fun) {
							case "strings.ToLower":
								have["strings.ToLower"] = true
							case "strings.TrimSuffix":
								if len(call.Args) == 2 {
									if tv, okT := pk.TypesInfo.Types[call.Args[1]]; okT && tv.Value != nil && tv.Value.ExactString() == "\".\"" {
										have["strings.TrimSuffix(.)"] = true
									}
								}
							}
							return true
						})
						continue
					}
				}
				if ifs, isIf := st.(*ast.IfStmt); isIf && strings.Contains(types.ExprString(ifs.Cond), "["+v.Name+"]") && endsWithReturn(ifs.Body) {
					all := true
					for k := range need {
						if !have[k] {
							all = false
							missing = k
						}
					}
					if all {
						ok = true
					}
				}
				break
			}
			return true
		})
	}
	if !ok {
		if missing != "" {
			return false, "HostRuleConfLoad's duplicate test does not apply " + missing + " to the host name although the trie key does: two configured names can collapse onto one key"
		}
		return false, "HostRuleConfLoad has no reject-duplicate test on the normalised host name"
	}
	return true, ""
}

func recvName(e ast.Expr) string {
	switch x := e.(type) {
	case *ast.StarExpr:
		return recvName(x.X)
	case *ast.Ident:
		return x.Name
	}
	return "?"
}

func endsWithReturn(b *ast.BlockStmt) bool {
	if b == nil || len(b.List) == 0 {
		return false
	}
	_, ok := b.List[len(b.List)-1].(*ast.ReturnStmt)
	return ok
}

// classifyMapLoop returns the effects of one map-range loop that outlive an iteration.
func classifyMapLoop(l mapLoop) []effect {
	info := l.pk.TypesInfo
	local := map[types.Object]bool{}
	var keyObj types.Object
	if id, ok := l.rs.Key.(*ast.Ident); ok && id.Name != "_" {
		keyObj = info.ObjectOf(id)
		local[keyObj] = true
	}
	if id, ok := l.rs.Value.(*ast.Ident); ok && id.Name != "_" {
		local[info.ObjectOf(id)] = true
	}
	// everything declared inside the loop body is per-iteration
	ast.Inspect(l.rs.Body, func(n ast.Node) bool {
		if id, ok := n.(*ast.Ident); ok {
			if o := info.Defs[id]; o != nil {
				local[o] = true
			}
		}
		return true
	})
	rootObj := func(e ast.Expr) types.Object {
		for {
			switch x := e.(type) {
			case *ast.Ident:
				return info.ObjectOf(x)
			case *ast.SelectorExpr:
				if _, isPkg := info.ObjectOf(identOf(x.X)).(*types.PkgName); isPkg {
					return info.ObjectOf(x.Sel)
				}
				e = x.X
			case *ast.IndexExpr:
				e = x.X
			case *ast.StarExpr:
				e = x.X
			case *ast.ParenExpr:
				e = x.X
			case *ast.CallExpr:
				return nil
			case *ast.UnaryExpr:
				e = x.X
			default:
				return nil
			}
		}
	}
	isLocal := func(e ast.Expr) bool {
		o := rootObj(e)
		return o != nil && local[o]
	}
	isConst := func(e ast.Expr) bool {
		if tv, ok := info.Types[e]; ok && tv.Value != nil {
			return true
		}
		switch x := e.(type) {
		case *ast.Ident:
			return x.Name == "true" || x.Name == "false" || x.Name == "nil"
		case *ast.CompositeLit:
			return len(x.Elts) == 0
		}
		return false
	}
	// sortedAfter: the outer slice named by expr is passed to a sort after the loop in the same function
	sortedAfter := func(target string) bool {
		found := false
		ast.Inspect(l.body, func(n ast.Node) bool {
			call, ok := n.(*ast.CallExpr)
			if !ok || call.Pos() < l.rs.End() {
				return true
			}
			fun := types.ExprString(call.Fun)
			if strings.HasPrefix(fun, "sort.") || strings.HasSuffix(fun, ".Sort") {
				for _, a := range call.Args {
					ast.Inspect(a, func(x ast.Node) bool {
						if e, isE := x.(ast.Expr); isE && types.ExprString(e) == target {
							found = true
						}
						return true
					})
				}
			}
			return true
		})
		return found
	}
	var effs []effect
	add := func(kind, target string, pos token.Pos, sensitive, undecided bool, why string) {
		effs = append(effs, effect{kind: kind, target: target, pos: pos, sensitive: sensitive, undecided: undecided, why: why})
	}
	// dupGuard: an earlier statement in an enclosing block of `at` rejects an existing M[key]
	var dupGuard func(blockPath []*ast.BlockStmt, at ast.Stmt, m, k string) bool
	dupGuard = func(blockPath []*ast.BlockStmt, at ast.Stmt, m, k string) bool {
		for _, b := range blockPath {
			for _, st := range b.List {
				if st.Pos() >= at.Pos() {
					break
				}
				ifs, ok := st.(*ast.IfStmt)
				if !ok || !endsWithReturn(ifs.Body) {
					continue
				}
				txt := types.ExprString(ifs.Cond)
				if ifs.Init != nil {
					if as, isA := ifs.Init.(*ast.AssignStmt); isA && len(as.Rhs) == 1 {
						txt += " " + types.ExprString(as.Rhs[0])
					}
				}
				if strings.Contains(txt, m+"["+k+"]") {
					return true
				}
			}
		}
		return false
	}
	var walk func(stmts []ast.Stmt, path []*ast.BlockStmt)
	var walkStmt func(st ast.Stmt, path []*ast.BlockStmt)
	checkCalls := func(n ast.Node, st ast.Stmt, path []*ast.BlockStmt) {
		ast.Inspect(n, func(x ast.Node) bool {
			if _, isLit := x.(*ast.FuncLit); isLit {
				return false
			}
			call, ok := x.(*ast.CallExpr)
			if !ok {
				return true
			}
			sel, ok := call.Fun.(*ast.SelectorExpr)
			if !ok {
				return true // plain function / builtin / conversion: arguments are per-iteration values
			}
			if _, isPkg := info.ObjectOf(identOf(sel.X)).(*types.PkgName); isPkg {
				return true // package-level function
			}
			if isLocal(sel.X) {
				return true // method on the per-key element
			}
			recv := types.ExprString(sel.X)
			name := sel.Sel.Name
			if strings.HasPrefix(recv, "log.") {
				return true
			}
			fobj, _ := info.ObjectOf(sel.Sel).(*types.Func)
			// read-only / commutative methods on outer objects
			switch name {
			case "Lookup", "Get", "Len", "String", "Error", "Inc", "Add", "Lock", "Unlock", "RLock", "RUnlock", "Search", "Match", "Has", "Contains":
				return true
			}
			if fobj == nil {
				return true // field of func type etc.: treated as per-iteration
			}
			// keyed sinks: first argument is the key
			if name == "Set" || name == "Insert" || name == "Put" || name == "Store" {
				k := ""
				if len(call.Args) > 0 {
					k = types.ExprString(call.Args[0])
				}
				injective := false
				if id, isI := call.Args[0].(*ast.Ident); len(call.Args) > 0 && isI && keyObj != nil && info.ObjectOf(id) == keyObj {
					injective = !reassigned(l.rs.Body, info, keyObj)
				}
				add("ordered-sink", recv+"."+name, call.Pos(), !injective, false,
					"keyed insert "+recv+"."+name+"("+k+", …) whose key is not the unmodified range key and has no reject-duplicate guard: when two entries map to the same key the survivor depends on map iteration order")
				return true
			}
			add("outer-call", recv+"."+name, call.Pos(), false, true, "call of "+recv+"."+name+" on an object that outlives the loop; its effect cannot be classified by shape")
			return true
		})
	}
	walkStmt = func(st ast.Stmt, path []*ast.BlockStmt) {
		switch s := st.(type) {
		case *ast.AssignStmt:
			for i, lhs := range s.Lhs {
				var rhs ast.Expr
				if len(s.Rhs) == len(s.Lhs) {
					rhs = s.Rhs[i]
				} else if len(s.Rhs) == 1 {
					rhs = s.Rhs[0]
				}
				if id, ok := lhs.(*ast.Ident); ok && (id.Name == "_" || s.Tok == token.DEFINE && local[info.ObjectOf(id)]) {
					continue
				}
				// keyed store into a map
				if ix, ok := lhs.(*ast.IndexExpr); ok {
					if t := info.TypeOf(ix.X); t != nil {
						if _, isMap := t.Underlying().(*types.Map); isMap && !isLocal(ix.X) {
							m, k := types.ExprString(ix.X), types.ExprString(ix.Index)
							target := m
							switch {
							case s.Tok != token.ASSIGN: // m[k] += v
								add("keyed-accumulate", target, s.Pos(), false, false, "")
							case identIs(ix.Index, info, keyObj) && !reassigned(l.rs.Body, info, keyObj):
								add("keyed-store", target, s.Pos(), false, false, "keyed by the range key")
							case rhs != nil && isConst(rhs):
								add("keyed-store", target, s.Pos(), false, false, "stores a constant")
							case dupGuard(path, st, m, k):
								add("keyed-store", target, s.Pos(), false, false, "duplicate rejected before the store")
							default:
								add("keyed-store", target, s.Pos(), true, false, "store "+m+"["+k+"] = … where the key is not the range key, the value is not constant and no earlier test rejects an existing "+m+"["+k+"]: with duplicate keys the last writer wins and the winner depends on map iteration order")
							}
							continue
						}
					}
				}
				if isLocal(lhs) {
					continue
				}
				target := types.ExprString(lhs)
				// x = append(x, …)
				if call, ok := rhs.(*ast.CallExpr); ok && types.ExprString(call.Fun) == "append" {
					if sortedAfter(target) {
						add("append", target, s.Pos(), false, false, "sorted after the loop")
					} else {
						add("append", target, s.Pos(), true, false, "appends to "+target+", which outlives the loop and is not sorted afterwards in this function: element order follows map iteration order")
					}
					continue
				}
				if s.Tok != token.ASSIGN && s.Tok != token.DEFINE {
					if b, ok := info.TypeOf(lhs).Underlying().(*types.Basic); ok && b.Info()&types.IsString != 0 {
						add("concat", target, s.Pos(), true, false, "string concatenation onto "+target+" in map order")
					} else {
						add("accumulate", target, s.Pos(), false, false, "")
					}
					continue
				}
				if rhs != nil && isConst(rhs) {
					add("assign", target, s.Pos(), false, false, "constant")
					continue
				}
				add("assign", target, s.Pos(), true, false, "assigns a per-iteration value to "+target+", which outlives the loop: the last (or first) iteration wins")
			}
			for _, r := range s.Rhs {
				checkCalls(r, st, path)
			}
		case *ast.IncDecStmt:
			if !isLocal(s.X) {
				add("accumulate", types.ExprString(s.X), s.Pos(), false, false, "")
			}
		case *ast.ExprStmt:
			checkCalls(s.X, st, path)
		case *ast.ReturnStmt:
			allConst, errRet := true, false
			for i, r := range s.Results {
				if isConst(r) {
					continue
				}
				if i == len(s.Results)-1 && isErrorType(info.TypeOf(r)) {
					errRet = true
					continue
				}
				// returning outer values (e.g. the zero `conf`) is fine; returning loop elements is not
				if usesLocal(r, info, local) {
					allConst = false
				}
			}
			if !allConst && !errRet {
				add("return-element", "return", s.Pos(), true, false, "returns a value taken from the current iteration: the first matching entry in map order wins")
			} else {
				add("return", "return", s.Pos(), false, false, "")
			}
		case *ast.IfStmt:
			if s.Init != nil {
				walkStmt(s.Init, path)
			}
			checkCalls(s.Cond, st, path)
			walk(s.Body.List, append(path, s.Body))
			if s.Else != nil {
				switch e := s.Else.(type) {
				case *ast.BlockStmt:
					walk(e.List, append(path, e))
				default:
					walkStmt(e, path)
				}
			}
		case *ast.BlockStmt:
			walk(s.List, append(path, s))
		case *ast.ForStmt:
			walk(s.Body.List, append(path, s.Body))
		case *ast.RangeStmt:
			checkCalls(s.X, st, path)
			walk(s.Body.List, append(path, s.Body))
		case *ast.SwitchStmt:
			perKey := s.Tag != nil && identIs(s.Tag, info, keyObj) && !reassigned(l.rs.Body, info, keyObj)
			for _, cc := range s.Body.List {
				clause := cc.(*ast.CaseClause)
				if perKey && clause.List != nil {
					// each constant case fires for at most one map key: effects are per-key
					n := len(effs)
					walk(clause.Body, path)
					for i := n; i < len(effs); i++ {
						if effs[i].kind == "assign" {
							effs[i].sensitive = false
							effs[i].why = "inside `switch <range key> { case <const> }`: executed for at most one key"
						}
					}
					continue
				}
				walk(clause.Body, path)
			}
		case *ast.LabeledStmt:
			walkStmt(s.Stmt, path)
		case *ast.DeclStmt, *ast.BranchStmt, *ast.EmptyStmt:
		case *ast.GoStmt:
			add("goroutine", "go", s.Pos(), false, true, "goroutine started per map entry")
		case *ast.DeferStmt:
			checkCalls(s.Call, st, path)
		default:
			add("statement", fmt.Sprintf("%T", st), st.Pos(), false, true, "statement form not classified")
		}
	}
	walk = func(stmts []ast.Stmt, path []*ast.BlockStmt) {
		for _, st := range stmts {
			walkStmt(st, path)
		}
	}
	walk(l.rs.Body.List, []*ast.BlockStmt{l.rs.Body})
	// drop the pure bookkeeping effects from the report list but keep them as discharged obligations
	sort.SliceStable(effs, func(i, j int) bool { return effs[i].pos < effs[j].pos })
	return effs
}

func identOf(e ast.Expr) *ast.Ident {
	id, _ := e.(*ast.Ident)
	if id == nil {
		return &ast.Ident{Name: "_"}
	}
	return id
}

func identIs(e ast.Expr, info *types.Info, obj types.Object) bool {
	id, ok := e.(*ast.Ident)
	return ok && obj != nil && info.ObjectOf(id) == obj
}

// reassigned: the object is assigned inside the body (so it no longer equals the range key).
func reassigned(body *ast.BlockStmt, info *types.Info, obj types.Object) bool {
	found := false
	ast.Inspect(body, func(n ast.Node) bool {
		if as, ok := n.(*ast.AssignStmt); ok && as.Tok == token.ASSIGN {
			for _, l := range as.Lhs {
				if identIs(l, info, obj) {
					found = true
				}
			}
		}
		return true
	})
	return found
}

func isErrorType(t types.Type) bool {
	return t != nil && types.Identical(t, types.Universe.Lookup("error").Type())
}

func usesLocal(e ast.Expr, info *types.Info, local map[types.Object]bool) bool {
	found := false
	ast.Inspect(e, func(n ast.Node) bool {
		if id, ok := n.(*ast.Ident); ok && local[info.ObjectOf(id)] {
			found = true
		}
		return true
	})
	return found
}
