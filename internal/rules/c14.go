package rules

import (
	"fmt"
	"go/ast"
	"go/token"
	"go/types"
	"sort"
	"strings"

	"golang.org/x/tools/go/packages"
	"golang.org/x/tools/go/ssa"

	"verif/internal/core"
)

// C14 — configuration interpretation is deterministic (independent of map iteration order).
func init() {
	Register(&Rule{
		ID: "C14", Section: "4 C14",
		Technique: "map-order effect classification (syntax tree + types) of every `range` over a map in the config-loading, routing and balancing packages, with a reviewed exception table whose entries carry machine-checked side conditions",
		Meta: core.Meta{
			Level:       "other",
			Explanation: "Enumerates every `for … range <map>` of bfe_config/**, bfe_route/** and bfe_balance/** and classifies each effect of the loop body on state that outlives the iteration: order-insensitive are stores keyed by the range key itself, keyed stores of a constant, keyed stores guarded by a reject-duplicate test on the same container and key, commutative numeric accumulation, constant flag assignment, early return of an error or of constants, effects confined to the per-key element, effects inside `switch <range key> { case <const> }` / `if <range key> == <const>`, appends to a list that is only counted and joined into an error or log message; order-sensitive (violations) are appends to an outer slice that does not reach a sort, keyed stores / ordered-sink calls (Trie.Set, radix Insert) whose key is not the range key and has no duplicate guard, string concatenation, non-constant assignment to an outer variable, returning a loop element. The loops and statements are enumerated on the syntax tree (objects, not names); the decisions that depend on how something is spelled are taken on the SSA form, joined by position: the duplicate guard is a branch condition holding at the MapUpdate (comma-ok or zero-value test of a Lookup on the same map and key, any operand order, polarity, if/else/switch shape, named boolean) whose 'present' edge does not come back to the store; 'sorted afterwards' is the value flow of the append result into a sort.* operand (through phis, named intermediates, sorter literals, same-package callees and the results of private helpers); the host-key side condition compares the backward transformer chains of the Trie.Set key in buildHostRoute and of the duplicate-tested key in HostRuleConfLoad (entering same-package helpers); the list comparators are matched by which parameter indexes the list and which field is read last. Anything not classifiable must be in the reviewed table (one entry per function+effect, keyed with local names replaced by their types so that renaming a local keeps the entry valid; entries carry machine-checked side conditions). Not covered: nondeterminism from other sources (time, rand — see C01/C02), order effects hidden inside callees (a plain function call in a loop body is not entered, whatever it receives), a duplicate test hidden in a predicate helper (`if isDup(m, k)`) or a keyed store moved on its own into a helper (reported as unguarded), `<range key> == <const>` held in a named boolean (reported).",
			RuleText:    "obligations = one per effect site of each map-range loop (keyed by function, effect kind, target), plus the side conditions of the reviewed entries; loop count asserted >= 45 (50 reviewed; extracting duplicated loops into a helper may remove some)",
		},
		Run: runC14,
		Mutants: []Mutant{
			{Name: "dup-guard-per-tag", File: "bfe_config/bfe_route_conf/host_rule_conf/host_table_load.go", Old: "	for hostTag, hostnameList := range *config.Hosts {\n		for _, hostName := range *hostnameList {\n			// host name is case-insensitive, and the host trie ignores\n			// the trailing dot of a fully qualified name\n			hostName = strings.TrimSuffix(strings.ToLower(hostName), \".\")\n			if host2HostTag[hostName] != \"\" {\n				return conf, fmt.Errorf(\"host duplicate for %s\", hostName)\n			}", New: "	for hostTag, hostnameList := range *config.Hosts {\n		seen := make(map[string]bool)\n		for _, hostName := range *hostnameList {\n			// host name is case-insensitive, and the host trie ignores\n			// the trailing dot of a fully qualified name\n			hostName = strings.TrimSuffix(strings.ToLower(hostName), \".\")\n			if seen[hostName] {\n				return conf, fmt.Errorf(\"host duplicate for %s\", hostName)\n			}\n			seen[hostName] = true", Expect: "keyed-store"},
			{Name: "host-case-fold-dropped", File: "bfe_config/bfe_route_conf/host_rule_conf/host_table_load.go", Old: "			hostName = strings.TrimSuffix(strings.ToLower(hostName), \".\")\n", New: "			hostName = strings.TrimSuffix(strings.TrimSpace(hostName), \".\")\n", Expect: "ordered-sink"},
			{Name: "host-trailing-dot-kept", File: "bfe_config/bfe_route_conf/host_rule_conf/host_table_load.go", Old: "			hostName = strings.TrimSuffix(strings.ToLower(hostName), \".\")\n", New: "			hostName = strings.ToLower(hostName)\n", Expect: "ordered-sink"},
			{Name: "host-key-new-transformer", File: "bfe_route/host_table.go", Old: "		host = strings.ToLower(host)\n		product := conf.HostTagMap[tag]", New: "		host = strings.TrimSpace(strings.ToLower(host))\n		product := conf.HostTagMap[tag]", Expect: "ordered-sink"},
			{Name: "vip-dup-guard-removed", File: "bfe_config/bfe_route_conf/vip_rule_conf/vip_table_load.go", Old: "			if _, ok := vipConf.VipMap[vip]; ok {\n				return vipConf, fmt.Errorf(\"vip duplicate for %s\", vip)\n			}\n", New: "", Expect: "keyed-store"},
			{Name: "host-dup-guard-removed", File: "bfe_config/bfe_route_conf/host_rule_conf/host_table_load.go", Old: "			if host2HostTag[hostName] != \"\" {\n				return conf, fmt.Errorf(\"host duplicate for %s\", hostName)\n			}\n", New: "", Expect: "keyed-store"},
			{Name: "tag-dup-guard-removed", File: "bfe_config/bfe_route_conf/host_rule_conf/host_table_load.go", Old: "			if _, ok := hostTag2Product[hostTag]; ok {\n				return conf, fmt.Errorf(\"hostTag duplicate for %s\", hostTag)\n			}\n", New: "", Expect: "keyed-store"},
			{Name: "gslb-init-unsorted", File: "bfe_balance/bal_gslb/bal_gslb.go", Old: "	// sort list to guarantee same order, since map iteration is not in order\n	sort.Sort(SubClusterListSorter{bal.subClusters})\n", New: "", Expect: "append"},
			{Name: "first-match-return", File: "bfe_config/bfe_route_conf/vip_rule_conf/vip_table_load.go", Old: "func VipRuleConfLoad(filename string) (VipConf, error) {", New: "func firstProduct(m map[string][]string) string {\n	for p := range m {\n		return p\n	}\n	return \"\"\n}\n\nfunc VipRuleConfLoad(filename string) (VipConf, error) {", Expect: "return-element"},
			{Name: "update-unsorted-new", File: "bfe_balance/bal_slb/bal_rr.go", Old: "	sort.Strings(newKeys)\n", New: "", Expect: "append"},
			// behaviour-preserving edits (one per class of refactoring the rules were made robust against): the verdict must not change
			{Name: "neutral-renamed-error-list", File: "bfe_balance/bal_table.go", Old: "	fails := make([]string, 0)\n\n	for clusterName, gslbConf := range *gslbConfs.Clusters {\n		bal := bal_gslb.NewBalanceGslb(clusterName)\n		err := bal.Init(gslbConf)\n		if err != nil {\n			log.Logger.Error(\"BalTable.gslbInit():err[%s] in bal_gslb.GslbInit() for %s\",\n				err.Error(), clusterName)\n			fails = append(fails, clusterName)\n			continue\n		}\n		t.balTable[clusterName] = bal\n	}\n\n	// update versions\n	t.versions.GslbConfTimeStamp = *gslbConfs.Ts\n	t.versions.GslbConfSrc = *gslbConfs.Hostname\n\n	if len(fails) != 0 {\n		return fmt.Errorf(\"error in ClusterTable.gslbInit() for [%s]\",\n			strings.Join(fails, \",\"))\n	}\n	return nil\n", New: "	failedClusters := make([]string, 0)\n\n	for name, clusterConf := range *gslbConfs.Clusters {\n		balancer := bal_gslb.NewBalanceGslb(name)\n		if err := balancer.Init(clusterConf); err == nil {\n			t.balTable[name] = balancer\n		} else {\n			log.Logger.Error(\"BalTable.gslbInit():err[%s] in bal_gslb.GslbInit() for %s\",\n				err.Error(), name)\n			failedClusters = append(failedClusters, name)\n		}\n	}\n\n	// update versions\n	t.versions.GslbConfTimeStamp = *gslbConfs.Ts\n	t.versions.GslbConfSrc = *gslbConfs.Hostname\n\n	if len(failedClusters) == 0 {\n		return nil\n	}\n	joined := strings.Join(failedClusters, \",\")\n	return fmt.Errorf(\"error in ClusterTable.gslbInit() for [%s]\", joined)\n", Silent: true},
			{Name: "neutral-dup-test-named-inverted", File: "bfe_config/bfe_route_conf/vip_rule_conf/vip_table_load.go", Old: "			if _, ok := vipConf.VipMap[vip]; ok {\n				return vipConf, fmt.Errorf(\"vip duplicate for %s\", vip)\n			}\n			vipConf.VipMap[vip] = product\n", New: "			_, present := vipConf.VipMap[vip]\n			absent := !present\n			if absent {\n				vipConf.VipMap[vip] = product\n			} else {\n				return vipConf, fmt.Errorf(\"vip duplicate for %s\", vip)\n			}\n", Silent: true},
			{Name: "neutral-trie-key-helpers", File: "bfe_route/host_table.go", Old: "func buildHostRoute(conf host_rule_conf.HostConf) *trie.Trie {\n	hostTrie := trie.NewTrie()\n\n	for host, tag := range conf.HostMap {\n		host = strings.ToLower(host)\n		product := conf.HostTagMap[tag]\n		hostTrie.Set(strings.Split(string_reverse.ReverseFqdnHost(host), \".\"), route{product: product, tag: tag})\n	}\n\n	return hostTrie\n}\n", New: "func trieLabels(name string) []string {\n	folded := strings.ToLower(name)\n	return strings.Split(string_reverse.ReverseFqdnHost(folded), \".\")\n}\n\nfunc buildHostRoute(conf host_rule_conf.HostConf) *trie.Trie {\n	root := trie.NewTrie()\n\n	for hostName, hostTag := range conf.HostMap {\n		hostRoute := route{product: conf.HostTagMap[hostTag], tag: hostTag}\n		labels := trieLabels(hostName)\n		root.Set(labels, hostRoute)\n	}\n\n	return root\n}\n", Silent: true},
			{Name: "neutral-loader-named-switch", File: "bfe_config/bfe_route_conf/host_rule_conf/host_table_load.go", Old: "			hostName = strings.TrimSuffix(strings.ToLower(hostName), \".\")\n			if host2HostTag[hostName] != \"\" {\n				return conf, fmt.Errorf(\"host duplicate for %s\", hostName)\n			}\n			host2HostTag[hostName] = hostTag\n", New: "			lowered := strings.ToLower(hostName)\n			canonical := strings.TrimSuffix(lowered, \".\")\n			previous := host2HostTag[canonical]\n			switch {\n			case previous == \"\":\n				host2HostTag[canonical] = hostTag\n			default:\n				return conf, fmt.Errorf(\"host duplicate for %s\", canonical)\n			}\n", Silent: true},
			{Name: "neutral-sort-named-intermediate", File: "bfe_balance/bal_slb/bal_rr.go", Old: "	sort.Strings(newKeys)\n	for _, key := range newKeys {\n", New: "	ordered := newKeys\n	sort.Sort(sort.StringSlice(ordered))\n	for _, key := range ordered {\n", Silent: true},
			{Name: "neutral-switch-to-if-chain", File: "bfe_config/bfe_tls_conf/tls_rule_conf/tls_rule_conf_load.go", Old: "		switch key {\n		case \"level\":\n			if params.Level, err = strconv.Atoi(vals[0]); err != nil {\n				return params, fmt.Errorf(\"invalid level: %s\", vals[0])\n			}\n		case \"mcs\":\n			if params.Mcs, err = strconv.Atoi(vals[0]); err != nil {\n				return params, fmt.Errorf(\"invalid mcs: %s\", vals[0])\n			}\n		case \"isw\":\n			if params.Isw, err = strconv.Atoi(vals[0]); err != nil {\n				return params, fmt.Errorf(\"invalid isw: %s\", vals[0])\n			}\n		case \"rate\":\n			if params.Rate, err = strconv.Atoi(vals[0]); err != nil {\n				return params, fmt.Errorf(\"invalid rate: %s\", vals[0])\n			}\n		case \"pp\":\n			if params.PP, err = strconv.Atoi(vals[0]); err != nil {\n				return params, fmt.Errorf(\"invalid pp: %s\", vals[0])\n			}\n		default:\n			return params, fmt.Errorf(\"unknown params: %s\", key)\n		}\n", New: "		if key == \"level\" {\n			if params.Level, err = strconv.Atoi(vals[0]); err != nil {\n				return params, fmt.Errorf(\"invalid level: %s\", vals[0])\n			}\n		} else if key == \"mcs\" {\n			if params.Mcs, err = strconv.Atoi(vals[0]); err != nil {\n				return params, fmt.Errorf(\"invalid mcs: %s\", vals[0])\n			}\n		} else if \"isw\" == key {\n			if params.Isw, err = strconv.Atoi(vals[0]); err != nil {\n				return params, fmt.Errorf(\"invalid isw: %s\", vals[0])\n			}\n		} else if key == \"rate\" {\n			if params.Rate, err = strconv.Atoi(vals[0]); err != nil {\n				return params, fmt.Errorf(\"invalid rate: %s\", vals[0])\n			}\n		} else if key == \"pp\" {\n			if params.PP, err = strconv.Atoi(vals[0]); err != nil {\n				return params, fmt.Errorf(\"invalid pp: %s\", vals[0])\n			}\n		} else {\n			return params, fmt.Errorf(\"unknown params: %s\", key)\n		}\n", Silent: true},
			{Name: "neutral-comparator-renamed-mirrored", File: "bfe_balance/bal_slb/bal_rr.go", Old: "func (s BackendListSorter) Less(i, j int) bool {\n	return s.l[i].backend.AddrInfo < s.l[j].backend.AddrInfo\n}\n", New: "func (sorter BackendListSorter) Less(a, b int) bool {\n	left, right := sorter.l[a].backend, sorter.l[b].backend\n	return right.AddrInfo > left.AddrInfo\n}\n", Silent: true},
			{Name: "neutral-search-loop-to-method", File: "bfe_route/server_data_conf.go", Old: "func (s *ServerDataConf) check() error {\n	// check product consistency in host and route\n	for product1 := range s.HostTable.productAdvancedRouteTable {\n		find := false\n		for _, product2 := range s.HostTable.hostTagTable {\n			if product1 == product2 {\n				find = true\n				break\n			}\n		}\n		if !find {\n			return fmt.Errorf(\"product[%s] in route should exist in host!\", product1)\n		}\n	}\n\n	for product1 := range s.HostTable.productBasicRouteTree {\n		find := false\n		for _, product2 := range s.HostTable.hostTagTable {\n			if product1 == product2 {\n				find = true\n				break\n			}\n		}\n		if !find {\n			return fmt.Errorf(\"product[%s] in route should exist in host!\", product1)\n		}\n	}\n\n	// check cluster_name of advanced rule in route and cluster_conf\n	for _, routeRules := range s.HostTable.productAdvancedRouteTable {\n		for _, routeRule := range routeRules {\n			if _, err := s.ClusterTable.Lookup(routeRule.ClusterName); err != nil {\n				return fmt.Errorf(\"cluster[%s] in advanced route should exist in cluster_conf\",\n					routeRule.ClusterName)\n			}\n		}\n	}\n", New: "// hostTagFor reports whether some host tag belongs to the product.\nfunc (s *ServerDataConf) hostTagFor(product string) bool {\n	for _, owner := range s.HostTable.hostTagTable {\n		if owner == product {\n			return true\n		}\n	}\n	return false\n}\n\n// clusterKnown reports whether the cluster exists in cluster_conf.\nfunc (s *ServerDataConf) clusterKnown(name string) bool {\n	_, err := s.ClusterTable.Lookup(name)\n	return err == nil\n}\n\nfunc (s *ServerDataConf) check() error {\n	// check product consistency in host and route\n	for product1 := range s.HostTable.productAdvancedRouteTable {\n		find := false\n		for _, product2 := range s.HostTable.hostTagTable {\n			if product1 == product2 {\n				find = true\n				break\n			}\n		}\n		if !find {\n			return fmt.Errorf(\"product[%s] in route should exist in host!\", product1)\n		}\n	}\n\n	for routed := range s.HostTable.productBasicRouteTree {\n		if s.hostTagFor(routed) {\n			continue\n		}\n		return fmt.Errorf(\"product[%s] in route should exist in host!\", routed)\n	}\n\n	// check cluster_name of advanced rule in route and cluster_conf\n	for _, routeRules := range s.HostTable.productAdvancedRouteTable {\n		for _, routeRule := range routeRules {\n			if !s.clusterKnown(routeRule.ClusterName) {\n				return fmt.Errorf(\"cluster[%s] in advanced route should exist in cluster_conf\",\n					routeRule.ClusterName)\n			}\n		}\n	}\n", Silent: true},
			{Name: "neutral-update-range-loop-logging", File: "bfe_balance/bal_slb/bal_rr.go", Old: "	for index := 0; index < len(brr.backends); index++ {\n		backendRR := brr.backends[index]\n\n", New: "	for _, backendRR := range brr.backends {\n		log.Logger.Debug(\"bal[%s] update: visiting backend %s\", brr.Name, backendRR.backend.GetAddrInfo())\n\n", Silent: true},
		},
	})
}

type mapLoop struct {
	pk   *packages.Package
	fn   string
	rs   *ast.RangeStmt
	body *ast.BlockStmt
	ssa  *ssa.Function // the function (declaration) that contains the loop; nil if not built
}

type effect struct {
	kind, target, why string
	ctarget           string // target with the names of locals/parameters replaced by their types
	pos               token.Pos
	sensitive         bool
	undecided         bool
}

func runC14(c *core.Ctx) {
	var loops []mapLoop
	ix := newConfIdx(c.P)
	for _, pk := range c.P.Pkgs {
		rel := strings.TrimPrefix(pk.PkgPath, core.ModPath+"/")
		if !(strings.HasPrefix(rel, "bfe_config") || strings.HasPrefix(rel, "bfe_route") || strings.HasPrefix(rel, "bfe_balance")) {
			continue
		}
		for _, f := range pk.Syntax {
			for _, d := range f.Decls {
				fd, ok := d.(*ast.FuncDecl)
				if !ok || fd.Body == nil {
					continue
				}
				name := rel + "." + fd.Name.Name
				if fd.Recv != nil && len(fd.Recv.List) == 1 {
					name = rel + "." + recvName(fd.Recv.List[0].Type) + "." + fd.Name.Name
				}
				var sfn *ssa.Function
				if fo, isF := pk.TypesInfo.Defs[fd.Name].(*types.Func); isF {
					sfn = c.P.SSA.FuncValue(fo)
				}
				ast.Inspect(fd.Body, func(n ast.Node) bool {
					rs, ok := n.(*ast.RangeStmt)
					if !ok {
						return true
					}
					if t := pk.TypesInfo.TypeOf(rs.X); t != nil {
						if _, isMap := t.Underlying().(*types.Map); isMap {
							loops = append(loops, mapLoop{pk, name, rs, fd.Body, sfn})
						}
					}
					return true
				})
			}
		}
	}
	// ---- order-sensitive published lists are a function of the configuration only ---------------
	// (not of reload history): the sub-cluster list must be sorted as a whole before it is
	// published (shared with C02), and the backend list of a sub-cluster must be rebuilt in an
	// order derived from the new configuration.
	publishedSorted(c, "published-canonical")
	c14Comparators(c, "canonical-key")
	if up := c.P.Func("bfe_balance/bal_slb", "BalanceRR.Update"); up == nil {
		c.Missing("bfe_balance/bal_slb.BalanceRR.Update")
	} else if bf, ok := c.P.Obj("bfe_balance/bal_slb", "BalanceRR.backends").(*types.Var); ok {
		// Update and the methods it calls on its receiver (a body moved into `brr.rebuild(...)`
		// is still Update)
		ufns := recvCallees(up, 2)
		// fromOld: v is (may be) an element of the list read from the backends field
		var fromOld func(v ssa.Value, seen map[ssa.Value]bool) bool
		fromOld = func(v ssa.Value, seen map[ssa.Value]bool) bool {
			if v == nil || seen[v] {
				return false
			}
			seen[v] = true
			switch t := v.(type) {
			case *ssa.FieldAddr:
				return core.FieldObj(t.X, t.Field) == bf
			case *ssa.UnOp:
				return t.Op == token.MUL && fromOld(t.X, seen)
			case *ssa.IndexAddr:
				return fromOld(t.X, seen)
			case *ssa.Index:
				return fromOld(t.X, seen)
			case *ssa.Slice:
				return fromOld(t.X, seen)
			case *ssa.ChangeType:
				return fromOld(t.X, seen)
			case *ssa.Extract:
				if nx, isN := t.Tuple.(*ssa.Next); isN {
					if rg, isR := nx.Iter.(*ssa.Range); isR {
						return fromOld(rg.X, seen)
					}
				}
			case *ssa.Phi:
				for _, e := range t.Edges {
					if fromOld(e, seen) {
						return true
					}
				}
			}
			return false
		}
		for _, st := range core.FieldStores(ufns, bf) {
			// canonical if the stored list was sorted as a whole before the store
			sortedWhole := false
			for _, sc := range core.Calls(st.Fn, "sort.Sort") {
				if l := sortedList(sc); l != nil && core.StripConv(l) == core.StripConv(st.Store.Val) && core.Dominates(sc.(ssa.Instruction), st.Store) {
					sortedWhole = true
				}
			}
			// or if no element of the old list is carried over in its old position (list rebuilt from the config in config order)
			carriesOld := false
			for _, g := range ufns {
				core.Instrs(g, func(in ssa.Instruction) {
					if call, isCall := in.(*ssa.Call); isCall {
						for _, e := range appendedElems(call) {
							if fromOld(e, map[ssa.Value]bool{}) {
								carriesOld = true
							}
						}
						// append(new, old...) / append(old, x): the old list as a whole
						if b, isB := call.Call.Value.(*ssa.Builtin); isB && b.Name() == "append" {
							for _, a := range call.Call.Args {
								if fromOld(a, map[ssa.Value]bool{}) {
									carriesOld = true
								}
							}
						}
					}
				})
			}
			c.Check("published-canonical", "bfe_balance/bal_slb.BalanceRR.Update:backends", st.Store.Pos(), sortedWhole || !carriesOld,
				"BalanceRR.Update publishes surviving backends in the order they had before the reload followed by the new ones: the list order (observable through smooth-WRR tie-breaking and WrrSimple's scan order) depends on the reload history, whereas a fresh Init of the same configuration uses the configuration's order")
		}
	}
	// anti-vacuity floor: 50 loops were reviewed. The floor is 45, not 50: merging duplicated
	// inner loops into one helper (or fusing two loops over the same map) legitimately removes
	// a loop; the floor only has to notice a scan that no longer sees the packages.
	if len(loops) < 45 {
		c.Check("instances", "map-range-loops", token.NoPos, false, fmt.Sprintf("only %d map-range loops found in bfe_config/bfe_route/bfe_balance; 50 were reviewed (floor 45)", len(loops)))
	}
	c.Note("%d map-range loops classified", len(loops))
	ord := map[string]int{}
	for _, l := range loops {
		c.Analysed(l.fn)
		effs := classifyMapLoop(l, ix)
		if len(effs) == 0 {
			ord[l.fn+"|pure"]++
			c.Check("map-range", fmt.Sprintf("%s:pure#%d", l.fn, ord[l.fn+"|pure"]), l.rs.Pos(), true, "no effect outlives an iteration")
		}
		for _, e := range effs {
			id := l.fn + ":" + e.kind + ":" + e.target
			ord[id]++
			key := fmt.Sprintf("%s#%d", id, ord[id])
			ok := !e.sensitive && !e.undecided
			why := e.why
			if !ok {
				// the reviewed table is keyed by function, effect kind and the target with local
				// names replaced by their types, so renaming a local does not invalidate an entry
				if r, reviewed := c14Reviewed[l.fn+":"+e.kind+":"+e.ctarget]; reviewed {
					sideOK, sideWhy := true, ""
					if r.side != nil {
						sideOK, sideWhy = r.side(c, ix)
					}
					if sideOK {
						ok = true
						why = "reviewed: " + r.reason
					} else {
						why = "reviewed exception no longer valid (" + sideWhy + "): " + e.why
					}
				}
			}
			c.Check(e.kind, key, e.pos, ok, "map-range loop in "+l.fn+" over "+types.ExprString(l.rs.X)+": "+why)
		}
	}
}

type c14Exception struct {
	reason string
	side   func(c *core.Ctx, ix *confIdx) (bool, string)
}

// c14Reviewed: effects the classifier cannot decide by shape, each with the
// reason it is order-insensitive (key = function:kind:target, the target printed with the
// names of locals replaced by their types - see canonExpr). The `fails = append(fails, name)`
// lists of bal_table.go are no longer listed: "only counted and joined into an error / log
// message" is decided on the value flow (sliceOnlyErrorText).
var c14Reviewed = map[string]c14Exception{
	"bfe_route.buildHostRoute:ordered-sink:<*trie.Trie>.Set":                                     {reason: "the trie key is lower(host); HostRuleConfLoad rejects two hosts that are equal after lower-casing, so keys are distinct", side: hostLoaderFoldsCase},
	"bfe_config/bfe_tls_conf/tls_rule_conf.ClientCALoad:keyed-store:<map[string]*x509.CertPool>": {reason: "stored only when the key is absent and the value is loaded from the CA named by the key itself, so every writer of a key stores an equal value"},
}

// hostLoaderFoldsCase: the host trie is keyed by t(host) where t is the chain of string
// transformers buildHostRoute applies to a configured host name. Every transformer of that
// chain that is not injective (table below) must be mirrored by a normalisation HostRuleConfLoad
// applies to the name before its duplicate test - otherwise two configured names collapse onto
// one trie key and the map iteration order decides which one wins. Both chains are read off the
// SSA value flow (backwards from the key operand), so renamed locals, named intermediates,
// reordered statements and helpers extracted on either side do not matter.
var hostKeyTransformers = map[string]string{
	"strings.ToLower":                         "strings.ToLower",       // folds case
	"bfe_util/string_reverse.ReverseFqdnHost": "strings.TrimSuffix(.)", // reverses and drops one trailing dot (FQDN form)
	"strings.Split":                           "",                      // injective
}

// fullChains is keyChains continued, at a parameter of a private helper, with the argument at
// every call site of that helper.
func fullChains(ix *confIdx, v ssa.Value, depth int) []keyChain {
	var out []keyChain
	for _, ch := range keyChains(v) {
		p, isParam := ch.leaf.(*ssa.Parameter)
		if !isParam || depth <= 0 || ch.bad != "" {
			out = append(out, ch)
			continue
		}
		args, _, ok := ix.argsFor(p)
		if !ok || len(args) == 0 {
			out = append(out, ch)
			continue
		}
		for _, a := range args {
			for _, sub := range fullChains(ix, a, depth-1) {
				out = append(out, keyChain{steps: append(append([]chainStep(nil), ch.steps...), sub.steps...), leaf: sub.leaf, bad: sub.bad})
			}
		}
	}
	return out
}

func hostLoaderFoldsCase(c *core.Ctx, ix *confIdx) (bool, string) {
	// transformer chain of the builder: every Trie.Set of buildHostRoute and its private helpers
	bf := c.P.Func("bfe_route", "buildHostRoute")
	if bf == nil {
		return false, "buildHostRoute not found"
	}
	need := map[string]bool{}
	nSet := 0
	for _, g := range ix.regionList(bf) {
		for _, ci := range core.Calls(g, "bfe_route/trie.Trie.Set") {
			if len(ci.Common().Args) < 2 {
				continue
			}
			nSet++
			for _, ch := range fullChains(ix, ci.Common().Args[1], 2) {
				if ch.bad != "" {
					return false, "the derivation of the trie key in buildHostRoute cannot be followed (" + ch.bad + ")"
				}
				for _, st := range ch.steps {
					norm, known := hostKeyTransformers[st.callee]
					if !known {
						return false, "buildHostRoute derives the trie key through " + st.callee + ", which is not in the reviewed transformer table (is it injective?)"
					}
					if norm != "" {
						need[norm] = true
					}
				}
				if !rangeKeyOfMap(ch.leaf) {
					return false, "the trie key in buildHostRoute is not derived from the key of the configured host map (" + core.Render(ch.leaf) + ")"
				}
			}
		}
	}
	if nSet == 0 {
		return false, "no Trie.Set found in buildHostRoute"
	}
	if len(need) == 0 {
		return false, "buildHostRoute no longer normalises the host name in a form the rule can follow"
	}
	// the loader: every store into the host map (type of HostConf.HostMap) made by
	// HostRuleConfLoad or a same-package function it calls is preceded by a reject-duplicate
	// test on the same key, and that key went through the needed normalisers
	const lpkg = "bfe_config/bfe_route_conf/host_rule_conf"
	lf := c.P.Func(lpkg, "HostRuleConfLoad")
	if lf == nil {
		return false, "HostRuleConfLoad not found"
	}
	hm, _ := c.P.Obj(lpkg, "HostConf.HostMap").(*types.Var)
	if hm == nil {
		return false, "HostConf.HostMap not found"
	}
	nStore := 0
	why := ""
	for _, g := range core.TransitiveCallees(lf, 3) {
		if core.FuncPkgRel(g) != lpkg {
			continue
		}
		core.Instrs(g, func(in ssa.Instruction) {
			mu, ok := in.(*ssa.MapUpdate)
			if !ok || why != "" || !types.Identical(mu.Map.Type(), hm.Type()) {
				return
			}
			nStore++
			if !dupRejected(mu) {
				why = "HostRuleConfLoad has no reject-duplicate test on the normalised host name"
				return
			}
			for _, ch := range fullChains(ix, mu.Key, 2) {
				have := map[string]bool{}
				for _, st := range ch.steps {
					switch st.callee {
					case "strings.ToLower":
						have["strings.ToLower"] = true
					case "strings.TrimSuffix":
						if len(st.call.Call.Args) == 2 {
							if suf, isStr := core.ConstString(st.call.Call.Args[1]); isStr && suf == "." {
								have["strings.TrimSuffix(.)"] = true
							}
						}
					}
				}
				var ks []string
				for k := range need {
					ks = append(ks, k)
				}
				sort.Strings(ks)
				for _, k := range ks {
					if !have[k] && why == "" {
						why = "HostRuleConfLoad's duplicate test does not apply " + k + " to the host name although the trie key does: two configured names can collapse onto one key"
					}
				}
			}
		})
	}
	if why != "" {
		return false, why
	}
	if nStore == 0 {
		return false, "HostRuleConfLoad has no store into the host map that the rule can find"
	}
	return true, ""
}

func recvName(e ast.Expr) string {
	switch x := e.(type) {
	case *ast.StarExpr:
		return recvName(x.X)
	case *ast.Ident:
		return x.Name
	}
	return "?"
}

func endsWithReturn(b *ast.BlockStmt) bool {
	if b == nil || len(b.List) == 0 {
		return false
	}
	_, ok := b.List[len(b.List)-1].(*ast.ReturnStmt)
	return ok
}

// classifyMapLoop returns the effects of one map-range loop that outlive an iteration.
func classifyMapLoop(l mapLoop, ix *confIdx) []effect {
	info := l.pk.TypesInfo
	local := map[types.Object]bool{}
	var keyObj types.Object
	if id, ok := l.rs.Key.(*ast.Ident); ok && id.Name != "_" {
		keyObj = info.ObjectOf(id)
		local[keyObj] = true
	}
	if id, ok := l.rs.Value.(*ast.Ident); ok && id.Name != "_" {
		local[info.ObjectOf(id)] = true
	}
	// everything declared inside the loop body is per-iteration
	ast.Inspect(l.rs.Body, func(n ast.Node) bool {
		if id, ok := n.(*ast.Ident); ok {
			if o := info.Defs[id]; o != nil {
				local[o] = true
			}
		}
		return true
	})
	rootObj := func(e ast.Expr) types.Object {
		for {
			switch x := e.(type) {
			case *ast.Ident:
				return info.ObjectOf(x)
			case *ast.SelectorExpr:
				if _, isPkg := info.ObjectOf(identOf(x.X)).(*types.PkgName); isPkg {
					return info.ObjectOf(x.Sel)
				}
				e = x.X
			case *ast.IndexExpr:
				e = x.X
			case *ast.StarExpr:
				e = x.X
			case *ast.ParenExpr:
				e = x.X
			case *ast.CallExpr:
				return nil
			case *ast.UnaryExpr:
				e = x.X
			default:
				return nil
			}
		}
	}
	isLocal := func(e ast.Expr) bool {
		o := rootObj(e)
		return o != nil && local[o]
	}
	isConst := func(e ast.Expr) bool {
		if tv, ok := info.Types[e]; ok && tv.Value != nil {
			return true
		}
		switch x := e.(type) {
		case *ast.Ident:
			return x.Name == "true" || x.Name == "false" || x.Name == "nil"
		case *ast.CompositeLit:
			return len(x.Elts) == 0
		}
		return false
	}
	// sortedAfter: the outer slice named by expr is passed to a sort after the loop in the same function
	sortedAfter := func(target string) bool {
		found := false
		ast.Inspect(l.body, func(n ast.Node) bool {
			call, ok := n.(*ast.CallExpr)
			if !ok || call.Pos() < l.rs.End() {
				return true
			}
			fun := types.ExprString(call.Fun)
			if strings.HasPrefix(fun, "sort.") || strings.HasSuffix(fun, ".Sort") {
				for _, a := range call.Args {
					ast.Inspect(a, func(x ast.Node) bool {
						if e, isE := x.(ast.Expr); isE && types.ExprString(e) == target {
							found = true
						}
						return true
					})
				}
			}
			return true
		})
		return found
	}
	var effs []effect
	// texpr is the expression the target names (nil when the target is not an expression)
	add := func(kind, target string, texpr ast.Expr, pos token.Pos, sensitive, undecided bool, why string) {
		ct := target
		if texpr != nil {
			ct = canonExpr(info, texpr)
			if strings.HasPrefix(target, types.ExprString(texpr)) {
				ct += target[len(types.ExprString(texpr)):]
			}
		}
		effs = append(effs, effect{kind: kind, target: target, ctarget: ct, pos: pos, sensitive: sensitive, undecided: undecided, why: why})
	}
	// dupGuard: an earlier statement in an enclosing block of `at` rejects an existing M[key]
	var dupGuard func(blockPath []*ast.BlockStmt, at ast.Stmt, m, k string) bool
	dupGuard = func(blockPath []*ast.BlockStmt, at ast.Stmt, m, k string) bool {
		for _, b := range blockPath {
			for _, st := range b.List {
				if st.Pos() >= at.Pos() {
					break
				}
				ifs, ok := st.(*ast.IfStmt)
				if !ok || !endsWithReturn(ifs.Body) {
					continue
				}
				txt := types.ExprString(ifs.Cond)
				if ifs.Init != nil {
					if as, isA := ifs.Init.(*ast.AssignStmt); isA && len(as.Rhs) == 1 {
						txt += " " + types.ExprString(as.Rhs[0])
					}
				}
				if strings.Contains(txt, m+"["+k+"]") {
					return true
				}
			}
		}
		return false
	}
	var walk func(stmts []ast.Stmt, path []*ast.BlockStmt)
	var walkStmt func(st ast.Stmt, path []*ast.BlockStmt)
	checkCalls := func(n ast.Node, st ast.Stmt, path []*ast.BlockStmt) {
		ast.Inspect(n, func(x ast.Node) bool {
			if _, isLit := x.(*ast.FuncLit); isLit {
				return false
			}
			call, ok := x.(*ast.CallExpr)
			if !ok {
				return true
			}
			sel, ok := call.Fun.(*ast.SelectorExpr)
			if !ok {
				return true // plain function / builtin / conversion: arguments are per-iteration values
			}
			if _, isPkg := info.ObjectOf(identOf(sel.X)).(*types.PkgName); isPkg {
				return true // package-level function
			}
			if isLocal(sel.X) {
				return true // method on the per-key element
			}
			recv := types.ExprString(sel.X)
			name := sel.Sel.Name
			if strings.HasPrefix(recv, "log.") {
				return true
			}
			fobj, _ := info.ObjectOf(sel.Sel).(*types.Func)
			// read-only / commutative methods on outer objects
			switch name {
			case "Lookup", "Get", "Len", "String", "Error", "Inc", "Add", "Lock", "Unlock", "RLock", "RUnlock", "Search", "Match", "Has", "Contains":
				return true
			}
			if fobj == nil {
				return true // field of func type etc.: treated as per-iteration
			}
			// keyed sinks: first argument is the key
			if name == "Set" || name == "Insert" || name == "Put" || name == "Store" {
				k := ""
				if len(call.Args) > 0 {
					k = types.ExprString(call.Args[0])
				}
				injective := false
				if id, isI := call.Args[0].(*ast.Ident); len(call.Args) > 0 && isI && keyObj != nil && info.ObjectOf(id) == keyObj {
					injective = !reassigned(l.rs.Body, info, keyObj)
				}
				add("ordered-sink", recv+"."+name, sel.X, call.Pos(), !injective, false,
					"keyed insert "+recv+"."+name+"("+k+", …) whose key is not the unmodified range key and has no reject-duplicate guard: when two entries map to the same key the survivor depends on map iteration order")
				return true
			}
			// a method that only reads (decided on its body, up to two calls deep): the call
			// has no effect that could depend on the iteration order - e.g. a search loop
			// extracted from the body into `s.productInHostTags(p)`
			if sf := ix.p.SSA.FuncValue(fobj); sf != nil && ix.readOnlyFunc(sf, 2, map[*ssa.Function]bool{}) {
				return true
			}
			add("outer-call", recv+"."+name, sel.X, call.Pos(), false, true, "call of "+recv+"."+name+" on an object that outlives the loop; its effect cannot be classified by shape")
			return true
		})
	}
	walkStmt = func(st ast.Stmt, path []*ast.BlockStmt) {
		switch s := st.(type) {
		case *ast.AssignStmt:
			for i, lhs := range s.Lhs {
				var rhs ast.Expr
				if len(s.Rhs) == len(s.Lhs) {
					rhs = s.Rhs[i]
				} else if len(s.Rhs) == 1 {
					rhs = s.Rhs[0]
				}
				if id, ok := lhs.(*ast.Ident); ok && (id.Name == "_" || s.Tok == token.DEFINE && local[info.ObjectOf(id)]) {
					continue
				}
				// keyed store into a map
				if ix0, ok := lhs.(*ast.IndexExpr); ok {
					if t := info.TypeOf(ix0.X); t != nil {
						if _, isMap := t.Underlying().(*types.Map); isMap && !isLocal(ix0.X) {
							m, k := types.ExprString(ix0.X), types.ExprString(ix0.Index)
							target := m
							switch {
							case s.Tok != token.ASSIGN: // m[k] += v
								add("keyed-accumulate", target, ix0.X, s.Pos(), false, false, "")
							case identIs(ix0.Index, info, keyObj) && !reassigned(l.rs.Body, info, keyObj):
								add("keyed-store", target, ix0.X, s.Pos(), false, false, "keyed by the range key")
							case rhs != nil && isConst(rhs):
								add("keyed-store", target, ix0.X, s.Pos(), false, false, "stores a constant")
							case keyedStoreGuarded(l, ix0, func() bool { return dupGuard(path, st, m, k) }):
								add("keyed-store", target, ix0.X, s.Pos(), false, false, "duplicate rejected before the store")
							default:
								add("keyed-store", target, ix0.X, s.Pos(), true, false, "store "+m+"["+k+"] = … where the key is not the range key, the value is not constant and no earlier test rejects an existing "+m+"["+k+"]: with duplicate keys the last writer wins and the winner depends on map iteration order")
							}
							continue
						}
					}
				}
				if isLocal(lhs) {
					continue
				}
				target := types.ExprString(lhs)
				// x = append(x, …)
				if call, ok := rhs.(*ast.CallExpr); ok && types.ExprString(call.Fun) == "append" {
					ac := builtinCallAt(l.ssa, "append", call.Lparen)
					if sortedAfter(target) || (ac != nil && ix.flowsToSort(ac, 2, map[ssa.Value]bool{})) {
						add("append", target, lhs, s.Pos(), false, false, "sorted after the loop")
					} else if ac != nil && sliceOnlyErrorText(ac, map[ssa.Value]bool{}) {
						add("append", target, lhs, s.Pos(), false, false, "the list is only counted and joined into an error / log message: its order does not influence what is accepted or built")
					} else {
						add("append", target, lhs, s.Pos(), true, false, "appends to "+target+", which outlives the loop and is not sorted afterwards in this function: element order follows map iteration order")
					}
					continue
				}
				if s.Tok != token.ASSIGN && s.Tok != token.DEFINE {
					if b, ok := info.TypeOf(lhs).Underlying().(*types.Basic); ok && b.Info()&types.IsString != 0 {
						add("concat", target, lhs, s.Pos(), true, false, "string concatenation onto "+target+" in map order")
					} else {
						add("accumulate", target, lhs, s.Pos(), false, false, "")
					}
					continue
				}
				if rhs != nil && isConst(rhs) {
					add("assign", target, lhs, s.Pos(), false, false, "constant")
					continue
				}
				add("assign", target, lhs, s.Pos(), true, false, "assigns a per-iteration value to "+target+", which outlives the loop: the last (or first) iteration wins")
			}
			for _, r := range s.Rhs {
				checkCalls(r, st, path)
			}
		case *ast.IncDecStmt:
			if !isLocal(s.X) {
				add("accumulate", types.ExprString(s.X), s.X, s.Pos(), false, false, "")
			}
		case *ast.ExprStmt:
			checkCalls(s.X, st, path)
		case *ast.ReturnStmt:
			allConst, errRet := true, false
			for i, r := range s.Results {
				if isConst(r) {
					continue
				}
				if i == len(s.Results)-1 && isErrorType(info.TypeOf(r)) {
					errRet = true
					continue
				}
				// returning outer values (e.g. the zero `conf`) is fine; returning loop elements is not
				if usesLocal(r, info, local) {
					allConst = false
				}
			}
			if !allConst && !errRet {
				add("return-element", "return", nil, s.Pos(), true, false, "returns a value taken from the current iteration: the first matching entry in map order wins")
			} else {
				add("return", "return", nil, s.Pos(), false, false, "")
			}
		case *ast.IfStmt:
			if s.Init != nil {
				walkStmt(s.Init, path)
			}
			checkCalls(s.Cond, st, path)
			if keyEqualsConst(s.Cond, info, keyObj, isConst) && !reassigned(l.rs.Body, info, keyObj) {
				// `if <range key> == <const>` (the if-chain spelling of the switch below): the
				// branch fires for at most one map key, its effects are per-key
				n := len(effs)
				walk(s.Body.List, append(path, s.Body))
				for i := n; i < len(effs); i++ {
					if effs[i].kind == "assign" {
						effs[i].sensitive = false
						effs[i].why = "inside `if <range key> == <const>`: executed for at most one key"
					}
				}
			} else {
				walk(s.Body.List, append(path, s.Body))
			}
			if s.Else != nil {
				switch e := s.Else.(type) {
				case *ast.BlockStmt:
					walk(e.List, append(path, e))
				default:
					walkStmt(e, path)
				}
			}
		case *ast.BlockStmt:
			walk(s.List, append(path, s))
		case *ast.ForStmt:
			walk(s.Body.List, append(path, s.Body))
		case *ast.RangeStmt:
			checkCalls(s.X, st, path)
			walk(s.Body.List, append(path, s.Body))
		case *ast.SwitchStmt:
			perKey := s.Tag != nil && identIs(s.Tag, info, keyObj) && !reassigned(l.rs.Body, info, keyObj)
			for _, cc := range s.Body.List {
				clause := cc.(*ast.CaseClause)
				if perKey && clause.List != nil {
					// each constant case fires for at most one map key: effects are per-key
					n := len(effs)
					walk(clause.Body, path)
					for i := n; i < len(effs); i++ {
						if effs[i].kind == "assign" {
							effs[i].sensitive = false
							effs[i].why = "inside `switch <range key> { case <const> }`: executed for at most one key"
						}
					}
					continue
				}
				walk(clause.Body, path)
			}
		case *ast.LabeledStmt:
			walkStmt(s.Stmt, path)
		case *ast.DeclStmt, *ast.BranchStmt, *ast.EmptyStmt:
		case *ast.GoStmt:
			add("goroutine", "go", nil, s.Pos(), false, true, "goroutine started per map entry")
		case *ast.DeferStmt:
			checkCalls(s.Call, st, path)
		default:
			add("statement", fmt.Sprintf("%T", st), nil, st.Pos(), false, true, "statement form not classified")
		}
	}
	walk = func(stmts []ast.Stmt, path []*ast.BlockStmt) {
		for _, st := range stmts {
			walkStmt(st, path)
		}
	}
	walk(l.rs.Body.List, []*ast.BlockStmt{l.rs.Body})
	// drop the pure bookkeeping effects from the report list but keep them as discharged obligations
	sort.SliceStable(effs, func(i, j int) bool { return effs[i].pos < effs[j].pos })
	return effs
}

// keyedStoreGuarded decides "a test rejects an existing m[k] before the store" on the SSA form
// (guards that hold at the store, whatever the spelling and shape of the test); the syntactic
// test is only the fallback when the store cannot be located in the SSA form.
func keyedStoreGuarded(l mapLoop, ix0 *ast.IndexExpr, syntactic func() bool) bool {
	if mu := mapUpdateAt(l.ssa, ix0.Lbrack); mu != nil {
		return dupRejected(mu)
	}
	return syntactic()
}

// keyEqualsConst: cond is `<range key> == <const>` (either operand order, parenthesised).
func keyEqualsConst(cond ast.Expr, info *types.Info, keyObj types.Object, isConst func(ast.Expr) bool) bool {
	for {
		p, ok := cond.(*ast.ParenExpr)
		if !ok {
			break
		}
		cond = p.X
	}
	b, ok := cond.(*ast.BinaryExpr)
	if !ok || b.Op != token.EQL || keyObj == nil {
		return false
	}
	return (identIs(b.X, info, keyObj) && isConst(b.Y)) || (identIs(b.Y, info, keyObj) && isConst(b.X))
}

// canonExpr prints an expression with every identifier that names a local variable, a
// parameter or a receiver replaced by its type in angle brackets (`fails` -> `<[]string>`,
// `t.balTable` -> `<*BalTable>.balTable`): the result does not change when a local is renamed.
func canonExpr(info *types.Info, e ast.Expr) string {
	qual := func(p *types.Package) string { return p.Name() }
	switch x := e.(type) {
	case *ast.Ident:
		if v, ok := info.ObjectOf(x).(*types.Var); ok && !v.IsField() && v.Pkg() != nil && v.Parent() != v.Pkg().Scope() {
			return "<" + types.TypeString(v.Type(), qual) + ">"
		}
		return x.Name
	case *ast.SelectorExpr:
		return canonExpr(info, x.X) + "." + x.Sel.Name
	case *ast.IndexExpr:
		return canonExpr(info, x.X) + "[" + canonExpr(info, x.Index) + "]"
	case *ast.StarExpr:
		return "*" + canonExpr(info, x.X)
	case *ast.ParenExpr:
		return "(" + canonExpr(info, x.X) + ")"
	case *ast.UnaryExpr:
		return x.Op.String() + canonExpr(info, x.X)
	case *ast.CallExpr:
		var args []string
		for _, a := range x.Args {
			args = append(args, canonExpr(info, a))
		}
		return canonExpr(info, x.Fun) + "(" + strings.Join(args, ", ") + ")"
	}
	return types.ExprString(e)
}

func identOf(e ast.Expr) *ast.Ident {
	id, _ := e.(*ast.Ident)
	if id == nil {
		return &ast.Ident{Name: "_"}
	}
	return id
}

func identIs(e ast.Expr, info *types.Info, obj types.Object) bool {
	id, ok := e.(*ast.Ident)
	return ok && obj != nil && info.ObjectOf(id) == obj
}

// reassigned: the object is assigned inside the body (so it no longer equals the range key).
func reassigned(body *ast.BlockStmt, info *types.Info, obj types.Object) bool {
	found := false
	ast.Inspect(body, func(n ast.Node) bool {
		if as, ok := n.(*ast.AssignStmt); ok && as.Tok == token.ASSIGN {
			for _, l := range as.Lhs {
				if identIs(l, info, obj) {
					found = true
				}
			}
		}
		return true
	})
	return found
}

func isErrorType(t types.Type) bool {
	return t != nil && types.Identical(t, types.Universe.Lookup("error").Type())
}

func usesLocal(e ast.Expr, info *types.Info, local map[types.Object]bool) bool {
	found := false
	ast.Inspect(e, func(n ast.Node) bool {
		if id, ok := n.(*ast.Ident); ok && local[info.ObjectOf(id)] {
			found = true
		}
		return true
	})
	return found
}
