package rules

import (
	"fmt"
	"go/token"
	"go/types"

	"golang.org/x/tools/go/ssa"

	"verif/internal/core"
)

// C27 — HTTP/1 responses to clients are correctly framed (modest).
func init() {
	Register(&Rule{
		ID: "C27", Section: "5 C27",
		Technique: "witness-path analysis of chunkWriter.writeHeader (every path to the header write passes a framing witness: declared length, chunking, bodiless status/HEAD, or close-after-reply), coupling of the chunking flag with the Transfer-Encoding/Content-Length header edits, guard census, who-may-write census of chunking/closeAfterReply, path rules on chunkWriter.Write/close and response.write/finishRequest, key agreement and input coverage of the statusLine memo map, goroutine join analysis of the periodic response flusher (start/stop coupling, blocking send on every path of Stop, who-may-write census of the stop channel with capacity 0, no Flush reachable on the stop arm)",
		Meta: core.Meta{
			Level:       "other",
			Explanation: "Decides the framing decision's structure, not the bytes: (a) chunkWriter.chunking is written only by writeHeader, only with true, always together with setHeader.transferEncoding = \"chunked\" (and vice versa), only for HTTP/1.1+, non-HEAD, status not 304/204 and no surviving declared Content-Length, and every path from there to the header write deletes Content-Length; (b) every path of writeHeader that reaches the header write passes one of: declared Content-Length (contentLength != -1 still true), chunking := true, HEAD, 304, 204, closeAfterReply := true - and no path that does not chunk (other than HEAD/304) reaches the header write with a handler-supplied Transfer-Encoding still in place; a synthesised Content-Length is stored together with response.contentLength and before the hasCL test; Content-Length is deleted only under chunking, 304, or where the declared-length flag is cleared; the delHeader closure really deletes or excludes; (c) closeAfterReply is written only by writeHeader, requestTooLarge and finishRequest, reset to false only under the HTTP/1.0 keep-alive + Content-Length + Connection: keep-alive test and never after it was set; finishRequest sets it when fewer bytes than declared were written; conn.serve cannot start reading the next request while it is set; (d) chunkWriter.Write emits the chunk-size line before and CRLF after the data exactly when chunking, writes nothing for HEAD; chunkWriter.close emits the last-chunk exactly when chunking; response.write refuses bodies for 304 and beyond the declared length; finishRequest always flushes and closes the chunk writer. (e) the Status-Line memo (statusLines): a get-or-compute function of bfe_server fills a package-level map only under the key it looked up, and every parameter the cached value depends on (request version, code) is an input of that key. (f) the periodic flusher is joined before the reply is finished: for every `go x.Loop()` in bfe_server/bfe_http whose receiver is a bfe_http writer (Write+Flush methods) and whose loop flushes (MaxLatencyWriter.FlushLoop, started by ReverseProxy.copyResponse when a flush interval is configured) - the starter defers (or calls on every path) a stop method of the same object next to the go statement; the stop method performs a plain blocking send on the stop channel field on every path; every channel ever stored into that field is make(chan, 0), so the send returns only when the loop has taken the signal, i.e. while it is not inside Flush; and on the arm that took the signal the loop cannot reach another Flush. Otherwise response.finishRequest flushes the same bufio buffers concurrently with a Flush in progress and entity bytes go out twice / interleaved with the last-chunk. All rules about chunkWriter.writeHeader, requestTooLarge and finishRequest look at the region of the function (the function plus unexported helpers called from nowhere else): writers of closeAfterReply / chunking inside such helpers are reviewed writers, guards of a store inside a helper include the guards of its call site, and the witness-path queries inline the helpers; the path search binds boolean phis to the operand of the edge taken, so named booleans (`ok := a && b; if ok`), tagless switches (whose cases go/ssa evaluates in value context) and inverted / nested conditions decide like the if-chain. Forms not followed (reported): chunking = true and transferEncoding = \"chunked\" in two different functions, the header-deleting closure called from a helper, the header write moved more than four helper levels away. Not covered: the bytes on the wire, the text of the status line, body equality with the backend body, suppression of bodies for 1xx/204 in Write, header values, trailers, what the reverse proxy copies into the response header.",
			RuleText:    "obligations = each writer of chunking/closeAfterReply/transferEncoding, each required guard of the chunking store, one witness-path query per framing clause, each Content-Length deletion, each data-write site of chunkWriter.Write/response.write, the exits of chunkWriter.close/finishRequest/delHeader, each fill of a looked-up package-level memo map (key identity, key covers the value's inputs), per flusher goroutine start (coupled stop), per stop method (blocking send on all paths), per store to the stop channel field (unbuffered), per stop arm of the loop (no further Flush)",
			Assumptions: []string{"response.contentLength != -1 means a valid Content-Length header is present (established by response.WriteHeader, checked: it is the only other writer)", "bufio never calls chunkWriter.Write with an empty slice"},
		},
		Run: runC27,
		Mutants: []Mutant{
			{Name: "http10-unframed-keepalive", File: "bfe_server/chunk_writer.go", Old: "		w.closeAfterReply = true\n		delHeader(\"Transfer-Encoding\") // in case already set", New: "		delHeader(\"Transfer-Encoding\") // in case already set", Expect: "framing-decided"},
			{Name: "chunk-to-http10", File: "bfe_server/chunk_writer.go", Old: "	} else if w.req.ProtoAtLeast(1, 1) {\n		// HTTP/1.1 or greater: use chunked", New: "	} else if w.req.ProtoAtLeast(1, 0) {\n		// HTTP/1.1 or greater: use chunked", Expect: "chunking-guard"},
			{Name: "cl-dropped-flag-kept", File: "bfe_server/chunk_writer.go", Old: "		delHeader(\"Content-Length\")\n		hasCL = false\n", New: "		delHeader(\"Content-Length\")\n", Expect: "cl-delete-justified"},
			{Name: "chunked-keeps-content-length", File: "bfe_server/chunk_writer.go", Old: "	if cw.chunking {\n		delHeader(\"Content-Length\")\n	}", New: "	if cw.chunking && owned {\n		delHeader(\"Content-Length\")\n	}", Expect: "chunking-drops-cl"},
			{Name: "te-header-survives-with-cl", File: "bfe_server/chunk_writer.go", Old: "	} else if hasCL {\n		delHeader(\"Transfer-Encoding\")\n", New: "	} else if hasCL {\n", Expect: "te-consistent"},
			{Name: "chunk-flag-without-header", File: "bfe_server/chunk_writer.go", Old: "		cw.chunking = true\n		setHeader.transferEncoding = \"chunked\"", New: "		cw.chunking = true", Expect: "chunked-coupled"},
			{Name: "chunk-head", File: "bfe_server/chunk_writer.go", Old: "	if w.req.Method == \"HEAD\" || code == bfe_http.StatusNotModified {\n		// do nothing", New: "	if code == bfe_http.StatusNotModified {\n		// do nothing", Expect: "chunking-guard"},
			{Name: "last-chunk-dropped", File: "bfe_server/chunk_writer.go", Old: "		cw.res.conn.buf.WriteString(\"0\\r\\n\\r\\n\")", New: "		cw.res.conn.buf.Flush()", Expect: "chunk-terminator"},
			{Name: "head-body-written", File: "bfe_server/chunk_writer.go", Old: "	if cw.res.req.Method == \"HEAD\" {\n		// Eat writes.\n		return len(p), nil\n	}\n", New: "", Expect: "chunk-frame"},
			{Name: "chunk-crlf-dropped", File: "bfe_server/chunk_writer.go", Old: "	if cw.chunking && err == nil {\n		_, err = cw.res.conn.buf.Write(crlf)\n	}", New: "	if cw.chunking && err == nil && len(p) > 1 {\n		_, err = cw.res.conn.buf.Write(crlf)\n	}", Expect: "chunk-frame"},
			{Name: "undersent-keeps-alive", File: "bfe_server/response.go", Old: "w.bodyAllowed() && w.contentLength != w.written {", New: "w.bodyAllowed() && w.contentLength < w.written {", Expect: "undersent-closes"},
			{Name: "overlong-body-accepted", File: "bfe_server/response.go", Old: "	if w.contentLength != -1 && w.written > w.contentLength {\n		return 0, ErrContentLength\n	}\n", New: "", Expect: "write-limits"},
			{Name: "close-flag-reverted", File: "bfe_server/chunk_writer.go", Old: "	if !w.conn.server.DoKeepAlives() {\n		w.closeAfterReply = true\n	}\n", New: "	if !w.conn.server.DoKeepAlives() {\n		w.closeAfterReply = true\n	}\n	if w.status == bfe_http.StatusOK {\n		w.closeAfterReply = false\n	}\n", Expect: "close-not-reverted"},
			{Name: "delheader-inverted-lookup", File: "bfe_server/chunk_writer.go", Old: "		if _, ok := header[key]; !ok {\n			return\n		}", New: "		if _, ok := header[key]; ok {\n			return\n		}", Expect: "delheader-closure"},
			{Name: "foreign-close-writer", File: "bfe_server/response.go", Old: "func (w *response) Flush() error {\n	if !w.wroteHeader {", New: "func (w *response) Flush() error {\n	w.closeAfterReply = false\n	if !w.wroteHeader {", Expect: "close-writers"},
			{Name: "serve-ignores-close-flag", File: "bfe_server/http_conn.go", Old: "		if !isKeepAlive || w.closeAfterReply {\n			if w.requestBodyLimitHit {", New: "		if !isKeepAlive {\n			if w.requestBodyLimitHit {", Expect: "serve-honours-close"},
			{Name: "status-line-looked-up-by-code", File: "bfe_server/chunk_writer.go", Old: "	line, ok := statusLines[key]\n", New: "	line, ok := statusLines[code]\n", Expect: "cache-key|"},
			{Name: "status-line-key-ignores-version", File: "bfe_server/chunk_writer.go", Old: "	if !proto11 {\n		key = -key\n	}\n", New: "", Expect: "cache-key|"},
			{Name: "stop-does-not-wait", File: "bfe_http/common.go", Old: "func (m *MaxLatencyWriter) Stop() {\n	m.done <- true\n}", New: "func (m *MaxLatencyWriter) Stop() {\n	select {\n	case m.done <- true:\n	default:\n	}\n}", Expect: "flush-joined|"},
			{Name: "flush-after-stop-signal", File: "bfe_http/common.go", Old: "			if m.onExitFlushLoop != nil {\n				m.onExitFlushLoop()\n			}\n			return\n		case <-t.C:", New: "			if m.onExitFlushLoop != nil {\n				m.onExitFlushLoop()\n			}\n			m.Flush()\n			return\n		case <-t.C:", Expect: "flush-joined|"},
			{Name: "copy-response-never-stops-flusher", File: "bfe_server/reverseproxy.go", Old: "			go mlw.FlushLoop()\n			defer mlw.Stop()\n			dst = mlw", New: "			go mlw.FlushLoop()\n			dst = mlw", Expect: "flush-joined|"},
			{Name: "silent-flush-loop-logs", Silent: true, File: "bfe_http/common.go", Old: "		case <-t.C:\n			m.Flush()", New: "		case <-t.C:\n			if err := m.Flush(); err != nil {\n				slog.Logger.Debug(\"MaxLatencyWriter.FlushLoop(): %v\", err)\n			}"},
			{Name: "silent-status-line-fill-helper", Silent: true, File: "bfe_server/chunk_writer.go", Old: "		statusLines[key] = line\n	}\n	return line\n}\n", New: "		slot := key\n		storeStatusLine(slot, line)\n	}\n	return line\n}\n\nfunc storeStatusLine(k int, s string) {\n	statusLines[k] = s\n}\n"},
			{Name: "silent-reorder-and-log", Silent: true, File: "bfe_server/chunk_writer.go", Old: "		cw.chunking = true\n		setHeader.transferEncoding = \"chunked\"", New: "		setHeader.transferEncoding = \"chunked\"\n		log.Logger.Debug(\"chunked reply\")\n		cw.chunking = true"},
			{Name: "silent-close-decision-in-helper", Silent: true, File: "bfe_server/chunk_writer.go", Old: "\t\tw.closeAfterReply = true\n\t\tdelHeader(\"Transfer-Encoding\") // in case already set\n\t}\n\n\t// Cannot use Content-Length with non-identity Transfer-Encoding.\n\tif cw.chunking {\n\t\tdelHeader(\"Content-Length\")\n\t}\n\tif !w.req.ProtoAtLeast(1, 0) {\n\t\treturn\n\t}\n\n\tif w.closeAfterReply && !bfe_http.HasToken(cw.header.GetDirect(\"Connection\"), \"close\") {\n\t\tdelHeader(\"Connection\")\n\t\tif w.req.ProtoAtLeast(1, 1) {\n\t\t\tsetHeader.connection = \"close\"\n\t\t}\n\t}\n\n\tprev := w.conn.buf.TotalWrite\n\tw.conn.buf.WriteString(statusLine(w.req, code))\n\tcw.header.WriteSubset(w.conn.buf, excludeHeader)\n\tsetHeader.Write(w.conn.buf.Writer)\n\n\tw.conn.buf.Write(crlf)\n\tw.headerWritten = int64(w.conn.buf.TotalWrite - prev)\n}\n", New: "\t\tw.closeDelimitsBody()\n\t\tdelHeader(\"Transfer-Encoding\") // in case already set\n\t}\n\n\t// Cannot use Content-Length with non-identity Transfer-Encoding.\n\tif cw.chunking {\n\t\tdelHeader(\"Content-Length\")\n\t}\n\tif !w.req.ProtoAtLeast(1, 0) {\n\t\treturn\n\t}\n\n\tif w.closeAfterReply && !bfe_http.HasToken(cw.header.GetDirect(\"Connection\"), \"close\") {\n\t\tdelHeader(\"Connection\")\n\t\tif w.req.ProtoAtLeast(1, 1) {\n\t\t\tsetHeader.connection = \"close\"\n\t\t}\n\t}\n\n\tprev := w.conn.buf.TotalWrite\n\tw.conn.buf.WriteString(statusLine(w.req, code))\n\tcw.header.WriteSubset(w.conn.buf, excludeHeader)\n\tsetHeader.Write(w.conn.buf.Writer)\n\n\tw.conn.buf.Write(crlf)\n\tw.headerWritten = int64(w.conn.buf.TotalWrite - prev)\n}\n\n// closeDelimitsBody: the end of the body is signalled by closing the connection.\nfunc (w *response) closeDelimitsBody() {\n\tw.closeAfterReply = true\n}\n"},
			{Name: "silent-keepalive-chain-as-switch", Silent: true, File: "bfe_server/chunk_writer.go", Old: "\tif w.req.WantsHttp10KeepAlive() && (isHEAD || hasCL) {\n\t\t_, connectionHeaderSet := header[\"Connection\"]\n\t\tif !connectionHeaderSet {\n\t\t\tsetHeader.connection = \"keep-alive\"\n\t\t}\n\t} else if !w.req.ProtoAtLeast(1, 1) || w.req.WantsClose() {\n\t\tw.closeAfterReply = true\n\t}\n", New: "\tswitch {\n\tcase w.req.WantsHttp10KeepAlive() && (isHEAD || hasCL):\n\t\t_, connectionHeaderSet := header[\"Connection\"]\n\t\tif !connectionHeaderSet {\n\t\t\tsetHeader.connection = \"keep-alive\"\n\t\t}\n\tcase !w.req.ProtoAtLeast(1, 1) || w.req.WantsClose():\n\t\tw.closeAfterReply = true\n\t}\n"},
			{Name: "silent-named-length-booleans", Silent: true, File: "bfe_server/response.go", Old: "\tif w.contentLength != -1 && w.written > w.contentLength {\n\t\treturn 0, ErrContentLength\n\t}\n", New: "\tdeclared := w.contentLength != -1\n\ttooLong := declared && w.written > w.contentLength\n\tif tooLong {\n\t\treturn 0, ErrContentLength\n\t}\n"},
		},
	})
}

// c27Env holds the resolved anchors shared by C27 and C28.
type h1bSrv struct {
	writeHeader, requestTooLarge, finishRequest, serve, serveRequest *ssa.Function
	chunking, closeAfter, contentLength, written, status, method     *types.Var
	limitHit                                                         *types.Var
}

func h1bResolveSrv(c *core.Ctx) *h1bSrv {
	const srv = "bfe_server"
	e := &h1bSrv{}
	e.writeHeader = h1bFunc(c, srv, "chunkWriter.writeHeader")
	e.requestTooLarge = h1bFunc(c, srv, "response.requestTooLarge")
	e.finishRequest = h1bFunc(c, srv, "response.finishRequest")
	e.serve = h1bFunc(c, srv, "conn.serve")
	e.serveRequest = h1bFunc(c, srv, "conn.serveRequest")
	e.chunking = h1bField(c, srv, "chunkWriter.chunking")
	e.closeAfter = h1bField(c, srv, "response.closeAfterReply")
	e.contentLength = h1bField(c, srv, "response.contentLength")
	e.written = h1bField(c, srv, "response.written")
	e.status = h1bField(c, srv, "response.status")
	e.limitHit = h1bField(c, srv, "response.requestBodyLimitHit")
	e.method = h1bField(c, "bfe_http", "Request.Method")
	return e
}

// h1bStoreConst: in is a store of the boolean constant val to field fld.
func h1bStoreBool(in ssa.Instruction, fld *types.Var, val bool) bool {
	st, ok := in.(*ssa.Store)
	if !ok || fld == nil {
		return false
	}
	f, _ := h1bFieldOf(st.Addr)
	if f != fld {
		return false
	}
	b, isB := h1bConstBool(st.Val)
	return isB && b == val
}

// h1bServeHonoursClose: in conn.serve, after serveRequest returned, the next
// readRequest can only be reached over the edge closeAfterReply == false (and
// over the edge "serveRequest returned true").
func h1bServeHonoursClose(c *core.Ctx, e *h1bSrv, rule string) {
	if e.serve == nil || e.serveRequest == nil || e.closeAfter == nil {
		return
	}
	var reads, serves []ssa.CallInstruction
	for _, ci := range core.AllCalls(e.serve) {
		if core.CallIs(ci.Common(), "bfe_server.conn.readRequest") {
			reads = append(reads, ci)
		}
		if ci.Common().StaticCallee() == e.serveRequest {
			serves = append(serves, ci)
		}
	}
	if len(reads) == 0 || len(serves) == 0 {
		c.Check(rule, "conn.serve:loop", e.serve.Pos(), false, fmt.Sprintf("conn.serve has %d readRequest and %d serveRequest calls; the keep-alive loop was not found", len(reads), len(serves)))
		return
	}
	isRead := func(x ssa.Instruction) bool {
		for _, r := range reads {
			if r.(ssa.Instruction) == x {
				return true
			}
		}
		return false
	}
	for i, s := range serves {
		bad := h1bReach(e.serve, s.(ssa.Instruction), nil, func(f h1bFact) bool {
			return !f.Pol && h1bIsField(e.closeAfter)(f.V)
		}, isRead)
		c.Check(rule, fmt.Sprintf("conn.serve:after-serveRequest#%d:closeAfterReply", i+1), s.Pos(), bad == nil,
			"after a request was served, the next readRequest is reachable without passing the test response.closeAfterReply == false: a reply that can only be delimited by closing the connection would be followed by another request on the same connection")
		bad = h1bReach(e.serve, s.(ssa.Instruction), nil, func(f h1bFact) bool {
			return f.Pol && core.StripConv(f.V) == s.Value()
		}, isRead)
		c.Check(rule, fmt.Sprintf("conn.serve:after-serveRequest#%d:keepalive-verdict", i+1), s.Pos(), bad == nil,
			"after a request was served, the next readRequest is reachable although serveRequest did not return keep-alive = true")
	}
}

func runC27(c *core.Ctx) {
	const srv = "bfe_server"
	c27StatusLineCache(c)
	c27FlushJoined(c)
	e := h1bResolveSrv(c)
	wh := e.writeHeader
	all := c.P.SrcFuncs("")
	teFld := h1bField(c, srv, "extraHeader.transferEncoding")
	clFld := h1bField(c, srv, "extraHeader.contentLength")
	handlerDone := h1bField(c, srv, "response.handlerDone")
	if wh == nil || e.chunking == nil || e.closeAfter == nil || e.contentLength == nil || e.status == nil || e.method == nil || teFld == nil || clFld == nil {
		return
	}
	isStatus, isMethod, isCLen := h1bIsField(e.status), h1bIsField(e.method), h1bIsField(e.contentLength)
	// declared-length flag: contentLength != -1, possibly merged with false
	// (contentLength == -1 is the same flag negated: h1bCmp folds the polarity)
	var isHasCL func(v ssa.Value, d int) bool
	isHasCL = func(v ssa.Value, d int) bool {
		if d > 4 {
			return false
		}
		switch x := v.(type) {
		case *ssa.BinOp:
			return x.Op == token.NEQ && (isCLen(x.X) && h1bIsInt(-1)(x.Y) || isCLen(x.Y) && h1bIsInt(-1)(x.X))
		case *ssa.UnOp:
			if x.Op == token.NOT {
				if b, ok := x.X.(*ssa.BinOp); ok {
					return b.Op == token.EQL && (isCLen(b.X) && h1bIsInt(-1)(b.Y) || isCLen(b.Y) && h1bIsInt(-1)(b.X))
				}
			}
			return false
		case *ssa.Phi:
			n := 0
			for _, ed := range x.Edges {
				if b, ok := h1bConstBool(ed); ok && !b {
					continue
				}
				if !isHasCL(ed, d+1) {
					return false
				}
				n++
			}
			return n > 0
		}
		return false
	}
	hasCLFact := func(f h1bFact, pol bool) bool {
		if isHasCL(f.V, 0) {
			return f.Pol == pol
		}
		// `contentLength == -1` / `-1 == contentLength` established or refuted
		if b, ok := f.V.(*ssa.BinOp); ok && b.Op == token.EQL && (isCLen(b.X) && h1bIsInt(-1)(b.Y) || isCLen(b.Y) && h1bIsInt(-1)(b.X)) {
			return f.Pol != pol
		}
		return false
	}
	isHEAD := func(f h1bFact) bool { return h1bEq(f, isMethod, h1bIsStr("HEAD")) }
	notHEAD := func(f h1bFact) bool { return h1bNe(f, isMethod, h1bIsStr("HEAD")) }
	isCode := func(n int64) func(f h1bFact) bool {
		return func(f h1bFact) bool { return h1bEq(f, isStatus, h1bIsInt(n)) }
	}
	notCode := func(n int64) func(f h1bFact) bool {
		return func(f h1bFact) bool { return h1bNe(f, isStatus, h1bIsInt(n)) }
	}
	chunkingFact := func(pol bool) func(f h1bFact) bool {
		return func(f h1bFact) bool { return f.Pol == pol && h1bIsField(e.chunking)(f.V) }
	}
	// delHeader closure calls
	delHeader := func(in ssa.Instruction, name string) bool {
		call, ok := in.(*ssa.Call)
		if !ok || len(call.Call.Args) != 1 {
			return false
		}
		if _, isCl := call.Call.Value.(*ssa.MakeClosure); !isCl {
			return false
		}
		s, isStr := core.ConstString(call.Call.Args[0])
		return isStr && s == name
	}
	whRegion := h1bRegionSet(c.P, wh)
	var headerWrites []ssa.Instruction
	for _, ci := range c.P.RegionCalls(wh, "bfe_http.Header.WriteSubset", "bfe_http.Header.Write") {
		headerWrites = append(headerWrites, ci.(ssa.Instruction))
	}
	if len(headerWrites) == 0 {
		c.Missing("chunkWriter.writeHeader: the Header.WriteSubset call that puts the header on the wire")
		return
	}
	isHdrWrite := func(x ssa.Instruction) bool {
		for _, h := range headerWrites {
			if h == x {
				return true
			}
		}
		return false
	}
	storeChunk := func(x ssa.Instruction) bool { return h1bStoreBool(x, e.chunking, true) }
	storeClose := func(x ssa.Instruction) bool { return h1bStoreBool(x, e.closeAfter, true) }

	// (a) writers of chunking
	n := map[string]int{}
	for _, st := range core.FieldStores(all, e.chunking) {
		k := core.FuncKey(st.Fn)
		v, isB := h1bConstBool(st.Store.Val)
		c.Check("chunking-writers", h1bOrd(k, n), st.Store.Pos(), whRegion[st.Fn] && isB && v,
			"chunkWriter.chunking is written with "+core.Render(st.Store.Val)+" in "+k+"; only `= true` in chunkWriter.writeHeader (next to the Transfer-Encoding decision) is reviewed")
	}
	c.Min("chunking-writers", 1)
	chunkStores := []*ssa.Store{}
	for _, st := range core.FieldStores(c.P.Region(wh), e.chunking) {
		chunkStores = append(chunkStores, st.Store)
	}
	var teStores []core.StoreTo
	teStores = core.FieldStores(c.P.SrcFuncs(srv), teFld)
	for i, cs := range chunkStores {
		ok := false
		for _, ts := range teStores {
			if whRegion[ts.Fn] && h1bIsStr("chunked")(ts.Store.Val) && h1bCoupled(cs, ts.Store) {
				ok = true
			}
		}
		c.Check("chunked-coupled", fmt.Sprintf("writeHeader:chunking#%d", i+1), cs.Pos(), ok,
			"chunking is switched on without setHeader.transferEncoding = \"chunked\" on the same paths: the body would be chunk-framed without the client being told")
	}
	for i, ts := range teStores {
		ok := false
		for _, cs := range chunkStores {
			if whRegion[ts.Fn] && h1bIsStr("chunked")(ts.Store.Val) && h1bCoupled(cs, ts.Store) {
				ok = true
			}
		}
		c.Check("chunked-coupled", fmt.Sprintf("%s:transferEncoding#%d", core.FuncKey(ts.Fn), i+1), ts.Store.Pos(), ok,
			"setHeader.transferEncoding is set to "+core.Render(ts.Store.Val)+" without chunkWriter.chunking = true on the same paths (or outside writeHeader): the header would announce a framing the body writer does not produce")
	}
	c.Min("chunked-coupled", 2)
	for i, cs := range chunkStores {
		b := cs.Block()
		key := fmt.Sprintf("writeHeader:chunking#%d:", i+1)
		facts := h1bJoinFacts(h1bFactsAtR(c.P, b))
		c.Check("chunking-guard", key+"http11", cs.Pos(), h1bGuardedR(c.P, b, func(f h1bFact) bool {
			call, ok := f.V.(*ssa.Call)
			return ok && f.Pol && core.CallIs(&call.Call, "bfe_http.Request.ProtoAtLeast") && len(call.Call.Args) == 3 && h1bIsInt(1)(call.Call.Args[1]) && h1bIsInt(1)(call.Call.Args[2])
		}), "chunked encoding is chosen without req.ProtoAtLeast(1, 1) == true: an HTTP/1.0 client cannot parse it; established: "+facts)
		c.Check("chunking-guard", key+"no-declared-length", cs.Pos(), h1bGuardedR(c.P, b, func(f h1bFact) bool { return hasCLFact(f, false) }),
			"chunked encoding is chosen although the declared Content-Length flag (contentLength != -1) was not tested false; established: "+facts)
		c.Check("chunking-guard", key+"not-head", cs.Pos(), h1bGuardedR(c.P, b, notHEAD), "chunked encoding is chosen without Method != HEAD; established: "+facts)
		c.Check("chunking-guard", key+"not-304", cs.Pos(), h1bGuardedR(c.P, b, notCode(304)), "chunked encoding is chosen without status != 304; established: "+facts)
		c.Check("chunking-guard", key+"not-204", cs.Pos(), h1bGuardedR(c.P, b, notCode(204)), "chunked encoding is chosen without status != 204; established: "+facts)
		bad := h1bReachR(c.P, wh, cs, func(x ssa.Instruction) bool { return delHeader(x, "Content-Length") }, chunkingFact(false), isHdrWrite)
		c.Check("chunking-drops-cl", fmt.Sprintf("writeHeader:chunking#%d", i+1), cs.Pos(), bad == nil,
			"a path from chunking = true reaches the header write without delHeader(\"Content-Length\"): the reply would carry both Content-Length and Transfer-Encoding: chunked")
	}
	c.Min("chunking-guard", 5)
	c.Min("chunking-drops-cl", 1)

	// delHeader closure
	for i, cl := range wh.AnonFuncs {
		if len(cl.Params) != 1 {
			continue
		}
		key := cl.Params[0]
		uses := false
		core.Instrs(wh, func(in ssa.Instruction) {
			if call, ok := in.(*ssa.Call); ok {
				if mc, ok := call.Call.Value.(*ssa.MakeClosure); ok && mc.Fn == cl {
					if s, ok := core.ConstString(call.Call.Args[0]); ok && (s == "Content-Length" || s == "Transfer-Encoding") {
						uses = true
					}
				}
			}
		})
		if !uses {
			continue
		}
		c.Analysed(core.FuncKey(cl))
		bad := h1bReach(cl, nil, func(x ssa.Instruction) bool {
			if ci, ok := x.(ssa.CallInstruction); ok && core.CallIs(ci.Common(), "bfe_http.Header.Del") && len(ci.Common().Args) == 2 && ci.Common().Args[1] == ssa.Value(key) {
				return true
			}
			if mu, ok := x.(*ssa.MapUpdate); ok && mu.Key == ssa.Value(key) {
				b, isB := h1bConstBool(mu.Value)
				return isB && b
			}
			return false
		}, func(f h1bFact) bool {
			ex, ok := f.V.(*ssa.Extract)
			if !ok || ex.Index != 1 || f.Pol {
				return false
			}
			lk, ok := ex.Tuple.(*ssa.Lookup)
			return ok && lk.Index == ssa.Value(key)
		}, core.IsReturn)
		c.Check("delheader-closure", fmt.Sprintf("writeHeader:closure#%d", i+1), cl.Pos(), bad == nil,
			"the header-deleting closure can return without Header.Del(key), without marking key in the exclude map, and without having seen that key is absent")
		// the exclude map it fills is the one WriteSubset gets
		okEx := false
		for _, hw := range headerWrites {
			args := hw.(ssa.CallInstruction).Common().Args
			if len(args) != 3 {
				continue
			}
			ld, ok := args[2].(*ssa.UnOp)
			if !ok {
				continue
			}
			core.Instrs(wh, func(in ssa.Instruction) {
				if mc, ok := in.(*ssa.MakeClosure); ok && mc.Fn == cl {
					for _, b := range mc.Bindings {
						if b == ld.X {
							okEx = true
						}
					}
				}
			})
		}
		c.Check("delheader-closure", fmt.Sprintf("writeHeader:closure#%d:exclude-map", i+1), cl.Pos(), okEx,
			"the exclude map passed to Header.WriteSubset is not the variable the header-deleting closure fills")
	}
	c.Min("delheader-closure", 2)

	// (b) framing witness on every path to the header write
	bad := h1bReachR(c.P, wh, nil, func(x ssa.Instruction) bool { return storeChunk(x) || storeClose(x) },
		func(f h1bFact) bool {
			return isHEAD(f) || isCode(304)(f) || isCode(204)(f) || hasCLFact(f, true)
		}, isHdrWrite)
	c.Check("framing-decided", "writeHeader", wh.Pos(), bad == nil,
		"a path reaches the header write without a declared Content-Length, without chunking = true, without HEAD/304/204 and without closeAfterReply = true: the client cannot tell where the body ends and the connection stays open")
	c.Min("framing-decided", 1)
	bad = h1bReachR(c.P, wh, nil, func(x ssa.Instruction) bool { return storeChunk(x) || delHeader(x, "Transfer-Encoding") },
		func(f h1bFact) bool { return isHEAD(f) || isCode(304)(f) }, isHdrWrite)
	c.Check("te-consistent", "writeHeader", wh.Pos(), bad == nil,
		"a path reaches the header write with chunking off (not HEAD/304) and without delHeader(\"Transfer-Encoding\"): a handler-supplied Transfer-Encoding line would announce a framing the body writer does not produce")
	c.Min("te-consistent", 1)

	// synthesised Content-Length
	for i, st := range h1bStoresOf(wh, clFld) {
		key := fmt.Sprintf("writeHeader:synth-cl#%d", i+1)
		okC := false
		var wst *ssa.Store
		for _, s2 := range h1bStoresOf(wh, e.contentLength) {
			if h1bCoupled(st, s2) && !h1bIsInt(-1)(s2.Val) {
				okC, wst = true, s2
			}
		}
		c.Check("cl-synth", key+":flag", st.Pos(), okC, "setHeader.contentLength is filled without response.contentLength being set on the same paths: the framing decision would not know a Content-Length is sent and could also chunk")
		if wst != nil {
			bad := core.ReachAvoiding(wh, wst, func(x ssa.Instruction) bool {
				b, ok := x.(*ssa.BinOp)
				return ok && isHasCL(b, 0)
			}, isHdrWrite)
			c.Check("cl-synth", key+":before-test", st.Pos(), bad == nil, "the synthesised Content-Length is stored after the contentLength != -1 test that drives the framing decision")
		}
		if handlerDone != nil {
			c.Check("cl-synth", key+":handler-done", st.Pos(), h1bGuarded(st.Block(), func(f h1bFact) bool { return f.Pol && h1bIsField(handlerDone)(f.V) }),
				"a Content-Length equal to the size of the first write is synthesised although the handler may not be done (handlerDone not tested): later writes would exceed it")
		}
	}
	c.Min("cl-synth", 3)
	// Content-Length deletions
	k := 0
	core.Instrs(wh, func(in ssa.Instruction) {
		if !delHeader(in, "Content-Length") {
			return
		}
		k++
		b := in.Block()
		ok := h1bGuarded(b, chunkingFact(true)) || h1bGuarded(b, isCode(304))
		if !ok {
			core.Instrs(wh, func(x ssa.Instruction) {
				phi, isPhi := x.(*ssa.Phi)
				if !isPhi || !isHasCL(phi, 0) {
					return
				}
				n, good := 0, 0
				for i, p := range phi.Block().Preds {
					if p == b || b.Dominates(p) {
						n++
						if v, isB := h1bConstBool(phi.Edges[i]); isB && !v {
							good++
						}
					}
				}
				if n > 0 && n == good {
					ok = true
				}
			})
		}
		c.Check("cl-delete-justified", fmt.Sprintf("writeHeader:del-content-length#%d", k), in.Pos(), ok,
			"Content-Length is deleted from the reply although neither chunking nor status 304 is established there and the declared-length flag is not cleared on that path: the reply is sent with neither Content-Length nor chunking while the framing decision still believes a length is declared")
	})
	c.Min("cl-delete-justified", 2)

	// (c) closeAfterReply
	n = map[string]int{}
	allowed := h1bRegionSet(c.P, wh, e.requestTooLarge, e.finishRequest)
	for _, st := range core.FieldStores(all, e.closeAfter) {
		kf := core.FuncKey(st.Fn)
		v, isB := h1bConstBool(st.Store.Val)
		ok := allowed[st.Fn] && isB && (v || whRegion[st.Fn])
		c.Check("close-writers", h1bOrd(kf+fmt.Sprintf(":=%v", core.Render(st.Store.Val)), n), st.Store.Pos(), ok,
			"response.closeAfterReply is written with "+core.Render(st.Store.Val)+" in "+kf+"; reviewed writers: writeHeader (true; false only under the HTTP/1.0 keep-alive test), requestTooLarge (true), finishRequest (true)")
	}
	c.Min("close-writers", 3)
	k = 0
	c.P.RegionInstrs(wh, func(in ssa.Instruction) {
		if !h1bStoreBool(in, e.closeAfter, false) {
			return
		}
		k++
		b := in.Block()
		getIs := func(name string) func(ssa.Value) bool {
			return func(v ssa.Value) bool {
				call := h1bCallOf(v, "bfe_http.Header.GetDirect", "bfe_http.Header.Get")
				return call != nil && len(call.Call.Args) == 2 && h1bIsStr(name)(call.Call.Args[1])
			}
		}
		ok := h1bGuardedR(c.P, b, func(f h1bFact) bool {
			call, isC := f.V.(*ssa.Call)
			return isC && f.Pol && core.CallIs(&call.Call, "bfe_http.Request.WantsHttp10KeepAlive")
		}) && h1bGuardedR(c.P, b, func(f h1bFact) bool { return h1bNe(f, getIs("Content-Length"), h1bIsStr("")) }) &&
			h1bGuardedR(c.P, b, func(f h1bFact) bool { return h1bEq(f, getIs("Connection"), h1bIsStr("keep-alive")) })
		// nothing that asks for the connection to be closed can precede the reset
		// (searched across the helpers of writeHeader)
		var after ssa.Instruction
		c.P.RegionInstrs(wh, func(x ssa.Instruction) {
			isRTL := false
			if ci, isCall := x.(ssa.CallInstruction); isCall && e.requestTooLarge != nil && ci.Common().StaticCallee() == e.requestTooLarge {
				isRTL = true
			}
			if !storeClose(x) && !isRTL || after != nil {
				return
			}
			if r := h1bReachR(c.P, wh, x, nil, nil, func(y ssa.Instruction) bool { return y == in }); r != nil {
				after = x
			}
		})
		c.Check("close-not-reverted", fmt.Sprintf("writeHeader:close:=false#%d", k), in.Pos(), ok && after == nil,
			"closeAfterReply is reset to false outside the reviewed case (HTTP/1.0 keep-alive request, Content-Length present, Connection: keep-alive in the reply) or after it was set: a reply that must be delimited by closing would leave the connection open; established: "+h1bJoinFacts(h1bFactsAtR(c.P, b)))
	})
	c.Min("close-not-reverted", 1)
	h1bServeHonoursClose(c, e, "serve-honours-close")
	c.Min("serve-honours-close", 2)

	// finishRequest
	if fr := e.finishRequest; fr != nil && e.written != nil {
		okU := false
		for _, sto := range core.FieldStores(c.P.Region(fr), e.closeAfter) {
			st := sto.Store
			if b, isB := h1bConstBool(st.Val); isB && b && h1bGuardedR(c.P, st.Block(), func(f h1bFact) bool {
				return h1bNe(f, isCLen, h1bIsField(e.written))
			}) {
				okU = true
			}
		}
		c.Check("undersent-closes", "finishRequest", fr.Pos(), okU,
			"finishRequest has no closeAfterReply = true under contentLength != written: a reply shorter (or longer) than its declared Content-Length would be followed by the next reply on the same connection")
		c.Min("undersent-closes", 1)
		closeCall := func(x ssa.Instruction) bool {
			ci, ok := x.(ssa.CallInstruction)
			return ok && core.CallIs(ci.Common(), srv+".chunkWriter.close")
		}
		badR := core.MustPass(fr, nil, core.LiftMust(closeCall, 2))
		c.Check("finish-closes-writer", "finishRequest:cw.close", fr.Pos(), badR == nil, "a path through finishRequest returns without chunkWriter.close(): the header or the last-chunk would never be written")
		var cls []ssa.CallInstruction
		for _, ci := range core.Calls(fr, srv+".chunkWriter.close") {
			cls = append(cls, ci)
		}
		for i, cc := range cls {
			okF := false
			for _, fl := range core.Calls(fr, "bfe_bufio.Writer.Flush") {
				if f, _ := h1bFieldOf(fl.Common().Args[0]); f != nil && f.Name() == "w" && core.Dominates(fl.(ssa.Instruction), cc.(ssa.Instruction)) {
					okF = true
				}
			}
			c.Check("finish-closes-writer", fmt.Sprintf("finishRequest:flush-before-close#%d", i+1), cc.Pos(), okF, "the buffered body (response.w) is not flushed into the chunk writer before it is closed: the last-chunk would precede body bytes")
			badH := h1bReach(fr, nil, func(x ssa.Instruction) bool {
				ci, ok := x.(ssa.CallInstruction)
				return ok && core.CallIs(ci.Common(), srv+".response.WriteHeader")
			}, func(f h1bFact) bool {
				fl, _ := h1bFieldOf(f.V)
				return f.Pol && fl != nil && fl.Name() == "wroteHeader"
			}, func(x ssa.Instruction) bool { return x == cc.(ssa.Instruction) })
			c.Check("finish-closes-writer", fmt.Sprintf("finishRequest:header-before-close#%d", i+1), cc.Pos(), badH == nil, "the chunk writer can be closed although neither wroteHeader was seen true nor WriteHeader called")
		}
		c.Min("finish-closes-writer", 3)
	}

	// (d) chunkWriter.close / Write, response.write
	if cl := h1bFunc(c, srv, "chunkWriter.close"); cl != nil {
		isTerm := func(x ssa.Instruction) bool {
			ci, ok := x.(ssa.CallInstruction)
			if !ok || !core.CallIs(ci.Common(), "bfe_bufio.Writer.WriteString", "bfe_bufio.Writer.Write", "io.WriteString") {
				return false
			}
			for _, a := range ci.Common().Args {
				if h1bIsStr("0\r\n\r\n")(a) {
					return true
				}
			}
			return false
		}
		badT := h1bReach(cl, nil, isTerm, chunkingFact(false), core.IsReturn)
		c.Check("chunk-terminator", "chunkWriter.close:emitted", cl.Pos(), badT == nil, "chunkWriter.close can return in chunking mode without writing the last-chunk \"0\\r\\n\\r\\n\": the client waits for more chunks")
		nT := 0
		core.Instrs(cl, func(x ssa.Instruction) {
			if !isTerm(x) {
				return
			}
			nT++
			c.Check("chunk-terminator", fmt.Sprintf("chunkWriter.close:only-when-chunking#%d", nT), x.Pos(), h1bGuarded(x.Block(), chunkingFact(true)), "the last-chunk is written without chunking == true: a length-delimited or close-delimited body would get stray bytes")
		})
		badW := h1bReach(cl, nil, func(x ssa.Instruction) bool {
			ci, ok := x.(ssa.CallInstruction)
			return ok && ci.Common().StaticCallee() == wh
		}, func(f h1bFact) bool {
			fl, _ := h1bFieldOf(f.V)
			return f.Pol && fl != nil && fl.Name() == "wroteHeader"
		}, func(x ssa.Instruction) bool {
			return core.IsReturn(x) || h1bIsField(e.chunking)(h1bValueOf(x))
		})
		c.Check("chunk-terminator", "chunkWriter.close:header-first", cl.Pos(), badW == nil, "chunkWriter.close reads the chunking flag (or returns) without the header having been written: the flag is only decided by writeHeader")
		c.Min("chunk-terminator", 3)
	}
	if wr := h1bFunc(c, srv, "chunkWriter.Write"); wr != nil && len(wr.Params) == 2 {
		p := wr.Params[1]
		var data []ssa.CallInstruction
		for _, ci := range core.AllCalls(wr) {
			if core.CallIs(ci.Common(), "bfe_bufio.Writer.Write", "bfe_bufio.ReadWriter.Write") && len(ci.Common().Args) == 2 && ci.Common().Args[1] == ssa.Value(p) {
				data = append(data, ci)
			}
		}
		c.Check("chunk-frame", "chunkWriter.Write:data-write", wr.Pos(), len(data) >= 1, "no write of the caller's bytes to the connection buffer found in chunkWriter.Write")
		isSize := func(x ssa.Instruction) bool {
			ci, ok := x.(ssa.CallInstruction)
			return ok && core.CallIs(ci.Common(), "fmt.Fprintf") && len(ci.Common().Args) >= 2 && h1bIsStr("%x\r\n")(ci.Common().Args[1])
		}
		for i, d := range data {
			di := d.(ssa.Instruction)
			key := fmt.Sprintf("chunkWriter.Write:data#%d:", i+1)
			badS := h1bReach(wr, nil, isSize, chunkingFact(false), func(x ssa.Instruction) bool { return x == di })
			c.Check("chunk-frame", key+"size-line", d.Pos(), badS == nil, "body bytes can be written in chunking mode without the chunk-size line (\"%x\\r\\n\") before them")
			badC := h1bReach(wr, di, func(x ssa.Instruction) bool {
				ci, ok := x.(ssa.CallInstruction)
				if !ok || !core.CallIs(ci.Common(), "bfe_bufio.Writer.Write", "bfe_bufio.ReadWriter.Write") || len(ci.Common().Args) != 2 {
					return false
				}
				u, isLd := ci.Common().Args[1].(*ssa.UnOp)
				if !isLd {
					return false
				}
				g, isG := u.X.(*ssa.Global)
				return isG && g.Name() == "crlf"
			}, func(f h1bFact) bool {
				if chunkingFact(false)(f) {
					return true
				}
				// the data write itself failed
				return h1bNe(f, func(v ssa.Value) bool {
					ex, ok := v.(*ssa.Extract)
					return ok && ex.Tuple == d.Value()
				}, func(v ssa.Value) bool { k, ok := v.(*ssa.Const); return ok && k.Value == nil })
			}, core.IsReturn)
			c.Check("chunk-frame", key+"crlf", d.Pos(), badC == nil, "after a successful data write in chunking mode a path returns without writing the CRLF that ends the chunk")
			c.Check("chunk-frame", key+"not-head", d.Pos(), h1bGuarded(di.Block(), notHEAD), "body bytes are written without Method != HEAD having been tested: a HEAD reply would carry a body")
			badH := h1bReach(wr, nil, func(x ssa.Instruction) bool {
				ci, ok := x.(ssa.CallInstruction)
				return ok && ci.Common().StaticCallee() == wh
			}, func(f h1bFact) bool {
				fl, _ := h1bFieldOf(f.V)
				return f.Pol && fl != nil && fl.Name() == "wroteHeader"
			}, func(x ssa.Instruction) bool { return x == di })
			c.Check("chunk-frame", key+"header-first", d.Pos(), badH == nil, "body bytes can be written before the header was written (neither wroteHeader seen true nor writeHeader called)")
		}
		c.Min("chunk-frame", 5)
	}
	if rw := h1bFunc(c, srv, "response.write"); rw != nil && e.written != nil {
		k := 0
		for _, ci := range core.Calls(rw, "bfe_bufio.Writer.Write", "bfe_bufio.Writer.WriteString") {
			k++
			di := ci.(ssa.Instruction)
			key := fmt.Sprintf("response.write:data#%d:", k)
			c.Check("write-limits", key+"body-allowed", ci.Pos(), h1bGuarded(di.Block(), func(f h1bFact) bool {
				call, ok := f.V.(*ssa.Call)
				return ok && f.Pol && core.CallIs(&call.Call, srv+".response.bodyAllowed")
			}), "body bytes are accepted without bodyAllowed() == true (304 replies must not carry a body)")
			badL := h1bReach(rw, nil, nil, func(f h1bFact) bool {
				if h1bEq(f, isCLen, h1bIsInt(-1)) {
					return true
				}
				x, y, op, ok := h1bCmp(f)
				if !ok {
					return false
				}
				isW := h1bIsField(e.written)
				return isW(x) && isCLen(y) && (op == token.LEQ || op == token.LSS) || isCLen(x) && isW(y) && (op == token.GEQ || op == token.GTR)
			}, func(x ssa.Instruction) bool { return x == di })
			c.Check("write-limits", key+"declared-length", ci.Pos(), badL == nil, "body bytes are accepted on a path that established neither contentLength == -1 nor written <= contentLength: the body could exceed the declared Content-Length and the excess would be read as the next reply")
		}
		c.Min("write-limits", 4)
	}
}

// c27StatusLineCache: the Status-Line strings are memoised in a package-level
// map. For every function of bfe_server that both looks up and fills the same
// package-level map (get-or-compute), (1) the key of each fill is the very
// value that was looked up, and (2) every parameter the cached value depends
// on (through data flow or through the branches that select it) is also an
// input of the key - otherwise an entry computed for one request (HTTP/1.0)
// is served to requests it does not fit (HTTP/1.1).
func c27StatusLineCache(c *core.Ctx) {
	const srv = "bfe_server"
	globalOf := func(m ssa.Value) *ssa.Global {
		u, ok := core.StripConv(m).(*ssa.UnOp)
		if !ok || u.Op != token.MUL {
			return nil
		}
		g, _ := u.X.(*ssa.Global)
		return g
	}
	sl := h1bFunc(c, srv, "statusLine")
	n := map[string]int{}
	sawStatusLine := false
	for _, fn := range c.P.SrcFuncs(srv) {
		lookups := map[*ssa.Global][]*ssa.Lookup{}
		type fill struct {
			g          *ssa.Global
			Key, Value ssa.Value
			pos        token.Pos
		}
		var fills []fill
		paramIdx := func(f *ssa.Function, v ssa.Value) int {
			for i, p := range f.Params {
				if ssa.Value(p) == core.StripConv(v) {
					return i
				}
			}
			return -1
		}
		core.Instrs(fn, func(in ssa.Instruction) {
			switch x := in.(type) {
			case *ssa.Lookup:
				if g := globalOf(x.X); g != nil {
					lookups[g] = append(lookups[g], x)
				}
			case *ssa.MapUpdate:
				if g := globalOf(x.Map); g != nil {
					fills = append(fills, fill{g, x.Key, x.Value, x.Pos()})
				}
			case *ssa.Call:
				// a helper that stores its parameters into the map (one level)
				sc := x.Call.StaticCallee()
				if sc == nil || sc.Blocks == nil || sc == fn || core.FuncPkgRel(sc) != srv {
					return
				}
				core.Instrs(sc, func(in2 ssa.Instruction) {
					if mu, ok := in2.(*ssa.MapUpdate); ok {
						ki, vi := paramIdx(sc, mu.Key), paramIdx(sc, mu.Value)
						if g := globalOf(mu.Map); g != nil && ki >= 0 && vi >= 0 && ki < len(x.Call.Args) && vi < len(x.Call.Args) {
							fills = append(fills, fill{g, x.Call.Args[ki], x.Call.Args[vi], x.Pos()})
						}
					}
				})
			}
		})
		for _, mu := range fills {
			g := mu.g
			if len(lookups[g]) == 0 {
				continue
			}
			if fn == sl {
				sawStatusLine = true
			}
			c.Analysed(core.FuncKey(fn))
			key := h1aResolve(core.StripConv(mu.Key))
			same := false
			var looked []string
			for _, lk := range lookups[g] {
				looked = append(looked, core.Render(lk.Index))
				if h1aResolve(core.StripConv(lk.Index)) == key {
					same = true
				}
			}
			id := h1bOrd(core.FuncKey(fn)+":"+g.Name(), n)
			c.Check("cache-key", id+":same-key", mu.pos, same,
				"the memo map "+g.Name()+" is filled under the key "+core.Render(mu.Key)+" but consulted under "+fmt.Sprint(looked)+": the entry computed for one lookup key is stored in (and later served from) a different slot - for statusLine an HTTP/1.0 status line lands in the HTTP/1.1 slot and HTTP/1.1 replies (chunked, keep-alive) go out with an HTTP/1.0 status line")
			kd, vd := sh1ParamDeps(mu.Key), sh1ParamDeps(mu.Value)
			var missing []string
			for p := range vd {
				if !kd[p] {
					missing = append(missing, p.Name())
				}
			}
			c.Check("cache-key", id+":covers-value", mu.pos, len(missing) == 0,
				fmt.Sprintf("the value cached in %s depends on the parameters %s but its key only on %s (not on %v): entries computed for different inputs share a slot, so a reply can get a status line built for another protocol version", g.Name(), sh1ParamNames(vd), sh1ParamNames(kd), missing))
		}
	}
	if sl != nil {
		c.Check("cache-key", "statusLine:memoised", sl.Pos(), sawStatusLine, "statusLine no longer consults and fills a package-level memo map in a form the rule follows")
	}
	c.Min("cache-key", 3)
}

// h1bValueOf returns the instruction as a value (nil if it is not one).
func h1bValueOf(in ssa.Instruction) ssa.Value {
	v, _ := in.(ssa.Value)
	return v
}
